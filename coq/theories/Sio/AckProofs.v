(** Proofs about Sio/Ack.v (property C03), for all schedules: invariants by induction over the
    transition system (Base/Conc.v). *)
From Coq Require Import List Arith Bool Lia NArith.
From SioV Require Import Base.GoSem Base.Conc Sio.Ack.
Import ListNotations.

(** ** counting *)
Definition b2n (b : bool) : nat := if b then 1 else 0.
Definition cnt {A} (p : A -> bool) (l : list A) : nat := length (filter p l).

Lemma cnt_nil {A} (p : A -> bool) : cnt p [] = 0.
Proof. reflexivity. Qed.

Lemma cnt_cons {A} (p : A -> bool) x l : cnt p (x :: l) = b2n (p x) + cnt p l.
Proof. unfold cnt. simpl. destruct (p x); reflexivity. Qed.

Lemma cnt_app {A} (p : A -> bool) a b : cnt p (a ++ b) = cnt p a + cnt p b.
Proof. unfold cnt. rewrite filter_app, app_length. reflexivity. Qed.

Lemma cnt_snoc {A} (p : A -> bool) a x : cnt p (a ++ [x]) = cnt p a + b2n (p x).
Proof. rewrite cnt_app, cnt_cons, cnt_nil. lia. Qed.

Lemma cnt_upd_nth {A} (p : A -> bool) l k x y :
  nth_error l k = Some x -> cnt p (upd_nth k y l) + b2n (p x) = cnt p l + b2n (p y).
Proof.
  revert k; induction l as [|z l IH]; intros [|k] H; simpl in *; try discriminate.
  - inversion H; subst. rewrite !cnt_cons. lia.
  - rewrite !cnt_cons. specialize (IH k H). lia.
Qed.

Lemma cnt_del_nth {A} (p : A -> bool) l k x :
  nth_error l k = Some x -> cnt p (del_nth k l) + b2n (p x) = cnt p l.
Proof.
  revert k; induction l as [|z l IH]; intros [|k] H; simpl in *; try discriminate.
  - inversion H; subst. rewrite cnt_cons. lia.
  - rewrite !cnt_cons. specialize (IH k H). lia.
Qed.

Lemma cnt_zero_forall {A} (p : A -> bool) l : cnt p l = 0 <-> forall x, In x l -> p x = false.
Proof.
  induction l as [|z l IH]; simpl.
  - split; [intros _ x [] | reflexivity].
  - rewrite cnt_cons. split.
    + intros H x [Hx|Hx].
      * subst. destruct (p x) eqn:E; [simpl in H; lia | reflexivity].
      * apply IH; [lia | exact Hx].
    + intros H. rewrite (H z (or_introl eq_refl)). simpl. apply IH. intros x Hx. apply H. now right.
Qed.

Lemma length_upd_nth {A} k (x : A) l : length (upd_nth k x l) = length l.
Proof. revert k; induction l; intros [|k]; simpl; auto. Qed.

Lemma nth_upd_same {A} k (x : A) l : k < length l -> nth_error (upd_nth k x l) k = Some x.
Proof. revert k; induction l; intros [|k] H; simpl in *; try lia; auto. all: try (apply IHl; lia). Qed.

Lemma nth_upd_other {A} k j (x : A) l : j <> k -> nth_error (upd_nth k x l) j = nth_error l j.
Proof.
  revert k j; induction l; intros [|k] [|j] H; simpl; auto; try congruence.
Qed.

Lemma nth_some_lt {A} (l : list A) k x : nth_error l k = Some x -> k < length l.
Proof. intros H. apply nth_error_Some. congruence. Qed.

(** ** the quantities the invariant talks about *)
Definition isRC (id : nat) (r : rpc) : bool := match r with RCall i _ => Nat.eqb i id | _ => false end.
Definition isRI (id : nat) (r : rpc) : bool := match r with RInvoke i _ => Nat.eqb i id | _ => false end.
Definition isLR (id : nat) (x : nat * outcome) : bool :=
  Nat.eqb (fst x) id && match snd x with OReply _ => true | OTimeout => false end.
Definition isLT (id : nat) (x : nat * outcome) : bool :=
  Nat.eqb (fst x) id && match snd x with OReply _ => false | OTimeout => true end.

Definition nRC s id := cnt (isRC id) (st_replies s).
Definition nRI s id := cnt (isRI id) (st_replies s).
Definition nLR s id := cnt (isLR id) (st_log s).
Definition nLT s id := cnt (isLT id) (st_log s).

Definition phase_to (t : tpc) : nat :=
  match t with TNone | TSleep | TSkipped => 0 | _ => 1 end.
Definition fired (t : tpc) : nat := match t with TRunning | TFired => 1 | _ => 0 end.
Definition skipped (t : tpc) : nat := match t with TSkipped => 1 | _ => 0 end.
Definition isEReg (p : epc) : nat := match p with EReg => 1 | _ => 0 end.

(** the handler of [id]: one "reply token" (table entry, or the emitting goroutine that has not
    stored it yet, or the one onAck goroutine that took it out, or the logged reply); [called]
    exactly when that goroutine passed the handler mutex; [timedOut] exactly when the timer passed
    it; never both; timeouts logged exactly when the timer finished its call. *)
Definition inv_id (s : state) (id : nat) (e : emit) : Prop :=
  b2n (e_intable e) + isEReg (e_pc e) + nRC s id + nRI s id + nLR s id <= 1
  /\ b2n (e_called e) = nRI s id + nLR s id
  /\ b2n (e_timedOut e) = phase_to (e_timer e)
  /\ nLT s id = fired (e_timer e)
  /\ b2n (e_called e) + b2n (e_timedOut e) <= 1
  /\ skipped (e_timer e) <= b2n (e_called e).

Definition inv (s : state) : Prop :=
  (forall id e, get_emit s id = Some e -> inv_id s id e)
  /\ (forall id, length (st_emits s) <= id -> nRC s id + nRI s id + nLR s id + nLT s id = 0).

Definition is_init (s : state) : Prop := exists cfg conn, s = init_state cfg conn.

Definition reach := reachable step is_init.

(** effect of the primitive updates *)
Lemma get_put_same s id e : id < length (st_emits s) -> get_emit (put_emit s id e) id = Some e.
Proof. intros H. unfold get_emit, put_emit. simpl. now apply nth_upd_same. Qed.

Lemma get_put_other s id j e : j <> id -> get_emit (put_emit s id e) j = get_emit s j.
Proof. intros H. unfold get_emit, put_emit. simpl. now apply nth_upd_other. Qed.

Lemma get_lt s id e : get_emit s id = Some e -> id < length (st_emits s).
Proof. apply nth_some_lt. Qed.

Lemma get_snoc_old s id e l : get_emit s id = Some e -> nth_error (st_emits s ++ l) id = Some e.
Proof. intros H. rewrite nth_error_app1; [exact H | eapply get_lt; eauto]. Qed.

Lemma eqb_neq_false a b : a <> b -> Nat.eqb a b = false.
Proof. apply Nat.eqb_neq. Qed.

Lemma inv_init s : is_init s -> inv s.
Proof.
  intros (cfg & conn & ->). split.
  - intros id e H. unfold get_emit in H. simpl in H. destruct id; discriminate.
  - intros id _. reflexivity.
Qed.

(** bring every count of the new state into an equation over the counts of the old one *)
Ltac cnt_norm :=
  unfold nRC, nRI, nLR, nLT in *; simpl st_replies in *; simpl st_log in *; simpl st_emits in *;
  repeat rewrite cnt_snoc in *;
  repeat match goal with
  | H : nth_error ?l ?k = Some ?x |- context [cnt ?p (upd_nth ?k ?y ?l)] =>
      lazymatch goal with
      | _ : cnt p (upd_nth k y l) + b2n (p x) = cnt p l + b2n (p y) |- _ => fail
      | _ => pose proof (cnt_upd_nth p l k x y H)
      end
  end.

Ltac eqb_simpl :=
  repeat match goal with
  | |- context [Nat.eqb ?a ?a] => rewrite Nat.eqb_refl
  | H : context [Nat.eqb ?a ?a] |- _ => rewrite Nat.eqb_refl in H
  | N : ?a <> ?b |- context [Nat.eqb ?a ?b] => rewrite (eqb_neq_false a b N)
  | N : ?a <> ?b, H : context [Nat.eqb ?a ?b] |- _ => rewrite (eqb_neq_false a b N) in H
  | N : ?a <> ?b |- context [Nat.eqb ?b ?a] => rewrite (eqb_neq_false b a (not_eq_sym N))
  | N : ?a <> ?b, H : context [Nat.eqb ?b ?a] |- _ => rewrite (eqb_neq_false b a (not_eq_sym N)) in H
  end.

(** ** the purge *)
Lemma purge_new_in id buf f : In f (purge_new id buf) <-> In f buf /\ tag_is id f = false.
Proof.
  unfold purge_new. rewrite filter_In. split; intros [H1 H2]; split; auto.
  - now apply negb_true_iff in H2.
  - now apply negb_true_iff.
Qed.

(** [sub a b]: a is b with some elements left out, order kept *)
Inductive sublist {A} : list A -> list A -> Prop :=
| sub_nil : sublist [] []
| sub_keep x a b : sublist a b -> sublist (x :: a) (x :: b)
| sub_drop x a b : sublist a b -> sublist a (x :: b).

Lemma filter_sublist {A} (p : A -> bool) l : sublist (filter p l) l.
Proof. induction l; simpl; [constructor|]. destruct (p a); now constructor. Qed.

Lemma purge_step_exact s id e s' :
  c_oldpurge (st_cfg s) = false ->
  get_emit s id = Some e -> e_timer e = TPurge -> step (LTimer id) s = Some s' ->
  st_buf s' = filter (fun f => negb (tag_is id f)) (st_buf s)
  /\ sublist (st_buf s') (st_buf s)
  /\ (forall f, In f (st_buf s') <-> In f (st_buf s) /\ tag_is id f = false).
Proof.
  intros Hcfg Hg Ht Hs. unfold step in Hs. rewrite Hg, Ht, Hcfg in Hs. inversion Hs; subst; clear Hs.
  simpl. split; [reflexivity|]. split; [apply filter_sublist|]. intros f. apply purge_new_in.
Qed.

(** what was wrong before the fix: two frames with the tag (an event with one attachment) *)
Lemma purge_old_panics :
  purge_old 0 (frames_of (Some 0) 0 1) = Panic.
Proof. reflexivity. Qed.

(** ... and with frames of other packets behind it the loop does not panic but leaves one
    attachment frame of the timed-out packet in the buffer (observed on the pre-fix code) *)
Lemma purge_old_leaves_frame :
  purge_old 1 (frames_of (Some 0) 0 1 ++ frames_of (Some 1) 1 2 ++ frames_of None 2 1)
  = Ok [(Some 0, (0, 0)); (Some 0, (0, 1)); (Some 1, (1, 1)); (None, (2, 0)); (None, (2, 1))].
Proof. reflexivity. Qed.

(** ** the invariant is inductive *)
Arguments cnt : simpl never.

Definition inv_num (it : bool) (rc ri lr lt : nat) (e : emit) : Prop :=
  b2n it + isEReg (e_pc e) + rc + ri + lr <= 1
  /\ b2n (e_called e) = ri + lr
  /\ b2n (e_timedOut e) = phase_to (e_timer e)
  /\ lt = fired (e_timer e)
  /\ b2n (e_called e) + b2n (e_timedOut e) <= 1
  /\ skipped (e_timer e) <= b2n (e_called e).

Lemma inv_id_num s id e :
  inv_id s id e <-> inv_num (e_intable e) (nRC s id) (nRI s id) (nLR s id) (nLT s id) e.
Proof. reflexivity. Qed.

Lemma cnt_ge1 {A} (p : A -> bool) l k x : nth_error l k = Some x -> p x = true -> 1 <= cnt p l.
Proof.
  revert k; induction l as [|z l IH]; intros [|k] H Hp; simpl in H; try discriminate.
  - inversion H; subst. rewrite cnt_cons, Hp. simpl. lia.
  - rewrite cnt_cons. specialize (IH k H Hp). lia.
Qed.

Lemma upd_nth_id {A} k (x : A) l : nth_error l k = Some x -> upd_nth k x l = l.
Proof.
  revert k; induction l as [|z l IH]; intros [|k] H; simpl in *; try discriminate; auto.
  - now inversion H.
  - f_equal. now apply IH.
Qed.

(** only the entry [id0] and the counts of [id0] change *)
Lemma inv_update s s' id0 e0 e' :
  inv s -> get_emit s id0 = Some e0 ->
  st_emits s' = upd_nth id0 e' (st_emits s) ->
  (forall id, id <> id0 ->
     nRC s' id = nRC s id /\ nRI s' id = nRI s id /\ nLR s' id = nLR s id /\ nLT s' id = nLT s id) ->
  (inv_num (e_intable e0) (nRC s id0) (nRI s id0) (nLR s id0) (nLT s id0) e0 ->
   inv_num (e_intable e') (nRC s' id0) (nRI s' id0) (nLR s' id0) (nLT s' id0) e') ->
  inv s'.
Proof.
  intros [H1 H2] Hg He Hoth Hnum. pose proof (get_lt _ _ _ Hg) as Hlt. split.
  - intros id e Hge. unfold get_emit in Hge. rewrite He in Hge.
    destruct (Nat.eq_dec id id0) as [->|Hne].
    + rewrite nth_upd_same in Hge by exact Hlt. inversion Hge; subst.
      apply inv_id_num, Hnum, inv_id_num, H1, Hg.
    + rewrite nth_upd_other in Hge by exact Hne.
      destruct (Hoth id Hne) as (A & B & C & D).
      apply inv_id_num. rewrite A, B, C, D. apply inv_id_num, H1, Hge.
  - intros id Hle. rewrite He, length_upd_nth in Hle.
    assert (Hne : id <> id0) by lia.
    destruct (Hoth id Hne) as (A & B & C & D). rewrite A, B, C, D. now apply H2.
Qed.

(** nothing the invariant looks at changes *)
Lemma inv_same s s' :
  inv s -> st_emits s' = st_emits s ->
  (forall id, nRC s' id = nRC s id /\ nRI s' id = nRI s id /\ nLR s' id = nLR s id /\ nLT s' id = nLT s id) ->
  inv s'.
Proof.
  intros [H1 H2] He Hc. split.
  - intros id e Hg. unfold get_emit in Hg. rewrite He in Hg.
    destruct (Hc id) as (A & B & C & D). apply inv_id_num. rewrite A, B, C, D. apply inv_id_num, H1, Hg.
  - intros id Hle. rewrite He in Hle. destruct (Hc id) as (A & B & C & D). rewrite A, B, C, D. now apply H2.
Qed.

Lemma send_frames_core s fs s1 :
  send_frames s fs = Some s1 ->
  st_emits s1 = st_emits s /\ st_replies s1 = st_replies s /\ st_log s1 = st_log s.
Proof.
  unfold send_frames. destruct (st_conn s || negb (c_client (st_cfg s))).
  - intros H; inversion H; subst. auto.
  - destruct (st_bufmu s); [discriminate|]. intros H; inversion H; subst. auto.
Qed.

Ltac counts_same :=
  intros; unfold nRC, nRI, nLR, nLT; simpl; auto.

(** a new entry is appended *)
Lemma inv_append s s' e :
  inv s -> st_emits s' = st_emits s ++ [e] -> st_replies s' = st_replies s -> st_log s' = st_log s ->
  inv_num (e_intable e) 0 0 0 0 e -> inv s'.
Proof.
  intros [H1 H2] He Hr Hl Hn.
  assert (Hc : forall id, nRC s' id = nRC s id /\ nRI s' id = nRI s id /\ nLR s' id = nLR s id /\ nLT s' id = nLT s id).
  { intros. unfold nRC, nRI, nLR, nLT. rewrite Hr, Hl. auto. }
  split.
  - intros id e1 Hg. unfold get_emit in Hg. rewrite He in Hg.
    destruct (Hc id) as (A & B & C & D). apply inv_id_num. rewrite A, B, C, D.
    destruct (Nat.lt_ge_cases id (length (st_emits s))) as [Hlt|Hge].
    + rewrite nth_error_app1 in Hg by exact Hlt. apply inv_id_num, H1, Hg.
    + rewrite nth_error_app2 in Hg by exact Hge.
      destruct (id - length (st_emits s)) as [|n] eqn:E; simpl in Hg.
      * inversion Hg; subst. pose proof (H2 id Hge) as Z.
        assert (nRC s id = 0 /\ nRI s id = 0 /\ nLR s id = 0 /\ nLT s id = 0) as (Z1 & Z2 & Z3 & Z4) by lia.
        rewrite Z1, Z2, Z3, Z4. exact Hn.
      * destruct n; discriminate.
  - intros id Hle. rewrite He, app_length in Hle. simpl in Hle.
    destruct (Hc id) as (A & B & C & D). rewrite A, B, C, D. apply H2. lia.
Qed.

Lemma isLR_reply id i a : isLR id (i, OReply a) = Nat.eqb i id.
Proof. unfold isLR; simpl. apply andb_true_r. Qed.
Lemma isLR_timeout id i : isLR id (i, OTimeout) = false.
Proof. unfold isLR; simpl. apply andb_false_r. Qed.
Lemma isLT_reply id i a : isLT id (i, OReply a) = false.
Proof. unfold isLT; simpl. apply andb_false_r. Qed.
Lemma isLT_timeout id i : isLT id (i, OTimeout) = Nat.eqb i id.
Proof. unfold isLT; simpl. apply andb_true_r. Qed.

Ltac log_simpl := rewrite ?isLR_reply, ?isLR_timeout, ?isLT_reply, ?isLT_timeout in *.

Ltac unf :=
  unfold put_reply, put_emit, with_emits, with_npk, with_conn, with_buf, with_bufmu, with_wire,
    with_replies, with_inflight, with_log, with_plog, with_psent in *.

(** counts of an id other than the one a step touches do not move *)
Ltac other_counts :=
  let id := fresh "id" in let Hne := fresh "Hne" in
  intros id Hne; unf; cnt_norm; log_simpl; simpl in *; eqb_simpl; simpl in *; repeat split; lia.

Ltac num_goal :=
  let N := fresh "N" in
  unfold inv_num; intros N; unf; cnt_norm; log_simpl; simpl in *; eqb_simpl; simpl in *;
  repeat match goal with
  | H : e_timer _ = _ |- _ => rewrite H in *
  | H : e_pc _ = _ |- _ => rewrite H in *
  | H : e_called _ = _ |- _ => rewrite H in *
  | H : e_timedOut _ = _ |- _ => rewrite H in *
  | H : e_intable _ = _ |- _ => rewrite H in *
  end; simpl in *;
  repeat match goal with
  | |- context [b2n ?b] => is_var b; destruct b
  | |- context [b2n (?f ?e)] => destruct (f e)
  | _ : context [b2n (?f ?e)] |- _ => destruct (f e)
  end; simpl in *; repeat split; try lia.

Lemma inv_step s l s' : inv s -> step l s = Some s' -> inv s'.
Proof.
  intros HI Hs.
  destruct l as [tmo natt|natt| |id|id|id a|k|id a|k dec| | ]; simpl in Hs.
  - (* LEmit *)
    inversion Hs; subst; clear Hs.
    eapply inv_append; [exact HI | reflexivity | reflexivity | reflexivity |].
    destruct tmo; unfold inv_num; simpl; repeat split; lia.
  - (* LEmitNoAck *)
    destruct (send_frames s (frames_of None (st_npk s) natt)) as [s1|] eqn:E; [|discriminate].
    inversion Hs; subst; clear Hs. apply send_frames_core in E as (A & B & C).
    eapply inv_same; [exact HI | simpl; exact A |].
    intros; unfold nRC, nRI, nLR, nLT; simpl; rewrite B, C; auto.
  - (* LSkipId *)
    inversion Hs; subst; clear Hs.
    eapply inv_append; [exact HI | reflexivity | reflexivity | reflexivity |].
    unfold inv_num; simpl; repeat split; lia.
  - (* LEmitStep *)
    destruct (get_emit s id) as [e|] eqn:G; [|discriminate].
    destruct (e_pc e) eqn:P; [| |discriminate].
    + inversion Hs; subst; clear Hs.
      eapply inv_update; [exact HI | exact G | reflexivity | other_counts | num_goal].
    + destruct (send_frames s (frames_of (Some id) (e_pk e) (e_natt e))) as [s1|] eqn:E; [|discriminate].
      inversion Hs; subst; clear Hs. apply send_frames_core in E as (A & B & C).
      eapply inv_update; [exact HI | exact G | simpl; rewrite A; reflexivity | |].
      * intros id1 Hne. unfold nRC, nRI, nLR, nLT; simpl; rewrite B, C; auto.
      * unfold nRC, nRI, nLR, nLT; simpl; rewrite B, C. num_goal.
  - (* LTimer *)
    destruct (get_emit s id) as [e|] eqn:G; [|discriminate].
    destruct (e_timer e) eqn:T; try discriminate.
    + (* TSleep *)
      destruct (e_called e) eqn:C; inversion Hs; subst; clear Hs;
        (eapply inv_update; [exact HI | exact G | reflexivity | other_counts | num_goal]).
    + (* TDelete *)
      inversion Hs; subst; clear Hs.
      eapply inv_update; [exact HI | exact G | reflexivity | other_counts |].
      destruct (c_client (st_cfg s)); num_goal.
    + (* TLockBuf *)
      destruct (st_bufmu s); [discriminate|]. inversion Hs; subst; clear Hs.
      eapply inv_update; [exact HI | exact G | reflexivity | other_counts | num_goal].
    + (* TPurge *)
      destruct (c_oldpurge (st_cfg s)).
      * destruct (purge_old id (st_buf s)); inversion Hs; subst; clear Hs;
          (eapply inv_update; [exact HI | exact G | reflexivity | other_counts | num_goal]).
      * inversion Hs; subst; clear Hs.
        eapply inv_update; [exact HI | exact G | reflexivity | other_counts | num_goal].
    + (* TUnlock *)
      inversion Hs; subst; clear Hs.
      eapply inv_update; [exact HI | exact G | reflexivity | other_counts | num_goal].
    + (* TInvoke *)
      inversion Hs; subst; clear Hs.
      eapply inv_update; [exact HI | exact G | reflexivity | other_counts | num_goal].
    + (* TRunning *)
      inversion Hs; subst; clear Hs.
      eapply inv_update; [exact HI | exact G | reflexivity | other_counts | num_goal].
  - (* LPeerAck *)
    destruct (get_emit s id) as [e|] eqn:G; [|discriminate].
    destruct (onwire s id); [|discriminate].
    destruct (e_psent e) eqn:P; inversion Hs; subst; clear Hs.
    + eapply inv_same; [exact HI | reflexivity | counts_same].
    + eapply inv_update; [exact HI | exact G | reflexivity | other_counts | num_goal].
  - (* LDeliver *)
    destruct (nth_error (st_inflight s) k) as [[id a]|] eqn:F; [|discriminate].
    inversion Hs; subst; clear Hs.
    eapply inv_same; [exact HI | reflexivity |].
    intros; unf; cnt_norm; simpl; repeat split; lia.
  - (* LPacketIn *)
    inversion Hs; subst; clear Hs.
    eapply inv_same; [exact HI | reflexivity |].
    intros; unf; cnt_norm; simpl; repeat split; lia.
  - (* LReply *)
    destruct (nth_error (st_replies s) k) as [r|] eqn:R; [|discriminate].
    destruct r as [id a|id a|id a|id a|]; [| | | |discriminate].
    + (* RLookup *)
      destruct (get_emit s id) as [e|] eqn:G.
      * destruct (e_intable e) eqn:IT; inversion Hs; subst; clear Hs.
        -- destruct dec;
             (eapply inv_update; [exact HI | exact G | reflexivity | other_counts | num_goal]).
        -- eapply inv_same; [exact HI | reflexivity |].
           intros; unf; cnt_norm; simpl in *; repeat split; lia.
      * inversion Hs; subst; clear Hs.
        eapply inv_same; [exact HI | reflexivity |].
        intros; unf; cnt_norm; simpl in *; repeat split; lia.
    + (* RCall *)
      destruct (get_emit s id) as [e|] eqn:G.
      * destruct (e_timedOut e) eqn:TO; inversion Hs; subst; clear Hs.
        -- eapply inv_update; [exact HI | exact G | simpl; symmetry; apply upd_nth_id; exact G | other_counts | num_goal].
        -- eapply inv_update; [exact HI | exact G | reflexivity | other_counts | num_goal].
      * exfalso. destruct HI as [_ H2].
        assert (L : length (st_emits s) <= id).
        { unfold get_emit in G. apply nth_error_None in G. exact G. }
        specialize (H2 id L).
        pose proof (cnt_ge1 (isRC id) _ _ _ R) as Q. simpl in Q. rewrite Nat.eqb_refl in Q.
        specialize (Q eq_refl). unfold nRC in H2. lia.
    + (* RInvoke *)
      inversion Hs; subst; clear Hs.
      destruct (get_emit s id) as [e|] eqn:G.
      * eapply inv_update; [exact HI | exact G | simpl; symmetry; apply upd_nth_id; exact G | other_counts | num_goal].
      * exfalso. destruct HI as [_ H2].
        assert (L : length (st_emits s) <= id).
        { unfold get_emit in G. apply nth_error_None in G. exact G. }
        specialize (H2 id L).
        pose proof (cnt_ge1 (isRI id) _ _ _ R) as Q. simpl in Q. rewrite Nat.eqb_refl in Q.
        specialize (Q eq_refl). unfold nRI in H2. lia.
    + (* RRunning: the callback returns *)
      inversion Hs; subst; clear Hs.
      eapply inv_same; [exact HI | reflexivity |].
      intros; unf; cnt_norm; simpl in *; repeat split; lia.
  - (* LConnect *)
    destruct (st_conn s); [discriminate|]. destruct (st_bufmu s); [discriminate|].
    inversion Hs; subst; clear Hs. eapply inv_same; [exact HI | reflexivity | counts_same].
  - (* LDisconnect *)
    destruct (st_conn s); [|discriminate].
    inversion Hs; subst; clear Hs. eapply inv_same; [exact HI | reflexivity | counts_same].
Qed.

Theorem inv_reach s : reach s -> inv s.
Proof.
  apply invariant_reachable. split; [apply inv_init | intros ? ? ? ? ?; eapply inv_step; eauto].
Qed.

(** ** at most once *)
Lemma cnt_split_log id l :
  cnt (fun x : nat * outcome => Nat.eqb (fst x) id) l = cnt (isLR id) l + cnt (isLT id) l.
Proof.
  induction l as [|[i o] l IH]; [reflexivity|]. rewrite !cnt_cons, IH.
  unfold isLR, isLT; simpl. destruct (Nat.eqb i id), o; simpl; lia.
Qed.

Lemma outcomes_length s id : length (outcomes s id) = nLR s id + nLT s id.
Proof. unfold outcomes, nLR, nLT. rewrite map_length. apply cnt_split_log. Qed.

Lemma at_most_once s id : reach s -> length (outcomes s id) <= 1.
Proof.
  intros R. destruct (inv_reach s R) as [H1 H2]. rewrite outcomes_length.
  destruct (get_emit s id) as [e|] eqn:G.
  - destruct (H1 id e G) as (A & B & C & D & E & F).
    destruct (e_timer e); simpl in *; destruct (e_called e), (e_timedOut e), (e_intable e); simpl in *; lia.
  - unfold get_emit in G. apply nth_error_None in G. specialize (H2 id G). lia.
Qed.

(** ** the buffer mutex (repaired code) *)
Definition holds (t : tpc) : bool := match t with TPurge | TUnlock => true | _ => false end.
Definition timers (s : state) : list tpc := map e_timer (st_emits s).

Definition inv2 (s : state) : Prop :=
  c_oldpurge (st_cfg s) = false
  /\ (forall id t, nth_error (timers s) id = Some t ->
        t <> TPanicked /\ (holds t = true -> st_bufmu s = Some id))
  /\ (forall j, st_bufmu s = Some j -> exists t, nth_error (timers s) j = Some t /\ holds t = true).

Definition is_init_fixed (s : state) : Prop := exists client conn, s = init_state (mkConfig client false) conn.
Definition reach_fixed := reachable step is_init_fixed.

Lemma reach_fixed_reach s : reach_fixed s -> reach s.
Proof.
  induction 1 as [s (c & conn & ->) | s t s' _ IH St].
  - apply reach_init. now exists (mkConfig c false), conn.
  - eapply reach_step; eauto.
Qed.

Lemma map_upd_nth {A B} (f : A -> B) k x l : map f (upd_nth k x l) = upd_nth k (f x) (map f l).
Proof. revert k; induction l; intros [|k]; simpl; auto. now rewrite IHl. Qed.

Lemma inv2_same s s' :
  inv2 s -> st_cfg s' = st_cfg s -> timers s' = timers s -> st_bufmu s' = st_bufmu s -> inv2 s'.
Proof. unfold inv2. intros H A B C. rewrite A, B, C. exact H. Qed.

Lemma inv2_append s s' t :
  inv2 s -> st_cfg s' = st_cfg s -> timers s' = timers s ++ [t] -> st_bufmu s' = st_bufmu s ->
  holds t = false -> t <> TPanicked -> inv2 s'.
Proof.
  unfold inv2. intros (H0 & H1 & H2) A B C Ht Hp. rewrite A, B, C. split; [exact H0|]. split.
  - intros id t1 Hn. destruct (Nat.lt_ge_cases id (length (timers s))) as [L|L].
    + rewrite nth_error_app1 in Hn by exact L. now apply H1.
    + rewrite nth_error_app2 in Hn by exact L. destruct (id - length (timers s)) as [|[|n]]; simpl in Hn; try discriminate.
      inversion Hn; subst. split; [exact Hp | congruence].
  - intros j Hj. destruct (H2 j Hj) as (t1 & Hn & Hh). exists t1. split; [|exact Hh].
    rewrite nth_error_app1; [exact Hn | apply nth_error_Some; congruence].
Qed.

(** the timer of [id] moves from t0 to t1; the mutex moves with it *)
Lemma inv2_timer s s' id t0 t1 :
  inv2 s -> st_cfg s' = st_cfg s -> nth_error (timers s) id = Some t0 ->
  timers s' = upd_nth id t1 (timers s) -> t1 <> TPanicked ->
  (holds t1 = true -> st_bufmu s' = Some id) ->
  (holds t1 = false -> holds t0 = true -> st_bufmu s' = None) ->
  (holds t0 = false -> holds t1 = false -> st_bufmu s' = st_bufmu s) ->
  (holds t0 = false -> holds t1 = true -> st_bufmu s = None) ->
  inv2 s'.
Proof.
  unfold inv2. intros (H0 & H1 & H2) A Hn B Hp Hh1 Hrel Hkeep Hacq. rewrite A, B.
  pose proof (nth_some_lt _ _ _ Hn) as L.
  split; [exact H0|]. split.
  - intros i t Hi. destruct (Nat.eq_dec i id) as [->|Ne].
    + rewrite nth_upd_same in Hi by exact L. inversion Hi; subst. split; [exact Hp | exact Hh1].
    + rewrite nth_upd_other in Hi by exact Ne. destruct (H1 i t Hi) as [P Q]. split; [exact P|].
      intros Ht. specialize (Q Ht).
      (* i holds the mutex in s, so id does not *)
      destruct (holds t0) eqn:E0.
      * destruct (H1 id t0 Hn) as [_ Q0]. specialize (Q0 E0). congruence.
      * destruct (holds t1) eqn:E1.
        -- specialize (Hacq eq_refl eq_refl). congruence.
        -- rewrite (Hkeep eq_refl eq_refl). exact Q.
  - intros j Hj. destruct (Nat.eq_dec j id) as [->|Ne].
    + exists t1. rewrite nth_upd_same by exact L. split; [reflexivity|].
      destruct (holds t1) eqn:E1; [reflexivity|].
      destruct (holds t0) eqn:E0.
      * rewrite (Hrel eq_refl eq_refl) in Hj. discriminate.
      * rewrite (Hkeep eq_refl eq_refl) in Hj. destruct (H2 id Hj) as (t & Hn' & Hh). congruence.
    + rewrite nth_upd_other by exact Ne.
      destruct (holds t0) eqn:E0.
      * destruct (H1 id t0 Hn) as [_ Q0]. specialize (Q0 E0).
        destruct (holds t1) eqn:E1.
        -- specialize (Hh1 eq_refl). congruence.
        -- rewrite (Hrel eq_refl eq_refl) in Hj. discriminate.
      * destruct (holds t1) eqn:E1.
        -- specialize (Hh1 eq_refl). congruence.
        -- rewrite (Hkeep eq_refl eq_refl) in Hj. exact (H2 j Hj).
Qed.

Lemma timers_get s id e : get_emit s id = Some e -> nth_error (timers s) id = Some (e_timer e).
Proof. intros G. unfold timers. now apply map_nth_error. Qed.

Lemma timers_put_same_timer s id e e' :
  get_emit s id = Some e -> e_timer e' = e_timer e ->
  map e_timer (upd_nth id e' (st_emits s)) = timers s.
Proof.
  intros G T. rewrite map_upd_nth, T. apply upd_nth_id. now apply timers_get.
Qed.

Lemma send_frames_rest s fs s1 :
  send_frames s fs = Some s1 -> st_cfg s1 = st_cfg s /\ st_bufmu s1 = st_bufmu s.
Proof.
  unfold send_frames. destruct (st_conn s || negb (c_client (st_cfg s))).
  - intros H; inversion H; subst. auto.
  - destruct (st_bufmu s) eqn:M; [discriminate|]. intros H; inversion H; subst. simpl. auto.
Qed.

Lemma inv2_step s l s' : inv2 s -> step l s = Some s' -> inv2 s'.
Proof.
  intros HI Hs.
  destruct l as [tmo natt|natt| |id|id|id a|k|id a|k dk| | ]; simpl in Hs.
  - inversion Hs; subst; clear Hs.
    eapply inv2_append with (t := if tmo then TSleep else TNone); [exact HI | reflexivity | | reflexivity | |];
      destruct tmo; try reflexivity; try discriminate; unfold timers; simpl; rewrite map_app; reflexivity.
  - destruct (send_frames s (frames_of None (st_npk s) natt)) as [s1|] eqn:E; [|discriminate].
    inversion Hs; subst; clear Hs. pose proof (send_frames_core _ _ _ E) as (A & _ & _).
    apply send_frames_rest in E as (B & C).
    eapply inv2_same; [exact HI | exact B | unfold timers; simpl; now rewrite A | exact C].
  - inversion Hs; subst; clear Hs.
    eapply inv2_append with (t := TNone); [exact HI | reflexivity | | reflexivity | reflexivity | discriminate].
    unfold timers; simpl; rewrite map_app; reflexivity.
  - destruct (get_emit s id) as [e|] eqn:G; [|discriminate].
    destruct (e_pc e) eqn:P; [| |discriminate].
    + inversion Hs; subst; clear Hs.
      eapply inv2_same; [exact HI | reflexivity | | reflexivity].
      unfold timers at 1; simpl. now apply timers_put_same_timer with (e := e).
    + destruct (send_frames s (frames_of (Some id) (e_pk e) (e_natt e))) as [s1|] eqn:E; [|discriminate].
      inversion Hs; subst; clear Hs. pose proof (send_frames_core _ _ _ E) as (A & _ & _).
      apply send_frames_rest in E as (B & C).
      eapply inv2_same; [exact HI | exact B | | exact C].
      unfold timers at 1; simpl. rewrite A. now apply timers_put_same_timer with (e := e).
  - destruct (get_emit s id) as [e|] eqn:G; [|discriminate].
    pose proof (timers_get _ _ _ G) as TG. destruct HI as (H0 & H1 & H2).
    assert (HI : inv2 s) by (split; [exact H0 | split; assumption]).
    destruct (e_timer e) eqn:T; try discriminate.
    + destruct (e_called e); inversion Hs; subst; clear Hs;
        (eapply inv2_timer; [exact HI | reflexivity | exact TG | unfold timers; simpl; rewrite map_upd_nth; reflexivity | ..];
         simpl; try discriminate; auto).
    + inversion Hs; subst; clear Hs.
      eapply inv2_timer; [exact HI | reflexivity | exact TG | unfold timers; simpl; rewrite map_upd_nth; reflexivity | ..];
         destruct (c_client (st_cfg s)); simpl; try discriminate; auto.
    + destruct (st_bufmu s) eqn:M; [discriminate|]. inversion Hs; subst; clear Hs.
      eapply inv2_timer; [exact HI | reflexivity | exact TG | unfold timers; simpl; rewrite map_upd_nth; reflexivity | ..];
         simpl; try discriminate; auto.
    + rewrite H0 in Hs. inversion Hs; subst; clear Hs.
      destruct (H1 id TPurge TG) as [_ Q]. specialize (Q eq_refl).
      eapply inv2_timer; [exact HI | reflexivity | exact TG | unfold timers; simpl; rewrite map_upd_nth; reflexivity | ..];
         simpl; try discriminate; auto.
    + inversion Hs; subst; clear Hs.
      eapply inv2_timer; [exact HI | reflexivity | exact TG | unfold timers; simpl; rewrite map_upd_nth; reflexivity | ..];
         simpl; try discriminate; auto.
    + inversion Hs; subst; clear Hs.
      eapply inv2_timer; [exact HI | reflexivity | exact TG | unfold timers; simpl; rewrite map_upd_nth; reflexivity | ..];
         simpl; try discriminate; auto.
    + inversion Hs; subst; clear Hs.
      eapply inv2_timer; [exact HI | reflexivity | exact TG | unfold timers; simpl; rewrite map_upd_nth; reflexivity | ..];
         simpl; try discriminate; auto.
  - destruct (get_emit s id) as [e|] eqn:G; [|discriminate].
    destruct (onwire s id); [|discriminate].
    destruct (e_psent e) eqn:P; inversion Hs; subst; clear Hs.
    + eapply inv2_same; [exact HI | reflexivity | reflexivity | reflexivity].
    + eapply inv2_same; [exact HI | reflexivity | | reflexivity].
      unfold timers at 1; simpl. now apply timers_put_same_timer with (e := e).
  - destruct (nth_error (st_inflight s) k) as [[id a]|] eqn:F; [|discriminate].
    inversion Hs; subst; clear Hs. eapply inv2_same; [exact HI | reflexivity | reflexivity | reflexivity].
  - inversion Hs; subst; clear Hs. eapply inv2_same; [exact HI | reflexivity | reflexivity | reflexivity].
  - destruct (nth_error (st_replies s) k) as [r|] eqn:R; [|discriminate].
    destruct r as [id a|id a|id a|id a|]; [| | | |discriminate].
    + destruct (get_emit s id) as [e|] eqn:G.
      * destruct (e_intable e) eqn:IT; inversion Hs; subst; clear Hs.
        -- eapply inv2_same; [exact HI | reflexivity | | reflexivity].
           unfold timers at 1; simpl. now apply timers_put_same_timer with (e := e).
        -- eapply inv2_same; [exact HI | reflexivity | reflexivity | reflexivity].
      * inversion Hs; subst; clear Hs. eapply inv2_same; [exact HI | reflexivity | reflexivity | reflexivity].
    + destruct (get_emit s id) as [e|] eqn:G.
      * destruct (e_timedOut e) eqn:TO; inversion Hs; subst; clear Hs.
        -- eapply inv2_same; [exact HI | reflexivity | reflexivity | reflexivity].
        -- eapply inv2_same; [exact HI | reflexivity | | reflexivity].
           unfold timers at 1; simpl. now apply timers_put_same_timer with (e := e).
      * inversion Hs; subst; clear Hs. eapply inv2_same; [exact HI | reflexivity | reflexivity | reflexivity].
    + inversion Hs; subst; clear Hs. eapply inv2_same; [exact HI | reflexivity | reflexivity | reflexivity].
    + inversion Hs; subst; clear Hs. eapply inv2_same; [exact HI | reflexivity | reflexivity | reflexivity].
  - destruct (st_conn s); [discriminate|]. destruct (st_bufmu s) eqn:M; [discriminate|].
    inversion Hs; subst; clear Hs. eapply inv2_same; [exact HI | reflexivity | reflexivity | simpl; now rewrite M].
  - destruct (st_conn s); [|discriminate].
    inversion Hs; subst; clear Hs. eapply inv2_same; [exact HI | reflexivity | reflexivity | reflexivity].
Qed.

Lemma inv2_reach s : reach_fixed s -> inv2 s.
Proof.
  apply invariant_reachable. split.
  - intros s0 (c & conn & ->). split; [reflexivity|]. split.
    + intros id t H. destruct id; discriminate.
    + intros j H. discriminate.
  - intros ? ? ? ? ?; eapply inv2_step; eauto.
Qed.

(** ** terminal states *)
Lemma terminal_spec s : terminalb s = true -> forall l, In l (internal_labels s) -> step l s = None.
Proof.
  unfold terminalb. rewrite forallb_forall. intros H l Hl. specialize (H l Hl).
  unfold enabledb in H. destruct (step l s); [discriminate | reflexivity].
Qed.

Lemma in_internal_timer s id : id < length (st_emits s) -> In (LTimer id) (internal_labels s).
Proof.
  intros L. unfold internal_labels. apply in_or_app; right. apply in_or_app; left.
  apply in_map, in_seq. lia.
Qed.

Lemma in_internal_reply s k : k < length (st_replies s) -> In (LReply k true) (internal_labels s).
Proof.
  intros L. unfold internal_labels. apply in_or_app; right. apply in_or_app; right. apply in_or_app; left.
  apply (in_map (fun k => LReply k true)), in_seq. lia.
Qed.

Lemma nth_error_map_inv {A B} (f : A -> B) l k y :
  nth_error (map f l) k = Some y -> exists x, nth_error l k = Some x /\ f x = y.
Proof.
  revert k; induction l as [|z l IH]; intros [|k] H; simpl in *; try discriminate.
  - inversion H. eauto.
  - now apply IH.
Qed.

Lemma no_mutex_left_held s : reach_fixed s -> terminalb s = true -> st_bufmu s = None.
Proof.
  intros R T. destruct (inv2_reach s R) as (H0 & H1 & H2).
  destruct (st_bufmu s) as [j|] eqn:M; [|reflexivity]. exfalso.
  destruct (H2 j eq_refl) as (t & Hn & Hh).
  apply nth_error_map_inv in Hn as (e & G & Et).
  pose proof (terminal_spec s T (LTimer j) (in_internal_timer s j (nth_some_lt _ _ _ G))) as N.
  simpl in N. change (nth_error (st_emits s) j) with (get_emit s j) in G. rewrite G, Et in N.
  destruct t; try discriminate; try (rewrite H0 in N; discriminate).
Qed.

(** the mutex is only ever held by a timer goroutine that is inside its critical section *)
Lemma mutex_holder_runs s j :
  reach_fixed s -> st_bufmu s = Some j -> exists s', step (LTimer j) s = Some s'.
Proof.
  intros R M. destruct (inv2_reach s R) as (H0 & H1 & H2).
  destruct (H2 j M) as (t & Hn & Hh). apply nth_error_map_inv in Hn as (e & G & Et).
  change (nth_error (st_emits s) j) with (get_emit s j) in G. simpl. rewrite G, Et.
  destruct t; try discriminate; try rewrite H0; eauto.
Qed.

Lemma terminal_replies_done s :
  terminalb s = true -> forall r, In r (st_replies s) -> r = RDone.
Proof.
  intros T r Hr. apply In_nth_error in Hr as (k & Hk).
  pose proof (terminal_spec s T (LReply k true) (in_internal_reply s k (nth_some_lt _ _ _ Hk))) as N.
  simpl in N. rewrite Hk in N. destruct r as [id a|id a|id a|id a|]; [| | | |reflexivity]; exfalso.
  - destruct (get_emit s id) as [e|]; [destruct (e_intable e)|]; discriminate.
  - destruct (get_emit s id) as [e|]; [destruct (e_timedOut e)|]; discriminate.
  - discriminate.
  - discriminate.
Qed.

Definition is_to (o : outcome) : bool := match o with OTimeout => true | OReply _ => false end.

Lemma outcomes_timeouts s id : cnt is_to (outcomes s id) = nLT s id.
Proof.
  unfold outcomes, nLT. induction (st_log s) as [|[i o] l IH]; [reflexivity|].
  simpl. rewrite cnt_cons. unfold isLT at 1. simpl.
  destruct (Nat.eqb i id); simpl; [rewrite cnt_cons, IH; destruct o; reflexivity | exact IH].
Qed.

Lemma exactly_once s id e :
  reach_fixed s -> terminalb s = true -> get_emit s id = Some e -> e_timer e <> TNone ->
  (e_called e = true /\ e_timedOut e = false /\ exists a, outcomes s id = [OReply a])
  \/ (e_called e = false /\ e_timedOut e = true /\ outcomes s id = [OTimeout]).
Proof.
  intros R T G NT.
  pose proof (no_mutex_left_held s R T) as M.
  destruct (inv2_reach s R) as (H0 & H1 & _).
  destruct (H1 id _ (timers_get _ _ _ G)) as [NP _].
  destruct (inv_reach s (reach_fixed_reach s R)) as [I1 _].
  destruct (I1 id e G) as (A & B & C & D & E & F).
  pose proof (terminal_spec s T (LTimer id) (in_internal_timer s id (get_lt _ _ _ G))) as N.
  simpl in N. rewrite G in N.
  assert (RI0 : nRI s id = 0).
  { unfold nRI. apply cnt_zero_forall. intros r Hr. now rewrite (terminal_replies_done s T r Hr). }
  pose proof (outcomes_length s id) as OL. pose proof (outcomes_timeouts s id) as OT.
  destruct (e_timer e) eqn:Et; try congruence; try discriminate.
  - destruct (e_called e); discriminate.
  - rewrite M in N. discriminate.
  - rewrite H0 in N. discriminate.
  - (* TSkipped *) left. simpl in *.
    destruct (e_called e), (e_timedOut e); simpl in *; try lia.
    split; [reflexivity|]. split; [reflexivity|].
    destruct (outcomes s id) as [|o [|o' l]]; simpl in OL; try lia.
    rewrite cnt_cons, cnt_nil in OT. destruct o as [a|]; simpl in OT; [eauto | lia].
  - (* TFired *) right. simpl in *.
    destruct (e_called e), (e_timedOut e); simpl in *; try lia.
    split; [reflexivity|]. split; [reflexivity|].
    destruct (outcomes s id) as [|o [|o' l]]; simpl in OL; try lia.
    rewrite cnt_cons, cnt_nil in OT. destruct o as [a|]; simpl in OT; [lia | reflexivity].
Qed.

(** ** the peer: one reply per event, and it is the first call of the ack function *)
Definition fstis {B} (id : nat) (x : nat * B) : bool := Nat.eqb (fst x) id.
Definition psents (s : state) : list bool := map e_psent (st_emits s).

Definition inv3 (s : state) : Prop :=
  (forall id b, nth_error (psents s) id = Some b ->
      cnt (fstis id) (st_psent s) = b2n b /\ (b = false -> first_call (st_plog s) id = None))
  /\ (forall id, length (psents s) <= id -> cnt (fstis id) (st_psent s) = 0)
  /\ (forall id a, In (id, a) (st_psent s) -> first_call (st_plog s) id = Some a)
  /\ (forall x, In x (st_inflight s) -> In x (st_psent s)).

Lemma inv3_same s s' :
  inv3 s -> psents s' = psents s -> st_psent s' = st_psent s -> st_plog s' = st_plog s ->
  st_inflight s' = st_inflight s -> inv3 s'.
Proof. unfold inv3. intros H A B C D. rewrite A, B, C, D. exact H. Qed.

Lemma inv3_append s s' :
  inv3 s -> psents s' = psents s ++ [false] -> st_psent s' = st_psent s -> st_plog s' = st_plog s ->
  st_inflight s' = st_inflight s ->
  (forall id, length (psents s) <= id -> first_call (st_plog s) id = None) -> inv3 s'.
Proof.
  unfold inv3. intros (P1 & P2 & P3 & P4) A B C D Hfc. rewrite A, B, C, D.
  split; [|split; [|split; assumption]].
  - intros id b Hn. destruct (Nat.lt_ge_cases id (length (psents s))) as [L|L].
    + rewrite nth_error_app1 in Hn by exact L. now apply P1.
    + rewrite nth_error_app2 in Hn by exact L.
      destruct (id - length (psents s)) as [|[|n]]; simpl in Hn; try discriminate.
      inversion Hn; subst. split; [now apply P2 | intros _; now apply Hfc].
  - intros id L. rewrite app_length in L. simpl in L. apply P2. lia.
Qed.

Lemma map_put_same {B} (f : emit -> B) s id e e' :
  get_emit s id = Some e -> f e' = f e -> map f (upd_nth id e' (st_emits s)) = map f (st_emits s).
Proof. intros G T. rewrite map_upd_nth, T. apply upd_nth_id. now apply map_nth_error. Qed.

Lemma first_call_snoc pl i a id :
  first_call (pl ++ [(i, a)]) id =
  match first_call pl id with Some x => Some x | None => if Nat.eqb i id then Some a else None end.
Proof.
  induction pl as [|[j b] pl IH]; simpl; [reflexivity|]. destruct (Nat.eqb j id); [reflexivity | exact IH].
Qed.

Lemma in_del_nth {A} k (l : list A) x : In x (del_nth k l) -> In x l.
Proof.
  revert k; induction l as [|z l IH]; intros [|k] H; simpl in *; auto. destruct H; auto. right. eapply IH; eauto.
Qed.

Lemma in_upd_nth {A} k (y : A) l x : In x (upd_nth k y l) -> x = y \/ In x l.
Proof.
  revert k; induction l as [|z l IH]; intros [|k] H; simpl in *; auto.
  - destruct H; auto.
  - destruct H; auto. destruct (IH k H); auto.
Qed.

(** an ack function is only ever called for an allocated id: plog mentions allocated ids only *)
Definition inv3b (s : state) : Prop :=
  forall id, length (st_emits s) <= id -> first_call (st_plog s) id = None.

Lemma first_call_none_snoc pl i a id :
  first_call pl id = None -> i <> id -> first_call (pl ++ [(i, a)]) id = None.
Proof. intros H N. rewrite first_call_snoc, H. now rewrite (eqb_neq_false _ _ N). Qed.

Ltac same3 G := eapply inv3_same;
  [eassumption | unfold psents at 1; simpl; try (eapply map_put_same; [exact G | reflexivity]); reflexivity
   | reflexivity | reflexivity | reflexivity].

Lemma inv3_step s l s' : inv3 s /\ inv3b s -> step l s = Some s' -> inv3 s' /\ inv3b s'.
Proof.
  intros [HI HB] Hs.
  destruct l as [tmo natt|natt| |id|id|id a|k|id a|k dk| | ]; simpl in Hs.
  - inversion Hs; subst; clear Hs. split.
    + eapply inv3_append; [exact HI | | reflexivity | reflexivity | reflexivity |].
      * unfold psents; simpl. rewrite map_app. destruct tmo; reflexivity.
      * intros id L. apply HB. unfold psents in L. now rewrite map_length in L.
    + intros id L. simpl in *. rewrite app_length in L. simpl in L. apply HB. lia.
  - destruct (send_frames s (frames_of None (st_npk s) natt)) as [s1|] eqn:E; [|discriminate].
    inversion Hs; subst; clear Hs. unfold send_frames in E.
    destruct (st_conn s || negb (c_client (st_cfg s))); [|destruct (st_bufmu s); [discriminate|]];
      inversion E; subst; clear E; (split; [eapply inv3_same; [exact HI | reflexivity..] | exact HB]).
  - inversion Hs; subst; clear Hs. split.
    + eapply inv3_append; [exact HI | | reflexivity | reflexivity | reflexivity |].
      * unfold psents; simpl. rewrite map_app. reflexivity.
      * intros id L. apply HB. unfold psents in L. now rewrite map_length in L.
    + intros id L. simpl in *. rewrite app_length in L. simpl in L. apply HB. lia.
  - destruct (get_emit s id) as [e|] eqn:G; [|discriminate].
    destruct (e_pc e) eqn:P; [| |discriminate].
    + inversion Hs; subst; clear Hs. split; [same3 G|].
      intros i L. simpl in *. rewrite length_upd_nth in L. now apply HB.
    + unfold send_frames in Hs.
      destruct (st_conn s || negb (c_client (st_cfg s))); [|destruct (st_bufmu s); [discriminate|]];
        inversion Hs; subst; clear Hs;
        (split; [same3 G | intros i L; simpl in *; rewrite length_upd_nth in L; now apply HB]).
  - destruct (get_emit s id) as [e|] eqn:G; [|discriminate].
    assert (HBk : forall e', inv3b (put_emit s id e')).
    { intros e' i L. unfold put_emit in L. simpl in *. rewrite length_upd_nth in L. now apply HB. }
    destruct (e_timer e) eqn:T; try discriminate.
    + destruct (e_called e); inversion Hs; subst; clear Hs; (split; [same3 G | apply HBk]).
    + inversion Hs; subst; clear Hs. split; [same3 G | apply HBk].
    + destruct (st_bufmu s); [discriminate|]. inversion Hs; subst; clear Hs.
      split; [same3 G | apply (HBk (set_timer e TPurge))].
    + destruct (c_oldpurge (st_cfg s)); [destruct (purge_old id (st_buf s))|]; inversion Hs; subst; clear Hs;
        (split; [same3 G | first [apply HBk | apply (HBk (set_timer e TUnlock))]]).
    + inversion Hs; subst; clear Hs. split; [same3 G | apply (HBk (set_timer e TInvoke))].
    + inversion Hs; subst; clear Hs. split; [same3 G | apply (HBk (set_timer e TRunning))].
    + inversion Hs; subst; clear Hs. split; [same3 G | apply (HBk (set_timer e TFired))].
  - (* LPeerAck *)
    destruct (get_emit s id) as [e|] eqn:G; [|discriminate].
    destruct (onwire s id); [|discriminate].
    pose proof (get_lt _ _ _ G) as L.
    assert (PG : nth_error (psents s) id = Some (e_psent e)) by (unfold psents; now apply map_nth_error).
    destruct HI as (P1 & P2 & P3 & P4).
    destruct (e_psent e) eqn:P; inversion Hs; subst; clear Hs.
    + (* already sent: only the call is recorded *)
      split.
      * split; [|split; [|split]]; simpl.
        -- intros i b Hn. destruct (P1 i b Hn) as [C1 C2]. split; [exact C1|].
           intros Hb. specialize (C2 Hb). apply first_call_none_snoc; [exact C2|].
           intros E; subst. unfold psents in *. simpl in *. congruence.
        -- exact P2.
        -- intros i a0 Hin. rewrite first_call_snoc, (P3 i a0 Hin). reflexivity.
        -- exact P4.
      * intros i Li. simpl in *. apply first_call_none_snoc; [now apply HB | lia].
    + (* first call: sent *)
      destruct (P1 id false PG) as [C1 C2]. specialize (C2 eq_refl).
      split.
      * split; [|split; [|split]]; simpl.
        -- intros i b Hn. unfold psents in Hn. simpl in Hn. rewrite map_upd_nth in Hn. simpl in Hn.
           rewrite cnt_snoc. unfold fstis at 2. simpl.
           destruct (Nat.eq_dec i id) as [->|Ne].
           ++ rewrite nth_upd_same in Hn by (unfold psents in PG; apply nth_some_lt in PG; exact PG).
              inversion Hn; subst. rewrite Nat.eqb_refl, C1. split; [reflexivity | discriminate].
           ++ rewrite nth_upd_other in Hn by exact Ne. destruct (P1 i b Hn) as [D1 D2].
              rewrite (eqb_neq_false id i (not_eq_sym Ne)). simpl. split; [lia|].
              intros Hb. apply first_call_none_snoc; [now apply D2 | congruence].
        -- intros i Li. unfold psents in Li. simpl in Li. rewrite map_length, length_upd_nth in Li.
           rewrite cnt_snoc. unfold fstis at 2. simpl.
           assert (Ne : id <> i) by lia. rewrite (eqb_neq_false _ _ Ne). simpl.
           rewrite P2; [reflexivity|]. unfold psents. now rewrite map_length.
        -- intros i a0 Hin. apply in_app_or in Hin as [Hin|[Hin|[]]].
           ++ rewrite first_call_snoc, (P3 i a0 Hin). reflexivity.
           ++ inversion Hin; subst. rewrite first_call_snoc, C2, Nat.eqb_refl. reflexivity.
        -- intros x Hin. apply in_app_or in Hin as [Hin|Hin]; apply in_or_app; [left; now apply P4 | right; exact Hin].
      * intros i Li. simpl in *. rewrite length_upd_nth in Li. apply first_call_none_snoc; [now apply HB | lia].
  - destruct (nth_error (st_inflight s) k) as [[id a]|] eqn:F; [|discriminate].
    inversion Hs; subst; clear Hs. split; [|exact HB].
    destruct HI as (P1 & P2 & P3 & P4). split; [exact P1|]. split; [exact P2|]. split; [exact P3|].
    simpl. intros x Hin. apply P4. eapply in_del_nth; eauto.
  - inversion Hs; subst; clear Hs. split; [eapply inv3_same; [exact HI | reflexivity..] | exact HB].
  - destruct (nth_error (st_replies s) k) as [r|] eqn:R; [|discriminate].
    destruct r as [id a|id a|id a|id a|]; [| | | |discriminate].
    + destruct (get_emit s id) as [e|] eqn:G.
      * destruct (e_intable e) eqn:IT; inversion Hs; subst; clear Hs.
        -- split; [same3 G|]. intros i L. simpl in *. rewrite length_upd_nth in L. now apply HB.
        -- split; [eapply inv3_same; [exact HI | reflexivity..] | exact HB].
      * inversion Hs; subst; clear Hs. split; [eapply inv3_same; [exact HI | reflexivity..] | exact HB].
    + destruct (get_emit s id) as [e|] eqn:G.
      * destruct (e_timedOut e) eqn:TO; inversion Hs; subst; clear Hs.
        -- split; [eapply inv3_same; [exact HI | reflexivity..] | exact HB].
        -- split; [same3 G|]. intros i L. simpl in *. rewrite length_upd_nth in L. now apply HB.
      * inversion Hs; subst; clear Hs. split; [eapply inv3_same; [exact HI | reflexivity..] | exact HB].
    + inversion Hs; subst; clear Hs. split; [eapply inv3_same; [exact HI | reflexivity..] | exact HB].
    + inversion Hs; subst; clear Hs. split; [eapply inv3_same; [exact HI | reflexivity..] | exact HB].
  - destruct (st_conn s); [discriminate|]. destruct (st_bufmu s) eqn:M; [discriminate|].
    inversion Hs; subst; clear Hs. split; [eapply inv3_same; [exact HI | reflexivity..] | exact HB].
  - destruct (st_conn s); [|discriminate].
    inversion Hs; subst; clear Hs. split; [eapply inv3_same; [exact HI | reflexivity..] | exact HB].
Qed.

Lemma inv3_reach s : reach s -> inv3 s /\ inv3b s.
Proof.
  apply (@invariant_reachable _ _ step is_init (fun s => inv3 s /\ inv3b s)). split.
  - intros s0 (c & conn & ->). split.
    + split; [|split; [|split]]; simpl.
      * intros id b H. destruct id; discriminate.
      * reflexivity.
      * intros ? ? [].
      * intros ? [].
    + intros id _. reflexivity.
  - intros ? ? ? ? ?; eapply inv3_step; eauto.
Qed.

Lemma cnt_le1_unique {B} (l : list (nat * B)) id a b :
  cnt (fstis id) l <= 1 -> In (id, a) l -> In (id, b) l -> a = b.
Proof.
  induction l as [|[i x] l IH]; intros H Ha Hb; [destruct Ha|].
  rewrite cnt_cons in H. unfold fstis at 1 in H. simpl in H.
  destruct Ha as [Ea|Ha], Hb as [Eb|Hb].
  - congruence.
  - inversion Ea; subst. rewrite Nat.eqb_refl in H. simpl in H.
    assert (Z : cnt (fstis id) l = 0) by lia.
    pose proof (proj1 (cnt_zero_forall _ _) Z _ Hb) as F. unfold fstis in F. simpl in F.
    rewrite Nat.eqb_refl in F. discriminate.
  - inversion Eb; subst. rewrite Nat.eqb_refl in H. simpl in H.
    assert (Z : cnt (fstis id) l = 0) by lia.
    pose proof (proj1 (cnt_zero_forall _ _) Z _ Ha) as F. unfold fstis in F. simpl in F.
    rewrite Nat.eqb_refl in F. discriminate.
  - apply IH; auto. lia.
Qed.

(** the peer puts at most one ACK packet on the wire per event, carrying the arguments of the
    first call of that event's ack function *)
Lemma one_reply_per_event s id :
  reach s ->
  cnt (fstis id) (st_psent s) <= 1
  /\ (forall a, In (id, a) (st_psent s) -> first_call (st_plog s) id = Some a).
Proof.
  intros R. destruct (inv3_reach s R) as [(P1 & P2 & P3 & P4) _]. split; [|intros a; apply P3].
  destruct (nth_error (psents s) id) as [b|] eqn:E.
  - destruct (P1 id b E) as [C _]. rewrite C. destruct b; simpl; lia.
  - apply nth_error_None in E. rewrite (P2 id E). lia.
Qed.

(** ** compliant peer, reliable network: the reply delivered is the peer's reply to that event *)
Definition step_c (l : label) (s : state) : option state :=
  match l with LPacketIn _ _ => None | _ => step l s end.

Definition reach_c := reachable step_c is_init.

Lemma step_c_step l s s' : step_c l s = Some s' -> step l s = Some s'.
Proof. destruct l; simpl; try discriminate; auto. Qed.

Lemma reach_c_reach s : reach_c s -> reach s.
Proof.
  intros R. induction R as [s I | s t s' _ IH St]; [unfold reach; apply reach_init; exact I|].
  unfold reach. eapply reach_step; [exact IH | apply step_c_step; exact St].
Qed.

Definition carried (r : rpc) : option (nat * args) :=
  match r with RLookup i a | RCall i a | RInvoke i a | RRunning i a => Some (i, a) | RDone => None end.

Definition inv4 (s : state) : Prop :=
  (forall r x, In r (st_replies s) -> carried r = Some x -> In x (st_psent s))
  /\ (forall id a, In (id, OReply a) (st_log s) -> In (id, a) (st_psent s)).

Lemma inv4_same s s' :
  inv4 s -> st_replies s' = st_replies s -> st_log s' = st_log s -> st_psent s' = st_psent s -> inv4 s'.
Proof. unfold inv4. intros H A B C. rewrite A, B, C. exact H. Qed.

Lemma inv4_step s l s' : reach s -> inv4 s -> step_c l s = Some s' -> inv4 s'.
Proof.
  intros RS HI Hs. destruct (inv3_reach s RS) as [(_ & _ & _ & P4) _].
  destruct l as [tmo natt|natt| |id|id|id a|k|id a|k dk| | ]; simpl in Hs; try discriminate.
  - inversion Hs; subst; clear Hs. eapply inv4_same; [exact HI | reflexivity..].
  - destruct (send_frames s (frames_of None (st_npk s) natt)) as [s1|] eqn:E; [|discriminate].
    inversion Hs; subst; clear Hs. unfold send_frames in E.
    destruct (st_conn s || negb (c_client (st_cfg s))); [|destruct (st_bufmu s); [discriminate|]];
      inversion E; subst; clear E; (eapply inv4_same; [exact HI | reflexivity..]).
  - inversion Hs; subst; clear Hs. eapply inv4_same; [exact HI | reflexivity..].
  - destruct (get_emit s id) as [e|] eqn:G; [|discriminate].
    destruct (e_pc e) eqn:P; [| |discriminate].
    + inversion Hs; subst; clear Hs. eapply inv4_same; [exact HI | reflexivity..].
    + unfold send_frames in Hs.
      destruct (st_conn s || negb (c_client (st_cfg s))); [|destruct (st_bufmu s); [discriminate|]];
        inversion Hs; subst; clear Hs; (eapply inv4_same; [exact HI | reflexivity..]).
  - destruct (get_emit s id) as [e|] eqn:G; [|discriminate].
    destruct (e_timer e) eqn:T; try discriminate.
    + destruct (e_called e); inversion Hs; subst; clear Hs; (eapply inv4_same; [exact HI | reflexivity..]).
    + inversion Hs; subst; clear Hs. eapply inv4_same; [exact HI | reflexivity..].
    + destruct (st_bufmu s); [discriminate|]. inversion Hs; subst; clear Hs. eapply inv4_same; [exact HI | reflexivity..].
    + destruct (c_oldpurge (st_cfg s)); [destruct (purge_old id (st_buf s))|]; inversion Hs; subst; clear Hs;
        (eapply inv4_same; [exact HI | reflexivity..]).
    + inversion Hs; subst; clear Hs. eapply inv4_same; [exact HI | reflexivity..].
    + inversion Hs; subst; clear Hs. destruct HI as [Q1 Q2]. split; simpl; [exact Q1|].
      intros i a0 Hin. apply in_app_or in Hin as [Hin|[Hin|[]]]; [now apply Q2 | discriminate].
    + inversion Hs; subst; clear Hs. eapply inv4_same; [exact HI | reflexivity..].
  - destruct (get_emit s id) as [e|] eqn:G; [|discriminate].
    destruct (onwire s id); [|discriminate].
    destruct (e_psent e) eqn:P; inversion Hs; subst; clear Hs.
    + eapply inv4_same; [exact HI | reflexivity..].
    + destruct HI as [Q1 Q2]. split; simpl.
      * intros r x Hr Hc. apply in_or_app; left. eapply Q1; eauto.
      * intros i a0 Hin. apply in_or_app; left. now apply Q2.
  - destruct (nth_error (st_inflight s) k) as [[id a]|] eqn:F; [|discriminate].
    inversion Hs; subst; clear Hs. destruct HI as [Q1 Q2]. split; simpl; [|exact Q2].
    intros r x Hr Hc. apply in_app_or in Hr as [Hr|[Hr|[]]]; [eapply Q1; eauto|].
    subst r. simpl in Hc. inversion Hc; subst. apply P4. eapply nth_error_In; eauto.
  - destruct (nth_error (st_replies s) k) as [r|] eqn:R; [|discriminate].
    pose proof (nth_error_In _ _ R) as RIn. destruct HI as [Q1 Q2].
    assert (K : forall r' s0, st_psent s0 = st_psent s -> st_log s0 = st_log s ->
                 st_replies s0 = upd_nth k r' (st_replies s) ->
                 (forall x, carried r' = Some x -> carried r = Some x) -> inv4 s0).
    { intros r' s0 A B C D. split; rewrite A.
      - intros r1 x Hr Hc. rewrite C in Hr. apply in_upd_nth in Hr as [->|Hr]; [|eapply Q1; eauto].
        eapply Q1; [exact RIn | now apply D].
      - rewrite B. exact Q2. }
    destruct r as [id a|id a|id a|id a|]; [| | | |discriminate].
    + destruct (get_emit s id) as [e|] eqn:G.
      * destruct (e_intable e) eqn:IT; inversion Hs; subst; clear Hs.
        -- eapply K; [reflexivity | reflexivity | reflexivity |]. destruct dk; simpl; [auto | discriminate].
        -- eapply K; [reflexivity | reflexivity | reflexivity | simpl; discriminate].
      * inversion Hs; subst; clear Hs. eapply K; [reflexivity | reflexivity | reflexivity | simpl; discriminate].
    + destruct (get_emit s id) as [e|] eqn:G.
      * destruct (e_timedOut e) eqn:TO; inversion Hs; subst; clear Hs.
        -- eapply K; [reflexivity | reflexivity | reflexivity | simpl; discriminate].
        -- eapply K; [reflexivity | reflexivity | reflexivity | simpl; auto].
      * inversion Hs; subst; clear Hs. eapply K; [reflexivity | reflexivity | reflexivity | simpl; discriminate].
    + inversion Hs; subst; clear Hs. split; simpl.
      * intros r1 x Hr Hc. apply in_upd_nth in Hr as [->|Hr]; [|eapply Q1; eauto].
        eapply Q1; [exact RIn | exact Hc].
      * intros i a0 Hin. apply in_app_or in Hin as [Hin|[Hin|[]]]; [now apply Q2|].
        inversion Hin; subst. eapply Q1; [exact RIn | reflexivity].
    + inversion Hs; subst; clear Hs. eapply K; [reflexivity | reflexivity | reflexivity | simpl; discriminate].
  - destruct (st_conn s); [discriminate|]. destruct (st_bufmu s) eqn:M; [discriminate|].
    inversion Hs; subst; clear Hs. eapply inv4_same; [exact HI | reflexivity..].
  - destruct (st_conn s); [|discriminate].
    inversion Hs; subst; clear Hs. eapply inv4_same; [exact HI | reflexivity..].
Qed.

Lemma inv4_reach s : reach_c s -> inv4 s.
Proof.
  intros R. induction R as [s (c & conn & ->) | s t s' R IH St].
  - split; simpl; intros; contradiction.
  - eapply inv4_step; [apply reach_c_reach; exact R | exact IH | exact St].
Qed.

(** the arguments the callback of [id] got are those of the first call of the ack function of the
    event that carried [id] (an event that was really handed to the transport) *)
Lemma reply_matches_event s id a :
  reach_c s -> In (OReply a) (outcomes s id) ->
  first_call (st_plog s) id = Some a /\ In (id, a) (st_psent s).
Proof.
  intros R Hin. destruct (inv4_reach s R) as [_ Q2].
  destruct (inv3_reach s (reach_c_reach s R)) as [(_ & _ & P3 & _) _].
  assert (L : In (id, OReply a) (st_log s)).
  { unfold outcomes in Hin. apply in_map_iff in Hin as ([i o] & E & Hf). simpl in E. subst o.
    apply filter_In in Hf as [Hf Hi]. simpl in Hi. apply Nat.eqb_eq in Hi. now subst. }
  specialize (Q2 id a L). split; [now apply P3 | exact Q2].
Qed.

(** ** callbacks take time: a callback that is still executing has been counted *)

(** how one action changes the onAck goroutines and the invocation log *)
Lemma step_replies_log s l s' :
  step l s = Some s' ->
  (st_replies s' = st_replies s /\ st_log s' = st_log s)
  \/ (st_log s' = st_log s /\ exists id a, st_replies s' = st_replies s ++ [RLookup id a])
  \/ (st_replies s' = st_replies s /\ exists id, st_log s' = st_log s ++ [(id, OTimeout)])
  \/ (exists k r r', nth_error (st_replies s) k = Some r /\ st_replies s' = upd_nth k r' (st_replies s)
        /\ ((st_log s' = st_log s /\ forall i a, r' <> RRunning i a)
            \/ exists i a, r = RInvoke i a /\ r' = RRunning i a /\ st_log s' = st_log s ++ [(i, OReply a)])).
Proof.
  intros Hs. destruct l as [tmo natt|natt| |id|id|id a|k|id a|k dk| | ]; simpl in Hs;
  repeat match type of Hs with
         | context [match ?x with _ => _ end] => destruct x eqn:?; try discriminate
         end;
  inversion Hs; subst; clear Hs;
  try match goal with H : send_frames _ _ = Some _ |- _ => apply send_frames_core in H as (EA & EB & EC) end;
  simpl; rewrite ?EB, ?EC;
  try solve [left; split; reflexivity];
  try solve [right; left; split; [reflexivity | eauto]];
  try solve [right; right; left; split; [reflexivity | eauto]].
  all: right; right; right; do 3 eexists; (split; [eassumption|]); (split; [reflexivity|]);
    first [ solve [left; split; [reflexivity | intros; discriminate]]
          | right; do 2 eexists; repeat split; reflexivity ].
Qed.

Definition inv6 (s : state) : Prop :=
  forall id a, In (RRunning id a) (st_replies s) -> In (id, OReply a) (st_log s).

Lemma inv6_step s l s' : inv6 s -> step l s = Some s' -> inv6 s'.
Proof.
  intros HI Hs id a Hin.
  destruct (step_replies_log s l s' Hs) as [[A B]|[[B (i & x & A)]|[[A (i & B)]|(k & r & r' & R & A & C)]]];
    rewrite ?A, ?B in *.
  - now apply HI.
  - apply in_app_or in Hin as [Hin|[Hin|[]]]; [now apply HI | discriminate].
  - apply in_or_app; left. now apply HI.
  - apply in_upd_nth in Hin as [E|Hin].
    + destruct C as [[B N]|(i & x & E1 & E2 & B)].
      * exfalso. eapply N. symmetry. exact E.
      * rewrite B. rewrite E2 in E. inversion E; subst. apply in_or_app; right. now left.
    + destruct C as [[B N]|(i & x & E1 & E2 & B)]; rewrite B; [now apply HI|].
      apply in_or_app; left. now apply HI.
Qed.

Lemma inv6_reach s : reach s -> inv6 s.
Proof.
  apply invariant_reachable. split.
  - intros s0 (c & conn & ->) id a []. 
  - intros ? ? ? ? ?; eapply inv6_step; eauto.
Qed.

Lemma in_outcomes s id o : In (id, o) (st_log s) -> In o (outcomes s id).
Proof.
  intros H. unfold outcomes. apply in_map_iff. exists (id, o). split; [reflexivity|].
  apply filter_In. split; [exact H | simpl; apply Nat.eqb_refl].
Qed.

(** while the callback of [id] is executing with a reply (however long that takes, whatever
    else happens meanwhile), this is the only invocation there has been *)
Lemma running_reply_only s id a :
  reach s -> In (RRunning id a) (st_replies s) -> outcomes s id = [OReply a].
Proof.
  intros R Hin. pose proof (in_outcomes s id _ (inv6_reach s R id a Hin)) as Ho.
  pose proof (at_most_once s id R) as L.
  destruct (outcomes s id) as [|o [|o' l]]; simpl in *; try lia; try contradiction.
  destruct Ho as [->|[]]. reflexivity.
Qed.

(** ... and the same while the timeout callback is executing *)
Lemma running_timeout_only s id e :
  reach s -> get_emit s id = Some e -> e_timer e = TRunning -> outcomes s id = [OTimeout].
Proof.
  intros R G T. destruct (inv_reach s R) as [I1 _]. destruct (I1 id e G) as (_ & _ & _ & D & _ & _).
  rewrite T in D. simpl in D. pose proof (at_most_once s id R) as L.
  pose proof (outcomes_timeouts s id) as OT. rewrite D in OT.
  destruct (outcomes s id) as [|o [|o' l]]; simpl in *; try lia.
  - rewrite cnt_nil in OT. discriminate.
  - rewrite cnt_cons, cnt_nil in OT. destruct o; simpl in OT; [lia | reflexivity].
Qed.
