(** Proofs about Sio/Ack.v (property C03), for all schedules: invariants by induction over the
    transition system (Base/Conc.v). *)
From Coq Require Import List Arith Bool Lia NArith.
From SioV Require Import Base.GoSem Base.Conc Sio.Ack.
Import ListNotations.

(** ** counting *)
Definition b2n (b : bool) : nat := if b then 1 else 0.
Definition cnt {A} (p : A -> bool) (l : list A) : nat := length (filter p l).

Lemma cnt_nil {A} (p : A -> bool) : cnt p [] = 0.
Proof. reflexivity. Qed.

Lemma cnt_cons {A} (p : A -> bool) x l : cnt p (x :: l) = b2n (p x) + cnt p l.
Proof. unfold cnt. simpl. destruct (p x); reflexivity. Qed.

Lemma cnt_app {A} (p : A -> bool) a b : cnt p (a ++ b) = cnt p a + cnt p b.
Proof. unfold cnt. rewrite filter_app, app_length. reflexivity. Qed.

Lemma cnt_snoc {A} (p : A -> bool) a x : cnt p (a ++ [x]) = cnt p a + b2n (p x).
Proof. rewrite cnt_app, cnt_cons, cnt_nil. lia. Qed.

Lemma cnt_upd_nth {A} (p : A -> bool) l k x y :
  nth_error l k = Some x -> cnt p (upd_nth k y l) + b2n (p x) = cnt p l + b2n (p y).
Proof.
  revert k; induction l as [|z l IH]; intros [|k] H; simpl in *; try discriminate.
  - inversion H; subst. rewrite !cnt_cons. lia.
  - rewrite !cnt_cons. specialize (IH k H). lia.
Qed.

Lemma cnt_del_nth {A} (p : A -> bool) l k x :
  nth_error l k = Some x -> cnt p (del_nth k l) + b2n (p x) = cnt p l.
Proof.
  revert k; induction l as [|z l IH]; intros [|k] H; simpl in *; try discriminate.
  - inversion H; subst. rewrite cnt_cons. lia.
  - rewrite !cnt_cons. specialize (IH k H). lia.
Qed.

Lemma cnt_zero_forall {A} (p : A -> bool) l : cnt p l = 0 <-> forall x, In x l -> p x = false.
Proof.
  induction l as [|z l IH]; simpl.
  - split; [intros _ x [] | reflexivity].
  - rewrite cnt_cons. split.
    + intros H x [Hx|Hx].
      * subst. destruct (p x) eqn:E; [simpl in H; lia | reflexivity].
      * apply IH; [lia | exact Hx].
    + intros H. rewrite (H z (or_introl eq_refl)). simpl. apply IH. intros x Hx. apply H. now right.
Qed.

Lemma length_upd_nth {A} k (x : A) l : length (upd_nth k x l) = length l.
Proof. revert k; induction l; intros [|k]; simpl; auto. Qed.

Lemma nth_upd_same {A} k (x : A) l : k < length l -> nth_error (upd_nth k x l) k = Some x.
Proof. revert k; induction l; intros [|k] H; simpl in *; try lia; auto. all: try (apply IHl; lia). Qed.

Lemma nth_upd_other {A} k j (x : A) l : j <> k -> nth_error (upd_nth k x l) j = nth_error l j.
Proof.
  revert k j; induction l; intros [|k] [|j] H; simpl; auto; try congruence.
Qed.

Lemma nth_some_lt {A} (l : list A) k x : nth_error l k = Some x -> k < length l.
Proof. intros H. apply nth_error_Some. congruence. Qed.

(** ** the quantities the invariant talks about *)
Definition isRC (id : nat) (r : rpc) : bool := match r with RCall i _ => Nat.eqb i id | _ => false end.
Definition isRI (id : nat) (r : rpc) : bool := match r with RInvoke i _ => Nat.eqb i id | _ => false end.
Definition isLR (id : nat) (x : nat * outcome) : bool :=
  Nat.eqb (fst x) id && match snd x with OReply _ => true | OTimeout => false end.
Definition isLT (id : nat) (x : nat * outcome) : bool :=
  Nat.eqb (fst x) id && match snd x with OReply _ => false | OTimeout => true end.

Definition nRC s id := cnt (isRC id) (st_replies s).
Definition nRI s id := cnt (isRI id) (st_replies s).
Definition nLR s id := cnt (isLR id) (st_log s).
Definition nLT s id := cnt (isLT id) (st_log s).

Definition phase_to (t : tpc) : nat :=
  match t with TNone | TSleep | TSkipped => 0 | _ => 1 end.
Definition fired (t : tpc) : nat := match t with TFired => 1 | _ => 0 end.
Definition skipped (t : tpc) : nat := match t with TSkipped => 1 | _ => 0 end.
Definition isEReg (p : epc) : nat := match p with EReg => 1 | _ => 0 end.

(** the handler of [id]: one "reply token" (table entry, or the emitting goroutine that has not
    stored it yet, or the one onAck goroutine that took it out, or the logged reply); [called]
    exactly when that goroutine passed the handler mutex; [timedOut] exactly when the timer passed
    it; never both; timeouts logged exactly when the timer finished its call. *)
Definition inv_id (s : state) (id : nat) (e : emit) : Prop :=
  b2n (e_intable e) + isEReg (e_pc e) + nRC s id + nRI s id + nLR s id <= 1
  /\ b2n (e_called e) = nRI s id + nLR s id
  /\ b2n (e_timedOut e) = phase_to (e_timer e)
  /\ nLT s id = fired (e_timer e)
  /\ b2n (e_called e) + b2n (e_timedOut e) <= 1
  /\ skipped (e_timer e) <= b2n (e_called e).

Definition inv (s : state) : Prop :=
  (forall id e, get_emit s id = Some e -> inv_id s id e)
  /\ (forall id, length (st_emits s) <= id -> nRC s id + nRI s id + nLR s id + nLT s id = 0).

Definition is_init (s : state) : Prop := exists cfg conn, s = init_state cfg conn.

Definition reach := reachable step is_init.

(** effect of the primitive updates *)
Lemma get_put_same s id e : id < length (st_emits s) -> get_emit (put_emit s id e) id = Some e.
Proof. intros H. unfold get_emit, put_emit. simpl. now apply nth_upd_same. Qed.

Lemma get_put_other s id j e : j <> id -> get_emit (put_emit s id e) j = get_emit s j.
Proof. intros H. unfold get_emit, put_emit. simpl. now apply nth_upd_other. Qed.

Lemma get_lt s id e : get_emit s id = Some e -> id < length (st_emits s).
Proof. apply nth_some_lt. Qed.

Lemma get_snoc_old s id e l : get_emit s id = Some e -> nth_error (st_emits s ++ l) id = Some e.
Proof. intros H. rewrite nth_error_app1; [exact H | eapply get_lt; eauto]. Qed.

Lemma eqb_neq_false a b : a <> b -> Nat.eqb a b = false.
Proof. apply Nat.eqb_neq. Qed.

Lemma inv_init s : is_init s -> inv s.
Proof.
  intros (cfg & conn & ->). split.
  - intros id e H. unfold get_emit in H. simpl in H. destruct id; discriminate.
  - intros id _. reflexivity.
Qed.

(** bring every count of the new state into an equation over the counts of the old one *)
Ltac cnt_norm :=
  unfold nRC, nRI, nLR, nLT in *; simpl st_replies in *; simpl st_log in *; simpl st_emits in *;
  repeat rewrite cnt_snoc in *;
  repeat match goal with
  | H : nth_error ?l ?k = Some ?x |- context [cnt ?p (upd_nth ?k ?y ?l)] =>
      lazymatch goal with
      | _ : cnt p (upd_nth k y l) + b2n (p x) = cnt p l + b2n (p y) |- _ => fail
      | _ => pose proof (cnt_upd_nth p l k x y H)
      end
  end.

Ltac eqb_simpl :=
  repeat match goal with
  | |- context [Nat.eqb ?a ?a] => rewrite Nat.eqb_refl
  | H : context [Nat.eqb ?a ?a] |- _ => rewrite Nat.eqb_refl in H
  | N : ?a <> ?b |- context [Nat.eqb ?a ?b] => rewrite (eqb_neq_false a b N)
  | N : ?a <> ?b, H : context [Nat.eqb ?a ?b] |- _ => rewrite (eqb_neq_false a b N) in H
  | N : ?a <> ?b |- context [Nat.eqb ?b ?a] => rewrite (eqb_neq_false b a (not_eq_sym N))
  | N : ?a <> ?b, H : context [Nat.eqb ?b ?a] |- _ => rewrite (eqb_neq_false b a (not_eq_sym N)) in H
  end.

(** ** the purge *)
Lemma purge_new_in id buf f : In f (purge_new id buf) <-> In f buf /\ tag_is id f = false.
Proof.
  unfold purge_new. rewrite filter_In. split; intros [H1 H2]; split; auto.
  - now apply negb_true_iff in H2.
  - now apply negb_true_iff.
Qed.

(** [sub a b]: a is b with some elements left out, order kept *)
Inductive sublist {A} : list A -> list A -> Prop :=
| sub_nil : sublist [] []
| sub_keep x a b : sublist a b -> sublist (x :: a) (x :: b)
| sub_drop x a b : sublist a b -> sublist a (x :: b).

Lemma filter_sublist {A} (p : A -> bool) l : sublist (filter p l) l.
Proof. induction l; simpl; [constructor|]. destruct (p a); now constructor. Qed.

Lemma purge_step_exact s id e s' :
  c_oldpurge (st_cfg s) = false ->
  get_emit s id = Some e -> e_timer e = TPurge -> step (LTimer id) s = Some s' ->
  st_buf s' = filter (fun f => negb (tag_is id f)) (st_buf s)
  /\ sublist (st_buf s') (st_buf s)
  /\ (forall f, In f (st_buf s') <-> In f (st_buf s) /\ tag_is id f = false).
Proof.
  intros Hcfg Hg Ht Hs. unfold step in Hs. rewrite Hg, Ht, Hcfg in Hs. inversion Hs; subst; clear Hs.
  simpl. split; [reflexivity|]. split; [apply filter_sublist|]. intros f. apply purge_new_in.
Qed.

(** what was wrong before the fix: two frames with the tag (an event with one attachment) *)
Lemma purge_old_panics :
  purge_old 0 (frames_of (Some 0) 0 1) = Panic.
Proof. reflexivity. Qed.

(** ... and with frames of other packets behind it the loop does not panic but leaves one
    attachment frame of the timed-out packet in the buffer (observed on the pre-fix code) *)
Lemma purge_old_leaves_frame :
  purge_old 1 (frames_of (Some 0) 0 1 ++ frames_of (Some 1) 1 2 ++ frames_of None 2 1)
  = Ok [(Some 0, (0, 0)); (Some 0, (0, 1)); (Some 1, (1, 1)); (None, (2, 0)); (None, (2, 1))].
Proof. reflexivity. Qed.
