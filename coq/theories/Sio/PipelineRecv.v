(** Sio/PipelineRecv.v - the RECEIVER with several concurrent deliverers.

    During a transport upgrade two transports of one Engine.IO socket can call OnPacket at the same
    time (the old polling transport still delivers its in-flight poll response while the websocket
    reader already delivers).  Ported from client_manager.go:onEIOPacket / server_conn.go:onEIOPacket:

        parserMu.Lock(); defer parserMu.Unlock()
        for _, packet := range packets { if MESSAGE { parser.Add(packet.Data, finish) } }

    One OnPacket call = one critical section = ONE step [Deliver d]: deliverer [d] feeds all MESSAGE
    frames of its next call to the parser.  A polling transport hands over a whole payload per
    call, a websocket transport one frame per call. *)
From SioV Require Import Base.Conc Sio.Pipeline.

Section Recv.
  Context {data : Type}.
  Variable declared : data -> option nat.
  Variable max_atts : nat.

  Record rstate := mkR {
    r_streams  : list (list (list (frame data)));  (* per deliverer: the OnPacket calls still to come *)
    r_parser   : option (recon data);
    r_err      : bool;
    r_finished : list (spacket data);
    r_order    : list nat;                         (* ghost: which deliverer made each call *)
    r_fed      : list (list (frame data))          (* ghost: the calls, in the order the parser saw them *)
  }.

  Definition rinit (streams : list (list (list (frame data)))) : rstate :=
    mkR streams None false [] [] [].

  Definition rstep (d : nat) (s : rstate) : option rstate :=
    if r_err s then None else
    match nth_error (r_streams s) d with
    | Some (b :: rest) =>
        match parse_from declared max_atts (r_parser s) (map (@f_data data) b) with
        | Ok (p', fs) =>
            Some (mkR (set_nth (r_streams s) d rest) p' false (r_finished s ++ fs)
                      (r_order s ++ [d]) (r_fed s ++ [b]))
        | _ =>
            Some (mkR (set_nth (r_streams s) d rest) (r_parser s) true (r_finished s)
                      (r_order s ++ [d]) (r_fed s ++ [b]))
        end
    | _ => None
    end.

  Definition rreachable (streams : list (list (list (frame data)))) : rstate -> Prop :=
    reachable rstep (fun s => s = rinit streams).

  (** one OnPacket call hands over the frames of whole, well-formed packets *)
  Definition whole (b : list (frame data)) : Prop :=
    exists ps, Forall (wf_packet declared max_atts) ps /\ b = flat_map frames_of ps.
End Recv.

Arguments rstate : clear implicits.
