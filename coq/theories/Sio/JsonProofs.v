(** Proofs about Sio/Json.v: integer literals round-trip. *)
From Coq Require Import ZifyN ZifyBool.
From SioV Require Import Base.GoSem Sio.Json.
Local Open Scope N_scope.

Lemma isdig_digit d : d < 10 -> isdig (48 + d) = true.
Proof. unfold isdig. intros. apply andb_true_iff; split; apply N.leb_le; lia. Qed.

(** Weight of the digits [dig] prints. *)
Fixpoint pw (f : nat) (n : N) : N :=
  match f with
  | O => 10
  | S f' => if n <? 10 then 10 else 10 * pw f' (n / 10)
  end.

Lemma pn_dig : forall f n acc a, n < 2 ^ N.of_nat f ->
  pn a (dig f n acc) = pn (a * pw f n + n) acc.
Proof.
  induction f as [|f IH]; intros n acc a Hn.
  - simpl in Hn. assert (n = 0) by lia. subst. cbn [dig pw pn]. rewrite isdig_digit by lia. f_equal. lia.
  - cbn [dig pw]. destruct (n <? 10) eqn:L.
    + apply N.ltb_lt in L. cbn [pn]. rewrite isdig_digit by lia. f_equal. lia.
    + apply N.ltb_ge in L.
      assert (Hd : n / 10 < 2 ^ N.of_nat f).
      { rewrite Nat2N.inj_succ, N.pow_succ_r' in Hn.
        apply N.div_lt_upper_bound; lia. }
      rewrite IH by exact Hd. cbn [pn].
      assert (Hm : n mod 10 < 10) by (apply N.mod_lt; lia).
      rewrite isdig_digit by exact Hm. f_equal.
      pose proof (N.div_mod n 10 ltac:(lia)). lia.
Qed.

Lemma size_bound n : n < 2 ^ N.of_nat (N.size_nat n).
Proof.
  destruct n as [|p]; [simpl; lia|].
  unfold N.size_nat. 
  induction p; simpl Pos.size_nat; rewrite ?Nat2N.inj_succ, ?N.pow_succ_r'; try lia.
Qed.

Lemma pn_pN n rest a : pn a (pN n ++ rest) = pn (a * pw (N.size_nat n) n + n) rest.
Proof.
  unfold pN.
  assert (G : forall f m acc, dig f m acc ++ rest = dig f m (acc ++ rest)).
  { induction f; intros; simpl; [reflexivity|]. destruct (m <? 10); [reflexivity|]. now rewrite IHf. }
  rewrite G. simpl app. apply pn_dig. apply size_bound.
Qed.

Lemma dig_app f m acc rest : dig f m acc ++ rest = dig f m (acc ++ rest).
Proof.
  revert m acc. induction f; intros; simpl; [reflexivity|]. destruct (m <? 10); [reflexivity|]. now rewrite IHf.
Qed.

Lemma dig_head : forall f n acc, n < 2 ^ N.of_nat f -> n <> 0 ->
  exists d tl, dig f n acc = (48 + d) :: tl /\ 1 <= d <= 9.
Proof.
  induction f as [|f IH]; intros n acc Hn H0.
  - simpl in Hn. lia.
  - cbn [dig]. destruct (n <? 10) eqn:L.
    + apply N.ltb_lt in L. exists n, acc. split; [reflexivity|lia].
    + apply N.ltb_ge in L. apply IH.
      * rewrite Nat2N.inj_succ, N.pow_succ_r' in Hn. apply N.div_lt_upper_bound; lia.
      * intro E. apply N.div_small_iff in E; lia.
Qed.

(** What may follow a value in a JSON text written by [jprint]. *)
Definition okf (rest : bytes) : Prop :=
  match rest with [] => True | c :: _ => c = 44 \/ c = 93 \/ c = 125 end.

Lemma pn_stop a rest : okf rest -> pn a rest = (a, rest).
Proof. destruct rest as [|c r]; simpl; [reflexivity|]. intros [->|[->| ->]]; reflexivity. Qed.

Lemma okf_nodigit rest : okf rest ->
  match rest with d :: _ => isdig d | [] => false end = false /\
  match rest with
  | d :: _ => (d =? 46) || (d =? 101) || (d =? 69)
  | [] => false
  end = false.
Proof. destruct rest as [|c r]; simpl; [auto|]. intros [->|[->| ->]]; auto. Qed.

Lemma pnum_pos p rest : okf rest ->
  pnum (pN (N.pos p) ++ rest) = Some (Z.pos p, rest) /\
  exists c tl, pN (N.pos p) ++ rest = c :: tl /\ c <> 45 /\ isdig c = true.
Proof.
  intros Hr. unfold pN.
  destruct (dig_head (N.size_nat (N.pos p)) (N.pos p) [] (size_bound _) ltac:(discriminate))
    as (d & tl & E & Hd).
  pose proof (pn_pN (N.pos p) rest 0) as P. unfold pN in P.
  assert (D : isdig (48 + d) = true) by (apply isdig_digit; lia).
  remember (48 + d) as c eqn:Ec.
  rewrite E in *. cbn [app] in *.
  split.
  - unfold pnum.
    assert (N45 : (c =? 45) = false) by (apply N.eqb_neq; lia).
    assert (N48 : (c =? 48) = false) by (apply N.eqb_neq; lia).
    rewrite N45, D, N48. cbn [andb]. rewrite P. simpl N.mul. simpl N.add.
    rewrite pn_stop by exact Hr.
    destruct (okf_nodigit rest Hr) as [_ F]. destruct rest as [|c0 r]; [reflexivity|]. rewrite F. reflexivity.
  - exists c, (tl ++ rest). repeat split; auto. lia.
Qed.

(** An integer printed by [jprint] and followed by a separator parses back to itself. *)
Theorem pnum_pZ z rest : okf rest -> pnum (pZ z ++ rest) = Some (z, rest).
Proof.
  intros Hr. destruct z as [|p|p]; cbn [pZ].
  - destruct rest as [|c r]; [reflexivity | destruct Hr as [->|[->| ->]]; reflexivity].
  - apply pnum_pos; exact Hr.
  - destruct (pnum_pos p rest Hr) as [P (c & tl & E & N45 & D)].
    unfold pnum in *. cbn [app]. change (45 =? 45) with true. cbn iota. rewrite E in *.
    apply N.eqb_neq in N45. rewrite N45 in P. rewrite D in *.
    destruct ((c =? 48) && match tl with d :: _ => isdig d | [] => false end); [discriminate|].
    destruct (pn 0 (c :: tl)) as [n r]. 
    destruct r as [|d r']; [inversion P as [[H0 H1]]; rewrite H0; reflexivity|].
    destruct ((d =? 46) || (d =? 101) || (d =? 69)); [discriminate|].
    inversion P as [[H0 H1]]; rewrite H0; reflexivity.
Qed.

Lemma jprint_arr_head l : exists r, jprint (JArr l) = 91 :: r.
Proof. simpl. eauto. Qed.

(** * String literals *)
(** Checking a property of all bytes below 128 by computation. *)
Lemma below128 (P : N -> bool) :
  forallb P (map N.of_nat (seq 0 128)) = true -> forall b, b < 128 -> P b = true.
Proof.
  intros H b Hb. rewrite forallb_forall in H. apply H.
  apply in_map_iff. exists (N.to_nat b). split; [lia|]. apply in_seq. lia.
Qed.

(** The escape of a byte of 128 and above is the byte itself. *)
Lemma esc_hi b : 128 <= b -> esc b = [b].
Proof.
  intros H. unfold esc.
  assert (E : forall k, k < 128 -> (b =? k) = false) by (intros; apply N.eqb_neq; lia).
  rewrite !E by lia. assert (L : (b <? 32) = false) by (apply N.ltb_ge; lia). rewrite L. reflexivity.
Qed.

(** Running the string machine over a chunk that does not end the string. *)
Fixpoint run (st : sst) (s : bytes) : option (sst * bytes) :=
  match s with
  | [] => Some (st, [])
  | c :: r =>
    match step st c with
    | SGo st' out => match run st' r with Some (st2, o) => Some (st2, out ++ o) | None => None end
    | _ => None
    end
  end.

Lemma run_pstr : forall a st st' o r,
  run st a = Some (st', o) ->
  pstr st (a ++ r) = match pstr st' r with Some (o2, rest) => Some (o ++ o2, rest) | None => None end.
Proof.
  induction a as [|c a IH]; intros st st' o r H; simpl in H.
  - inversion H; subst. simpl. destruct (pstr st' r) as [[o2 rest]|]; reflexivity.
  - simpl. destruct (step st c) as [| |st1 out]; try discriminate.
    destruct (run st1 a) as [[st2 o1]|] eqn:R; [|discriminate]. inversion H; subst.
    rewrite (IH _ _ _ r R). destruct (pstr st' r) as [[o2 rest]|]; [|reflexivity].
    now rewrite app_assoc.
Qed.

Lemma esc_run b : run SN (esc b) = Some (SN, [b]).
Proof.
  destruct (N.ltb_spec b 128) as [L|L].
  - pose (P := fun b => match run SN (esc b) with
                        | Some (SN, [x]) => x =? b
                        | _ => false
                        end).
    assert (G : P b = true).
    { apply (below128 P); [vm_compute; reflexivity|exact L]. }
    unfold P in G. destruct (run SN (esc b)) as [[[| |] [|x [|y o]]]|]; try discriminate.
    apply N.eqb_eq in G. now subst.
  - rewrite esc_hi by exact L. simpl.
    assert (E : forall k, k < 128 -> (b =? k) = false) by (intros; apply N.eqb_neq; lia).
    rewrite !E by lia. assert (L2 : (b <? 32) = false) by (apply N.ltb_ge; lia). rewrite L2. reflexivity.
Qed.

Lemma pq_unfold b r :
  pq (b :: r) =
  match r with
  | c :: d :: r' =>
    if is_lsep b c d then [92; 117; 50; 48; 50; (if d =? 168 then 56 else 57)] ++ pq r'
    else esc b ++ pq r
  | _ => esc b ++ pq r
  end.
Proof. destruct r as [|c [|d r']]; reflexivity. Qed.

(** The inside of a string literal written by [jprint], then the closing quote, reads back. *)
Theorem pstr_pq : forall s rest, pstr SN (pq s ++ 34 :: rest) = Some (s, rest).
Proof.
  intros s. remember (length s) as n eqn:Hn. revert s Hn.
  induction n as [n IH] using lt_wf_ind. intros s Hn rest.
  destruct s as [|b r]; [reflexivity|].
  assert (Plain : (forall r0, (length r0 < n)%nat -> forall rest, pstr SN (pq r0 ++ 34 :: rest) = Some (r0, rest)) ->
                  pstr SN ((esc b ++ pq r) ++ 34 :: rest) = Some (b :: r, rest)).
  { intros IH'. rewrite <- app_assoc. rewrite (run_pstr _ _ _ _ _ (esc_run b)).
    rewrite IH' by (subst; simpl; lia). reflexivity. }
  assert (IH' : (forall r0, (length r0 < n)%nat -> forall rest, pstr SN (pq r0 ++ 34 :: rest) = Some (r0, rest))).
  { intros r0 L rest0. eapply IH; eauto. }
  rewrite pq_unfold. destruct r as [|c [|d r']]; try (apply Plain; exact IH').
  destruct (is_lsep b c d) eqn:LS; [|apply Plain; exact IH'].
  unfold is_lsep in LS. apply andb_true_iff in LS as [LS L3]. apply andb_true_iff in LS as [L1 L2].
  apply N.eqb_eq in L1. apply N.eqb_eq in L2. subst b c.
  rewrite <- app_assoc.
  apply orb_true_iff in L3 as [L3|L3]; apply N.eqb_eq in L3; subst d.
  - change (168 =? 168) with true. cbv iota.
    rewrite (run_pstr [92; 117; 50; 48; 50; 56] SN SN [226; 128; 168]) by (vm_compute; reflexivity).
    rewrite IH' by (subst; simpl; lia). reflexivity.
  - change (169 =? 168) with false. cbv iota.
    rewrite (run_pstr [92; 117; 50; 48; 50; 57] SN SN [226; 128; 169]) by (vm_compute; reflexivity).
    rewrite IH' by (subst; simpl; lia). reflexivity.
Qed.

(** * Values *)
Section JvInd.
  Variable P : jv -> Prop.
  Hypothesis Hnull : P JNull.
  Hypothesis Hbool : forall b, P (JBool b).
  Hypothesis Hint : forall z, P (JInt z).
  Hypothesis Hstr : forall s, P (JStr s).
  Hypothesis Harr : forall l, Forall P l -> P (JArr l).
  Hypothesis Hobj : forall kvs, Forall (fun kv => P (snd kv)) kvs -> P (JObj kvs).
  Fixpoint jv_ind' (v : jv) : P v :=
    match v with
    | JNull => Hnull
    | JBool b => Hbool b
    | JInt z => Hint z
    | JStr s => Hstr s
    | JArr l =>
      Harr l ((fix go (l : list jv) : Forall P l :=
                 match l with [] => Forall_nil _ | x :: l' => Forall_cons _ (jv_ind' x) (go l') end) l)
    | JObj kvs =>
      Hobj kvs ((fix go (l : list (bytes * jv)) : Forall (fun kv => P (snd kv)) l :=
                   match l with [] => Forall_nil _ | kv :: l' => Forall_cons _ (jv_ind' (snd kv)) (go l') end) kvs)
    end.
End JvInd.

Lemma jprint_arr x l : jprint (JArr (x :: l)) = 91 :: jprint x ++ ptail l.
Proof. reflexivity. Qed.
Lemma jprint_obj k x r : jprint (JObj ((k, x) :: r)) = 123 :: pstring k ++ 58 :: jprint x ++ potail r.
Proof. reflexivity. Qed.

(** Fuel a value needs. *)
Fixpoint size (v : jv) : nat :=
  match v with
  | JArr l => 2 + (fix s (l : list jv) : nat := match l with [] => 0 | x :: l' => 1 + size x + s l' end) l
  | JObj kvs =>
    2 + (fix s (l : list (bytes * jv)) : nat :=
           match l with [] => 0 | (_, x) :: l' => 2 + size x + s l' end) kvs
  | _ => 1
  end%nat.
Fixpoint ssum (l : list jv) : nat := match l with [] => 0 | x :: l' => 1 + size x + ssum l' end%nat.
Fixpoint osum (l : list (bytes * jv)) : nat :=
  match l with [] => 0 | (_, x) :: l' => 2 + size x + osum l' end%nat.
Lemma size_arr l : size (JArr l) = (2 + ssum l)%nat.
Proof. reflexivity. Qed.
Lemma size_obj l : size (JObj l) = (2 + osum l)%nat.
Proof. reflexivity. Qed.

(** The first byte of a printed value: never white space, never a closing bracket. *)
Definition head_ok (c : N) : Prop :=
  c = 110 \/ c = 116 \/ c = 102 \/ c = 34 \/ c = 91 \/ c = 123 \/ c = 45 \/ isdig c = true.

Lemma pZ_head z : exists c tl, pZ z = c :: tl /\ (c = 45 \/ isdig c = true).
Proof.
  destruct z as [|p|p]; cbn [pZ].
  - exists 48, []. auto.
  - destruct (pnum_pos p [] I) as [_ (c & tl & E & _ & D)]. rewrite app_nil_r in E. eauto.
  - eauto.
Qed.

Lemma jprint_head v : exists c tl, jprint v = c :: tl /\ head_ok c.
Proof.
  unfold head_ok. destruct v as [|[|]|z|s|[|x l]|[|[k x] r]]; try (eexists; eexists; split; [reflexivity|tauto]).
  destruct (pZ_head z) as (c & tl & E & [H|H]); exists c, tl; (split; [exact E|tauto]).
Qed.

Lemma head_ok_ws c : head_ok c -> is_ws c = false /\ (c =? 93) = false /\ (c =? 125) = false.
Proof.
  unfold head_ok, is_ws, isdig. intros H.
  assert (c = 110 \/ c = 116 \/ c = 102 \/ c = 34 \/ c = 91 \/ c = 123 \/ c = 45 \/ 48 <= c <= 57) as H'.
  { destruct H as [H|[H|[H|[H|[H|[H|[H|H]]]]]]]; auto 10.
    apply andb_true_iff in H as [A B]. apply N.leb_le in A. apply N.leb_le in B. auto 10. }
  clear H.
  assert (E : forall k, c <> k -> (c =? k) = false) by (intros; now apply N.eqb_neq).
  repeat split; rewrite ?E by lia; reflexivity.
Qed.

Lemma skipws_head c tl : is_ws c = false -> skipws (c :: tl) = c :: tl.
Proof. intros H. simpl. now rewrite H. Qed.

Lemma okf_ptail l rest : okf (ptail l ++ rest).
Proof. destruct l; simpl; auto. Qed.
Lemma okf_potail l rest : okf (potail l ++ rest).
Proof. destruct l as [|[k x] l]; simpl; auto. Qed.

Lemma pstring_app k r : pstring k ++ r = 34 :: pq k ++ 34 :: r.
Proof. unfold pstring. simpl. now rewrite <- app_assoc. Qed.

Ltac pstep := cbn [skipws is_ws N.eqb Pos.eqb orb app].

Definition PV (v : jv) : Prop :=
  forall f rest, (size v <= f)%nat -> okf rest -> pval f (jprint v ++ rest) = Some (v, rest).

Lemma parr_ptail l : Forall PV l ->
  forall f rest, (1 + ssum l <= f)%nat -> okf rest -> parr f (ptail l ++ rest) = Some (l, rest).
Proof.
  induction 1 as [|y l Hy Hl IH]; intros f rest Hf Hr; (destruct f as [|f']; [simpl in Hf; lia|]).
  - cbn [ptail parr]. pstep. reflexivity.
  - cbn [ptail]. cbn [parr]. pstep. rewrite <- app_assoc.
    cbn [ssum] in Hf.
    rewrite (Hy f' (ptail l ++ rest)) by (try apply okf_ptail; lia).
    rewrite IH by (auto; lia). reflexivity.
Qed.

Lemma pmem_member k x : PV x ->
  forall f rest, (1 + size x <= f)%nat -> okf rest ->
  pmem f (pstring k ++ 58 :: jprint x ++ rest) = Some ((k, x), rest).
Proof.
  intros Hx f rest Hf Hr. destruct f as [|f']; [lia|].
  rewrite pstring_app. cbn [pmem]. pstep. rewrite pstr_pq. pstep.
  rewrite (Hx f' rest) by (auto; lia). reflexivity.
Qed.

Lemma pobj_potail r : Forall (fun kv => PV (snd kv)) r ->
  forall f rest, (1 + osum r <= f)%nat -> okf rest -> pobj f (potail r ++ rest) = Some (r, rest).
Proof.
  induction 1 as [|kv r Hy Hr IH]; [|destruct kv as [k y]]; intros f rest Hf Hrest; (destruct f as [|f']; [simpl in Hf; lia|]).
  - cbn [potail pobj]. pstep. reflexivity.
  - cbn [potail]. cbn [pobj]. pstep. cbn [osum] in Hf. simpl in Hy.
    replace ((pstring k ++ 58 :: jprint y ++ potail r) ++ rest)
      with (pstring k ++ 58 :: jprint y ++ (potail r ++ rest))
      by (rewrite <- !app_assoc; cbn [app]; now rewrite <- !app_assoc).
    rewrite (pmem_member k y Hy f' (potail r ++ rest)) by (try apply okf_potail; lia).
    rewrite IH by (auto; lia). reflexivity.
Qed.

Lemma dispatch_num c tl f' :
  (c = 45 \/ isdig c = true) ->
  pval (S f') (c :: tl) =
  match pnum (c :: tl) with Some (z, r') => Some (JInt z, r') | None => None end.
Proof.
  intros H.
  assert (H' : c = 45 \/ 48 <= c <= 57).
  { destruct H as [H|H]; auto. unfold isdig in H.
    apply andb_true_iff in H as [A B]. apply N.leb_le in A. apply N.leb_le in B. auto. }
  assert (E : forall k, c <> k -> (c =? k) = false) by (intros; now apply N.eqb_neq).
  cbn [pval skipws]. unfold is_ws. rewrite !E by lia. cbn [orb].
  rewrite !E by lia.
  assert (T : (c =? 45) || isdig c = true) by (destruct H as [H|H]; rewrite H; [reflexivity|apply orb_true_r]).
  rewrite T. reflexivity.
Qed.

Theorem pval_jprint : forall v, PV v.
Proof.
  induction v using jv_ind'; intros f rest Hf Hr; (destruct f as [|f']; [simpl in Hf; lia|]).
  - reflexivity.
  - destruct b; reflexivity.
  - (* JInt *)
    cbn [jprint]. destruct (pZ_head z) as (c & tl & E & HC).
    pose proof (pnum_pZ z rest Hr) as PN. rewrite E in *. cbn [app] in *.
    rewrite dispatch_num by exact HC. now rewrite PN.
  - (* JStr *)
    cbn [jprint]. rewrite pstring_app. cbn [pval]. pstep. now rewrite pstr_pq.
  - (* JArr *)
    destruct l as [|x l]; [reflexivity|].
    rewrite jprint_arr. cbn [app]. rewrite <- app_assoc. cbn [pval]. pstep.
    destruct (jprint_head x) as (c & tl & E & HC). destruct (head_ok_ws c HC) as (W1 & W2 & W3).
    inversion H as [|? ? Hx Hl]; subst.
    pose proof (Hx f' (ptail l ++ rest)) as PX. rewrite E in *. cbn [app] in *.
    rewrite skipws_head by exact W1. rewrite W2.
    rewrite size_arr in Hf. cbn [ssum] in Hf.
    rewrite PX by (try apply okf_ptail; lia).
    rewrite (parr_ptail l Hl) by (auto; lia). reflexivity.
  - (* JObj *)
    destruct kvs as [|[k x] r]; [reflexivity|].
    rewrite jprint_obj. cbn [app]. cbn [pval]. pstep.
    inversion H as [|? ? Hx Hl]; subst. simpl in Hx.
    rewrite size_obj in Hf. cbn [osum] in Hf.
    replace ((pstring k ++ 58 :: jprint x ++ potail r) ++ rest)
      with (pstring k ++ 58 :: jprint x ++ (potail r ++ rest))
      by (rewrite <- !app_assoc; cbn [app]; now rewrite <- !app_assoc).
    pose proof (pmem_member k x Hx f' (potail r ++ rest)) as PM.
    rewrite pstring_app in *. pstep.
    rewrite PM by (try apply okf_potail; lia).
    rewrite (pobj_potail r Hl) by (auto; lia). reflexivity.
Qed.

(** The fuel [jparse] gives itself is enough. *)
Lemma size_bound_jprint : forall v, (size v <= 2 * length (jprint v))%nat.
Proof.
  induction v using jv_ind'; try (simpl; lia).
  - destruct b; simpl; lia.
  - cbn [size jprint]. destruct (pZ_head z) as (c & tl & E & _). rewrite E. simpl. lia.
  - destruct l as [|x l]; [simpl; lia|].
    inversion H as [|? ? Hx Hl]; subst. rewrite size_arr, jprint_arr. cbn [ssum length]. rewrite app_length.
    assert (G : (ssum l + 2 <= 2 * length (ptail l))%nat).
    { clear Hx H. induction Hl as [|y l Hy Hl IH]; cbn [ssum ptail length]; [lia|]. rewrite app_length. lia. }
    lia.
  - destruct kvs as [|[k x] r]; [simpl; lia|].
    inversion H as [|? ? Hx Hl]; subst. simpl in Hx. rewrite size_obj, jprint_obj. cbn [osum length].
    rewrite !app_length. cbn [length]. rewrite app_length.
    assert (G : (osum r + 2 <= 2 * length (potail r))%nat).
    { clear Hx H. induction Hl as [|kv r Hy Hl IH]; [simpl; lia|]. destruct kv as [k2 y]. simpl in Hy.
      cbn [osum potail length]. rewrite !app_length. cbn [length]. rewrite app_length.
      unfold pstring. cbn [length]. lia. }
    unfold pstring. cbn [length]. lia.
Qed.

(** H1 for the instance: what [jprint] writes, [jparse] reads back - for every value of the
    fragment (null, booleans, integers of any size, strings over any bytes, arrays and objects of
    any depth and width). *)
Theorem jparse_jprint : forall v, jparse (jprint v) = Some v.
Proof.
  intros v. unfold jparse.
  pose proof (pval_jprint v (2 * length (jprint v) + 2)%nat []) as P. rewrite app_nil_r in P.
  rewrite P; [reflexivity| |exact I].
  pose proof (size_bound_jprint v). lia.
Qed.

Lemma jprint_obj_head m : exists r, jprint (JObj m) = 123 :: r.
Proof. destruct m as [|[k x] m]; simpl; eauto. Qed.
