(** Executable correspondence and oracle for the forced-schedule runs of the REAL client socket's
    park/flush stage (harness engine `queues -queue park`): emitters parked right before they take
    sendBufferMu in _sendBuffers, the CONNECT reply's goroutine parked right before it takes
    sendBufferMu in emitBuffered, released in every order.  Model: Sio/PacketQueuePark.v over
    b-C02's Sio/PipelineConn.v ([cstep_fix]), instantiated with packet ids as data. *)
From Coq Require Import List NArith Bool Arith.
From SioV Require Import Base.Conc Base.ConcSim Sio.Pipeline Sio.PipelineConn Sio.PacketQueuePark.
Import ListNotations.

Inductive pop :=
| PE (c : nat)     (* emitter c calls Emit (next packet of its program): runs up to the mutex *)
| PR (c : nat)     (* release emitter c: it takes the mutex, decides send-or-park, returns *)
| PCn              (* the raw server sends the CONNECT reply: state = Connected, flush not yet run *)
| PFl.             (* release the reply's goroutine: emitBuffered's flush *)

(** frames parked in sendBuffer, socket.Connected() *)
Definition pobs := (N * bool)%type.
(** programs (packet ids per emitter), steps, ids the server received after quiescence, in order *)
Definition pcase := (list (list N) * list (pop * pobs) * list N)%type.

Definition pk (id : N) : spacket N := mkSP id [].
Definition kst := kstep (cfix (fun _ : N => Some 0) 0 (fun b => [b]) WS).

Definition apply_op (o : pop) (k : kstate (data := N)) : kstate :=
  match o with
  | PE _ => k
  | PR c => step_skip kst k (KAct (CEmit c))
  | PCn => step_skip kst k (KAct CConnected)
  | PFl => step_skip kst k KFlush
  end.

Definition matches (o : pobs) (k : kstate (data := N)) : bool :=
  N.eqb (N.of_nat (length (c_sendbuf (k_c k)))) (fst o) && Bool.eqb (c_connected (k_c k)) (snd o).

Fixpoint replay (steps : list (pop * pobs)) (k : kstate (data := N)) : option kstate :=
  match steps with
  | [] => Some k
  | (o, ob) :: rest => let k' := apply_op o k in if matches ob k' then replay rest k' else None
  end.

Definition agree (c : pcase) : bool :=
  let '(progs, steps, recv) := c in
  match replay steps (kinit (map (map pk) progs)) with
  | Some k => key_eqb (map (fun ip => sp_hdr (snd ip)) (st_log (c_base (k_c k)))) recv
  | None => false
  end.

(** * The property on the observations alone *)

Fixpoint sub_eqb (a b : list N) : bool :=      (* a is a subsequence of b *)
  match b with
  | [] => match a with [] => true | _ => false end
  | y :: b' => match a with
               | [] => true
               | x :: a' => if N.eqb x y then sub_eqb a' b' else sub_eqb a b'
               end
  end.

Fixpoint nodupb (l : list N) : bool :=
  match l with [] => true | x :: l' => negb (existsb (N.eqb x) l') && nodupb l' end.

Definition is_pfl (o : pop) : bool := match o with PFl => true | _ => false end.

(** Once the socket is connected and the flush of the CONNECT reply has run, nothing sits in
    sendBuffer at any quiescent point. *)
Fixpoint no_park_after_flush (steps : list (pop * pobs)) (flushed : bool) : bool :=
  match steps with
  | [] => true
  | (o, (parked, conn)) :: rest =>
      let flushed' := flushed || (is_pfl o && conn) in
      (negb flushed' || N.eqb parked 0) && no_park_after_flush rest flushed'
  end.

(** ... and at the end (every Emit returned, reply handled): everything emitted reached the
    server exactly once, each emitter's packets in its order. *)
Definition oracle (c : pcase) : bool :=
  let '(progs, steps, recv) := c in
  let emitted := concat progs in
  no_park_after_flush steps false
  && (negb (existsb (fun s => is_pfl (fst s)) steps)
      || (Nat.eqb (length recv) (length emitted) && nodupb recv
          && forallb (fun prog => sub_eqb prog recv) progs)).

Definition KP (progs : list (list N)) (steps : list (pop * pobs)) (recv : list N) : pcase := (progs, steps, recv).
Definition KPS (o : pop) (parked : N) (conn : bool) : pop * pobs := (o, (parked, conn)).
Arguments KPS o parked%N conn.
