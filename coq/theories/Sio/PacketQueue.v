(** Sio/PacketQueue.v - the Socket.IO connection's packetQueue (root package packet_queue.go; used
    by server_conn.go and client_manager.go: one sender goroutine [pollAndSend] per queue, any
    number of emitters calling [add], a closer goroutine [waitForDrain; close]) as a concurrent
    transition system.

    Go code                                               model
    ----------------------------------------------------  ---------------------------------------
    ready: cap 1, _close: cap 1, _reset: cap 1, drain: unbuffered
    add:  lock; append; unlock                            [QAppend pkts]   (nsig := nsig+1)
          non-blocking send on ready                      [QSignal]        (nsig := nsig-1)
    poll: packets = get(); non-empty -> (packets, ok)     [QStart c]       get() atomic (mutex)
          <yield point>                                   pc = CWin
          select {
          case <-_close: return closed                    [QSelClose c]    (random if both ready:
          case <-ready:                                   [QSelReady c]     the label chooses)
               packets = get(); ok = non-empty            [QGet c]
               non-blocking send on drain }               [QDrain c]       succeeds iff a closer is
          return                                                            parked in waitForDrain
    reset: lock; packets = nil; non-blocking send _reset  [QReset]
    close: lock; packets = nil; non-blocking send _close  [QClose]
    waitForDrain: lock; empty?; unlock; empty -> return   [WStart]         (closer: -> to-close, or
          select { <-drain | <-_reset | timer }           [WEnter] parks    into the window)
                                                          [WReset] [WTimeout]; drain: see QDrain
    closer: waitForDrain(...); close()                    [WClose]

    Producers and closers are anonymous and counted ([nsig] producers are between their append
    and their signal; [w_win]/[w_park]/[w_close] closers are in the window, parked, about to
    call close()).  Consumers are numbered; [pollAndSend] is [QStart c] again after a return.
    The ghost [log] records adds, what each get() handed out, and what close/reset discarded. *)
From Coq Require Import List NArith Bool Arith.
From SioV Require Import Base.Conc.
Import ListNotations.

Definition pkt := N.

Inductive qres :=
| RPk (pkts : list pkt)       (* ok = true *)
| RNotOk                      (* woken, queue empty: ok = false, pollAndSend retries *)
| RClosed.

Inductive qpc :=
| QIdle
| QWin                        (* first get() empty: at the yield point / in the select *)
| QWoke                       (* received from ready, about to get() *)
| QDrn (r : list pkt)         (* after get(), about to try the drain signal *)
| QDone (r : qres).

Inductive qevent :=
| QEAdd (pkts : list pkt)
| QERet (c : nat) (pkts : list pkt)    (* a get() of consumer c took pkts (non-empty) *)
| QEDrop (pkts : list pkt)             (* close()/reset() discarded pkts *)
| QEClose                              (* close() was called *)
| QEClosed (c : nat).                  (* consumer c's poll returned closed *)

Record qstate := mkQ {
  q_q : list pkt;
  q_tok : bool;               (* len(ready) = 1 *)
  q_clo : bool;               (* len(_close) = 1 *)
  q_rst : bool;               (* len(_reset) = 1 *)
  q_nsig : nat;               (* producers between append and signal *)
  q_pc : nat -> qpc;
  q_wwin : nat; q_wpark : nat; q_wclose : nat;
  q_log : list qevent
}.

Definition qinit : qstate := mkQ [] false false false 0 (fun _ => QIdle) 0 0 0 [].

Inductive qlabel :=
| QAppend (pkts : list pkt) | QSignal
| QStart (c : nat) | QSelClose (c : nat) | QSelReady (c : nat) | QGet (c : nat) | QDrain (c : nat)
| QReset | QClose
| WStart | WEnter | WReset | WTimeout | WClose.

Definition is_nil {A} (l : list A) : bool := match l with [] => true | _ => false end.

Definition set_pc (s : qstate) (c : nat) (p : qpc) : nat -> qpc := upd (q_pc s) c p.

Definition res_of (r : list pkt) : qres := if is_nil r then RNotOk else RPk r.

Definition qstep (l : qlabel) (s : qstate) : option qstate :=
  match l with
  | QAppend pkts =>
      Some (mkQ (q_q s ++ pkts) (q_tok s) (q_clo s) (q_rst s) (S (q_nsig s)) (q_pc s)
                (q_wwin s) (q_wpark s) (q_wclose s) (q_log s ++ [QEAdd pkts]))
  | QSignal =>
      match q_nsig s with
      | S n => Some (mkQ (q_q s) true (q_clo s) (q_rst s) n (q_pc s)
                         (q_wwin s) (q_wpark s) (q_wclose s) (q_log s))
      | O => None
      end
  | QStart c =>
      match q_pc s c with
      | QIdle | QDone _ =>
          if is_nil (q_q s)
          then Some (mkQ [] (q_tok s) (q_clo s) (q_rst s) (q_nsig s) (set_pc s c QWin)
                         (q_wwin s) (q_wpark s) (q_wclose s) (q_log s))
          else Some (mkQ [] (q_tok s) (q_clo s) (q_rst s) (q_nsig s) (set_pc s c (QDone (RPk (q_q s))))
                         (q_wwin s) (q_wpark s) (q_wclose s) (q_log s ++ [QERet c (q_q s)]))
      | _ => None
      end
  | QSelClose c =>
      match q_pc s c with
      | QWin => if q_clo s
                then Some (mkQ (q_q s) (q_tok s) false (q_rst s) (q_nsig s) (set_pc s c (QDone RClosed))
                               (q_wwin s) (q_wpark s) (q_wclose s) (q_log s ++ [QEClosed c]))
                else None
      | _ => None
      end
  | QSelReady c =>
      match q_pc s c with
      | QWin => if q_tok s
                then Some (mkQ (q_q s) false (q_clo s) (q_rst s) (q_nsig s) (set_pc s c QWoke)
                               (q_wwin s) (q_wpark s) (q_wclose s) (q_log s))
                else None
      | _ => None
      end
  | QGet c =>
      match q_pc s c with
      | QWoke =>
          Some (mkQ [] (q_tok s) (q_clo s) (q_rst s) (q_nsig s) (set_pc s c (QDrn (q_q s)))
                    (q_wwin s) (q_wpark s) (q_wclose s)
                    (if is_nil (q_q s) then q_log s else q_log s ++ [QERet c (q_q s)]))
      | _ => None
      end
  | QDrain c =>
      match q_pc s c with
      | QDrn r =>
          match q_wpark s with
          | S n => Some (mkQ (q_q s) (q_tok s) (q_clo s) (q_rst s) (q_nsig s) (set_pc s c (QDone (res_of r)))
                             (q_wwin s) n (S (q_wclose s)) (q_log s))
          | O => Some (mkQ (q_q s) (q_tok s) (q_clo s) (q_rst s) (q_nsig s) (set_pc s c (QDone (res_of r)))
                           (q_wwin s) 0 (q_wclose s) (q_log s))
          end
      | _ => None
      end
  | QReset =>
      Some (mkQ [] (q_tok s) (q_clo s) true (q_nsig s) (q_pc s)
                (q_wwin s) (q_wpark s) (q_wclose s) (q_log s ++ [QEDrop (q_q s)]))
  | QClose =>
      Some (mkQ [] (q_tok s) true (q_rst s) (q_nsig s) (q_pc s)
                (q_wwin s) (q_wpark s) (q_wclose s) (q_log s ++ [QEDrop (q_q s); QEClose]))
  | WStart =>
      if is_nil (q_q s)
      then Some (mkQ (q_q s) (q_tok s) (q_clo s) (q_rst s) (q_nsig s) (q_pc s)
                     (q_wwin s) (q_wpark s) (S (q_wclose s)) (q_log s))
      else Some (mkQ (q_q s) (q_tok s) (q_clo s) (q_rst s) (q_nsig s) (q_pc s)
                     (S (q_wwin s)) (q_wpark s) (q_wclose s) (q_log s))
  | WEnter =>
      match q_wwin s with
      | S n => Some (mkQ (q_q s) (q_tok s) (q_clo s) (q_rst s) (q_nsig s) (q_pc s)
                         n (S (q_wpark s)) (q_wclose s) (q_log s))
      | O => None
      end
  | WReset =>
      match q_wpark s with
      | S n => if q_rst s
               then Some (mkQ (q_q s) (q_tok s) (q_clo s) false (q_nsig s) (q_pc s)
                              (q_wwin s) n (S (q_wclose s)) (q_log s))
               else None
      | O => None
      end
  | WTimeout =>
      match q_wpark s with
      | S n => Some (mkQ (q_q s) (q_tok s) (q_clo s) (q_rst s) (q_nsig s) (q_pc s)
                         (q_wwin s) n (S (q_wclose s)) (q_log s))
      | O => None
      end
  | WClose =>
      match q_wclose s with
      | S n => Some (mkQ [] (q_tok s) true (q_rst s) (q_nsig s) (q_pc s)
                         (q_wwin s) (q_wpark s) n (q_log s ++ [QEDrop (q_q s); QEClose]))
      | O => None
      end
  end.

Definition qreachable : qstate -> Prop := reachable qstep (fun s => s = qinit).

(** Ghost projections of the log. *)
Fixpoint qadded (l : list qevent) : list pkt :=
  match l with
  | [] => []
  | QEAdd p :: l' => p ++ qadded l'
  | _ :: l' => qadded l'
  end.

(** Everything that left the queue, in order: handed to a consumer, or discarded by close/reset. *)
Fixpoint qleft (l : list qevent) : list pkt :=
  match l with
  | [] => []
  | QERet _ p :: l' => p ++ qleft l'
  | QEDrop p :: l' => p ++ qleft l'
  | _ :: l' => qleft l'
  end.

Fixpoint qdelivered (l : list qevent) : list pkt :=
  match l with
  | [] => []
  | QERet _ p :: l' => p ++ qdelivered l'
  | _ :: l' => qdelivered l'
  end.

Definition is_drop (e : qevent) : bool := match e with QEDrop (_ :: _) => true | _ => false end.
Definition is_close (e : qevent) : bool := match e with QEClose => true | _ => false end.
Definition is_closed (e : qevent) : bool := match e with QEClosed _ => true | _ => false end.

Definition qwaiting (p : qpc) : bool := match p with QWin | QWoke => true | _ => false end.
