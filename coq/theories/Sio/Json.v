(** JSON as produced and consumed by Go's encoding/json on the fragment Socket.IO packets use:
    null, booleans, integers, strings, arrays, objects.

    [jprint] = the compact output of json.Marshal / Encoder.Encode (escapeHTML on, the default):
    strings are escaped exactly as [appendString] does (backslash + char for the quote and the backslash,
    \b \f \n \r \t, \u00XX for the other bytes below 0x20 and for < > &,     for the UTF-8
    sequences E2 80 A8 / E2 80 A9, every other byte copied).  Strings are UTF-8 byte strings; Go replaces
    invalid UTF-8 by U+FFFD, the model copies it, so the model is faithful on valid UTF-8 only
    ([utf8_ok]).  Object members are printed in list order (the caller sorts map keys).

    [jparse] = json.Unmarshal into [any] on the same fragment: fuelled recursive descent;
    whitespace, every escape incl. \uXXXX for code points outside the surrogate range.  Outside the
    modelled fragment ([None]): numbers with a fraction or an exponent, surrogate escapes.  Like
    Go it rejects control characters inside strings, leading zeros and trailing data. *)
From SioV Require Import Base.GoSem.
Local Open Scope N_scope.

Inductive jv : Type :=
| JNull
| JBool (b : bool)
| JInt (z : Z)
| JStr (s : bytes)
| JArr (l : list jv)
| JObj (kvs : list (bytes * jv)).

(** * Printer *)
Definition hexd (x : N) : N := if x <? 10 then 48 + x else 87 + x.

(** One byte below 0x80 inside a string literal. *)
Definition esc (b : N) : bytes :=
  if (b =? 34) || (b =? 92) then [92; b]
  else if b =? 8 then [92; 98]
  else if b =? 12 then [92; 102]
  else if b =? 10 then [92; 110]
  else if b =? 13 then [92; 114]
  else if b =? 9 then [92; 116]
  else if (b <? 32) || (b =? 38) || (b =? 60) || (b =? 62)
       then [92; 117; 48; 48; hexd (b / 16); hexd (b mod 16)]
  else [b].

Definition is_lsep (b c d : N) : bool := (b =? 226) && (c =? 128) && ((d =? 168) || (d =? 169)).

(** The inside of a string literal. *)
Fixpoint pq (s : bytes) : bytes :=
  match s with
  | [] => []
  | b :: r =>
    match r with
    | c :: d :: r' =>
      if is_lsep b c d then [92; 117; 50; 48; 50; (if d =? 168 then 56 else 57)] ++ pq r'
      else esc b ++ pq r
    | _ => esc b ++ pq r
    end
  end.

Definition pstring (s : bytes) : bytes := 34 :: pq s ++ [34].

(** Decimal digits of [n] in front of [acc]; [f] is fuel ([n < 2^f] suffices). *)
Fixpoint dig (f : nat) (n : N) (acc : bytes) : bytes :=
  match f with
  | O => (48 + n) :: acc
  | S f' => if n <? 10 then (48 + n) :: acc else dig f' (n / 10) ((48 + n mod 10) :: acc)
  end.
Definition pN (n : N) : bytes := dig (N.size_nat n) n [].
Definition pZ (z : Z) : bytes :=
  match z with
  | Z0 => [48]
  | Zpos p => pN (Npos p)
  | Zneg p => 45 :: pN (Npos p)
  end.

Fixpoint jprint (v : jv) : bytes :=
  match v with
  | JNull => [110; 117; 108; 108]
  | JBool true => [116; 114; 117; 101]
  | JBool false => [102; 97; 108; 115; 101]
  | JInt z => pZ z
  | JStr s => pstring s
  | JArr l =>
    91 :: match l with
          | [] => [93]
          | x :: l' =>
            jprint x ++
            (fix tl (l : list jv) : bytes :=
               match l with
               | [] => [93]
               | y :: l'' => 44 :: jprint y ++ tl l''
               end) l'
          end
  | JObj kvs =>
    123 :: match kvs with
           | [] => [125]
           | (k, x) :: r =>
             pstring k ++ 58 :: jprint x ++
             (fix tl (r : list (bytes * jv)) : bytes :=
                match r with
                | [] => [125]
                | (k', y) :: r' => 44 :: pstring k' ++ 58 :: jprint y ++ tl r'
                end) r
           end
  end.

(** The two tails, named (convertible with the local fixpoints above). *)
Fixpoint ptail (l : list jv) : bytes :=
  match l with
  | [] => [93]
  | y :: l' => 44 :: jprint y ++ ptail l'
  end.
Fixpoint potail (r : list (bytes * jv)) : bytes :=
  match r with
  | [] => [125]
  | (k, y) :: r' => 44 :: pstring k ++ 58 :: jprint y ++ potail r'
  end.

(** * Parser *)
Definition is_ws (c : N) : bool := (c =? 32) || (c =? 9) || (c =? 10) || (c =? 13).
Fixpoint skipws (s : bytes) : bytes :=
  match s with
  | c :: r => if is_ws c then skipws r else s
  | [] => []
  end.

(** String literal: a byte-at-a-time machine. *)
Inductive sst := SN | SE | SU (k : nat) (acc : N).
Inductive sres := SErr | SEnd | SGo (st : sst) (out : bytes).

Definition hexv (c : N) : option N :=
  if (48 <=? c) && (c <=? 57) then Some (c - 48)
  else if (97 <=? c) && (c <=? 102) then Some (c - 87)
  else if (65 <=? c) && (c <=? 70) then Some (c - 55)
  else None.

Definition utf8enc (cp : N) : bytes :=
  if cp <? 128 then [cp]
  else if cp <? 2048 then [192 + cp / 64; 128 + cp mod 64]
  else [224 + cp / 4096; 128 + (cp / 64) mod 64; 128 + cp mod 64].

Definition is_surrogate (cp : N) : bool := (55296 <=? cp) && (cp <=? 57343).

Definition step (st : sst) (c : N) : sres :=
  match st with
  | SN => if c =? 34 then SEnd
          else if c =? 92 then SGo SE []
          else if c <? 32 then SErr
          else SGo SN [c]
  | SE => if c =? 34 then SGo SN [34]
          else if c =? 92 then SGo SN [92]
          else if c =? 47 then SGo SN [47]
          else if c =? 98 then SGo SN [8]
          else if c =? 102 then SGo SN [12]
          else if c =? 110 then SGo SN [10]
          else if c =? 114 then SGo SN [13]
          else if c =? 116 then SGo SN [9]
          else if c =? 117 then SGo (SU 4 0) []
          else SErr
  | SU k acc =>
    match hexv c with
    | None => SErr
    | Some h =>
      let a := acc * 16 + h in
      match k with
      | S O => if is_surrogate a then SErr else SGo SN (utf8enc a)
      | S k' => SGo (SU k' a) []
      | O => SErr
      end
    end
  end.

(** After the opening quote: (content, rest after the closing quote). *)
Fixpoint pstr (st : sst) (s : bytes) : option (bytes * bytes) :=
  match s with
  | [] => None
  | c :: r =>
    match step st c with
    | SErr => None
    | SEnd => Some ([], r)
    | SGo st' out =>
      match pstr st' r with
      | Some (o, rest) => Some (out ++ o, rest)
      | None => None
      end
    end
  end.

Definition isdig (c : N) : bool := (48 <=? c) && (c <=? 57).
Fixpoint pn (a : N) (s : bytes) : N * bytes :=
  match s with
  | c :: r => if isdig c then pn (10 * a + (c - 48)) r else (a, s)
  | [] => (a, [])
  end.

(** An integer literal (an optional minus sign, digits); a fraction or an exponent is outside the fragment. *)
Definition pnum (s : bytes) : option (Z * bytes) :=
  let '(neg, s1) := match s with
                    | c :: r => if c =? 45 then (true, r) else (false, s)
                    | [] => (false, s)
                    end in
  match s1 with
  | c :: r =>
    if isdig c then
      if (c =? 48) && (match r with d :: _ => isdig d | [] => false end) then None else
      let '(n, rest) := pn 0 s1 in
      match rest with
      | d :: _ => if (d =? 46) || (d =? 101) || (d =? 69) then None
                  else Some (if neg then (- Z.of_N n)%Z else Z.of_N n, rest)
      | [] => Some (if neg then (- Z.of_N n)%Z else Z.of_N n, rest)
      end
    else None
  | [] => None
  end.

Definition lit (w : bytes) (s : bytes) (v : jv) : option (jv * bytes) :=
  if list_eqb N.eqb (firstn (length w) s) w then Some (v, skipn (length w) s) else None.

Fixpoint pval (f : nat) (s : bytes) : option (jv * bytes) :=
  match f with
  | O => None
  | S f' =>
    match skipws s with
    | [] => None
    | c :: r =>
      if c =? 110 then lit [117; 108; 108] r JNull
      else if c =? 116 then lit [114; 117; 101] r (JBool true)
      else if c =? 102 then lit [97; 108; 115; 101] r (JBool false)
      else if c =? 34 then
        match pstr SN r with Some (o, r') => Some (JStr o, r') | None => None end
      else if c =? 91 then
        match skipws r with
        | [] => None
        | d :: r' =>
          if d =? 93 then Some (JArr [], r') else
          match pval f' (d :: r') with
          | Some (x, r2) =>
            match parr f' r2 with Some (l, r3) => Some (JArr (x :: l), r3) | None => None end
          | None => None
          end
        end
      else if c =? 123 then
        match skipws r with
        | [] => None
        | d :: r' =>
          if d =? 125 then Some (JObj [], r') else
          match pmem f' (d :: r') with
          | Some (m, r2) =>
            match pobj f' r2 with Some (l, r3) => Some (JObj (m :: l), r3) | None => None end
          | None => None
          end
        end
      else if (c =? 45) || isdig c then
        match pnum (c :: r) with Some (z, r') => Some (JInt z, r') | None => None end
      else None
    end
  end
with parr (f : nat) (s : bytes) : option (list jv * bytes) :=
  match f with
  | O => None
  | S f' =>
    match skipws s with
    | [] => None
    | c :: r =>
      if c =? 93 then Some ([], r)
      else if c =? 44 then
        match pval f' r with
        | Some (x, r2) =>
          match parr f' r2 with Some (l, r3) => Some (x :: l, r3) | None => None end
        | None => None
        end
      else None
    end
  end
with pmem (f : nat) (s : bytes) : option ((bytes * jv) * bytes) :=
  match f with
  | O => None
  | S f' =>
    match skipws s with
    | [] => None
    | c :: r =>
      if c =? 34 then
        match pstr SN r with
        | Some (k, r1) =>
          match skipws r1 with
          | d :: r2 =>
            if d =? 58 then
              match pval f' r2 with Some (x, r3) => Some ((k, x), r3) | None => None end
            else None
          | [] => None
          end
        | None => None
        end
      else None
    end
  end
with pobj (f : nat) (s : bytes) : option (list (bytes * jv) * bytes) :=
  match f with
  | O => None
  | S f' =>
    match skipws s with
    | [] => None
    | c :: r =>
      if c =? 125 then Some ([], r)
      else if c =? 44 then
        match pmem f' r with
        | Some (m, r2) =>
          match pobj f' r2 with Some (l, r3) => Some (m :: l, r3) | None => None end
        | None => None
        end
      else None
    end
  end.

(** json.Unmarshal(s, &any): one value, then only whitespace.  Fuel: twice the length is always
    enough for a text produced by [jprint] (see [jparse_jprint]). *)
Definition jparse (s : bytes) : option jv :=
  match pval (2 * length s + 2) s with
  | Some (v, r) => match skipws r with [] => Some v | _ => None end
  | None => None
  end.

(** * Helpers used by the clients of this file *)
Fixpoint bytes_ltb (a b : bytes) : bool :=
  match a, b with
  | [], [] => false
  | [], _ :: _ => true
  | _ :: _, [] => false
  | x :: a', y :: b' => if x <? y then true else if y <? x then false else bytes_ltb a' b'
  end.
Definition bytes_eqb (a b : bytes) : bool := list_eqb N.eqb a b.

Fixpoint jv_eqb (a b : jv) : bool :=
  match a, b with
  | JNull, JNull => true
  | JBool x, JBool y => Bool.eqb x y
  | JInt x, JInt y => (x =? y)%Z
  | JStr x, JStr y => bytes_eqb x y
  | JArr x, JArr y =>
    (fix go (x y : list jv) : bool :=
       match x, y with
       | [], [] => true
       | a :: x', b :: y' => jv_eqb a b && go x' y'
       | _, _ => false
       end) x y
  | JObj x, JObj y =>
    (fix go (x y : list (bytes * jv)) : bool :=
       match x, y with
       | [], [] => true
       | (k, a) :: x', (k', b) :: y' => bytes_eqb k k' && jv_eqb a b && go x' y'
       | _, _ => false
       end) x y
  | _, _ => false
  end.

(** Valid UTF-8 (the domain on which [jprint] is Go's encoder): shortest form, no surrogates,
    at most U+10FFFF. *)
Definition cont (c : N) : bool := (128 <=? c) && (c <=? 191).
Fixpoint utf8_ok_f (f : nat) (s : bytes) : bool :=
  match f with
  | O => match s with [] => true | _ => false end
  | S f' =>
    match s with
    | [] => true
    | a :: r =>
      if a <? 128 then utf8_ok_f f' r
      else if (194 <=? a) && (a <=? 223) then
        match r with b :: r' => cont b && utf8_ok_f f' r' | _ => false end
      else if (224 <=? a) && (a <=? 239) then
        match r with
        | b :: c :: r' =>
          cont b && cont c
          && (if a =? 224 then 160 <=? b else true)
          && (if a =? 237 then b <=? 159 else true)
          && utf8_ok_f f' r'
        | _ => false
        end
      else if (240 <=? a) && (a <=? 244) then
        match r with
        | b :: c :: d :: r' =>
          cont b && cont c && cont d
          && (if a =? 240 then 144 <=? b else true)
          && (if a =? 244 then b <=? 143 else true)
          && utf8_ok_f f' r'
        | _ => false
        end
      else false
    end
  end.
Definition utf8_ok (s : bytes) : bool := utf8_ok_f (length s) s.
