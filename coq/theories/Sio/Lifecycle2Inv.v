(** Sio/Lifecycle2Inv.v - exhaustive exploration of the two-socket control system (C06),
    with the verified closure checker of Sio/LifecycleReach.v. *)
From SioV Require Import Base.GoSem Base.Conc Sio.Lifecycle Sio.LifecycleReach Sio.LifecycleInv Sio.Lifecycle2.
Local Open Scope N_scope.

Definition key_sk (k : sk) : list N :=
  [o k; pc k; b2n (conn k); b2n (innsp k); b2n (room k); b2n (incs k); apc k; nd k; ndg k; b2n (ever k)].
Definition key2 (s : ctl2) : list N :=
  [e_once2 s; e_pc2 s; b2n (store2 s); c_once2 s; c_pc2 s; b2n (closed2 s); b2n (snapA s); b2n (snapB s); cur s; b2n (cc2 s); bynsp s]
  ++ key_sk (skA s) ++ key_sk (skB s).
Definition hkey2 (s : ctl2) : list N := let k := key2 s in hash k :: k.

Ltac peel H :=
  repeat match type of H with
         | _ :: _ = _ :: _ =>
             let E := fresh "E" in
             assert (E := f_equal (@hd N 0) H); simpl in E;
             apply (f_equal (@tl N)) in H; simpl in H;
             try apply b2n_inj in E; subst
         end.

Lemma key2_inj : forall x y, key2 x = key2 y -> x = y.
Proof.
  intros [? ? ? ? ? ? ? ? ? ? ? [? ? ? ? ? ? ? ? ? ?] [? ? ? ? ? ? ? ? ? ?]]
         [? ? ? ? ? ? ? ? ? ? ? [? ? ? ? ? ? ? ? ? ?] [? ? ? ? ? ? ? ? ? ?]] H.
  unfold key2, key_sk in H. simpl in H. peel H. reflexivity.
Qed.
Lemma hkey2_inj : forall x y, hkey2 x = hkey2 y -> x = y.
Proof. intros x y H. apply key2_inj. apply (f_equal (@tl N)) in H. exact H. Qed.

Definition reach_tree2 (ff : cfg2) : tree ctl2 (list N) :=
  bfs (cstep2 ff) all_acts2 hkey2 lcmp 400 [cinit2] (tins hkey2 lcmp cinit2 Leaf).

(** per socket: at most once; never without connecting; exactly once at quiescence once its end
    began; nothing left at quiescence after the connection's / the namespace's end *)
Definition end_begun2 (s : ctl2) (k : sk) : bool := negb (o k =? Fresh) || negb (e_once2 s =? Fresh).
Definition p_sock (ff : cfg2) (s : ctl2) (k : sk) : bool :=
  (nd k <=? 1) && (ndg k <=? 1)
  && implb' (negb (ever k)) ((nd k =? 0) && (ndg k =? 0))
  && implb' (nd k =? 1) ((ndg k =? 1) && (o k =? Done) && negb (conn k))
  && implb' (quiescent2 ff s && ever k && end_begun2 s k) ((nd k =? 1) && (ndg k =? 1))
  && implb' (quiescent2 ff s && (e_once2 s =? Done)) (sk_clean k && negb (store2 s))
  && implb' (quiescent2 ff s && (o k =? Done)) (sk_clean k).
Definition p_all2 (ff : cfg2) (s : ctl2) : bool := p_sock ff s (skA s) && p_sock ff s (skB s).

Definition reach_ok_of2 (ff : cfg2) (t : tree ctl2 (list N)) : bool :=
  closedb (cstep2 ff) all_acts2 hkey2 lcmp leqb t && tmem hkey2 lcmp cinit2 t && forallb (p_all2 ff) (telems t).

Lemma reach_ok_of2_split ff t :
  reach_ok_of2 ff t = true ->
  closedb (cstep2 ff) all_acts2 hkey2 lcmp leqb t = true /\ tmem hkey2 lcmp cinit2 t = true
  /\ forallb (p_all2 ff) (telems t) = true.
Proof.
  unfold reach_ok_of2. intros H. apply andb_true_iff in H as [H HP]. apply andb_true_iff in H as [HC H0]. auto.
Qed.

(** two namespaces, and two sockets of one namespace (overlapping duplicate CONNECT) *)
Lemma reach_ok_code2 : reach_ok_of2 (code2 false) (reach_tree2 (code2 false)) = true.
Proof. vm_compute. reflexivity. Qed.
Lemma reach_ok_code2_same : reach_ok_of2 (code2 true) (reach_tree2 (code2 true)) = true.
Proof. vm_compute. reflexivity. Qed.

Global Opaque reach_tree2.
