(** C18 - the removal loop of store.go BEFORE the `fix:` commit c50f8fc (what the reverse patch
    seeded/C18-off-range-alias restores), with Go's slice aliasing made explicit:

      for i, h := range e.funcs {            // header (length n0, backing array) evaluated once;
        for _, _h := range handler {         // element i is read from the LIVE backing array
          if h == _h { e.funcs = remove(e.funcs, i) }
        }
      }
      remove(s, i) = append(s[:i], s[i+1:]...)   // panics when i+1 > len(s); shifts the tail down
                                                 // in place; the old last cell keeps its value

    Kept only to record, as theorems, why that code violated the property.  The current code is
    modelled in HandlerStore.v. *)
From SioV Require Import Base.GoSem Sio.HandlerStore.

Section Orig.
  Variable A : Type.
  Variable same : A -> A -> bool.

  (** A slice: backing cells and a length ([length arr] is the capacity). *)
  Record slice := mkSlice { arr : list A; len : nat }.

  (** remove(s, i) *)
  Definition remove_at (s : slice) (i : nat) : res slice :=
    if Nat.ltb (len s) (i + 1) then Panic
    else Ok (mkSlice (firstn i (arr s) ++ firstn (len s - (i + 1)) (skipn (i + 1) (arr s))
                      ++ skipn (len s - 1) (arr s))
                     (len s - 1)).

  (** inner loop over the candidates for the element value [h] read at index [i] *)
  Fixpoint inner (s : slice) (i : nat) (h : A) (hs : list A) : res slice :=
    match hs with
    | [] => Ok s
    | c :: hs' =>
        if same c h then rbind (remove_at s i) (fun s' => inner s' i h hs')
        else inner s i h hs'
    end.

  (** outer loop: indexes i, i+1, ..., n0-1 *)
  Fixpoint outer (s : slice) (i : nat) (todo : nat) (hs : list A) : res slice :=
    match todo with
    | O => Ok s
    | S todo' =>
        match nth_error (arr s) i with
        | None => Panic
        | Some h => rbind (inner s i h hs) (fun s' => outer s' (S i) todo' hs)
        end
    end.

  Definition off_orig (l hs : list A) : res (list A) :=
    rbind (outer (mkSlice l (length l)) 0 (length l) hs)
          (fun s => Ok (firstn (len s) (arr s))).
End Orig.

(** The three inputs of the defect, replayed on the old code by the reverse patch:
    [A,A] off(A) panics; [A,B,C] off(A,B) leaves B registered; [A,B,C] off(A,C) panics -
    while the repaired [remove] gives [], [C], [B]. *)
Example orig_dup_panics : off_orig N N.eqb [1; 1]%N [1]%N = Panic.
Proof. vm_compute. reflexivity. Qed.
Example orig_multi_leaves_named : off_orig N N.eqb [1; 2; 3]%N [1; 2]%N = Ok [2; 3]%N.
Proof. vm_compute. reflexivity. Qed.
Example orig_multi_panics : off_orig N N.eqb [1; 2; 3]%N [1; 3]%N = Panic.
Proof. vm_compute. reflexivity. Qed.
Example orig_single_fine : off_orig N N.eqb [1; 2; 3]%N [2]%N = Ok [1; 3]%N.
Proof. vm_compute. reflexivity. Qed.

Lemma orig_off_not_exact :
  (exists l hs, off_orig N N.eqb l hs = Panic)
  /\ (exists l hs l', off_orig N N.eqb l hs = Ok l' /\ l' <> remove N N.eqb hs l).
Proof.
  split.
  - exists [1; 1]%N, [1]%N. vm_compute. reflexivity.
  - exists [1; 2; 3]%N, [1; 2]%N, [2; 3]%N. split; vm_compute; [reflexivity|discriminate].
Qed.
