(** Executable comparison and oracle for the live reconnect rig (kernel evaluation).
    The manager invokes the handlers of one event on a goroutine of their own, so the order in which
    handlers of DIFFERENT events are entered is up to the scheduler.  The rig therefore cuts the
    recording at its own actions (it waits for quiescence before each) and each segment is compared
    as counts per event kind plus the sorted attempt / reconnect numbers. *)
From SioV Require Import Base.GoSem Sio.Backoff Sio.Reconnect.
Local Open Scope Z_scope.

(** what the rig saw in one segment:
    opens errors closes reconnect_errors reconnect_faileds, attempt numbers (sorted),
    reconnect numbers (sorted), for each dial of a reconnect attempt the time (ns) since the
    previous dial / the cut of the connection *)
Definition segobs := (Z * Z * Z * Z * Z * list Z * list Z * list Z)%type.
(** a segment: the rig's action and the dial outcomes that followed, and the observation *)
Definition segment := (list input * segobs)%type.
(** limit, no_reconnection, min, max, jitter 0.5 on?, segments *)
Definition rcase := (Z * bool * Z * Z * bool * list segment)%type.

Fixpoint insert (x : Z) (l : list Z) : list Z :=
  match l with [] => [x] | y :: l' => if x <=? y then x :: l else y :: insert x l' end.
Definition sortZ (l : list Z) : list Z := fold_right insert [] l.

Definition zcount (f : ev -> bool) (l : list ev) : Z := Z.of_nat (count f l).

Definition project (es : list ev) : Z * Z * Z * Z * Z * list Z * list Z :=
  (zcount (fun e => match e with EOpen => true | _ => false end) es,
   zcount (fun e => match e with EError => true | _ => false end) es,
   zcount (fun e => match e with EClose => true | _ => false end) es,
   zcount is_rerror es, zcount is_failed es,
   sortZ (flat_map (fun e => match e with EAttempt n _ => [n] | _ => [] end) es),
   sortZ (flat_map (fun e => match e with EReconnect n => [n] | _ => [] end) es)).

Definition obs_eqb (a : Z * Z * Z * Z * Z * list Z * list Z) (o : segobs) : bool :=
  let '(o1, e1, c1, r1, f1, a1, n1) := a in
  let '(o2, e2, c2, r2, f2, a2, n2, _) := o in
  (o1 =? o2) && (e1 =? e2) && (c1 =? c2) && (r1 =? r2) && (f1 =? f2)
  && list_eqb Z.eqb a1 (sortZ a2) && list_eqb Z.eqb n1 (sortZ n2).

Fixpoint agree_segs (c : mcfg) (s : mst) (segs : list segment) : bool :=
  match segs with
  | [] => true
  | (ins, obs) :: segs' =>
      let '(es, s') := mrun c s ins in
      obs_eqb (project es) obs && agree_segs c s' segs'
  end.

Definition agree (rc : rcase) : bool :=
  let '(lim, norec, mn, mx, _, segs) := rc in
  agree_segs (mkCfg lim norec mn mx) minit segs.

(** Lower bound of the delay before attempt [k] (counter k-1): exact without jitter; with
    randomization factor 0.5 the deviation is at most half of the value. *)
Definition delay_lb (mn mx : Z) (jitter : bool) (k : Z) : Z :=
  let d := duration mn mx (k - 1) 0 None in
  if jitter then Z.min (mn * 2 ^ (k - 1) / 2 - 1) mx else d.

Fixpoint gaps_ok (mn mx : Z) (jitter : bool) (k : Z) (gaps : list Z) : bool :=
  match gaps with
  | [] => true
  | g :: gaps' => (delay_lb mn mx jitter k <=? g) && gaps_ok mn mx jitter (k + 1) gaps'
  end.

Fixpoint iota (k : Z) (n : nat) : list Z := match n with O => [] | S n' => k :: iota (k + 1) n' end.

Definition dial_oks (ins : list input) : list bool :=
  flat_map (fun i => match i with IDial ok _ _ => [ok] | _ => [] end) ins.
Definition is_open_seg (ins : list input) : bool := match ins with IOpen :: _ => true | _ => false end.
Definition is_drop_seg (ins : list input) : bool := match ins with IDrop :: _ => true | _ => false end.

(** The property on one observed segment (the script tells what the server did). *)
Definition seg_oracle (lim : Z) (norec : bool) (mn mx : Z) (jitter : bool) (sg : segment) : bool :=
  let '(ins, (opens, errors, closes, rerrs, faileds, atts, recs, gaps)) := sg in
  let a := Z.of_nat (length atts) in
  let dials := dial_oks ins in
  (* the dials that are reconnection attempts: all but the dial of Open() itself *)
  let rdials := if is_open_seg ins then tl dials else dials in
  let first_open_failed := is_open_seg ins && match dials with false :: _ => true | _ => false end in
  let looping := negb norec && (is_drop_seg ins || first_open_failed) in
  (* attempts are numbered 1, 2, ... from the start of every outage *)
  list_eqb Z.eqb (sortZ atts) (iota 1 (length atts))
  (* never more attempts than the limit; no attempts with reconnection disabled or outside an outage *)
  && (if 0 <? lim then a <=? lim else true)
  && (if looping then true else (a =? 0) && (faileds =? 0))
  (* reconnect_failed at most once, only after exactly [limit] attempts that all failed *)
  && (faileds <=? 1)
  && (if faileds =? 1 then (0 <? lim) && (a =? lim) && (rerrs =? lim) && (length recs =? 0)%nat else true)
  (* reconnect at most once, carrying the number of the attempt that succeeded *)
  && (match recs with
      | [] => rerrs =? a
      | [n] => (n =? a) && (rerrs =? a - 1)
      | _ => false
      end)
  (* completeness against what the server did: an outage of >= limit failed dials is given up ... *)
  && (if looping && (0 <? lim) && (Z.of_nat (length rdials) >=? lim) && forallb negb (firstn (Z.to_nat lim) rdials)
      then faileds =? 1 else true)
  (* ... and a reachable server within the limit is reconnected to *)
  && (if looping && existsb (fun b => b) rdials && ((lim =? 0) || (Z.of_nat (length rdials) <=? lim))
      then (length recs =? 1)%nat && (opens =? 1) else true)
  (* every attempt was preceded by at least its back-off delay *)
  && gaps_ok mn mx jitter 1 gaps
  && (length gaps <=? length atts)%nat.

Definition oracle (rc : rcase) : bool :=
  let '(lim, norec, mn, mx, jitter, segs) := rc in
  forallb (seg_oracle lim norec mn mx jitter) segs.
