(** C12 - the admission invariant: for every schedule of any number of admission threads, what the
    namespace shows about a socket id is a function of how far that socket's own admission got. *)
From SioV Require Import Base.GoSem Sio.Middleware Sio.MiddlewareAdapterProofs.

Arguments add_all : simpl never.
Arguments delete_all : simpl never.
Arguments join_calls : simpl never.
Arguments set_add : simpl never.

(** * Where a thread is *)
Definition in_store_pc (p : pc) : bool :=
  match p with PConnTables | PJoinOwn | PSendConnect | PSetConnected | PSpawn | PAdmitted => true | _ => false end.
Definition own_joined_pc (p : pc) : bool :=
  match p with PSendConnect | PSetConnected | PSpawn | PAdmitted => true | _ => false end.
Definition connect_sent_pc (p : pc) : bool :=
  match p with PSetConnected | PSpawn | PAdmitted => true | _ => false end.
Definition connected_pc (p : pc) : bool :=
  match p with PSpawn | PAdmitted => true | _ => false end.
Definition spawned_pc (p : pc) : bool :=
  match p with PAdmitted => true | _ => false end.
Definition tables_pc (p : pc) : bool :=
  match p with PJoinOwn | PSendConnect | PSetConnected | PSpawn | PAdmitted => true | _ => false end.
Definition cleaned_pc (p : pc) : bool := match p with PSendError _ | PRejected _ => true | _ => false end.
Definition disabled_pc (p : pc) : bool :=
  match p with PLeave _ | PSendError _ | PRejected _ => true | _ => false end.

Definition acc_prefix (c : list mwb) (i : nat) : Prop := Forall (fun b => accepts b = true) (firstn i c).
Definition rejected_at (c : list mwb) (j : nat) (r : rej) : Prop :=
  exists b, nth_error c j = Some b /\ mb_verdict b = Reject r /\ acc_prefix c j.

Definition pc_ok (sk : bool) (c : list mwb) (p : pc) (calls : list nat) : Prop :=
  match p with
  | PNew => calls = []
  | PMw i => (i <= length c)%nat /\ acc_prefix c i /\ calls = seq 0 i
  | PDisable r | PLeave r | PSendError r | PRejected r => exists j, rejected_at c j r /\ calls = seq 0 (S j)
  | _ => (sk = true /\ calls = []) \/ (acc_prefix c (length c) /\ calls = seq 0 (length c))
  end.

(** the socket is in its own room: joined by onConnect, or - a restored session - at creation *)
Definition own_in (t : adm) : bool :=
  own_joined_pc (t_pc t) || (restored t && match t_pc t with PNew => false | _ => true end).

Definition expected_packets (x : sid) (p : pc) : list pkt :=
  match p with
  | PRejected r => [PktConnectError (rej_message r)]
  | _ => if connect_sent_pc p then [PktConnect x] else []
  end.

Record tinv (s : server) (t : adm) : Prop := mkTinv {
  i_store : In (t_sid t) (store s) <-> in_store_pc (t_pc t) = true;
  i_flag : In (t_sid t) (conn_flag s) <-> connected_pc (t_pc t) = true;
  i_tables : (exists c, In (c, t_sid t) (c_socks s)) <-> tables_pc (t_pc t) = true;
  i_rooms : forall r, In r (rooms_of (adp s) (t_sid t)) ->
              (r = ROwn (t_sid t) /\ own_in t = true) \/ exists n, r = RNamed n;
  i_own : own_joined_pc (t_pc t) = true -> In (ROwn (t_sid t)) (rooms_of (adp s) (t_sid t));
  i_clean : cleaned_pc (t_pc t) = true -> mget N.eqb (t_sid t) (a_sids (adp s)) = None;
  i_chain : pc_ok (skipped t) (t_chain t) (t_pc t) (mw_calls (t_sid t) (trace s));
  i_pkts : packets (t_sid t) (trace s) = expected_packets (t_sid t) (t_pc t);
  i_h : handler_runs (t_sid t) (trace s) = match t_h t with HRan => 1%nat | _ => 0%nat end;
  i_hpc : t_h t <> HNone <-> spawned_pc (t_pc t) = true;
  i_jen : t_jen t = negb (disabled_pc (t_pc t));
  i_held : disabled_pc (t_pc t) = true -> held t = false
}.

(** * Frame: a step of another socket's thread changes nothing of what is said about x *)
Definition same_for (x : sid) (s s' : server) : Prop :=
  (In x (store s') <-> In x (store s)) /\
  (In x (conn_flag s') <-> In x (conn_flag s)) /\
  ((exists c, In (c, x) (c_socks s')) <-> (exists c, In (c, x) (c_socks s))) /\
  mget N.eqb x (a_sids (adp s')) = mget N.eqb x (a_sids (adp s)) /\
  mw_calls x (trace s') = mw_calls x (trace s) /\
  packets x (trace s') = packets x (trace s) /\
  handler_runs x (trace s') = handler_runs x (trace s).

Lemma same_for_refl : forall x s, same_for x s s.
Proof. intros; unfold same_for; intuition. Qed.

Lemma tinv_frame : forall s s' u, same_for (t_sid u) s s' -> tinv s u -> tinv s' u.
Proof.
  intros s s' u (F1 & F2 & F3 & F4 & F5 & F6 & F7) [I1 I2 I3 I4 I5 I6 I7 I8 I9 I10 I11 I12].
  assert (rooms_of (adp s') (t_sid u) = rooms_of (adp s) (t_sid u)) as R by (unfold rooms_of; now rewrite F4).
  constructor; rewrite ?R, ?F4, ?F5, ?F6, ?F7; auto; try tauto.
Qed.

(** trace projections *)
Lemma mw_calls_snoc : forall x tr o,
  mw_calls x (tr ++ [o]) = mw_calls x tr ++ match o with OMw y i => if N.eqb x y then [i] else [] | _ => [] end.
Proof. intros. unfold mw_calls. rewrite flat_map_app. simpl. now rewrite app_nil_r. Qed.

Lemma packets_snoc : forall x tr o,
  packets x (tr ++ [o]) = packets x tr ++ match o with OPkt y p => if N.eqb x y then [p] else [] | _ => [] end.
Proof. intros. unfold packets. rewrite flat_map_app. simpl. now rewrite app_nil_r. Qed.

Lemma handler_runs_snoc : forall x tr o,
  handler_runs x (tr ++ [o]) =
  (handler_runs x tr + match o with OHandler y => if N.eqb x y then 1 else 0 | _ => 0 end)%nat.
Proof.
  intros. unfold handler_runs. rewrite filter_app, app_length. f_equal. simpl.
  destruct o; simpl; auto. destruct (N.eqb x s); auto.
Qed.

Lemma set_add_N_In : forall x y l, In y (set_add N.eqb x l) <-> y = x \/ In y l.
Proof. apply (set_add_In N.eqb N.eqb_eq). Qed.

(** the Join calls of one middleware *)
Lemma join_calls_sids_other : forall sd calls a x, x <> sd ->
  mget N.eqb x (a_sids (join_calls sd calls a)) = mget N.eqb x (a_sids a).
Proof.
  unfold join_calls. induction calls as [|c calls IH]; intros a x NE; cbn [fold_left]; auto.
  rewrite IH by auto. cbv beta. apply add_all_sids_other; auto.
Qed.

Lemma join_calls_rooms_of : forall sd calls a r,
  In r (rooms_of (join_calls sd calls a) sd) -> In r (rooms_of a sd) \/ exists n, r = RNamed n.
Proof.
  unfold join_calls. induction calls as [|c calls IH]; intros a r H; cbn [fold_left] in *; auto.
  apply IH in H as [H|H]; auto. cbv beta in H. apply add_all_rooms_of in H as [H|[_ H]]; auto.
  apply in_map_iff in H as (n & <- & _). eauto.
Qed.

Lemma join_calls_consistent : forall sd calls a, consistent a -> consistent (join_calls sd calls a).
Proof.
  unfold join_calls. induction calls as [|c calls IH]; intros a C; cbn [fold_left]; auto.
  apply IH. cbv beta. apply add_all_consistent, C.
Qed.

Opaque add_all delete_all join_calls set_add.

Ltac neqb :=
  repeat match goal with
  | H : ?x <> ?y |- context [N.eqb ?x ?y] => rewrite (proj2 (N.eqb_neq x y) H)
  | H : ?y <> ?x |- context [N.eqb ?x ?y] => rewrite (proj2 (N.eqb_neq x y) (not_eq_sym H))
  end.

Ltac brk :=
  repeat (match goal with
          | |- context [existsb is_hold ?js] => destruct (existsb is_hold js) eqn:?HD
          | |- context [nonempty ?l] => destruct (nonempty l)
          | |- context [match nth_error ?c ?i with _ => _ end] => destruct (nth_error c i) as [?b|] eqn:?NTH
          | |- context [match mb_verdict ?b with _ => _ end] => destruct (mb_verdict b) eqn:?V
          end; simpl).

Ltac frame_tac :=
  try apply same_for_refl; unfold same_for; simpl;
  rewrite ?join_calls_sids_other, ?delete_all_sids_other, ?add_all_sids_other, ?mw_calls_snoc,
          ?packets_snoc, ?handler_runs_snoc, ?set_add_N_In by auto;
  simpl; neqb; rewrite ?app_nil_r, ?Nat.add_0_r; try (intuition; fail).

Lemma step_main_frame : forall t s x, x <> t_sid t -> same_for x s (snd (step_main t s)).
Proof.
  intros [sd cn ch p h je js rc um] s x NE. simpl in NE. unfold step_main, held; simpl.
  destruct rc as [rooms|]; destruct um; destruct p; simpl; brk; destruct je; simpl; frame_tac.
  all: repeat split; auto; try tauto.
  all: try (intros (c & H); apply in_app_or in H as [H|[H|[]]]; eauto; inversion H; subst; contradiction).
  all: try (intros (c & H); exists c; apply in_or_app; auto).
Qed.

Lemma step_h_frame : forall t s x, x <> t_sid t -> same_for x s (snd (step_h t s)).
Proof.
  intros [sd cn ch p h je js rc um] s x NE. simpl in NE. unfold step_h; simpl.
  destruct h; simpl; frame_tac.
Qed.

Lemma step_join_frame : forall j t s x, x <> t_sid t -> same_for x s (snd (step_join j t s)).
Proof.
  intros j [sd cn ch p h je js rc um] s x NE. simpl in NE. unfold step_join, held; simpl.
  destruct (nth_error js j) as [[rs [| |]]|]; simpl; brk; try destruct je; simpl; frame_tac.
Qed.

Lemma step_main_static : forall t s,
  t_sid (fst (step_main t s)) = t_sid t /\ t_conn (fst (step_main t s)) = t_conn t /\
  t_chain (fst (step_main t s)) = t_chain t.
Proof.
  intros [sd cn ch p h je js rc um] s. unfold step_main, held; simpl.
  destruct rc as [rooms|]; destruct um; destruct p; simpl; brk; auto.
Qed.

Lemma step_h_static : forall t s,
  t_sid (fst (step_h t s)) = t_sid t /\ t_conn (fst (step_h t s)) = t_conn t /\
  t_chain (fst (step_h t s)) = t_chain t.
Proof. intros [sd cn ch p h je js rc um] s. unfold step_h; simpl. destruct h; simpl; auto. Qed.

Lemma step_join_static : forall j t s,
  t_sid (fst (step_join j t s)) = t_sid t /\ t_conn (fst (step_join j t s)) = t_conn t /\
  t_chain (fst (step_join j t s)) = t_chain t.
Proof.
  intros j [sd cn ch p h je js rc um] s. unfold step_join, held; simpl.
  destruct (nth_error js j) as [[rs [| |]]|]; simpl; brk; try destruct je; simpl; auto.
Qed.

Lemma step_main_consistent : forall t s, consistent (adp s) -> consistent (adp (snd (step_main t s))).
Proof.
  intros [sd cn ch p h je js rc um] s C. unfold step_main, held; simpl.
  destruct rc as [rooms|]; destruct um; destruct p; simpl; brk; destruct je; simpl; auto;
    try apply join_calls_consistent; try apply delete_all_consistent; try apply add_all_consistent; auto.
Qed.

Lemma step_h_consistent : forall t s, consistent (adp s) -> consistent (adp (snd (step_h t s))).
Proof. intros [sd cn ch p h je js rc um] s C. unfold step_h; simpl. destruct h; simpl; auto. Qed.

Lemma step_join_consistent : forall j t s, consistent (adp s) -> consistent (adp (snd (step_join j t s))).
Proof.
  intros j [sd cn ch p h je js rc um] s C. unfold step_join, held; simpl.
  destruct (nth_error js j) as [[rs [| |]]|]; simpl; brk; try destruct je; simpl; auto.
  all: try (apply add_all_consistent, C).
Qed.

(** * A thread's own step re-establishes its invariant *)
Lemma acc_prefix_S : forall c i b, nth_error c i = Some b -> accepts b = true -> acc_prefix c i -> acc_prefix c (S i).
Proof.
  unfold acc_prefix. induction c as [|a c IH]; intros [|i] b N A F; simpl in *; try discriminate.
  - inversion N; subst. constructor; auto.
  - inversion F; subst. constructor; auto. eapply IH; eauto.
Qed.

Lemma nth_error_None_len : forall {A} (l : list A) i, nth_error l i = None -> (i <= length l)%nat -> i = length l.
Proof. intros A l i H L. apply nth_error_None in H. lia. Qed.

Lemma seq0_snoc : forall i, seq 0 i ++ [i] = 0%nat :: seq 1 i.
Proof. intros. change (0%nat :: seq 1 i) with (seq 0 (S i)). rewrite seq_S. reflexivity. Qed.

Ltac fin :=
  simpl in *;
  rewrite ?mw_calls_snoc, ?packets_snoc, ?handler_runs_snoc, ?N.eqb_refl, ?app_nil_r, ?Nat.add_0_r,
          ?set_add_N_In in *;
  simpl in *; auto; try tauto; try (intuition congruence).

Lemma step_main_own : forall t s, tinv s t -> tinv (snd (step_main t s)) (fst (step_main t s)).
Proof.
  intros [sd cn ch p h je js rc um] s [I1 I2 I3 I4 I5 I6 I7 I8 I9 I10 I11 I12]. simpl in *.
  unfold step_main, held, own_in, skipped, restored in *; simpl in *.
  destruct rc as [rooms|]; destruct um; destruct p; simpl in *; subst je; simpl; brk;
    try (constructor; fin; fail).
  all: constructor; fin.
  (* a restored session joins its rooms (own room included) when the socket is created *)
  all: try solve [intros r0 H0; unfold own_in, restored; simpl;
                  apply add_all_rooms_of in H0 as [H0|[_ [H0|H0]]];
                  [destruct (I4 r0 H0) as [[E F]|N]; [try discriminate; left; split; auto | auto]
                  | left; split; auto
                  | right; apply in_map_iff in H0 as (n & <- & _); eauto]].
  all: try solve [repeat split; [lia | constructor | rewrite I7; reflexivity]].
  (* rooms after the middleware's own Join calls: still named rooms only *)
  all: try solve [intros r0 H0; apply join_calls_rooms_of in H0 as [H0|H0]; auto].
  (* chain bookkeeping *)
  all: try solve [destruct I7 as (L & AP & CALLS);
                  match goal with NTH : nth_error ?c ?i = Some ?b, V : mb_verdict ?b = Accept |- _ =>
                    assert (i < length c)%nat by (apply nth_error_Some; congruence);
                    repeat split; try lia;
                    [eapply acc_prefix_S; eauto; unfold accepts; now rewrite V
                    |rewrite CALLS; apply seq0_snoc] end].
  all: try solve [destruct I7 as (L & AP & CALLS);
                  match goal with NTH : nth_error ?c ?i = Some ?b, V : mb_verdict ?b = Reject ?r |- _ =>
                    exists i; split; [exists b; auto | rewrite CALLS; apply seq0_snoc] end].
  all: try solve [destruct I7 as (L & AP & CALLS);
                  match goal with NTH : nth_error ?c ?i = None |- _ =>
                    assert (i = length c) as -> by (apply nth_error_None_len; auto); auto end].
  (* cleanup *)
  all: try solve [intros r0 H0; unfold rooms_of in H0; rewrite delete_all_sids_same in H0; destruct H0].
  all: try solve [intros _; apply delete_all_sids_same].
  (* packets *)
  all: try solve [rewrite I8; reflexivity].
  (* connection tables *)
  all: try solve [split; auto; intros _; eexists; apply in_or_app; right; left; reflexivity].
  (* own room *)
  all: try solve [intros r0 H0; unfold own_in, restored; simpl;
                  apply add_all_rooms_of in H0 as [H0|[_ [H0|[]]]];
                  [destruct (I4 r0 H0) as [[E F]|N]; [left; split; auto|auto]
                  | subst r0; left; split; auto]].
  all: try solve [intros _; apply add_all_rooms_of; right; split; auto; left; auto].
  (* handler goroutine not started yet *)
  all: try solve [rewrite I9; destruct h; auto; exfalso; assert (HRan <> HNone) as X by discriminate;
                  apply I10 in X; discriminate].
Qed.

Lemma step_h_own : forall t s, tinv s t -> tinv (snd (step_h t s)) (fst (step_h t s)).
Proof.
  intros [sd cn ch p h je js rc um] s [I1 I2 I3 I4 I5 I6 I7 I8 I9 I10 I11 I12]. simpl in *.
  unfold step_h; simpl. destruct h; simpl; try (constructor; fin).
  rewrite I9. reflexivity.
Qed.

(** A Join goroutine's step: it lands in the adapter only while joins are enabled; once the
    clean-up has disabled joins no goroutine holds joinMu and later Joins are no-ops. *)
Lemma hold_at : forall js j rs, nth_error js j = Some (rs, JHold) -> existsb is_hold js = true.
Proof.
  intros js j rs H. apply existsb_exists. exists (rs, JHold). split; [eapply nth_error_In; eauto | reflexivity].
Qed.

Lemma existsb_upd_done : forall js j rs,
  existsb is_hold js = false -> existsb is_hold (upd_nth j (rs, JDone) js) = false.
Proof.
  induction js as [|a js IH]; intros [|j] rs H; simpl in *; auto.
  - apply orb_false_iff in H as [_ H]. exact H.
  - apply orb_false_iff in H as [H1 H2]. rewrite H1. simpl. auto.
Qed.

Lemma step_join_own : forall j t s, tinv s t -> tinv (snd (step_join j t s)) (fst (step_join j t s)).
Proof.
  intros j [sd cn ch p h je js rc um] s [I1 I2 I3 I4 I5 I6 I7 I8 I9 I10 I11 I12]. simpl in *.
  unfold step_join, held in *; simpl in *.
  destruct (nth_error js j) as [[rs [| |]]|] eqn:NJ; simpl; try (constructor; fin; fail).
  - (* entering Join *)
    destruct (existsb is_hold js) eqn:HD; simpl; [constructor; fin|].
    destruct je; simpl; constructor; fin.
    + intros D. rewrite D in I11. discriminate.
    + intros D. unfold held; simpl. apply existsb_upd_done; auto.
  - (* AddAll and return: only possible while joins are enabled *)
    pose proof (hold_at js j rs NJ) as HD.
    assert (disabled_pc p = false) as ND.
    { destruct (disabled_pc p) eqn:D; auto. rewrite (I12 eq_refl) in HD. discriminate. }
    constructor; fin.
    + intros r0 H0. apply add_all_rooms_of in H0 as [H0|[_ H0]]; auto.
      apply in_map_iff in H0 as (n & <- & _). eauto.
    + intros O. apply add_all_rooms_of. left. auto.
    + intros CL. destruct p; simpl in *; discriminate.
Qed.

(** * The global invariant and its preservation along every schedule *)
Definition ginv (st : sys) : Prop :=
  NoDup (map t_sid (snd st)) /\ consistent (adp (fst st)) /\ Forall (tinv (fst st)) (snd st).

Definition fresh (ts : list adm) : Prop :=
  NoDup (map t_sid ts) /\
  Forall (fun t => t_pc t = PNew /\ t_h t = HNone /\ t_jen t = true /\ t_js t = []) ts.

Lemma tinv_fresh : forall t, t_pc t = PNew -> t_h t = HNone -> t_jen t = true -> t_js t = [] -> tinv server0 t.
Proof.
  intros [sd cn ch p h je js rc um] P H J JS. simpl in *. subst.
  constructor; simpl; try tauto; try (intuition discriminate); auto.
  split; [intros (c & [])|discriminate].
Qed.

Lemma ginv_init : forall ts, fresh ts -> ginv (init ts).
Proof.
  intros ts [ND F]. unfold ginv, init; simpl. split; [auto|split].
  - apply consistent0.
  - eapply Forall_impl; [|exact F]. intros t (P & H & J & JS). now apply tinv_fresh.
Qed.

Lemma map_upd_nth_same : forall {A B} (f : A -> B) n x l y,
  nth_error l n = Some y -> f x = f y -> map f (upd_nth n x l) = map f l.
Proof.
  induction n as [|n IH]; intros x [|z l] y N E; simpl in *; try discriminate; auto.
  - inversion N; subst. now rewrite E.
  - f_equal. eapply IH; eauto.
Qed.

Lemma in_upd_nth : forall {A B} (f : A -> B) n x l y u,
  nth_error l n = Some y -> NoDup (map f l) -> In u (upd_nth n x l) ->
  u = x \/ (In u l /\ f u <> f y).
Proof.
  induction n as [|n IH]; intros x [|z l] y u N ND I; simpl in *; try discriminate.
  - inversion N; subst. destruct I as [<-|I]; auto. right. split; auto.
    inversion ND; subst. intros E. apply H1. rewrite <- E. now apply in_map.
  - inversion ND; subst. destruct I as [<-|I].
    + right. split; auto. intros E. apply H1. rewrite E. apply in_map. eapply nth_error_In; eauto.
    + destruct (IH x l y u N H2 I) as [->|[I' NE]]; auto.
Qed.

Lemma sys_step_ginv : forall st mv, ginv st -> ginv (sys_step st mv).
Proof.
  intros [s ts] [n w] (ND & C & F). unfold sys_step; simpl.
  destruct (nth_error ts n) as [t|] eqn:NTH; [|split; [auto|split; auto]].
  assert (In t ts) as INt by (eapply nth_error_In; eauto).
  assert (tinv s t) as Tt by (rewrite Forall_forall in F; auto).
  assert (forall t' s', t_sid t' = t_sid t -> consistent (adp s') -> tinv s' t' ->
            (forall x, x <> t_sid t -> same_for x s s') ->
            ginv (s', upd_nth n t' ts)) as K.
  { intros t' s' S1 C' OWN FR. unfold ginv; simpl. split; [|split; [auto|]].
    - erewrite map_upd_nth_same; eauto.
    - apply Forall_forall. intros u IU.
      destruct (in_upd_nth t_sid n t' ts t u NTH ND IU) as [->|[IU' NE]]; auto.
      eapply tinv_frame; [|rewrite Forall_forall in F; apply F; exact IU']. apply FR, NE. }
  destruct w as [| |j].
  - pose proof (step_main_own t s Tt) as OWN. pose proof (step_main_static t s) as (S1 & _ & _).
    pose proof (step_main_consistent t s C) as C'. pose proof (step_main_frame t s) as FR.
    destruct (step_main t s) as [t' s']. simpl in *. apply K; auto.
  - pose proof (step_h_own t s Tt) as OWN. pose proof (step_h_static t s) as (S1 & _ & _).
    pose proof (step_h_consistent t s C) as C'. pose proof (step_h_frame t s) as FR.
    destruct (step_h t s) as [t' s']. simpl in *. apply K; auto.
  - pose proof (step_join_own j t s Tt) as OWN. pose proof (step_join_static j t s) as (S1 & _ & _).
    pose proof (step_join_consistent j t s C) as C'. pose proof (step_join_frame j t s) as FR.
    destruct (step_join j t s) as [t' s']. simpl in *. apply K; auto.
Qed.

Lemma run_ginv : forall sched st, ginv st -> ginv (run sched st).
Proof.
  unfold run. induction sched as [|mv sched IH]; intros st G; simpl; auto.
  apply IH, sys_step_ginv, G.
Qed.

Theorem reachable_inv : forall ts0 sched s ts t,
  fresh ts0 -> run sched (init ts0) = (s, ts) -> In t ts -> consistent (adp s) /\ tinv s t.
Proof.
  intros ts0 sched s ts t FR RUN IN.
  pose proof (run_ginv sched (init ts0) (ginv_init ts0 FR)) as (ND & C & F).
  rewrite RUN in *. simpl in *. split; auto. rewrite Forall_forall in F. auto.
Qed.

(** Threads never change their socket id, connection or chain. *)
Definition t_static (t : adm) := (t_sid t, t_conn t, t_chain t).

Lemma sys_step_static : forall st mv, map t_static (snd (sys_step st mv)) = map t_static (snd st).
Proof.
  intros [s ts] [n w]. unfold sys_step; simpl.
  destruct (nth_error ts n) as [t|] eqn:NTH; auto.
  destruct w as [| |j].
  - pose proof (step_main_static t s) as (S1 & S2 & S3). destruct (step_main t s) as [t' s']. simpl in *.
    eapply map_upd_nth_same; eauto. unfold t_static. congruence.
  - pose proof (step_h_static t s) as (S1 & S2 & S3). destruct (step_h t s) as [t' s']. simpl in *.
    eapply map_upd_nth_same; eauto. unfold t_static. congruence.
  - pose proof (step_join_static j t s) as (S1 & S2 & S3). destruct (step_join j t s) as [t' s']. simpl in *.
    eapply map_upd_nth_same; eauto. unfold t_static. congruence.
Qed.

Lemma run_static : forall sched st, map t_static (snd (run sched st)) = map t_static (snd st).
Proof.
  unfold run. induction sched as [|mv sched IH]; intros st; simpl; auto.
  rewrite IH. apply sys_step_static.
Qed.

(** * The property *)

(** Anything by which a socket counts as connected: listed in the namespace, flagged connected,
    reached by some broadcast, its connection handlers ran, the client was sent CONNECT, entered in
    its connection's tables ([visible_core]); and membership of its own room ([visible]) - which a
    restored session has from its creation on, by design of connection state recovery. *)
Definition visible_core (s : server) (x : sid) : Prop :=
  In x (store s) \/ In x (conn_flag s)
  \/ (exists rooms ex, In x (targets (store s) (adp s) rooms ex))
  \/ (0 < handler_runs x (trace s))%nat
  \/ In (PktConnect x) (packets x (trace s))
  \/ (exists c, In (c, x) (c_socks s)).

Definition visible (s : server) (x : sid) : Prop :=
  visible_core s x \/ In x (members (adp s) (ROwn x)).

Definition passed_pc (p : pc) : bool :=
  match p with PNew | PMw _ | PDisable _ | PLeave _ | PSendError _ | PRejected _ => false | _ => true end.

Lemma visible_core_passed : forall s t, tinv s t -> visible_core s (t_sid t) -> passed_pc (t_pc t) = true.
Proof.
  intros s t [I1 I2 I3 I4 I5 I6 I7 I8 I9 I10 I11 I12] V.
  assert (in_store_pc (t_pc t) = true -> passed_pc (t_pc t) = true) as P1 by (destruct (t_pc t); simpl; auto).
  destruct V as [V|[V|[V|[V|[V|V]]]]].
  - apply P1, I1, V.
  - apply I2 in V. destruct (t_pc t); simpl in *; auto.
  - destruct V as (rooms & ex & V). apply targets_in_store in V. apply P1, I1, V.
  - rewrite I9 in V. destruct (t_h t) eqn:H; try lia.
    assert (HRan <> HNone) as X by discriminate. apply I10 in X. destruct (t_pc t); simpl in *; auto.
  - rewrite I8 in V. unfold expected_packets in V. destruct (t_pc t); simpl in *; auto;
      try (destruct V as [V|[]]; discriminate).
  - apply I3 in V. destruct (t_pc t); simpl in *; auto; discriminate.
Qed.

Lemma visible_passed : forall s t, consistent (adp s) -> tinv s t -> restored t = false ->
  visible s (t_sid t) -> passed_pc (t_pc t) = true.
Proof.
  intros s t C T NR [V|V]; [eapply visible_core_passed; eauto|].
  destruct T as [I1 I2 I3 I4 I5 I6 I7 I8 I9 I10 I11 I12].
  apply C in V. destruct (I4 _ V) as [[_ O]|[n E]]; [|discriminate].
  unfold own_in in O. rewrite NR in O. simpl in O. rewrite orb_false_r in O.
  destruct (t_pc t); simpl in *; auto; discriminate.
Qed.

Lemma passed_all_accept : forall s t, tinv s t -> passed_pc (t_pc t) = true ->
  (skipped t = true /\ mw_calls (t_sid t) (trace s) = []) \/
  (mw_calls (t_sid t) (trace s) = seq 0 (length (t_chain t)) /\
   Forall (fun b => accepts b = true) (t_chain t)).
Proof.
  intros s t [I1 I2 I3 I4 I5 I6 I7 I8 I9 I10 I11 I12] P.
  destruct (t_pc t); simpl in *; try discriminate;
    (destruct I7 as [SK|[A CALLS]]; [left; exact SK | right; unfold acc_prefix in A; rewrite firstn_all in A; auto]).
Qed.

Lemma skipped_restored : forall t, restored t = false -> skipped t = false.
Proof. intros t H. unfold skipped. now rewrite H. Qed.

(** A socket that is not a restored session: visible in any way (own room included) only after
    every middleware ran once, in order, and accepted. *)
Lemma connected_only_after_all_accept : forall ts0 sched s ts t,
  fresh ts0 -> run sched (init ts0) = (s, ts) -> In t ts ->
  restored t = false ->
  visible s (t_sid t) ->
  mw_calls (t_sid t) (trace s) = seq 0 (length (t_chain t)) /\
  Forall (fun b => accepts b = true) (t_chain t).
Proof.
  intros ts0 sched s ts t FR RUN IN NR V.
  destruct (reachable_inv ts0 sched s ts t FR RUN IN) as [C T].
  assert (passed_pc (t_pc t) = true) as P by (eapply visible_passed; eauto).
  destruct (passed_all_accept s t T P) as [[SK _]|R]; auto.
  rewrite (skipped_restored t NR) in SK. discriminate.
Qed.

(** Any socket: connected only after every middleware accepted - unless it is a session the
    adapter really restored and UseMiddlewares is off (then, and only then, no middleware runs). *)
Lemma connected_only_after_all_accept_or_restored : forall ts0 sched s ts t,
  fresh ts0 -> run sched (init ts0) = (s, ts) -> In t ts ->
  visible_core s (t_sid t) ->
  (restored t = true /\ t_usemw t = false /\ mw_calls (t_sid t) (trace s) = []) \/
  (mw_calls (t_sid t) (trace s) = seq 0 (length (t_chain t)) /\
   Forall (fun b => accepts b = true) (t_chain t)).
Proof.
  intros ts0 sched s ts t FR RUN IN V.
  destruct (reachable_inv ts0 sched s ts t FR RUN IN) as [C T].
  assert (passed_pc (t_pc t) = true) as P by (eapply visible_core_passed; eauto).
  destruct (passed_all_accept s t T P) as [[SK CALLS]|R]; auto.
  left. unfold skipped in SK. apply andb_true_iff in SK as [R U].
  repeat split; auto. now apply negb_true_iff in U.
Qed.

(** first rejection *)
Lemma acc_prefix_nth : forall c i j b, acc_prefix c i -> nth_error c j = Some b -> (j < i)%nat -> accepts b = true.
Proof.
  unfold acc_prefix. induction c as [|a c IH]; intros i j b A N L.
  - destruct j; discriminate.
  - destruct i; [lia|]. simpl in A. inversion A; subst. destruct j; simpl in N.
    + inversion N; subst; auto.
    + eapply IH; eauto. lia.
Qed.

Lemma rejected_at_unique : forall c j b j' r,
  nth_error c j = Some b -> accepts b = false -> acc_prefix c j -> rejected_at c j' r ->
  j' = j /\ mb_verdict b = Reject r.
Proof.
  intros c j b j' r N NA A (b' & N' & V' & A').
  destruct (lt_eq_lt_dec j j') as [[L|E]|L].
  - pose proof (acc_prefix_nth c j' j b A' N L). congruence.
  - subst. split; auto. congruence.
  - pose proof (acc_prefix_nth c j j' b' A N' L) as X. unfold accepts in X. rewrite V' in X. discriminate.
Qed.

(** With the first rejecting middleware at index j: the calls are always a prefix of 0..j (none
    after j, none twice, in order). *)
Lemma first_rejection_stops : forall ts0 sched s ts t j b,
  fresh ts0 -> run sched (init ts0) = (s, ts) -> In t ts ->
  nth_error (t_chain t) j = Some b -> accepts b = false -> acc_prefix (t_chain t) j ->
  exists n, (n <= S j)%nat /\ mw_calls (t_sid t) (trace s) = seq 0 n.
Proof.
  intros ts0 sched s ts t j b FR RUN IN N NA A.
  destruct (reachable_inv ts0 sched s ts t FR RUN IN) as [C [I1 I2 I3 I4 I5 I6 I7 I8 I9 I10 I11 I12]].
  assert (forall r, (exists j', rejected_at (t_chain t) j' r /\ mw_calls (t_sid t) (trace s) = seq 0 (S j')) ->
          exists n, (n <= S j)%nat /\ mw_calls (t_sid t) (trace s) = seq 0 n) as R.
  { intros r (j' & RA & CALLS). destruct (rejected_at_unique _ _ _ _ _ N NA A RA) as [-> _]. eauto. }
  assert (acc_prefix (t_chain t) (length (t_chain t)) -> False) as P.
  { intros A'. assert (j < length (t_chain t))%nat as L by (apply nth_error_Some; congruence).
    pose proof (acc_prefix_nth _ _ _ _ A' N L). congruence. }
  assert (forall sk, ((sk = true /\ mw_calls (t_sid t) (trace s) = []) \/
                      (acc_prefix (t_chain t) (length (t_chain t)) /\
                       mw_calls (t_sid t) (trace s) = seq 0 (length (t_chain t)))) ->
          exists n, (n <= S j)%nat /\ mw_calls (t_sid t) (trace s) = seq 0 n) as Q.
  { intros sk [[_ E]|[A' _]]; [exists 0%nat; split; [lia|exact E] | destruct (P A')]. }
  destruct (t_pc t); simpl in I7; eauto; try (exists 0%nat; split; [lia|exact I7]; fail).
  destruct I7 as (L & A' & CALLS). exists i. split; auto.
  destruct (le_lt_dec i j); [lia|]. pose proof (acc_prefix_nth _ _ _ _ A' N l). congruence.
Qed.

(** CONNECT_ERROR: only for a rejected socket, carrying the first rejection, the only packet sent
    in answer to that CONNECT, and sent only after everything of the socket is gone. *)
Definition gone (s : server) (x : sid) : Prop :=
  ~ In x (store s) /\ socket_rooms (adp s) x = None /\ (forall r, ~ In x (members (adp s) r)) /\
  ~ In x (conn_flag s) /\ (forall c, ~ In (c, x) (c_socks s)) /\
  (forall rooms ex, ~ In x (targets (store s) (adp s) rooms ex)) /\
  handler_runs x (trace s) = 0%nat.

Lemma connect_error_carries_rejection : forall ts0 sched s ts t m,
  fresh ts0 -> run sched (init ts0) = (s, ts) -> In t ts ->
  In (PktConnectError m) (packets (t_sid t) (trace s)) ->
  (exists j b r, nth_error (t_chain t) j = Some b /\ mb_verdict b = Reject r /\
                 acc_prefix (t_chain t) j /\ m = rej_message r /\
                 mw_calls (t_sid t) (trace s) = seq 0 (S j)) /\
  packets (t_sid t) (trace s) = [PktConnectError m] /\
  gone s (t_sid t).
Proof.
  intros ts0 sched s ts t m FR RUN IN PK.
  destruct (reachable_inv ts0 sched s ts t FR RUN IN) as [C [I1 I2 I3 I4 I5 I6 I7 I8 I9 I10 I11 I12]].
  rewrite I8 in PK. unfold expected_packets in PK.
  destruct (t_pc t) eqn:PC; simpl in *; try (destruct PK as [PK|[]]; discriminate); try (destruct PK; fail).
  destruct PK as [PK|[]]. inversion PK; subst m.
  destruct I7 as (j & (b & N & V & A) & CALLS).
  split; [exists j, b, r; auto|]. split; [rewrite I8; reflexivity|].
  assert (~ In (t_sid t) (store s)) as NS by (intros X; apply I1 in X; discriminate).
  assert (rooms_of (adp s) (t_sid t) = []) as RO by (unfold rooms_of; rewrite I6; auto).
  unfold gone. repeat split.
  - exact NS.
  - unfold socket_rooms. apply I6; auto.
  - intros r0 X. apply C in X. rewrite RO in X. destruct X.
  - intros X; apply I2 in X; discriminate.
  - intros c X. assert (exists c, In (c, t_sid t) (c_socks s)) as E by eauto. apply I3 in E. discriminate.
  - intros rooms ex X. apply targets_in_store in X. contradiction.
  - rewrite I9. destruct (t_h t) eqn:H; auto. assert (HRan <> HNone) as X by discriminate.
    apply I10 in X. discriminate.
Qed.

(** A socket whose admission ended in a rejection has left nothing (and the state stays that way:
    the statement is about every later moment of every schedule). *)
Lemma rejected_leaves_nothing : forall ts0 sched s ts t r,
  fresh ts0 -> run sched (init ts0) = (s, ts) -> In t ts ->
  t_pc t = PRejected r \/ t_pc t = PSendError r ->
  gone s (t_sid t).
Proof.
  intros ts0 sched s ts t r FR RUN IN PC.
  destruct (reachable_inv ts0 sched s ts t FR RUN IN) as [C [I1 I2 I3 I4 I5 I6 I7 I8 I9 I10 I11 I12]].
  assert (cleaned_pc (t_pc t) = true) as CL by (destruct PC as [-> | ->]; reflexivity).
  assert (in_store_pc (t_pc t) = false /\ connected_pc (t_pc t) = false /\ tables_pc (t_pc t) = false
          /\ spawned_pc (t_pc t) = false) as (P1 & P2 & P3 & P4) by (destruct PC as [-> | ->]; auto).
  assert (~ In (t_sid t) (store s)) as NS by (intros X; apply I1 in X; congruence).
  assert (rooms_of (adp s) (t_sid t) = []) as RO by (unfold rooms_of; rewrite I6; auto).
  unfold gone. repeat split.
  - exact NS.
  - unfold socket_rooms. apply I6; auto.
  - intros r0 X. apply C in X. rewrite RO in X. destruct X.
  - intros X; apply I2 in X; congruence.
  - intros c X. assert (exists c, In (c, t_sid t) (c_socks s)) as E by eauto. apply I3 in E. congruence.
  - intros rooms ex X. apply targets_in_store in X. contradiction.
  - rewrite I9. destruct (t_h t) eqn:H; auto. assert (HRan <> HNone) as X by discriminate.
    apply I10 in X. congruence.
Qed.

(** While the chain is running the socket is not visible in any way (a restored session is in the
    rooms of its previous life, own room included, and nothing else). *)
Lemma invisible_during_chain : forall ts0 sched s ts t i,
  fresh ts0 -> run sched (init ts0) = (s, ts) -> In t ts ->
  t_pc t = PMw i ->
  ~ visible_core s (t_sid t) /\ (restored t = false -> ~ visible s (t_sid t)).
Proof.
  intros ts0 sched s ts t i FR RUN IN PC.
  destruct (reachable_inv ts0 sched s ts t FR RUN IN) as [C T]. split.
  - intros V. pose proof (visible_core_passed s t T V) as P. rewrite PC in P. discriminate.
  - intros NR V. pose proof (visible_passed s t C T NR V) as P. rewrite PC in P. discriminate.
Qed.

(** * Progress: an admission scheduled alone terminates, admitted or rejected *)
Definition mu (t : adm) : nat :=
  match t_pc t with
  | PNew => length (t_chain t) + 9
  | PMw i => (length (t_chain t) - i) + 8
  | PDisable _ => 3 | PLeave _ => 2 | PSendError _ => 1 | PRejected _ => 0
  | PStore => 6 | PConnTables => 5 | PJoinOwn => 4 | PSendConnect => 3 | PSetConnected => 2
  | PSpawn => 1 | PAdmitted => 0
  end.

(** While no Join goroutine holds joinMu the main line is never blocked; and the main line never
    makes a goroutine hold it (it only starts new ones). *)
Lemma existsb_hold_app_new : forall js rss,
  existsb is_hold (js ++ map (fun rs : list N => (rs, JNew)) rss) = existsb is_hold js.
Proof.
  induction js as [|a js IH]; intros rss; simpl.
  - induction rss; simpl; auto.
  - now rewrite IH.
Qed.

Lemma step_main_mu : forall t s, held t = false ->
  held (fst (step_main t s)) = false /\
  ((mu (fst (step_main t s)) < mu t)%nat \/ (mu t = 0%nat /\ fst (step_main t s) = t)).
Proof.
  intros [sd cn ch p h je js rc um] s HD. unfold step_main, mu, held in *; simpl in *. rewrite HD.
  destruct p; simpl; rewrite ?HD; simpl; auto; try (split; [auto|left; lia]).
  - destruct rc; destruct um; simpl; (split; [auto|left; lia]).
  - destruct (nth_error ch i) as [b|] eqn:N; simpl; [|split; [auto|left; lia]].
    assert (i < length ch)%nat by (apply nth_error_Some; congruence).
    destruct (mb_verdict b); simpl; rewrite existsb_hold_app_new; (split; [auto|left; lia]).
Qed.

Lemma nth_upd_nth : forall {A} n (x : A) l y, nth_error l n = Some y -> nth_error (upd_nth n x l) n = Some x.
Proof. induction n as [|n IH]; intros x [|z l] y N; simpl in *; try discriminate; eauto. Qed.

Lemma run_cons : forall mv sched st, run (mv :: sched) st = run sched (sys_step st mv).
Proof. reflexivity. Qed.

Lemma sys_step_main : forall s ts n t, nth_error ts n = Some t ->
  sys_step (s, ts) (n, WMain) = (snd (step_main t s), upd_nth n (fst (step_main t s)) ts).
Proof. intros. unfold sys_step; simpl. rewrite H. destruct (step_main t s); reflexivity. Qed.

Lemma run_alone_mu : forall k n s ts t, nth_error ts n = Some t -> held t = false -> (mu t <= k)%nat ->
  exists t', nth_error (snd (run (repeat (n, WMain) k) (s, ts))) n = Some t' /\ mu t' = 0%nat.
Proof.
  induction k as [|k IH]; intros n s ts t N HD M.
  - exists t. simpl. split; auto; lia.
  - cbn [repeat]. rewrite run_cons, (sys_step_main s ts n t N).
    pose proof (step_main_mu t s HD) as [HD1 MU].
    destruct (step_main t s) as [t1 s1] eqn:ST. simpl in *.
    assert (nth_error (upd_nth n t1 ts) n = Some t1) as N1 by (eapply nth_upd_nth; eauto).
    assert (mu t1 <= k)%nat as M1 by (destruct MU as [MU|[MU E]]; [lia | subst; lia]).
    destruct (IH n s1 (upd_nth n t1 ts) t1 N1 HD1 M1) as (t' & N' & Z).
    exists t'. split; auto.
Qed.

Lemma mu_zero_terminal : forall t, mu t = 0%nat -> t_pc t = PAdmitted \/ exists r, t_pc t = PRejected r.
Proof. intros [sd cn ch p h]. unfold mu; simpl. destruct p; simpl; intros; try lia; eauto. Qed.

Lemma admission_completes : forall n s ts t, nth_error ts n = Some t -> held t = false ->
  exists t', nth_error (snd (run (repeat (n, WMain) (length (t_chain t) + 9)) (s, ts))) n = Some t' /\
             (t_pc t' = PAdmitted \/ exists r, t_pc t' = PRejected r).
Proof.
  intros n s ts t N HD.
  assert (mu t <= length (t_chain t) + 9)%nat as M.
  { destruct t as [sd cn ch p h je js rc um]; unfold mu; simpl. destruct p; simpl; lia. }
  destruct (run_alone_mu _ n s ts t N HD M) as (t' & N' & Z).
  exists t'. split; auto. now apply mu_zero_terminal.
Qed.

(** A Join goroutine that holds joinMu releases it with its next step (so a blocked admission
    resumes as soon as the goroutine is scheduled). *)
Lemma join_releases : forall j t s rs, nth_error (t_js t) j = Some (rs, JHold) ->
  nth_error (t_js (fst (step_join j t s))) j = Some (rs, JDone).
Proof.
  intros j [sd cn ch p h je js rc um] s rs H. unfold step_join; simpl in *. rewrite H. simpl.
  eapply nth_upd_nth; eauto.
Qed.

(** What the terminal states mean, for every schedule (so in particular for the one above):
    admitted = every middleware accepted, ran once, in order, and the socket is fully connected;
    rejected = the chain stopped at the first rejection, CONNECT_ERROR carries it, nothing remains. *)
Lemma admitted_state : forall ts0 sched s ts t,
  fresh ts0 -> run sched (init ts0) = (s, ts) -> In t ts -> t_pc t = PAdmitted ->
  ((restored t = true /\ t_usemw t = false /\ mw_calls (t_sid t) (trace s) = []) \/
   (Forall (fun b => accepts b = true) (t_chain t) /\
    mw_calls (t_sid t) (trace s) = seq 0 (length (t_chain t)))) /\
  packets (t_sid t) (trace s) = [PktConnect (t_sid t)] /\
  In (t_sid t) (store s) /\ In (t_sid t) (conn_flag s) /\
  In (t_sid t) (members (adp s) (ROwn (t_sid t))) /\
  In (t_sid t, t_sid t) (map (fun p => (snd p, snd p)) (c_socks s)).
Proof.
  intros ts0 sched s ts t FR RUN IN PC.
  destruct (reachable_inv ts0 sched s ts t FR RUN IN) as [C T].
  assert (passed_pc (t_pc t) = true) as P by (rewrite PC; reflexivity).
  pose proof (passed_all_accept s t T P) as PA.
  destruct T as [I1 I2 I3 I4 I5 I6 I7 I8 I9 I10 I11 I12]. rewrite PC in *. simpl in *.
  split; [|repeat split; auto].
  - destruct PA as [[SK CALLS]|[CALLS ACC]]; [left|right; auto].
    unfold skipped in SK. apply andb_true_iff in SK as [R U]. apply negb_true_iff in U. auto.
  - apply I1; auto.
  - apply I2; auto.
  - apply C. apply I5; auto.
  - destruct (proj2 I3 eq_refl) as (c & X). apply in_map_iff. exists (c, t_sid t). auto.
Qed.

Lemma rejected_state : forall ts0 sched s ts t r,
  fresh ts0 -> run sched (init ts0) = (s, ts) -> In t ts -> t_pc t = PRejected r ->
  (exists j b, nth_error (t_chain t) j = Some b /\ mb_verdict b = Reject r /\ acc_prefix (t_chain t) j /\
               mw_calls (t_sid t) (trace s) = seq 0 (S j)) /\
  packets (t_sid t) (trace s) = [PktConnectError (rej_message r)] /\
  gone s (t_sid t).
Proof.
  intros ts0 sched s ts t r FR RUN IN PC.
  pose proof (rejected_leaves_nothing ts0 sched s ts t r FR RUN IN (or_introl PC)) as G.
  destruct (reachable_inv ts0 sched s ts t FR RUN IN) as [C [I1 I2 I3 I4 I5 I6 I7 I8 I9 I10 I11 I12]].
  rewrite PC in *. simpl in *. destruct I7 as (j & (b & N & V & A) & CALLS).
  split; [exists j, b; auto|]. split; auto.
Qed.

(** The chain as a function (run_chain, the port of runMiddlewares) predicts every terminal
    state of the thread system, whatever the schedule and the other threads. *)
From SioV Require Import Sio.MiddlewareProofs.

Lemma Forall_accepts_nth : forall c j b, Forall (fun b => accepts b = true) c -> nth_error c j = Some b -> accepts b = true.
Proof. intros c j b F N. rewrite Forall_forall in F. apply F. eapply nth_error_In; eauto. Qed.

Lemma chain_function_agrees : forall ts0 sched s ts t,
  fresh ts0 -> run sched (init ts0) = (s, ts) -> In t ts ->
  skipped t = false ->
  t_pc t = PAdmitted \/ (exists r, t_pc t = PRejected r) ->
  mw_calls (t_sid t) (trace s) = fst (run_chain (t_chain t)) /\
  match snd (run_chain (t_chain t)) with
  | None => t_pc t = PAdmitted
  | Some r => t_pc t = PRejected r
  end.
Proof.
  intros ts0 sched s ts t FR RUN IN NSK TERM.
  destruct (run_chain_from_calls (t_chain t) 0) as (n & CALLS & LE & ACCP & OUT).
  fold (run_chain (t_chain t)) in *.
  destruct TERM as [PC|[r PC]].
  - destruct (admitted_state ts0 sched s ts t FR RUN IN PC) as ([(R & U & _)|(ACC & MC)] & _).
    { unfold skipped in NSK. rewrite R, U in NSK. discriminate. }
    destruct (snd (run_chain (t_chain t))) as [r'|].
    + destruct OUT as (b & N & V & _). pose proof (Forall_accepts_nth _ _ _ ACC N) as A.
      unfold accepts in A. rewrite V in A. discriminate.
    + destruct OUT as [-> _]. split; auto. congruence.
  - destruct (rejected_state ts0 sched s ts t r FR RUN IN PC) as ((j & b & N & V & A & MC) & _).
    destruct (snd (run_chain (t_chain t))) as [r'|].
    + destruct OUT as (b' & N' & V' & POS).
      assert (accepts b' = false) as NA by (unfold accepts; now rewrite V').
      destruct (rejected_at_unique (t_chain t) (pred n) b' j r N' NA ACCP) as [E V2].
      { exists b; auto. }
      split.
      * rewrite MC, CALLS. f_equal. lia.
      * rewrite V' in V2. inversion V2; subst. exact PC.
    + destruct OUT as [_ ACC]. pose proof (Forall_accepts_nth _ _ _ ACC N) as X.
      unfold accepts in X. rewrite V in X. discriminate.
Qed.
