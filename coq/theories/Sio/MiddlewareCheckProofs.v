(** C12 - the checkers of Sio/MiddlewareCheck.v against the model and the theorems:
    (1) the boolean observables of a view are instances of [visible] (the notion the theorems use);
    (2) for every chain of length <= 3 over all join patterns and verdict kinds, what the model
        predicts satisfies the property oracle (so the oracle never asks more than the model gives,
        and the model never violates it) - by exhaustive kernel evaluation;
    (3) the same for the event path over a space of 3100 small cases. *)
From SioV Require Import Base.GoSem Sio.Middleware Sio.MiddlewareAdapterProofs Sio.MiddlewareAdmProofs
  Sio.MiddlewareCheck.

Lemma memN_In : forall x l, mem N.eqb x l = true <-> In x l.
Proof. apply (mem_In N.eqb N.eqb_eq). Qed.

Lemma observables_visible : forall s x,
  listed s x = true \/ is_connected s x = true \/ in_own_room s x = true \/ reach_all s x = true \/
  (exists r, reach_room s r x = true) ->
  visible s x.
Proof.
  intros s x H. unfold visible, visible_core.
  destruct H as [H|[H|[H|[H|[r H]]]]].
  - left. left. now apply memN_In.
  - left. right; left. now apply memN_In.
  - right. now apply memN_In.
  - left. right; right; left. exists [], []. now apply memN_In.
  - left. right; right; left. exists [r], []. now apply memN_In.
Qed.

Lemma observables_visible_core : forall s x,
  listed s x = true \/ is_connected s x = true \/ reach_all s x = true \/
  (exists r, reach_room s r x = true) ->
  visible_core s x.
Proof.
  intros s x H. unfold visible_core.
  destruct H as [H|[H|[H|[r H]]]].
  - left. now apply memN_In.
  - right; left. now apply memN_In.
  - right; right; left. exists [], []. now apply memN_In.
  - right; right; left. exists [r], []. now apply memN_In.
Qed.

(** the observation the rig would record if the code behaved exactly like the model *)
Definition obs_of_rec (chain : list (N * N)) (rec usemw : bool) : acase :=
  let '(calls, hv, resp, m, post) := predict_rec chain rec usemw in
  let '(mk, mi, mc) := m in
  let ok := N.eqb resp 0 in
  mkacase chain calls hv resp mk mi mc post post ok ok 0 (if ok then 1 else 0)%N 0 ok rec usemw.
Definition obs_of (chain : list (N * N)) : acase := obs_of_rec chain false false.

Definition all_jv : list (N * N) :=
  flat_map (fun j => map (fun v => (j, v)) [0; 1; 2; 3]%N) [0; 1; 2; 3]%N.

Fixpoint all_chains (k : nat) : list (list (N * N)) :=
  match k with
  | O => [[]]
  | S k' => flat_map (fun c => map (fun jv => jv :: c) all_jv) (all_chains k')
  end.

Definition chains_upto (k : nat) : list (list (N * N)) := flat_map all_chains (seq 0 (S k)).

Lemma model_satisfies_oracle_small_b :
  forallb (fun c => oracle (obs_of c) && agree (obs_of c)) (chains_upto 3) = true.
Proof. vm_compute. reflexivity. Qed.

Lemma model_satisfies_oracle_small : forall chain,
  In chain (chains_upto 3) -> oracle (obs_of chain) = true /\ agree (obs_of chain) = true.
Proof.
  intros chain H. pose proof model_satisfies_oracle_small_b as B.
  rewrite forallb_forall in B. apply B in H. now apply andb_true_iff in H.
Qed.

Lemma chains_upto_count : length (chains_upto 3) = 4369%nat.
Proof. vm_compute. reflexivity. Qed.

(** the same over the alphabet with asynchronous Joins (join codes 4: Join in progress while the
    chain goes on, 5: Join started after the answer), chains of length <= 2 *)
Definition all_jv_async : list (N * N) :=
  flat_map (fun j => map (fun v => (j, v)) [0; 1; 2; 3]%N) [0; 1; 2; 3; 4; 5]%N.

Fixpoint all_chains_async (k : nat) : list (list (N * N)) :=
  match k with
  | O => [[]]
  | S k' => flat_map (fun c => map (fun jv => jv :: c) all_jv_async) (all_chains_async k')
  end.

Definition chains_async_upto (k : nat) : list (list (N * N)) := flat_map all_chains_async (seq 0 (S k)).

Lemma model_async_satisfies_oracle_small_b :
  forallb (fun c => oracle (obs_of c) && agree (obs_of c)) (chains_async_upto 2) = true.
Proof. vm_compute. reflexivity. Qed.

Lemma model_async_satisfies_oracle_small : forall chain,
  In chain (chains_async_upto 2) -> oracle (obs_of chain) = true /\ agree (obs_of chain) = true.
Proof.
  intros chain H. pose proof model_async_satisfies_oracle_small_b as B.
  rewrite forallb_forall in B. apply B in H. now apply andb_true_iff in H.
Qed.

(** restored sessions (with and without UseMiddlewares), chains of length <= 2 over the synchronous
    alphabet *)
Lemma model_rec_satisfies_oracle_small_b :
  forallb (fun c => forallb (fun um => oracle (obs_of_rec c true um) && agree (obs_of_rec c true um))
                            [true; false]) (chains_upto 2) = true.
Proof. vm_compute. reflexivity. Qed.

Lemma model_rec_satisfies_oracle_small : forall chain usemw,
  In chain (chains_upto 2) ->
  oracle (obs_of_rec chain true usemw) = true /\ agree (obs_of_rec chain true usemw) = true.
Proof.
  intros chain um H. pose proof model_rec_satisfies_oracle_small_b as B.
  rewrite forallb_forall in B. apply B in H. cbn [forallb] in H.
  apply andb_true_iff in H as [H1 H2]. apply andb_true_iff in H2 as [H2 _].
  destruct um; [apply andb_true_iff in H1 | apply andb_true_iff in H2]; tauto.
Qed.

(** ** Event path *)

(** the observation the event rig would record if the code behaved exactly like the model *)
Definition eobs_of (hs : list (N * bool)) (chain : list bool) (with_ack : bool) (name : bytes)
  (sent : list val) (dec_ok : bool) : ecase :=
  let c0 := mkecase hs chain with_ack name sent dec_ok [] [] 0 0 false true in
  let tr := epredict c0 in
  mkecase hs chain with_ack name sent dec_ok (proj_mw tr) (proj_h tr) (proj_err tr)
          (if proj_ack tr then 1 else 0)%N (proj_ack tr) true.

Fixpoint all_bools (k : nat) : list (list bool) :=
  match k with
  | O => [[]]
  | S k' => flat_map (fun c => [true :: c; false :: c]) (all_bools k')
  end.

Definition ev_space : list ecase :=
  flat_map (fun hs =>
  flat_map (fun chain =>
  flat_map (fun with_ack =>
  flat_map (fun sent =>
  map (fun dec_ok => eobs_of hs chain with_ack [110; 117]%N sent dec_ok) [true; false])
    [[]; [VStr [98]%N]; [VInt 42]; [VStr [98]%N; VInt (-7)]; [VInt 3; VStr []]])
    [true; false])
    (flat_map all_bools (seq 0 5)))
    [[(0, false)]; [(0, true)]; [(0, false); (1, false)]; [(0, true); (1, false)]; []]%N.

Lemma model_events_satisfy_oracle_small_b : forallb (fun c => eoracle c && eagree c) ev_space = true.
Proof. vm_compute. reflexivity. Qed.

Lemma ev_space_count : length ev_space = 3100%nat.
Proof. vm_compute. reflexivity. Qed.

Lemma model_events_satisfy_oracle_small : forall c,
  In c ev_space -> eoracle c = true /\ eagree c = true.
Proof.
  intros c H. pose proof model_events_satisfy_oracle_small_b as B.
  rewrite forallb_forall in B. apply B in H. now apply andb_true_iff in H.
Qed.
