(** C12 - the checkers of Sio/MiddlewareCheck.v against the model and the theorems:
    (1) the boolean observables of a view are instances of [visible] (the notion the theorems use);
    (2) for every chain of length <= 3 over all join patterns and verdict kinds, what the model
        predicts satisfies the property oracle (so the oracle never asks more than the model gives,
        and the model never violates it) - by exhaustive kernel evaluation. *)
From SioV Require Import Base.GoSem Sio.Middleware Sio.MiddlewareAdapterProofs Sio.MiddlewareAdmProofs
  Sio.MiddlewareCheck.

Lemma memN_In : forall x l, mem N.eqb x l = true <-> In x l.
Proof. apply (mem_In N.eqb N.eqb_eq). Qed.

Lemma observables_visible : forall s x,
  listed s x = true \/ is_connected s x = true \/ in_own_room s x = true \/ reach_all s x = true \/
  (exists r, reach_room s r x = true) ->
  visible s x.
Proof.
  intros s x H. unfold visible.
  destruct H as [H|[H|[H|[H|[r H]]]]].
  - left. now apply memN_In.
  - right; right; left. now apply memN_In.
  - right; left. now apply memN_In.
  - right; right; right; left. exists [], []. now apply memN_In.
  - right; right; right; left. exists [r], []. now apply memN_In.
Qed.

(** the observation the rig would record if the code behaved exactly like the model *)
Definition obs_of (chain : list (N * N)) : acase :=
  let '(calls, hv, resp, m, post) := predict chain in
  let '(mk, mi, mc) := m in
  let ok := N.eqb resp 0 in
  mkacase chain calls hv resp mk mi mc post post ok ok 0 (if ok then 1 else 0)%N 0 ok.

Definition all_jv : list (N * N) :=
  flat_map (fun j => map (fun v => (j, v)) [0; 1; 2; 3]%N) [0; 1; 2; 3]%N.

Fixpoint all_chains (k : nat) : list (list (N * N)) :=
  match k with
  | O => [[]]
  | S k' => flat_map (fun c => map (fun jv => jv :: c) all_jv) (all_chains k')
  end.

Definition chains_upto (k : nat) : list (list (N * N)) := flat_map all_chains (seq 0 (S k)).

Lemma model_satisfies_oracle_small_b :
  forallb (fun c => oracle (obs_of c) && agree (obs_of c)) (chains_upto 3) = true.
Proof. vm_compute. reflexivity. Qed.

Lemma model_satisfies_oracle_small : forall chain,
  In chain (chains_upto 3) -> oracle (obs_of chain) = true /\ agree (obs_of chain) = true.
Proof.
  intros chain H. pose proof model_satisfies_oracle_small_b as B.
  rewrite forallb_forall in B. apply B in H. now apply andb_true_iff in H.
Qed.

Lemma chains_upto_count : length (chains_upto 3) = 4369%nat.
Proof. vm_compute. reflexivity. Qed.
