(** Dispatch of decoded packets on a server connection: a port of serverConn.onEIOPacket /
    onParserFinish / onFatalError (server_conn.go) and serverSocket.onPacket / onEvent / onAck
    (server_socket.go), as far as decoding and its errors are concerned.  What happens to one
    Engine.IO message frame is a list of [report]s.  (The client's Manager.onEIOPacket has the
    same shape: Add error => onClose(ReasonParseError); decode error => the socket's error /
    connect_error handlers.) *)
From SioV Require Import Base.GoSem Sio.Header Sio.Decoder.
Local Open Scope Z_scope.

Inductive report :=
| RepError (nsp : bytes)                      (* socket.onError: the socket's error handlers run *)
| RepClose                                    (* go c.eio.Close(): the connection is closed *)
| RepInvalidState                             (* c.close(): packet not allowed in this state *)
| RepDeliver (nsp name : bytes) (vals : list value)      (* handler.call(values...) *)
| RepAck (nsp : bytes) (id : N) (vals : list value)      (* ack.call(values...) *)
| RepConnect (nsp : bytes)                    (* c.connect: namespace admission starts *)
| RepDisconnect (nsp : bytes).                (* socket.onDisconnect *)

(** A socket of the connection: its namespace, the handlers registered per event name (number of
    decoded parameters of each) and the acks it waits for. *)
Record sock := mkSock {
  s_nsp      : bytes;
  s_handlers : bytes -> list nat;
  s_acks     : N -> option nat
}.

Definition bytes_eqb (a b : bytes) : bool := list_eqb N.eqb a b.

Fixpoint find_sock (ss : list sock) (nsp : bytes) : option sock :=
  match ss with
  | [] => None
  | s :: ss' => if bytes_eqb (s_nsp s) nsp then Some s else find_sock ss' nsp
  end.

(** onParserFinish: an empty namespace means the default namespace. *)
Definition packet_nsp (h : header) : bytes :=
  match h_nsp h with [] => [47%N] | n => n end.

Section Dispatch.
  Variable puint : bytes -> option N.
  Variable unm_strs : bytes -> option (list bytes).
  Variable unmarshal : bool -> bytes -> nat -> option (nat -> shape).
  Variable max_att : Z.

  (** serverSocket.onEvent for each handler of the event: decode with the handler's types; an
      error goes to the socket's error handlers, otherwise the handler is called. *)
  Fixpoint on_event (nsp name : bytes) (r : recon) (hs : list nat) : res (list report) :=
    match hs with
    | [] => Ok []
    | nt :: hs' =>
      rbind (match decode unmarshal r nt with
             | Panic => Panic
             | Err => Ok (RepError nsp)
             | Ok vals => Ok (RepDeliver nsp name vals)
             end) (fun rep =>
      rbind (on_event nsp name r hs') (fun reps => Ok (rep :: reps)))
    end.

  (** serverSocket.onPacket *)
  Definition on_packet (s : sock) (r : recon) : res (list report) :=
    let h := r_header r in
    let t := h_type h in
    if is_event t then on_event (s_nsp s) (r_name r) r (s_handlers s (r_name r))
    else if is_ack t then
      match h_id h with
      | None => Ok [RepError (s_nsp s)]                      (* header.ID is nil *)
      | Some id =>
        match s_acks s id with
        | None => Ok [RepError (s_nsp s)]                    (* ACK with ID not found *)
        | Some nt =>
          match decode unmarshal r nt with
          | Panic => Panic
          | Err => Ok [RepError (s_nsp s)]
          | Ok vals => Ok [RepAck (s_nsp s) id vals]
          end
        end
      end
    else if (t =? 1)%N then Ok [RepDisconnect (s_nsp s)]
    else Ok [RepError (s_nsp s); RepClose].                  (* invalid packet type: onFatalError *)

  (** onFatalError: every socket's error handlers, then the connection is closed. *)
  Definition fatal (socks : list sock) : list report :=
    map (fun s => RepError (s_nsp s)) socks ++ [RepClose].

  (** onParserFinish (body of the goroutine) *)
  Definition on_finish (socks : list sock) (r : recon) : res (list report) :=
    let h := r_header r in
    let nsp := packet_nsp h in
    let t := h_type h in
    match find_sock socks nsp with
    | None =>
      if (t =? 0)%N then
        (* c.connect: decode(auth) *)
        match decode unmarshal r 1 with
        | Panic => Panic
        | Err => Ok (fatal socks)
        | Ok _ => Ok [RepConnect nsp]
        end
      else Ok [RepInvalidState]
    | Some s =>
      if (t =? 0)%N || (t =? 4)%N then Ok [RepInvalidState]
      else on_packet s r
    end.

  (** One message frame in onEIOPacket. *)
  Definition on_message (st : option recon) (socks : list sock) (data : bytes)
    : res (option recon * list report) :=
    rbind (add puint unm_strs max_att st data) (fun '(st', o) =>
      match o with
      | Failed => Ok (st', fatal socks)
      | NeedMore => Ok (st', [])
      | Finished r => rbind (on_finish socks r) (fun reps => Ok (st', reps))
      end).

  (** The frames of a connection until it is closed. *)
  Definition closes (reps : list report) : bool :=
    existsb (fun r => match r with RepClose | RepInvalidState => true | _ => false end) reps.

  Fixpoint on_messages (st : option recon) (socks : list sock) (frames : list bytes)
    : res (list report) :=
    match frames with
    | [] => Ok []
    | f :: fs =>
      rbind (on_message st socks f) (fun '(st', reps) =>
        if closes reps then Ok reps
        else rbind (on_messages st' socks fs) (fun reps' => Ok (reps ++ reps')))
    end.
End Dispatch.
