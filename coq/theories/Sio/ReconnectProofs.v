(** Proofs about the reconnect machine. *)
From SioV Require Import Base.GoSem Sio.Backoff Sio.BackoffProofs Sio.Reconnect.
Local Open Scope Z_scope.

Lemma mrun_app : forall c l1 l2 s,
  mrun c s (l1 ++ l2) =
  let '(e1, s1) := mrun c s l1 in let '(e2, s2) := mrun c s1 l2 in (e1 ++ e2, s2).
Proof.
  intros c l1; induction l1 as [|i l1 IH]; intros l2 s; simpl.
  - destruct (mrun c s l2); reflexivity.
  - destruct (mstep c s i) as [e1 s1]. rewrite IH.
    destruct (mrun c s1 l1) as [e2 s2]. destruct (mrun c s2 l2) as [e3 s3].
    now rewrite app_assoc.
Qed.

(** In phase Idle nothing but Open / Close produces anything: dial outcomes and connection losses
    do not apply, so no event fires and no dial is made until the application opens again. *)
Lemma idle_quiet : forall c a sk l,
  Forall (fun i => match i with IDial _ _ _ | IDrop => True | _ => False end) l ->
  mrun c (mkM Idle a sk) l = ([], mkM Idle a sk).
Proof.
  intros c a sk l H; induction H as [|i l Hi _ IH]; simpl; [reflexivity|].
  destruct i; try contradiction; simpl; rewrite IH; reflexivity.
Qed.

Lemma fails_quiet : forall os,
  Forall (fun i => match i with IDial _ _ _ | IDrop => True | _ => False end) (fails os).
Proof. induction os as [|[conv jit] os IH]; simpl; constructor; auto. Qed.

Lemma reached_limit : forall c a, 0 < limit c -> reached c a = (limit c <=? a).
Proof.
  intros c a H. unfold reached.
  apply Z.ltb_lt in H as Hb. rewrite Hb. simpl.
  replace (limit c =? 0) with false by (symmetry; apply Z.eqb_neq; lia).
  simpl. now rewrite orb_false_r.
Qed.

Lemma reached_false : forall c a,
  0 <= limit c ->
  (if limit c =? 0 then a < max_u32 else a < limit c) -> reached c a = false.
Proof.
  intros c a Hl H. unfold reached. destruct (limit c =? 0) eqn:E0.
  - apply Z.eqb_eq in E0. rewrite E0. simpl. apply Z.eqb_neq. lia.
  - apply Z.eqb_neq in E0. simpl. rewrite orb_false_r.
    apply andb_false_iff. right. apply Z.leb_gt. lia.
Qed.

(** Core: in the waiting phase with the counter at [a], an outage of at least [limit - a] dials
    produces exactly [limit - a] failed rounds, then reconnect_failed, and ends Idle with the
    counter reset; the remaining dial outcomes of the outage are not consumed. *)
Lemma wait_gives_up : forall c os1 os2 a sk,
  0 < limit c < two32 -> 0 <= a ->
  a + Z.of_nat (length os1) = limit c -> (0 < length os1)%nat ->
  mrun c (mkM ReconWait a sk) (fails (os1 ++ os2)) =
  (rounds c a os1 ++ [EReconnectFailed], mkM Idle 0 sk).
Proof.
  intros c os1; induction os1 as [|[conv jit] os1 IH]; intros os2 a sk Hl Ha Hsum Hpos.
  - simpl in Hpos. lia.
  - simpl fails. simpl mrun. unfold mstep at 1. simpl ph. cbv iota.
    simpl length in Hsum. rewrite Nat2Z.inj_succ in Hsum.
    rewrite next_attempts_succ by (simpl attempts; lia). simpl attempts.
    unfold start_reconnect. simpl attempts. rewrite reached_limit by lia.
    destruct os1 as [|o os1'].
    + simpl in Hsum. replace (limit c <=? a + 1) with true by (symmetry; apply Z.leb_le; lia).
      simpl skip.
      pose proof (idle_quiet c 0 sk (fails os2) (fails_quiet os2)) as Hq.
      simpl app. rewrite Hq. reflexivity.
    + replace (limit c <=? a + 1) with false
        by (symmetry; apply Z.leb_gt; simpl length in Hsum; lia).
      simpl skip.
      specialize (IH os2 (a + 1) sk Hl ltac:(lia) ltac:(simpl length in *; lia) ltac:(simpl; lia)).
      change (map (fun '(conv, jit) => IDial false conv jit) ((o :: os1') ++ os2))
        with (fails ((o :: os1') ++ os2)).
      rewrite IH. reflexivity.
Qed.

(** Below the limit (or without a limit, below 2^32-1 attempts), [k] failed dials followed by a
    successful one: [k] failed rounds, then attempt k+1, open, reconnect(k+1); counter reset. *)
Lemma wait_reconnects : forall c os a sk conv jit,
  0 <= limit c < two32 -> 0 <= a ->
  (if limit c =? 0 then a + Z.of_nat (length os) < max_u32 else a + Z.of_nat (length os) < limit c) ->
  mrun c (mkM ReconWait a sk) (fails os ++ [IDial true conv jit]) =
  (rounds c a os ++
     [EAttempt (a + Z.of_nat (length os) + 1) (duration (bmin c) (bmax c) (a + Z.of_nat (length os)) conv jit);
      EOpen; EReconnect (a + Z.of_nat (length os) + 1)],
   mkM Conn 0 sk).
Proof.
  intros c os; induction os as [|[cv jt] os IH]; intros a sk conv jit Hl Ha Hlt.
  - simpl length in *. simpl Z.of_nat in *. rewrite Z.add_0_r in *.
    simpl. unfold mstep. simpl ph. cbv iota. simpl attempts.
    rewrite next_attempts_succ; [reflexivity|].
    destruct (limit c =? 0); unfold max_u32, two32 in *; lia.
  - simpl length in Hlt. rewrite Nat2Z.inj_succ in Hlt.
    assert (Hn : next_attempts a = a + 1).
    { apply next_attempts_succ. destruct (limit c =? 0); unfold max_u32, two32 in *; lia. }
    simpl fails. simpl app. simpl mrun. unfold mstep at 1. simpl ph. cbv iota. simpl attempts.
    rewrite Hn. unfold start_reconnect. simpl attempts. simpl skip.
    assert (Hr : reached c (a + 1) = false).
    { apply reached_false; [lia|]. destruct (limit c =? 0); lia. }
    rewrite Hr.
    specialize (IH (a + 1) sk conv jit Hl ltac:(lia)).
    change (map (fun '(conv0, jit0) => IDial false conv0 jit0) os) with (fails os).
    rewrite IH.
    + cbn [length rounds app].
      replace (Z.pos (Pos.of_succ_nat (length os))) with (1 + Z.of_nat (length os)) by lia.
      replace (a + (1 + Z.of_nat (length os))) with (a + 1 + Z.of_nat (length os)) by lia.
      reflexivity.
    + destruct (limit c =? 0); lia.
Qed.

(** After a connection loss (manager connected, reconnection enabled). *)
Lemma drop_gives_up : forall c os1 os2,
  0 < limit c < two32 -> no_reconnection c = false ->
  Z.of_nat (length os1) = limit c ->
  mrun c (mkM Conn 0 false) (IDrop :: fails (os1 ++ os2)) =
  (EClose :: rounds c 0 os1 ++ [EReconnectFailed], mkM Idle 0 false).
Proof.
  intros c os1 os2 Hl Hn Hlen.
  simpl mrun. unfold mstep. simpl ph. cbv iota. rewrite Hn. simpl skip. simpl negb. simpl andb.
  unfold start_reconnect. simpl attempts. rewrite reached_limit by lia.
  replace (limit c <=? 0) with false by (symmetry; apply Z.leb_gt; lia). simpl skip.
  rewrite (wait_gives_up c os1 os2 0 false); try lia. reflexivity.
Qed.

Lemma drop_reconnects : forall c os conv jit,
  0 <= limit c < two32 -> no_reconnection c = false ->
  (if limit c =? 0 then Z.of_nat (length os) < max_u32 else Z.of_nat (length os) < limit c) ->
  mrun c (mkM Conn 0 false) (IDrop :: fails os ++ [IDial true conv jit]) =
  (EClose :: rounds c 0 os ++
     [EAttempt (Z.of_nat (length os) + 1) (duration (bmin c) (bmax c) (Z.of_nat (length os)) conv jit);
      EOpen; EReconnect (Z.of_nat (length os) + 1)],
   mkM Conn 0 false).
Proof.
  intros c os conv jit Hl Hn Hlt.
  simpl mrun. unfold mstep. simpl ph. cbv iota. rewrite Hn. simpl skip. simpl negb. simpl andb.
  unfold start_reconnect. simpl attempts.
  assert (Hr : reached c 0 = false).
  { apply reached_false; [lia|]. destruct (limit c =? 0); unfold max_u32; lia. }
  rewrite Hr. simpl skip.
  rewrite (wait_reconnects c os 0 false conv jit); try lia.
  - reflexivity.
  - destruct (limit c =? 0); lia.
Qed.

(** Open() against a server that is down: the failed first dial is not a reconnection attempt. *)
Lemma open_gives_up : forall c os1 os2 conv jit,
  0 < limit c < two32 -> no_reconnection c = false ->
  Z.of_nat (length os1) = limit c ->
  mrun c minit (IOpen :: IDial false conv jit :: fails (os1 ++ os2)) =
  (EError :: rounds c 0 os1 ++ [EReconnectFailed], mkM Idle 0 false).
Proof.
  intros c os1 os2 conv jit Hl Hn Hlen.
  simpl mrun. unfold mstep. simpl ph. cbv iota. simpl attempts. rewrite Hn. simpl.
  unfold start_reconnect. simpl attempts. rewrite reached_limit by lia.
  replace (limit c <=? 0) with false by (symmetry; apply Z.leb_gt; lia). simpl skip.
  rewrite (wait_gives_up c os1 os2 0 false); try lia. reflexivity.
Qed.

(** With reconnection disabled a lost connection is only reported. *)
Lemma drop_without_reconnection : forall c l,
  no_reconnection c = true ->
  Forall (fun i => match i with IDial _ _ _ | IDrop => True | _ => False end) l ->
  mrun c (mkM Conn 0 false) (IDrop :: l) = ([EClose], mkM Idle 0 false).
Proof.
  intros c l Hn Hl. simpl mrun. unfold mstep. simpl ph. cbv iota. rewrite Hn. simpl.
  rewrite idle_quiet by assumption. reflexivity.
Qed.

(** Counting over the explicit trace. *)
Lemma count_app : forall f l1 l2, count f (l1 ++ l2) = (count f l1 + count f l2)%nat.
Proof. intros. unfold count. now rewrite filter_app, app_length. Qed.

Lemma rounds_counts : forall c os a,
  count is_attempt (rounds c a os) = length os /\
  count is_rerror (rounds c a os) = length os /\
  count is_failed (rounds c a os) = 0%nat /\
  count is_reconnect (rounds c a os) = 0%nat.
Proof.
  intros c os; induction os as [|[conv jit] os IH]; intros a; simpl; [auto|].
  destruct (IH (a + 1)) as (H1 & H2 & H3 & H4). unfold count in *. simpl.
  rewrite H1, H2, H3, H4. auto.
Qed.

(** Every delay slept before an attempt is in (0, max], in every run. *)
Definition delay_ok (c : mcfg) (e : ev) : Prop :=
  match e with EAttempt _ d => 0 < d <= bmax c | _ => True end.

Lemma mstep_delays : forall c s i, 0 < bmax c -> Forall (delay_ok c) (fst (mstep c s i)).
Proof.
  intros c s i Hmax. unfold mstep.
  destruct (ph s); destruct i; simpl; try (repeat constructor; fail).
  - destruct ok; simpl; [repeat constructor|].
    destruct ((attempts s =? 0) && negb (no_reconnection c)); simpl.
    + unfold start_reconnect. simpl. destruct (reached c (attempts s)); simpl; repeat constructor.
    + repeat constructor.
  - destruct ok; simpl.
    + repeat constructor; simpl; apply delay_in_range; assumption.
    + unfold start_reconnect. simpl.
      destruct (reached c (next_attempts (attempts s))); simpl;
        repeat constructor; simpl; apply delay_in_range; assumption.
  - destruct (negb (no_reconnection c) && negb (skip s)); simpl.
    + unfold start_reconnect. simpl. destruct (reached c 0); simpl; repeat constructor.
    + repeat constructor.
Qed.

Lemma mrun_delays : forall c l s, 0 < bmax c -> Forall (delay_ok c) (fst (mrun c s l)).
Proof.
  intros c l; induction l as [|i l IH]; intros s Hmax; simpl; [constructor|].
  pose proof (mstep_delays c s i Hmax) as H1.
  destruct (mstep c s i) as [e1 s1]. specialize (IH s1 Hmax).
  destruct (mrun c s1 l) as [e2 s2]. simpl in *. apply Forall_app; split; assumption.
Qed.

(** reconnect_failed is never announced twice without an Open in between, and whenever the manager
    is Idle its attempt counter is 0 (so the next outage starts from the first delay again). *)
Definition inv (s : mst) : Prop := (ph s = Idle \/ ph s = Conn \/ ph s = OpenDial) -> attempts s = 0.

Lemma mstep_inv : forall c s i, inv s -> inv (snd (mstep c s i)).
Proof.
  intros c s i H. unfold inv in *. unfold mstep, start_reconnect.
  destruct (ph s) eqn:P; destruct i; simpl; rewrite ?P;
    repeat match goal with |- context [if ?b then _ else _] => destruct b; simpl end;
    intros; try (apply H; auto; fail); try reflexivity;
    match goal with X : _ \/ _ \/ _ |- _ => destruct X as [X|[X|X]]; discriminate end.
Qed.

Lemma mrun_inv : forall c l s, inv s -> inv (snd (mrun c s l)).
Proof.
  intros c l; induction l as [|i l IH]; intros s H; simpl; [assumption|].
  pose proof (mstep_inv c s i H) as H1.
  destruct (mstep c s i) as [e1 s1]. specialize (IH s1 H1).
  destruct (mrun c s1 l) as [e2 s2]. assumption.
Qed.

(** * Histories with aborted retry cycles (Close / Disconnect during the back-off sleep) *)

(** Outside a retry cycle the counter is 0, and whenever the manager is not idle skipReconnect is off -
    after ANY sequence of opens, closes (also in the middle of a cycle), dial outcomes and losses. *)
Definition inv2 (s : mst) : Prop :=
  (ph s <> ReconWait -> attempts s = 0) /\ (ph s <> Idle -> skip s = false).

Lemma mstep_inv2 : forall c s i, inv2 s -> inv2 (snd (mstep c s i)).
Proof.
  intros c s i [H1 H2]. unfold inv2 in *. unfold mstep, start_reconnect.
  destruct (ph s) eqn:P; destruct i; simpl; rewrite ?P;
    repeat match goal with |- context [if ?b then _ else _] => destruct b eqn:?; simpl end;
    split; intros; try congruence;
    try (apply H1; congruence); try (apply H2; congruence);
    repeat match goal with
           | E : (_ && _)%bool = true |- _ => apply andb_true_iff in E; destruct E
           | E : negb _ = true |- _ => apply negb_true_iff in E
           end; try congruence.
Qed.

Lemma mrun_inv2 : forall c l s, inv2 s -> inv2 (snd (mrun c s l)).
Proof.
  intros c l; induction l as [|i l IH]; intros s H; simpl; [assumption|].
  pose proof (mstep_inv2 c s i H) as H1.
  destruct (mstep c s i) as [e1 s1]. specialize (IH s1 H1).
  destruct (mrun c s1 l) as [e2 s2]. assumption.
Qed.

Lemma minit_inv2 : inv2 minit.
Proof. unfold inv2, minit; simpl; split; intros; congruence. Qed.

(** Whatever happened before (any number of aborted cycles included): once connected, a loss followed by
    an outage of at least [limit] dials is answered by close, exactly [limit] rounds numbered from 1 with
    the delays of counter 0.., one reconnect_failed, and nothing more. *)
Lemma gives_up_after_any_history : forall c hist os1 os2,
  0 < limit c < two32 -> no_reconnection c = false ->
  Z.of_nat (length os1) = limit c ->
  ph (snd (mrun c minit hist)) = Conn ->
  mrun c (snd (mrun c minit hist)) (IDrop :: fails (os1 ++ os2)) =
  (EClose :: rounds c 0 os1 ++ [EReconnectFailed], mkM Idle 0 false).
Proof.
  intros c hist os1 os2 Hl Hn Hlen Hph.
  pose proof (mrun_inv2 c hist minit minit_inv2) as [H1 H2].
  destruct (snd (mrun c minit hist)) as [p a sk]. simpl in *. subst p.
  rewrite (H1 ltac:(discriminate)), (H2 ltac:(discriminate)).
  apply drop_gives_up; assumption.
Qed.

Lemma reconnects_after_any_history : forall c hist os conv jit,
  0 <= limit c < two32 -> no_reconnection c = false ->
  (if limit c =? 0 then Z.of_nat (length os) < max_u32 else Z.of_nat (length os) < limit c) ->
  ph (snd (mrun c minit hist)) = Conn ->
  mrun c (snd (mrun c minit hist)) (IDrop :: fails os ++ [IDial true conv jit]) =
  (EClose :: rounds c 0 os ++
     [EAttempt (Z.of_nat (length os) + 1) (duration (bmin c) (bmax c) (Z.of_nat (length os)) conv jit);
      EOpen; EReconnect (Z.of_nat (length os) + 1)],
   mkM Conn 0 false).
Proof.
  intros c hist os conv jit Hl Hn Hlt Hph.
  pose proof (mrun_inv2 c hist minit minit_inv2) as [H1 H2].
  destruct (snd (mrun c minit hist)) as [p a sk]. simpl in *. subst p.
  rewrite (H1 ltac:(discriminate)), (H2 ltac:(discriminate)).
  apply drop_reconnects; assumption.
Qed.

(** A retry cycle aborted in its (k+1)-th sleep: k failed rounds, then close; idle, counter 0. *)
Lemma wait_aborted : forall c os a sk,
  0 <= limit c < two32 -> 0 <= a ->
  (if limit c =? 0 then a + Z.of_nat (length os) < max_u32 else a + Z.of_nat (length os) < limit c) ->
  mrun c (mkM ReconWait a sk) (fails os ++ [IClose]) = (rounds c a os ++ [EClose], mkM Idle 0 true).
Proof.
  intros c os; induction os as [|[cv jt] os IH]; intros a sk Hl Ha Hlt.
  - reflexivity.
  - simpl length in Hlt. rewrite Nat2Z.inj_succ in Hlt.
    assert (Hn : next_attempts a = a + 1).
    { apply next_attempts_succ. destruct (limit c =? 0); unfold max_u32, two32 in *; lia. }
    simpl fails. simpl app. simpl mrun. unfold mstep at 1. simpl ph. cbv iota. simpl attempts.
    rewrite Hn. unfold start_reconnect. simpl attempts. simpl skip.
    assert (Hr : reached c (a + 1) = false).
    { apply reached_false; [lia|]. destruct (limit c =? 0); lia. }
    rewrite Hr.
    change (map (fun '(conv0, jit0) => IDial false conv0 jit0) os) with (fails os).
    rewrite (IH (a + 1) sk Hl ltac:(lia)); [reflexivity|].
    destruct (limit c =? 0); lia.
Qed.

(** After an aborted cycle, Open() against a reachable server connects; against a dead one the retry
    loop starts over from attempt 1 (the counter is 0, so maybeReconnectOnOpen lets it). *)
Lemma aborted_then_open : forall c os,
  0 <= limit c < two32 -> no_reconnection c = false ->
  (if limit c =? 0 then Z.of_nat (length os) < max_u32 else Z.of_nat (length os) < limit c) ->
  forall conv jit,
  mrun c (mkM Conn 0 false) (IDrop :: fails os ++ [IClose; IOpen; IDial true conv jit]) =
  (EClose :: rounds c 0 os ++ [EClose; EOpen], mkM Conn 0 false).
Proof.
  intros c os Hl Hn Hlt conv jit.
  simpl mrun. unfold mstep at 1. simpl ph. cbv iota. rewrite Hn. simpl skip. simpl negb. simpl andb.
  unfold start_reconnect. simpl attempts.
  assert (Hr : reached c 0 = false).
  { apply reached_false; [lia|]. destruct (limit c =? 0); unfold max_u32; lia. }
  rewrite Hr. simpl skip.
  replace (fails os ++ [IClose; IOpen; IDial true conv jit])
    with ((fails os ++ [IClose]) ++ [IOpen; IDial true conv jit]) by (now rewrite <- app_assoc).
  rewrite mrun_app. rewrite (wait_aborted c os 0 false Hl ltac:(lia)).
  - simpl. now rewrite <- app_assoc.
  - destruct (limit c =? 0); lia.
Qed.
