(** Proofs about Sio/Header.v: parseHeader never panics (for every byte string and every answer
    of the libraries), and parsing an encoded header gives the header back. *)
From SioV Require Import Base.GoSem Sio.Header.
From Coq Require Import Lia ZifyN ZifyNat ZifyBool.
Local Open Scope N_scope.

(** * Small facts about Go slices *)
Lemma slice_to_le {A} (l : list A) i : (i <= length l)%nat -> slice_to l i = Ok (firstn i l).
Proof. intros H. unfold slice_to. destruct (Nat.leb_spec i (length l)); [reflexivity|lia]. Qed.

Lemma slice_from_le {A} (l : list A) i : (i <= length l)%nat -> slice_from l i = Ok (skipn i l).
Proof. intros H. unfold slice_from. destruct (Nat.leb_spec i (length l)); [reflexivity|lia]. Qed.

Lemma slice_le {A} (l : list A) i j :
  (i <= j)%nat -> (j <= length l)%nat -> slice l i j = Ok (firstn (j - i) (skipn i l)).
Proof.
  intros H1 H2. unfold slice.
  destruct (Nat.leb_spec i j); [|lia]. destruct (Nat.leb_spec j (length l)); [reflexivity|lia].
Qed.

Lemma index_lt {A} (l : list A) i : (i < length l)%nat -> exists x, index l i = Ok x.
Proof.
  intros H. unfold index. destruct (nth_error l i) eqn:E; [eauto|].
  apply nth_error_None in E. lia.
Qed.

Lemma rbind_no_panic {A B} (r : res A) (f : A -> res B) :
  r <> Panic -> (forall a, r = Ok a -> f a <> Panic) -> rbind r f <> Panic.
Proof. destruct r; simpl; intros H1 H2; [now apply H2 | discriminate | contradiction]. Qed.

Lemma index_byte_lt c l i : index_byte c l = Some i -> (i < length l)%nat.
Proof.
  revert i; induction l as [|x l IH]; simpl; intros i H; [discriminate|].
  destruct (x =? c).
  - inversion H; lia.
  - destruct (index_byte c l) as [j|]; simpl in H; [|discriminate].
    inversion H; subst. specialize (IH j eq_refl). lia.
Qed.

Lemma scan_until_le stop l : (scan_until stop l <= length l)%nat.
Proof. induction l as [|x l IH]; simpl; [lia|]. destruct (stop x); simpl; lia. Qed.

(** * parseHeader never panics *)
Lemma find_end_spec fuel data e :
  find_end fuel data e <> Panic /\
  (forall e', find_end fuel data e = Ok (Some e') -> (e <= e' < length data)%nat).
Proof.
  revert e; induction fuel as [|f IH]; intros e; simpl.
  - split; [discriminate|]. intros e' H; discriminate.
  - destruct (Nat.ltb_spec e (length data)) as [Hlt|Hge].
    2:{ split; [discriminate|]. intros e' H; discriminate. }
    destruct (index_lt data e Hlt) as [c Hc]. rewrite Hc. simpl.
    destruct (c =? 92).
    + destruct (IH (S (S e))) as [IH1 IH2].
      split; [exact IH1|]. intros e' H. specialize (IH2 e' H). lia.
    + destruct (c =? 34).
      * split; [discriminate|]. intros e' H; inversion H; subst; lia.
      * destruct (IH (S e)) as [IH1 IH2].
        split; [exact IH1|]. intros e' H. specialize (IH2 e' H). lia.
Qed.

Lemma prescan_no_panic data : prescan data <> Panic.
Proof.
  unfold prescan. destruct (index_byte 34 data) as [start|] eqn:E; [|discriminate].
  apply index_byte_lt in E.
  destruct (find_end_spec (length data) data (S start)) as [H1 H2].
  apply rbind_no_panic; [exact H1|].
  intros [e|] He; [|discriminate].
  specialize (H2 e He). rewrite slice_le by lia. simpl. discriminate.
Qed.

Lemma parse_prefix_no_panic puint data : parse_prefix_with puint data <> Panic.
Proof.
  unfold parse_prefix_with. destruct data as [|c data1]; [discriminate|].
  destruct ((c <? 48) || (54 <? c)); [discriminate|].
  apply rbind_no_panic.
  { destruct (is_binary (c - 48)); [|discriminate].
    destruct (index_byte 45 data1) as [i|] eqn:E; [|discriminate].
    apply index_byte_lt in E. rewrite slice_to_le by lia. simpl.
    destruct (puint _); [|discriminate].
    destruct (uint64_to_int _ <? 0)%Z; [discriminate|].
    destruct (Nat.ltb_spec (i + 1) (length data1)); (rewrite slice_from_le; [discriminate|lia]). }
  intros [att data2] _. apply rbind_no_panic.
  { destruct data2 as [|c2 t]; [discriminate|]. destruct (c2 =? 47); [|discriminate].
    pose proof (scan_until_le (N.eqb 44) (c2 :: t)) as Hle.
    destruct (Nat.eqb_spec (scan_until (N.eqb 44) (c2 :: t)) (length (c2 :: t))); [discriminate|].
    rewrite slice_to_le by lia. cbn [rbind]. rewrite slice_from_le by lia. discriminate. }
  intros [nsp data3] _. apply rbind_no_panic.
  { destruct data3 as [|c3 t]; [discriminate|]. destruct (is_digit c3); [|discriminate].
    pose proof (scan_until_le (fun x => negb (is_digit x)) (c3 :: t)) as Hle.
    rewrite slice_to_le by lia. cbn [rbind].
    destruct (puint _); [|discriminate]. rewrite slice_from_le by lia. discriminate. }
  intros [id data4] _. discriminate.
Qed.

Lemma parse_header_no_panic puint unm data : parse_header_with puint unm data <> Panic.
Proof.
  unfold parse_header_with. apply rbind_no_panic; [apply parse_prefix_no_panic|].
  intros [h d] _. destruct (is_event (h_type h)); [|discriminate].
  apply rbind_no_panic; [apply prescan_no_panic|].
  intros tmp _. destruct (unm tmp) as [[|name [|? ?]]|]; discriminate.
Qed.

(** What an accepted header looks like (used by the decoder proofs): the attachment count is
    never negative, and it is 0 for the non-binary types. *)
Lemma rbind_ok {A B} (r : res A) (f : A -> res B) b :
  rbind r f = Ok b -> exists a, r = Ok a /\ f a = Ok b.
Proof. destruct r; simpl; intros H; [eauto | discriminate | discriminate]. Qed.

Lemma parse_prefix_att puint data h d :
  parse_prefix_with puint data = Ok (h, d) ->
  (0 <= h_att h)%Z /\ (is_binary (h_type h) = false -> h_att h = 0%Z) /\ h_type h <= 6.
Proof.
  unfold parse_prefix_with. destruct data as [|c data1]; [discriminate|].
  destruct ((c <? 48) || (54 <? c)) eqn:Ec; [discriminate|].
  intros H.
  apply rbind_ok in H as ([att d2] & H1 & H).
  apply rbind_ok in H as ([nsp d3] & H2 & H).
  apply rbind_ok in H as ([id d4] & H3 & H).
  inversion H; subst; clear H; simpl.
  destruct (is_binary (c - 48)) eqn:Eb.
  - destruct (index_byte 45 data1) as [i|]; [|discriminate].
    apply rbind_ok in H1 as (s & _ & H1).
    destruct (puint s); [|discriminate].
    destruct (uint64_to_int n <? 0)%Z eqn:En; [discriminate|].
    apply rbind_ok in H1 as (dd & _ & H1). inversion H1; subst.
    repeat split; try lia.
  - inversion H1; subst. repeat split; try lia.
Qed.
