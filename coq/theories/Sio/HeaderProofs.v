(** Proofs about Sio/Header.v: parseHeader never panics (for every byte string and every answer
    of the libraries), and parsing an encoded header gives the header back. *)
From SioV Require Import Base.GoSem Sio.Header.
From Coq Require Import Lia ZifyN ZifyNat ZifyBool.
Local Open Scope N_scope.

(** * Small facts about Go slices *)
Lemma slice_to_le {A} (l : list A) i : (i <= length l)%nat -> slice_to l i = Ok (firstn i l).
Proof. intros H. unfold slice_to. destruct (Nat.leb_spec i (length l)); [reflexivity|lia]. Qed.

Lemma slice_from_le {A} (l : list A) i : (i <= length l)%nat -> slice_from l i = Ok (skipn i l).
Proof. intros H. unfold slice_from. destruct (Nat.leb_spec i (length l)); [reflexivity|lia]. Qed.

Lemma slice_le {A} (l : list A) i j :
  (i <= j)%nat -> (j <= length l)%nat -> slice l i j = Ok (firstn (j - i) (skipn i l)).
Proof.
  intros H1 H2. unfold slice.
  destruct (Nat.leb_spec i j); [|lia]. destruct (Nat.leb_spec j (length l)); [reflexivity|lia].
Qed.

Lemma index_lt {A} (l : list A) i : (i < length l)%nat -> exists x, index l i = Ok x.
Proof.
  intros H. unfold index. destruct (nth_error l i) eqn:E; [eauto|].
  apply nth_error_None in E. lia.
Qed.

Lemma rbind_no_panic {A B} (r : res A) (f : A -> res B) :
  r <> Panic -> (forall a, r = Ok a -> f a <> Panic) -> rbind r f <> Panic.
Proof. destruct r; simpl; intros H1 H2; [now apply H2 | discriminate | contradiction]. Qed.

Lemma index_byte_lt c l i : index_byte c l = Some i -> (i < length l)%nat.
Proof.
  revert i; induction l as [|x l IH]; simpl; intros i H; [discriminate|].
  destruct (x =? c).
  - inversion H; lia.
  - destruct (index_byte c l) as [j|]; simpl in H; [|discriminate].
    inversion H; subst. specialize (IH j eq_refl). lia.
Qed.

Lemma scan_until_le stop l : (scan_until stop l <= length l)%nat.
Proof. induction l as [|x l IH]; simpl; [lia|]. destruct (stop x); simpl; lia. Qed.

(** * parseHeader never panics *)
Lemma find_end_spec fuel data e :
  find_end fuel data e <> Panic /\
  (forall e', find_end fuel data e = Ok (Some e') -> (e <= e' < length data)%nat).
Proof.
  revert e; induction fuel as [|f IH]; intros e; simpl.
  - split; [discriminate|]. intros e' H; discriminate.
  - destruct (Nat.ltb_spec e (length data)) as [Hlt|Hge].
    2:{ split; [discriminate|]. intros e' H; discriminate. }
    destruct (index_lt data e Hlt) as [c Hc]. rewrite Hc. simpl.
    destruct (c =? 92).
    + destruct (IH (S (S e))) as [IH1 IH2].
      split; [exact IH1|]. intros e' H. specialize (IH2 e' H). lia.
    + destruct (c =? 34).
      * split; [discriminate|]. intros e' H; inversion H; subst; lia.
      * destruct (IH (S e)) as [IH1 IH2].
        split; [exact IH1|]. intros e' H. specialize (IH2 e' H). lia.
Qed.

Lemma prescan_no_panic data : prescan data <> Panic.
Proof.
  unfold prescan. destruct (index_byte 34 data) as [start|] eqn:E; [|discriminate].
  apply index_byte_lt in E.
  destruct (find_end_spec (length data) data (S start)) as [H1 H2].
  apply rbind_no_panic; [exact H1|].
  intros [e|] He; [|discriminate].
  specialize (H2 e He). rewrite slice_le by lia. simpl. discriminate.
Qed.

Lemma parse_prefix_no_panic puint data : parse_prefix_with puint data <> Panic.
Proof.
  unfold parse_prefix_with. destruct data as [|c data1]; [discriminate|].
  destruct ((c <? 48) || (54 <? c)); [discriminate|].
  apply rbind_no_panic.
  { destruct (is_binary (c - 48)); [|discriminate].
    destruct (index_byte 45 data1) as [i|] eqn:E; [|discriminate].
    apply index_byte_lt in E. rewrite slice_to_le by lia. simpl.
    destruct (puint _); [|discriminate].
    destruct (uint64_to_int _ <? 0)%Z; [discriminate|].
    destruct (Nat.ltb_spec (i + 1) (length data1)); (rewrite slice_from_le; [discriminate|lia]). }
  intros [att data2] _. apply rbind_no_panic.
  { destruct data2 as [|c2 t]; [discriminate|]. destruct (c2 =? 47); [|discriminate].
    pose proof (scan_until_le (N.eqb 44) (c2 :: t)) as Hle.
    destruct (Nat.eqb_spec (scan_until (N.eqb 44) (c2 :: t)) (length (c2 :: t))); [discriminate|].
    rewrite slice_to_le by lia. cbn [rbind]. rewrite slice_from_le by lia. discriminate. }
  intros [nsp data3] _. apply rbind_no_panic.
  { destruct data3 as [|c3 t]; [discriminate|]. destruct (is_digit c3); [|discriminate].
    pose proof (scan_until_le (fun x => negb (is_digit x)) (c3 :: t)) as Hle.
    rewrite slice_to_le by lia. cbn [rbind].
    destruct (puint _); [|discriminate]. rewrite slice_from_le by lia. discriminate. }
  intros [id data4] _. discriminate.
Qed.

Lemma parse_header_no_panic puint unm data : parse_header_with puint unm data <> Panic.
Proof.
  unfold parse_header_with. apply rbind_no_panic; [apply parse_prefix_no_panic|].
  intros [h d] _. destruct (is_event (h_type h)); [|discriminate].
  apply rbind_no_panic; [apply prescan_no_panic|].
  intros tmp _. destruct (unm tmp) as [[|name [|? ?]]|]; discriminate.
Qed.

(** What an accepted header looks like (used by the decoder proofs): the attachment count is
    never negative, and it is 0 for the non-binary types. *)
Lemma rbind_ok {A B} (r : res A) (f : A -> res B) b :
  rbind r f = Ok b -> exists a, r = Ok a /\ f a = Ok b.
Proof. destruct r; simpl; intros H; [eauto | discriminate | discriminate]. Qed.

Lemma parse_prefix_att puint data h d :
  parse_prefix_with puint data = Ok (h, d) ->
  (0 <= h_att h)%Z /\ (is_binary (h_type h) = false -> h_att h = 0%Z) /\ h_type h <= 6.
Proof.
  unfold parse_prefix_with. destruct data as [|c data1]; [discriminate|].
  destruct ((c <? 48) || (54 <? c)) eqn:Ec; [discriminate|].
  intros H.
  apply rbind_ok in H as ([att d2] & H1 & H).
  apply rbind_ok in H as ([nsp d3] & H2 & H).
  apply rbind_ok in H as ([id d4] & H3 & H).
  inversion H; subst; clear H; simpl.
  destruct (is_binary (c - 48)) eqn:Eb.
  - destruct (index_byte 45 data1) as [i|]; [|discriminate].
    apply rbind_ok in H1 as (s & _ & H1).
    destruct (puint s); [|discriminate].
    destruct (uint64_to_int n <? 0)%Z eqn:En; [discriminate|].
    apply rbind_ok in H1 as (dd & _ & H1). inversion H1; subst.
    repeat split; try lia.
  - inversion H1; subst. repeat split; try lia.
Qed.

(** * Round trip: parsing an encoded header *)
Definition digits (l : bytes) : Prop := Forall (fun c => is_digit c = true) l.

Lemma fmt_aux_S f n acc :
  fmt_aux (S f) n acc =
  if n <? 10 then (48 + n mod 10) :: acc else fmt_aux f (n / 10) ((48 + n mod 10) :: acc).
Proof. reflexivity. Qed.

Lemma fmt_aux_spec f : forall n acc,
  n < 2 ^ N.of_nat f -> digits acc ->
  digits (fmt_aux (S f) n acc) /\ fmt_aux (S f) n acc <> [] /\
  dec_val 0 (fmt_aux (S f) n acc) = dec_val n acc.
Proof.
  induction f as [|f IH]; intros n acc Hn Hacc.
  - change (2 ^ N.of_nat 0) with 1 in Hn. assert (n = 0) by lia. subst. cbn.
    repeat split; [constructor; [reflexivity|exact Hacc] | discriminate].
  - rewrite fmt_aux_S. destruct (N.ltb_spec n 10) as [H10|H10].
    + assert (Hm : n mod 10 = n) by (apply N.mod_small; lia). rewrite Hm.
      repeat split.
      * constructor; [unfold is_digit; lia | exact Hacc].
      * discriminate.
      * unfold dec_val. cbn [fold_left]. f_equal. lia.
    + assert (Hd : n / 10 < 2 ^ N.of_nat f).
      { assert (n / 10 <= n / 2) by (apply N.div_le_compat_l; lia).
        assert (n / 2 < 2 ^ N.of_nat f).
        { apply N.div_lt_upper_bound; [lia|].
          replace (N.of_nat (S f)) with (N.succ (N.of_nat f)) in Hn by lia.
          rewrite N.pow_succ_r' in Hn. lia. }
        lia. }
      assert (Hm : n mod 10 < 10) by (apply N.mod_lt; lia).
      destruct (IH (n / 10) ((48 + n mod 10) :: acc) Hd) as (A & B & C).
      { constructor; [unfold is_digit; lia | exact Hacc]. }
      repeat split; [exact A | exact B |].
      rewrite C. unfold dec_val. cbn [fold_left]. f_equal.
      pose proof (N.div_mod n 10 ltac:(lia)). lia.
Qed.

Lemma fmt_uint_spec n :
  digits (fmt_uint n) /\ fmt_uint n <> [] /\ dec_val 0 (fmt_uint n) = n.
Proof.
  unfold fmt_uint.
  destruct (fmt_aux_spec (N.to_nat (N.log2 n + 1)) n []) as (A & B & C); [|constructor|auto].
  rewrite N2Nat.id. destruct n as [|p]; [cbn; lia|].
  pose proof (N.log2_spec (N.pos p) ltac:(lia)) as [_ H].
  replace (N.log2 (N.pos p) + 1) with (N.succ (N.log2 (N.pos p))) by lia. exact H.
Qed.

Lemma digits_forallb l : digits l -> forallb is_digit l = true.
Proof. induction 1; simpl; [reflexivity|]. now rewrite H, IHForall. Qed.

Lemma parse_uint_fmt n : n < two64 -> parse_uint_go (fmt_uint n) = Some n.
Proof.
  intros Hn. destruct (fmt_uint_spec n) as (A & B & C).
  unfold parse_uint_go. destruct (fmt_uint n) as [|c l] eqn:E; [congruence|].
  rewrite (digits_forallb _ A), C.
  destruct (N.ltb_spec n two64); [reflexivity|lia].
Qed.

Lemma index_byte_digits d c rest :
  digits d -> is_digit c = false -> index_byte c (d ++ c :: rest) = Some (length d).
Proof.
  intros Hd Hc. induction Hd as [|x d Hx Hd IH]; simpl.
  - now rewrite N.eqb_refl.
  - destruct (N.eqb_spec x c); [congruence|]. now rewrite IH.
Qed.

Lemma scan_until_stop stop l x rest :
  Forall (fun c => stop c = false) l -> stop x = true ->
  scan_until stop (l ++ x :: rest) = length l.
Proof.
  intros Hl Hx. induction Hl as [|y l Hy Hl IH]; simpl; [now rewrite Hx|]. now rewrite Hy, IH.
Qed.

Lemma scan_until_end stop l :
  Forall (fun c => stop c = false) l -> scan_until stop l = length l.
Proof. induction 1 as [|y l Hy Hl IH]; simpl; [reflexivity|]. now rewrite Hy, IH. Qed.

Definition starts_nondigit (p : bytes) : Prop :=
  match p with [] => True | c :: _ => is_digit c = false end.

Lemma scan_digits d p :
  digits d -> starts_nondigit p ->
  scan_until (fun x => negb (is_digit x)) (d ++ p) = length d.
Proof.
  intros Hd Hp.
  assert (Hf : Forall (fun c => negb (is_digit c) = false) d).
  { eapply Forall_impl; [|exact Hd]. intros a Ha; simpl in Ha. now rewrite Ha. }
  destruct p as [|c p].
  - rewrite app_nil_r. now apply scan_until_end.
  - apply scan_until_stop; [exact Hf|]. simpl in Hp. now rewrite Hp.
Qed.

Lemma firstn_app_exact {A} (l r : list A) : firstn (length l) (l ++ r) = l.
Proof. rewrite firstn_app, Nat.sub_diag, firstn_all. simpl. apply app_nil_r. Qed.

Lemma skipn_app_exact {A} (l r : list A) : skipn (length l) (l ++ r) = r.
Proof. rewrite skipn_app, Nat.sub_diag, skipn_all. reflexivity. Qed.

(** The id stage on [id_part ++ p]. *)
Definition id_stage (puint : bytes -> option N) (data3 : bytes) : res (option N * bytes) :=
  match data3 with
  | c3 :: _ =>
    if is_digit c3 then
      let i := scan_until (fun x => negb (is_digit x)) data3 in
      rbind (slice_to data3 i) (fun s =>
        match puint s with
        | None => Err
        | Some n => rbind (slice_from data3 i) (fun d => Ok (Some n, d))
        end)
    else Ok (None, data3)
  | [] => Ok (None, data3)
  end.

Definition id_part (id : option N) : bytes :=
  match id with Some n => fmt_uint n | None => [] end.

Lemma id_stage_encoded id p :
  match id with Some n => n < two64 | None => True end -> starts_nondigit p ->
  id_stage parse_uint_go (id_part id ++ p) = Ok (id, p).
Proof.
  intros Hid Hp. unfold id_part. destruct id as [n|]; cbn [app].
  - destruct (fmt_uint_spec n) as (A & B & C).
    unfold id_stage. destruct (fmt_uint n) as [|c d] eqn:E; [congruence|].
    cbn [app]. pose proof (Forall_inv A) as Hc. cbv beta in Hc. rewrite Hc.
    change (c :: d ++ p) with ((c :: d) ++ p).
    rewrite (scan_digits (c :: d) p A Hp).
    rewrite slice_to_le by (rewrite app_length; lia). rewrite firstn_app_exact. cbn [rbind].
    rewrite <- E, (parse_uint_fmt n Hid), E.
    rewrite slice_from_le by (rewrite app_length; lia). rewrite skipn_app_exact. reflexivity.
  - unfold id_stage. destruct p as [|c p]; [reflexivity|]. simpl in Hp. now rewrite Hp.
Qed.

(** The namespace stage on [nsp_part ++ rest]. *)
Definition nsp_stage (data2 : bytes) : res (bytes * bytes) :=
  match data2 with
  | c2 :: _ =>
    if c2 =? 47 then
      let i := scan_until (N.eqb 44) data2 in
      if (i =? length data2)%nat then Err else
      rbind (slice_to data2 i) (fun nsp =>
      rbind (slice_from data2 (i + 1)) (fun d => Ok (nsp, d)))
    else Ok ([47], data2)
  | [] => Ok ([47], data2)
  end.

Definition nsp_part (nsp : bytes) : bytes :=
  match nsp with
  | [] => []
  | [c] => if c =? 47 then [] else [c; 44]
  | nsp => nsp ++ [44]
  end.

Definition starts_not_slash (p : bytes) : Prop :=
  match p with [] => True | c :: _ => c <> 47 end.

Lemma nsp_stage_encoded r rest :
  ~ In 44 r -> starts_not_slash rest ->
  nsp_stage (nsp_part (47 :: r) ++ rest) = Ok (47 :: r, rest).
Proof.
  intros Hr Hrest. destruct r as [|x r].
  - cbn. unfold nsp_stage. destruct rest as [|c rest]; [reflexivity|].
    simpl in Hrest. destruct (N.eqb_spec c 47); [contradiction|reflexivity].
  - change (nsp_part (47 :: x :: r)) with ((47 :: x :: r) ++ [44]).
    assert (Hl : Forall (fun c => 44 =? c = false) (47 :: x :: r)).
    { constructor; [reflexivity|]. apply Forall_forall. intros y Hy.
      destruct (N.eqb_spec 44 y); [subst; contradiction|reflexivity]. }
    assert (Hh : exists t, 47 :: x :: r = 47 :: t) by eauto.
    remember (47 :: x :: r) as l eqn:El. clear El Hr x r.
    rewrite <- app_assoc. cbn [app]. unfold nsp_stage.
    destruct Hh as [t ->]. cbn [app]. replace (47 =? 47) with true by reflexivity. cbv zeta.
    change (47 :: t ++ 44 :: rest) with ((47 :: t) ++ 44 :: rest).
    remember (47 :: t) as l eqn:El. clear El t.
    rewrite (scan_until_stop (N.eqb 44) l 44 rest Hl eq_refl).
    destruct (Nat.eqb_spec (length l) (length (l ++ 44 :: rest))) as [E|E].
    { rewrite app_length in E. simpl in E. lia. }
    rewrite slice_to_le by (rewrite app_length; simpl; lia). rewrite firstn_app_exact. cbn [rbind].
    rewrite slice_from_le by (rewrite app_length; simpl; lia).
    replace (length l + 1)%nat with (length (l ++ [44])) by (rewrite app_length; reflexivity).
    replace (l ++ 44 :: rest) with ((l ++ [44]) ++ rest) by (rewrite <- app_assoc; reflexivity).
    rewrite skipn_app_exact. reflexivity.
Qed.

(** The attachment-count stage. *)
Definition att_stage (puint : bytes -> option N) (ty : N) (data1 : bytes) : res (Z * bytes) :=
  if is_binary ty then
    match index_byte 45 data1 with
    | None => Err
    | Some i =>
      rbind (slice_to data1 i) (fun s =>
        match puint s with
        | None => Err
        | Some a =>
          let att := uint64_to_int a in
          if (att <? 0)%Z then Err else
          rbind (if (i + 1 <? length data1)%nat
                 then slice_from data1 (i + 1) else slice_from data1 i)
                (fun d => Ok (att, d))
        end)
    end
  else Ok (0%Z, data1).

Lemma parse_prefix_stages puint c data1 :
  parse_prefix_with puint (c :: data1) =
  if (c <? 48) || (54 <? c) then Err else
  rbind (att_stage puint (c - 48) data1) (fun '(att, data2) =>
  rbind (nsp_stage data2) (fun '(nsp, data3) =>
  rbind (id_stage puint data3) (fun '(id, data4) =>
  Ok (mkHeader (c - 48) nsp id att, data4)))).
Proof. reflexivity. Qed.

Lemma att_stage_encoded t att rest :
  is_binary t = true -> (0 <= att < Z.of_N two63)%Z -> rest <> [] ->
  att_stage parse_uint_go t (fmt_int att ++ [45] ++ rest) = Ok (att, rest).
Proof.
  intros Hb Ha Hrest. unfold att_stage. rewrite Hb.
  unfold fmt_int. destruct (Z.ltb_spec att 0); [lia|].
  destruct (fmt_uint_spec (Z.to_N att)) as (A & B & C).
  cbn [app]. rewrite (index_byte_digits _ 45 rest A eq_refl).
  rewrite slice_to_le by (rewrite app_length; lia). rewrite firstn_app_exact. cbn [rbind].
  rewrite parse_uint_fmt by (unfold two64, two63 in *; lia).
  assert (Hu : uint64_to_int (Z.to_N att) = att).
  { unfold uint64_to_int. rewrite N.mod_small by (unfold two64, two63 in *; lia).
    destruct (N.ltb_spec (Z.to_N att) two63); lia. }
  cbv zeta. rewrite Hu. destruct (Z.ltb_spec att 0); [lia|].
  destruct rest as [|x rest]; [congruence|].
  destruct (Nat.ltb_spec (length (fmt_uint (Z.to_N att)) + 1)
                         (length (fmt_uint (Z.to_N att) ++ 45 :: x :: rest))) as [L|L].
  2:{ rewrite app_length in L. simpl in L. lia. }
  rewrite slice_from_le by (rewrite app_length; simpl; lia).
  replace (length (fmt_uint (Z.to_N att)) + 1)%nat with (length (fmt_uint (Z.to_N att) ++ [45]))
    by (rewrite app_length; reflexivity).
  replace (fmt_uint (Z.to_N att) ++ 45 :: x :: rest) with ((fmt_uint (Z.to_N att) ++ [45]) ++ x :: rest)
    by (rewrite <- app_assoc; reflexivity).
  rewrite skipn_app_exact. reflexivity.
Qed.

Lemma fmt_uint_head n : exists c d, fmt_uint n = c :: d /\ is_digit c = true.
Proof.
  destruct (fmt_uint_spec n) as (A & B & _).
  destruct (fmt_uint n) as [|c d]; [congruence|]. exists c, d. split; [reflexivity|].
  exact (Forall_inv A).
Qed.

Lemma encode_header_eq h :
  encode_header h =
  [48 + h_type h] ++ (if is_binary (h_type h) then fmt_int (h_att h) ++ [45] else [])
  ++ nsp_part (h_nsp h) ++ id_part (h_id h).
Proof. destruct h as [t [|c [|c2 l]] id att]; reflexivity. Qed.

(** [parse_encode_header]: for every header the encoder can write (type 0..6, namespace starting
    with a slash and free of commas, id below 2^64 or absent, attachment count in [0,2^63) for the
    binary types) followed by a payload that is empty or starts with one of [ { and the double
    quote, parsing gives back the header and the payload. *)
Theorem parse_encode_header h p :
  header_ok h -> payload_ok h p -> parse_prefix (encode_header h ++ p) = Ok (h, p).
Proof.
  destruct h as [t nsp id att]. unfold header_ok, payload_ok. cbn [h_type h_nsp h_id h_att].
  intros (Ht & (r & -> & Hr) & Hid & Hatt) (Hp & Hcorner).
  assert (Hpd : starts_nondigit p).
  { destruct p as [|c p]; [exact I|]. simpl. destruct Hp as [->|[->| ->]]; reflexivity. }
  assert (Hps : starts_not_slash p).
  { destruct p as [|c p]; [exact I|]. simpl. destruct Hp as [->|[->| ->]]; discriminate. }
  rewrite encode_header_eq. cbn [h_type h_nsp h_id h_att].
  remember (id_part id) as idp eqn:Eidp.
  remember (nsp_part (47 :: r)) as np eqn:Enp.
  (* what follows the namespace part does not start with a slash *)
  assert (Hrest : starts_not_slash (idp ++ p)).
  { subst idp. unfold id_part. destruct id as [n|]; [|exact Hps].
    destruct (fmt_uint_head n) as (c & d & -> & Hc). simpl. unfold is_digit in Hc. lia. }
  destruct (is_binary t) eqn:Eb.
  - assert (Hne : np ++ idp ++ p <> []).
    { subst np. destruct r as [|x r]; [|discriminate].
      destruct id as [n|].
      - subst idp. unfold id_part. destruct (fmt_uint_head n) as (c & d & -> & _). discriminate.
      - subst idp. cbn. apply Hcorner; reflexivity. }
    replace (([48 + t] ++ (fmt_int att ++ [45]) ++ np ++ idp) ++ p)
      with ((48 + t) :: (fmt_int att ++ [45] ++ (np ++ idp ++ p)))
      by (cbn [app]; rewrite <- !app_assoc; reflexivity).
    unfold parse_prefix. rewrite parse_prefix_stages.
    replace (48 + t - 48) with t by lia.
    destruct ((48 + t <? 48) || (54 <? 48 + t)) eqn:Ec; [lia|]. clear Ec.
    rewrite (att_stage_encoded t att _ Eb Hatt Hne). cbn [rbind].
    subst np. rewrite (nsp_stage_encoded r _ Hr Hrest). cbn [rbind].
    subst idp. rewrite (id_stage_encoded id p Hid Hpd). reflexivity.
  - replace (([48 + t] ++ [] ++ np ++ idp) ++ p) with ((48 + t) :: (np ++ idp ++ p))
      by (cbn [app]; rewrite <- !app_assoc; reflexivity).
    unfold parse_prefix. rewrite parse_prefix_stages.
    replace (48 + t - 48) with t by lia.
    destruct ((48 + t <? 48) || (54 <? 48 + t)) eqn:Ec; [lia|]. clear Ec.
    unfold att_stage. rewrite Eb. cbn [rbind].
    subst np. rewrite (nsp_stage_encoded r _ Hr Hrest). cbn [rbind].
    subst idp. rewrite (id_stage_encoded id p Hid Hpd). subst att. reflexivity.
Qed.

(** The same for the whole of parseHeader: a non-event packet needs no JSON library at all; for
    an event packet what remains is the pre-scan of the payload. *)
Corollary parse_encode_header_full unm h p :
  header_ok h -> payload_ok h p ->
  parse_header unm (encode_header h ++ p) =
  if is_event (h_type h) then
    rbind (prescan p) (fun tmp =>
      match unm tmp with
      | Some [name] => Ok (h, p, name)
      | _ => Err
      end)
  else Ok (h, p, []).
Proof.
  intros H1 H2. unfold parse_header, parse_header_with.
  change (parse_prefix_with parse_uint_go) with parse_prefix.
  rewrite (parse_encode_header h p H1 H2). cbn [rbind].
  destruct (is_event (h_type h)); [|reflexivity].
  destruct (prescan p); cbn [rbind]; reflexivity.
Qed.

(** Distinct namespaces give distinct wire headers (used by C05). *)
Corollary encode_header_injective h1 h2 p1 p2 :
  header_ok h1 -> payload_ok h1 p1 -> header_ok h2 -> payload_ok h2 p2 ->
  encode_header h1 ++ p1 = encode_header h2 ++ p2 -> h1 = h2 /\ p1 = p2.
Proof.
  intros A1 B1 A2 B2 E.
  pose proof (parse_encode_header h1 p1 A1 B1) as P1.
  pose proof (parse_encode_header h2 p2 A2 B2) as P2.
  rewrite E in P1. rewrite P1 in P2. inversion P2. auto.
Qed.
