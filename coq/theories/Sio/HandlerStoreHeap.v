(** C18 - the event registry of store.go with Go slice semantics made explicit, and occurrences
    that are *in progress* while other registry calls happen.

    HandlerStore.v treats what getAll returns as an immutable value and an occurrence as one atomic
    step.  In the code an occurrence is `for _, h := range store.getAll(name) { call(h) }`: getAll is
    atomic (mutex), the loop is not - handlers run one after the other, each may call
    OnEvent/OnceEvent/OffEvent/OffAll or emit (re-entrancy), and other goroutines may do so between
    two handlers.  `range` evaluates the slice header once and reads element i from the *live*
    backing array.  Whether a later registry call can change what the loop still has to read depends
    on whether the returned slice shares its backing array with a stored slice - so arrays get
    identities here: memory is a list of arrays of cells, a slice is (array id, length), its capacity
    is the length of the array; `append` writes in place when there is spare capacity.

    The machine below runs any interleaving of registry calls ([SOp]), starts of occurrences
    ([SBegin e]: the getAll call) and single loop iterations of any occurrence in progress
    ([SNext k]).  It mirrors the code as it is now: getAll and off's `remove` build new arrays. *)
From SioV Require Import Base.GoSem Sio.HandlerStore.

Section Heap.
  Variable A : Type.
  Variable same : A -> A -> bool.

  Definition cell := option A.                  (* None = zero value (nil pointer) of spare capacity *)
  Definition mem := list (list cell).           (* array id = position *)
  Record slice := mkS { sid : nat; slen : nat }.

  Definition arr (m : mem) (i : nat) : list cell := nth i m [].
  Definition cap (m : mem) (s : slice) : nat := length (arr m (sid s)).

  Fixpoint set_nth {X} (l : list X) (i : nat) (x : X) : list X :=
    match l, i with
    | [], _ => []
    | _ :: l', O => x :: l'
    | y :: l', S i' => y :: set_nth l' i' x
    end.

  Definition alloc (m : mem) (a : list cell) : mem * nat := (m ++ [a], length m).

  (** what a slice shows *)
  Definition contents (m : mem) (s : slice) : list cell := firstn (slen s) (arr m (sid s)).
  Fixpoint somes (l : list cell) : list A :=
    match l with [] => [] | Some a :: l' => a :: somes l' | None :: l' => somes l' end.
  Definition vals (m : mem) (s : slice) : list A := somes (contents m s).

  (** append(s, a): in place when len < cap, else a new array of doubled capacity *)
  Definition go_append (m : mem) (s : slice) (a : A) : mem * slice :=
    if Nat.ltb (slen s) (cap m s) then
      (set_nth m (sid s) (set_nth (arr m (sid s)) (slen s) (Some a)), mkS (sid s) (S (slen s)))
    else
      let newcap := Nat.max 1 (2 * slen s) in
      let '(m', i) := alloc m (contents m s ++ [Some a] ++ repeat None (newcap - S (slen s))) in
      (m', mkS i (S (slen s))).

  (** make([]T, 0, n) *)
  Definition go_make (m : mem) (n : nat) : mem * slice :=
    let '(m', i) := alloc m (repeat None n) in (m', mkS i 0).

  Fixpoint append_all (m : mem) (s : slice) (l : list A) : mem * slice :=
    match l with
    | [] => (m, s)
    | a :: l' => let '(m', s') := go_append m s a in append_all m' s' l'
    end.

  (** maps name -> slice *)
  Definition hmap := list (N * slice).
  Fixpoint hfind (e : N) (h : hmap) : option slice :=
    match h with [] => None | (k, v) :: h' => if N.eqb k e then Some v else hfind e h' end.
  Definition hdel (e : N) (h : hmap) : hmap := filter (fun kv => negb (N.eqb (fst kv) e)) h.
  Definition hset (e : N) (v : slice) (h : hmap) : hmap := (e, v) :: hdel e h.

  (** an occurrence in progress: the slice getAll returned, the loop index, and (ghost) the
      handlers the registry held for the event when getAll ran *)
  Record disp := mkD { dview : slice; didx : nat; dsnap : list A }.

  Record hstate := mkH { hmem : mem; hev : hmap; hon : hmap; hdisp : list disp }.
  Definition hempty : hstate := mkH [] [] [] [].

  Inductive hstepk := SOp (o : eop A) | SBegin (e : N) | SNext (k : nat).

  (** on / once: `handlers := m[e]; handlers = append(handlers, h); m[e] = handlers` *)
  Definition h_on (m : mem) (h : hmap) (e : N) (a : A) : mem * hmap :=
    match hfind e h with
    | Some s => let '(m', s') := go_append m s a in (m', hset e s' h)
    | None => let '(m', i) := alloc m [Some a] in (m', hset e (mkS i 1) h)   (* append(nil, a) *)
    end.

  (** the `remove` closure of off: kept := make(0, len(slice)); append the handlers not named *)
  Definition h_remove (m : mem) (hs : list A) (s : slice) : mem * slice :=
    let keep := remove A same hs (vals m s) in
    let '(m1, k) := go_make m (slen s) in
    append_all m1 k keep.

  Definition h_off_in (m : mem) (h : hmap) (e : N) (hs : list A) : mem * hmap :=
    match hfind e h with
    | Some s => let '(m', k) := h_remove m hs s in
                (m', if Nat.eqb (slen k) 0 then hdel e h else hset e k h)
    | None => (m, h)
    end.

  Definition hget_vals (m : mem) (h : hmap) (e : N) : list A :=
    match hfind e h with Some s => vals m s | None => [] end.

  Definition hstep (st : hstate) (x : hstepk) : hstate * option (nat * cell) :=
    match x with
    | SOp (EOn e a) =>
        let '(m', ev') := h_on (hmem st) (hev st) e a in (mkH m' ev' (hon st) (hdisp st), None)
    | SOp (EOnce e a) =>
        let '(m', on') := h_on (hmem st) (hon st) e a in (mkH m' (hev st) on' (hdisp st), None)
    | SOp (EOff e []) => (mkH (hmem st) (hdel e (hev st)) (hdel e (hon st)) (hdisp st), None)
    | SOp (EOff e hs) =>
        let '(m1, ev') := h_off_in (hmem st) (hev st) e hs in
        let '(m2, on') := h_off_in m1 (hon st) e hs in
        (mkH m2 ev' on' (hdisp st), None)
    | SOp EOffAll => (mkH (hmem st) [] [] (hdisp st), None)
    | SOp (EFire e) | SBegin e =>
        (* getAll: h := events[e]; hOnce := eventsOnce[e]; delete(eventsOnce, e);
           handlers = make(0, len(h)+len(hOnce)); append(h...); append(hOnce...) *)
        let snap := hget_vals (hmem st) (hev st) e ++ hget_vals (hmem st) (hon st) e in
        let '(m1, v0) := go_make (hmem st) (length snap) in
        let '(m2, v) := append_all m1 v0 snap in
        (mkH m2 (hev st) (hdel e (hon st)) (hdisp st ++ [mkD v 0 snap]), None)
    | SNext k =>
        match nth_error (hdisp st) k with
        | Some d =>
            if Nat.ltb (didx d) (slen (dview d)) then
              (mkH (hmem st) (hev st) (hon st)
                   (set_nth (hdisp st) k (mkD (dview d) (S (didx d)) (dsnap d))),
               Some (k, nth (didx d) (arr (hmem st) (sid (dview d))) None))
            else (st, None)
        | None => (st, None)
        end
    end.

  Fixpoint hrun (st : hstate) (xs : list hstepk) : hstate * list (nat * cell) :=
    match xs with
    | [] => (st, [])
    | x :: xs' =>
        let '(st1, out) := hstep st x in
        let '(st2, outs) := hrun st1 xs' in
        (st2, match out with Some o => o :: outs | None => outs end)
    end.

  (** what occurrence [k] ran, in order *)
  Definition ran_by (k : nat) (outs : list (nat * cell)) : list cell :=
    map snd (filter (fun o => Nat.eqb (fst o) k) outs).
End Heap.

Arguments SOp {A}. Arguments SBegin {A}. Arguments SNext {A}.
