(** Model of the client manager's connection life cycle, /repo/client_manager_conn.go
    ([connect], [reconnect]) and /repo/client_manager.go ([open], [maybeReconnectOnOpen],
    [onReconnect], [onClose], [Close]), as a machine that reacts to what the environment does:
    the application opens / closes the manager, a dial succeeds or fails, the server drops the
    connection.  The outputs are the manager events in the order the handlers are invoked.

    Ported control flow (locks, goroutine hand-offs and the sleep itself are elided; every input is
    processed to quiescence before the next one, which is how the rig drives the real manager):
<<
    open():       err := connect(false); if err != nil { cleanup(); maybeReconnectOnOpen() }
    maybeReconnectOnOpen(): if backoff.attempts() == 0 && !noReconnection { reconnect(false) }
    connect(rec): if !rec { skipReconnect = false }
                  if state == Connected { return nil }; state = Connecting
                  dial: error  -> state = Disconnected; emit error; return err
                        success-> state = Connected; emit open
    reconnect(rec): if !rec && skipReconnect { return }
                  if state != Disconnected { return }; state = Reconnecting
                  attempts := backoff.attempts()
                  if (limit > 0 && attempts >= limit) || (limit == 0 && attempts == MaxUint32) {
                      backoff.reset(); state = Disconnected; emit reconnect_failed; return }
                  delay := backoff.duration()   // attempts++
                  sleep(delay); [skip checks]; emit reconnect_attempt(backoff.attempts())
                  err := connect(true)
                  if err != nil { state = Disconnected; emit reconnect_error; reconnect(true); return }
                  onReconnect(): n := attempts; backoff.reset(); emit reconnect(n)
    onClose():    cleanup(); backoff.reset(); state = Disconnected; emit close
                  if !noReconnection && !skipReconnect { go reconnect(false) }
    Close():      state = Disconnected; skipReconnect = true; onClose(forced close); ...
                  (socket.Disconnect() of the last active socket ends in Close() as well)
>>
    The delay of each attempt is computed by [Backoff.duration] from the attempt counter as it is
    before the increment; the float-conversion and jitter oracles of that function arrive with the
    dial input. *)
From SioV Require Import Base.GoSem Sio.Backoff.
Local Open Scope Z_scope.

Record mcfg := mkCfg {
  limit : Z;            (* ReconnectionAttempts, uint32; 0 = no limit *)
  no_reconnection : bool;
  bmin : Z;             (* ReconnectionDelay *)
  bmax : Z              (* ReconnectionDelayMax *)
}.

Inductive phase :=
| Idle        (* state Disconnected, nothing in progress *)
| OpenDial    (* open() is dialing *)
| ReconWait   (* reconnect() passed the limit check: sleeping, then dialing *)
| Conn.       (* state Connected *)

Record mst := mkM { ph : phase; attempts : Z; skip : bool }.

Definition minit : mst := mkM Idle 0 false.

Inductive input :=
| IOpen                                               (* Manager.Open() / socket.Connect() *)
| IDial (ok : bool) (conv : Z) (jit : option (bool * Z))  (* outcome of the dial in progress (+ oracles of the delay) *)
| IDrop                                               (* the connection is lost (server side / network) *)
| IClose.                                             (* Manager.Close() *)

Inductive ev :=
| EOpen | EError | EClose
| EAttempt (n : Z) (delay : Z)    (* reconnect_attempt(n), slept [delay] before it *)
| EReconnectError
| EReconnectFailed
| EReconnect (n : Z).

Definition max_u32 : Z := 4294967295.

Definition reached (c : mcfg) (att : Z) : bool :=
  ((0 <? limit c) && (limit c <=? att)) || ((limit c =? 0) && (att =? max_u32)).

(** [reconnect] up to the point where it sleeps: either gives up or starts waiting. *)
Definition start_reconnect (c : mcfg) (s : mst) : list ev * mst :=
  if reached c (attempts s) then ([EReconnectFailed], mkM Idle 0 (skip s))
  else ([], mkM ReconWait (attempts s) (skip s)).

Definition mstep (c : mcfg) (s : mst) (i : input) : list ev * mst :=
  match ph s, i with
  | Idle, IOpen => ([], mkM OpenDial (attempts s) false)
  | Conn, IOpen => ([], mkM Conn (attempts s) false)
  | OpenDial, IDial true _ _ => ([EOpen], mkM Conn (attempts s) (skip s))
  | OpenDial, IDial false _ _ =>
      if (attempts s =? 0) && negb (no_reconnection c)
      then let '(e, s') := start_reconnect c (mkM Idle (attempts s) (skip s)) in (EError :: e, s')
      else ([EError], mkM Idle (attempts s) (skip s))
  | ReconWait, IDial ok conv jit =>
      let d := duration (bmin c) (bmax c) (attempts s) conv jit in
      let n := next_attempts (attempts s) in
      if ok then ([EAttempt n d; EOpen; EReconnect n], mkM Conn 0 (skip s))
      else let '(e, s') := start_reconnect c (mkM Idle n (skip s)) in
           (EAttempt n d :: EError :: EReconnectError :: e, s')
  | Conn, IDrop =>
      if negb (no_reconnection c) && negb (skip s)
      then let '(e, s') := start_reconnect c (mkM Idle 0 (skip s)) in (EClose :: e, s')
      else ([EClose], mkM Idle 0 (skip s))
  | Idle, IClose | Conn, IClose => ([EClose], mkM Idle 0 true)
  | ReconWait, IClose =>
      (* Close() / socket.Disconnect() while reconnect() sleeps in its back-off delay: skipReconnect is
         set, onClose resets the counter (in the code it was already incremented by duration()) and
         announces close; the sleeping loop wakes up, sees skipReconnect and returns without an event *)
      ([EClose], mkM Idle 0 true)
  | _, _ => ([], s)     (* input that does not apply in this phase: nothing happens *)
  end.

Fixpoint mrun (c : mcfg) (s : mst) (l : list input) : list ev * mst :=
  match l with
  | [] => ([], s)
  | i :: l' =>
      let '(e1, s1) := mstep c s i in
      let '(e2, s2) := mrun c s1 l' in
      (e1 ++ e2, s2)
  end.

(** Observations used by the statements. *)
Definition is_attempt (e : ev) : bool := match e with EAttempt _ _ => true | _ => false end.
Definition is_rerror (e : ev) : bool := match e with EReconnectError => true | _ => false end.
Definition is_failed (e : ev) : bool := match e with EReconnectFailed => true | _ => false end.
Definition is_reconnect (e : ev) : bool := match e with EReconnect _ => true | _ => false end.
Definition count (f : ev -> bool) (l : list ev) : nat := length (filter f l).

(** An outage: every dial fails; each dial comes with its own oracles for the delay computation. *)
Definition oracle := (Z * option (bool * Z))%type.
Definition fails (os : list oracle) : list input := map (fun '(conv, jit) => IDial false conv jit) os.

(** The events of [length os] consecutive failed attempts when the counter stands at [a]. *)
Fixpoint rounds (c : mcfg) (a : Z) (os : list oracle) : list ev :=
  match os with
  | [] => []
  | (conv, jit) :: os' =>
      EAttempt (a + 1) (duration (bmin c) (bmax c) a conv jit) :: EError :: EReconnectError
      :: rounds c (a + 1) os'
  end.
