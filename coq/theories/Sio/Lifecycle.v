(** Sio/Lifecycle.v - the end of a server-side connection as a concurrent transition system (C06).

    Ported from (as read at the pinned tree + the C06 fix):
      engine.io/server_socket.go  close / closeOnce / onTransportClose / pingPong
      engine.io/server.go         Close -> store.closeAll ; engine.io/store.go
      server_conn.go              onClose / closeOnce / close / connect / connect-timeout / onFatalError
      server_socket.go            onClose / closeOnce (+ the `connected` gate) / Disconnect / Join
      namespace.go                add / doConnect / remove ; server.go Close ; store.go

    ONE Engine.IO session carrying ONE namespace socket.  Other namespaces of the same connection
    interact with this socket only through the connection-level once / closed flag, which are part
    of the model (the live rig also runs two namespaces per connection).

    Threads / actions (a schedule is a [list act]; a disabled action stutters):
      - the bodies of the three [sync.Once]s (E: eio socket, C: serverConn, S: serverSocket) are
        pseudo-threads enabled while the once is [Running]; a caller of [Do] starts the body when
        the once is [Fresh], and a caller with work to do afterwards WAITS until it is [Done]
        (Go's Once blocks late callers until the first call has returned);
      - the admission goroutine (one per CONNECT packet) and the connection-handler goroutine;
      - the termination causes.  A cause that does not occur is an action that is never scheduled,
        so "all subsets of causes x all schedules" = all schedules of this one system.  A cause
        without follow-up work is one repeatable action (a second occurrence finds the once taken).
    One step = one mutex-protected critical section / one atomic operation of the Go code; steps
    that touch only goroutine-local state are merged into the neighbouring shared-state step
    (e.g. "middlewares return" with "CONNECT received"; a snapshot of a list with the once-guarded
    call made on its element, which is a no-op whenever the element left the list in between).

    CONTROL / DATA SEPARATION.  The close paths never branch on the value of a reason (the only
    use, "transport.Close() unless the transport reported the end itself", has no effect on the
    modelled state; session persistence for recoverable reasons belongs to C08).  The model makes
    this explicit: [cstep] works on the control state [ctl] alone and returns, besides the next
    control state, the list of reason operations [rop] the step performs (set by a cause, copy
    along eio -> conn -> socket, report); [step] applies them to the three reason cells.  So the
    control projection of every run of [step] is a run of [cstep] BY CONSTRUCTION
    ([LifecycleProofs.ctl_exec]); the finite control system is explored exhaustively, the reason
    flow is proved by induction.

    Not modelled: user calls of Join/Leave racing with the close (only the own-id room joined by
    onConnect), session persistence, a rejecting middleware (C12), the upgrade supersession test
    of onTransportClose (C07).  Ghost fields (never read by the code paths) count the handler
    fan-outs. *)
From SioV Require Import Base.GoSem.
Local Open Scope N_scope.

(** ** Reasons (reasons.go / engine.io/reasons.go) *)
Definition RTransportError : N := 0.
Definition RTransportClose : N := 1.
Definition RForcedClose : N := 2.
Definition RPingTimeout : N := 3.
Definition RParseError : N := 4.          (* client side only; never produced by the server *)
Definition RServerShuttingDown : N := 5.
Definition RForcedServerClose : N := 6.
Definition RClientNspDisconnect : N := 7.
Definition RServerNspDisconnect : N := 8.
Definition RNone : N := 99.

(** The reason strings, as bytes (compared with what the live handlers receive). *)
Definition reason_string (r : N) : list N :=
  match r with
  | 0 => [116;114;97;110;115;112;111;114;116;32;101;114;114;111;114]              (* transport error *)
  | 1 => [116;114;97;110;115;112;111;114;116;32;99;108;111;115;101]              (* transport close *)
  | 2 => [102;111;114;99;101;100;32;99;108;111;115;101]                          (* forced close *)
  | 3 => [112;105;110;103;32;116;105;109;101;111;117;116]                        (* ping timeout *)
  | 4 => [112;97;114;115;101;32;101;114;114;111;114]                             (* parse error *)
  | 5 => [115;101;114;118;101;114;32;115;104;117;116;116;105;110;103;32;100;111;119;110]  (* server shutting down *)
  | 6 => [102;111;114;99;101;100;32;115;101;114;118;101;114;32;99;108;111;115;101]        (* forced server close *)
  | 7 => [99;108;105;101;110;116;32;110;97;109;101;115;112;97;99;101;32;100;105;115;99;111;110;110;101;99;116] (* client namespace disconnect *)
  | 8 => [115;101;114;118;101;114;32;110;97;109;101;115;112;97;99;101;32;100;105;115;99;111;110;110;101;99;116] (* server namespace disconnect *)
  | _ => []
  end.

(** ** Once states *)
Definition Fresh : N := 0.
Definition Running : N := 1.
Definition Done : N := 2.

(** ** Code variants.  [code_cfg] is the code as it is now. *)
Record cfg := mkCfg {
  recheck : bool;      (* serverConn.connect re-checks `closed` once the socket is connected (the C06 fix) *)
  gate_outside : bool  (* serverSocket.onClose tests `connected` before taking closeOnce (the C06 fix) *)
}.
Definition code_cfg : cfg := mkCfg true true.
Definition prefix_cfg : cfg := mkCfg false false.        (* before the fix *)
Definition recheck_only_cfg : cfg := mkCfg true false.   (* the re-check alone *)

(** ** Control state *)
Record ctl := mkCtl {
  e_once : N   (* engine.io serverSocket.closeOnce; e_pc: pc of its body *);
  e_pc : N;
  in_store : bool   (* sid in the engine.io socketStore *);
  c_once : N   (* serverConn.closeOnce *);
  c_pc : N;
  c_closed : bool   (* the `closed` flag of serverConn (the fix) *);
  c_snap : bool   (* getAndRemoveAll returned this socket *);
  in_csock : bool   (* socket in c.sockets *);
  c_nsps : bool   (* namespace in c.nsps *);
  s_once : N   (* serverSocket.closeOnce *);
  s_pc : N;
  connected : bool;
  in_nsp : bool   (* socket in Namespace.sockets *);
  own_room : bool   (* adapter: the room named by the own id *);
  a_pc : N   (* admission goroutine *);
  h_pc : N   (* connection-handler goroutine: 0 none, 1 started, 2 has registered its OnDisconnect handler *);
  p_sd1 : N   (* Disconnect(true) *);
  sd1_snap : bool   (* its getAndRemoveAll returned this socket *);
  p_srv : N   (* Server.Close *);
  cc_pending : bool   (* some goroutine is inside c.close(), past eio.Close() *);
  n_discing : N   (* ghost: disconnecting fan-outs (saturates at 2) *);
  n_disc : N   (* ghost: disconnect fan-outs (saturates at 2) *);
  discing_first : bool   (* ghost: a disconnecting fan-out preceded the disconnect fan-out *);
  nh_disc : N   (* ghost: disconnect fan-outs that included the handler registered by the connection handler *);
  ever_conn : bool   (* ghost: onConnect ran *);
  g_burnt : bool   (* ghost: the socket closeOnce was consumed while it was not connected *)
}.

Definition cinit : ctl :=
  mkCtl Fresh 0 true Fresh 0 false false false false Fresh 0 false false false 0 0 0 false 0 false 0 0 false 0 false false.

Definition sat2 (n : N) : N := if n <? 2 then n + 1 else 2.

(** ** Field updates (generated; explicit so that everything computes) *)
Definition set_e_once (v : N) (s : ctl) : ctl :=
  mkCtl v (e_pc s) (in_store s) (c_once s) (c_pc s) (c_closed s) (c_snap s) (in_csock s) (c_nsps s) (s_once s) (s_pc s) (connected s) (in_nsp s) (own_room s) (a_pc s) (h_pc s) (p_sd1 s) (sd1_snap s) (p_srv s) (cc_pending s) (n_discing s) (n_disc s) (discing_first s) (nh_disc s) (ever_conn s) (g_burnt s).
Definition set_e_pc (v : N) (s : ctl) : ctl :=
  mkCtl (e_once s) v (in_store s) (c_once s) (c_pc s) (c_closed s) (c_snap s) (in_csock s) (c_nsps s) (s_once s) (s_pc s) (connected s) (in_nsp s) (own_room s) (a_pc s) (h_pc s) (p_sd1 s) (sd1_snap s) (p_srv s) (cc_pending s) (n_discing s) (n_disc s) (discing_first s) (nh_disc s) (ever_conn s) (g_burnt s).
Definition set_in_store (v : bool) (s : ctl) : ctl :=
  mkCtl (e_once s) (e_pc s) v (c_once s) (c_pc s) (c_closed s) (c_snap s) (in_csock s) (c_nsps s) (s_once s) (s_pc s) (connected s) (in_nsp s) (own_room s) (a_pc s) (h_pc s) (p_sd1 s) (sd1_snap s) (p_srv s) (cc_pending s) (n_discing s) (n_disc s) (discing_first s) (nh_disc s) (ever_conn s) (g_burnt s).
Definition set_c_once (v : N) (s : ctl) : ctl :=
  mkCtl (e_once s) (e_pc s) (in_store s) v (c_pc s) (c_closed s) (c_snap s) (in_csock s) (c_nsps s) (s_once s) (s_pc s) (connected s) (in_nsp s) (own_room s) (a_pc s) (h_pc s) (p_sd1 s) (sd1_snap s) (p_srv s) (cc_pending s) (n_discing s) (n_disc s) (discing_first s) (nh_disc s) (ever_conn s) (g_burnt s).
Definition set_c_pc (v : N) (s : ctl) : ctl :=
  mkCtl (e_once s) (e_pc s) (in_store s) (c_once s) v (c_closed s) (c_snap s) (in_csock s) (c_nsps s) (s_once s) (s_pc s) (connected s) (in_nsp s) (own_room s) (a_pc s) (h_pc s) (p_sd1 s) (sd1_snap s) (p_srv s) (cc_pending s) (n_discing s) (n_disc s) (discing_first s) (nh_disc s) (ever_conn s) (g_burnt s).
Definition set_c_closed (v : bool) (s : ctl) : ctl :=
  mkCtl (e_once s) (e_pc s) (in_store s) (c_once s) (c_pc s) v (c_snap s) (in_csock s) (c_nsps s) (s_once s) (s_pc s) (connected s) (in_nsp s) (own_room s) (a_pc s) (h_pc s) (p_sd1 s) (sd1_snap s) (p_srv s) (cc_pending s) (n_discing s) (n_disc s) (discing_first s) (nh_disc s) (ever_conn s) (g_burnt s).
Definition set_c_snap (v : bool) (s : ctl) : ctl :=
  mkCtl (e_once s) (e_pc s) (in_store s) (c_once s) (c_pc s) (c_closed s) v (in_csock s) (c_nsps s) (s_once s) (s_pc s) (connected s) (in_nsp s) (own_room s) (a_pc s) (h_pc s) (p_sd1 s) (sd1_snap s) (p_srv s) (cc_pending s) (n_discing s) (n_disc s) (discing_first s) (nh_disc s) (ever_conn s) (g_burnt s).
Definition set_in_csock (v : bool) (s : ctl) : ctl :=
  mkCtl (e_once s) (e_pc s) (in_store s) (c_once s) (c_pc s) (c_closed s) (c_snap s) v (c_nsps s) (s_once s) (s_pc s) (connected s) (in_nsp s) (own_room s) (a_pc s) (h_pc s) (p_sd1 s) (sd1_snap s) (p_srv s) (cc_pending s) (n_discing s) (n_disc s) (discing_first s) (nh_disc s) (ever_conn s) (g_burnt s).
Definition set_c_nsps (v : bool) (s : ctl) : ctl :=
  mkCtl (e_once s) (e_pc s) (in_store s) (c_once s) (c_pc s) (c_closed s) (c_snap s) (in_csock s) v (s_once s) (s_pc s) (connected s) (in_nsp s) (own_room s) (a_pc s) (h_pc s) (p_sd1 s) (sd1_snap s) (p_srv s) (cc_pending s) (n_discing s) (n_disc s) (discing_first s) (nh_disc s) (ever_conn s) (g_burnt s).
Definition set_s_once (v : N) (s : ctl) : ctl :=
  mkCtl (e_once s) (e_pc s) (in_store s) (c_once s) (c_pc s) (c_closed s) (c_snap s) (in_csock s) (c_nsps s) v (s_pc s) (connected s) (in_nsp s) (own_room s) (a_pc s) (h_pc s) (p_sd1 s) (sd1_snap s) (p_srv s) (cc_pending s) (n_discing s) (n_disc s) (discing_first s) (nh_disc s) (ever_conn s) (g_burnt s).
Definition set_s_pc (v : N) (s : ctl) : ctl :=
  mkCtl (e_once s) (e_pc s) (in_store s) (c_once s) (c_pc s) (c_closed s) (c_snap s) (in_csock s) (c_nsps s) (s_once s) v (connected s) (in_nsp s) (own_room s) (a_pc s) (h_pc s) (p_sd1 s) (sd1_snap s) (p_srv s) (cc_pending s) (n_discing s) (n_disc s) (discing_first s) (nh_disc s) (ever_conn s) (g_burnt s).
Definition set_connected (v : bool) (s : ctl) : ctl :=
  mkCtl (e_once s) (e_pc s) (in_store s) (c_once s) (c_pc s) (c_closed s) (c_snap s) (in_csock s) (c_nsps s) (s_once s) (s_pc s) v (in_nsp s) (own_room s) (a_pc s) (h_pc s) (p_sd1 s) (sd1_snap s) (p_srv s) (cc_pending s) (n_discing s) (n_disc s) (discing_first s) (nh_disc s) (ever_conn s) (g_burnt s).
Definition set_in_nsp (v : bool) (s : ctl) : ctl :=
  mkCtl (e_once s) (e_pc s) (in_store s) (c_once s) (c_pc s) (c_closed s) (c_snap s) (in_csock s) (c_nsps s) (s_once s) (s_pc s) (connected s) v (own_room s) (a_pc s) (h_pc s) (p_sd1 s) (sd1_snap s) (p_srv s) (cc_pending s) (n_discing s) (n_disc s) (discing_first s) (nh_disc s) (ever_conn s) (g_burnt s).
Definition set_own_room (v : bool) (s : ctl) : ctl :=
  mkCtl (e_once s) (e_pc s) (in_store s) (c_once s) (c_pc s) (c_closed s) (c_snap s) (in_csock s) (c_nsps s) (s_once s) (s_pc s) (connected s) (in_nsp s) v (a_pc s) (h_pc s) (p_sd1 s) (sd1_snap s) (p_srv s) (cc_pending s) (n_discing s) (n_disc s) (discing_first s) (nh_disc s) (ever_conn s) (g_burnt s).
Definition set_a_pc (v : N) (s : ctl) : ctl :=
  mkCtl (e_once s) (e_pc s) (in_store s) (c_once s) (c_pc s) (c_closed s) (c_snap s) (in_csock s) (c_nsps s) (s_once s) (s_pc s) (connected s) (in_nsp s) (own_room s) v (h_pc s) (p_sd1 s) (sd1_snap s) (p_srv s) (cc_pending s) (n_discing s) (n_disc s) (discing_first s) (nh_disc s) (ever_conn s) (g_burnt s).
Definition set_h_pc (v : N) (s : ctl) : ctl :=
  mkCtl (e_once s) (e_pc s) (in_store s) (c_once s) (c_pc s) (c_closed s) (c_snap s) (in_csock s) (c_nsps s) (s_once s) (s_pc s) (connected s) (in_nsp s) (own_room s) (a_pc s) v (p_sd1 s) (sd1_snap s) (p_srv s) (cc_pending s) (n_discing s) (n_disc s) (discing_first s) (nh_disc s) (ever_conn s) (g_burnt s).
Definition set_p_sd1 (v : N) (s : ctl) : ctl :=
  mkCtl (e_once s) (e_pc s) (in_store s) (c_once s) (c_pc s) (c_closed s) (c_snap s) (in_csock s) (c_nsps s) (s_once s) (s_pc s) (connected s) (in_nsp s) (own_room s) (a_pc s) (h_pc s) v (sd1_snap s) (p_srv s) (cc_pending s) (n_discing s) (n_disc s) (discing_first s) (nh_disc s) (ever_conn s) (g_burnt s).
Definition set_sd1_snap (v : bool) (s : ctl) : ctl :=
  mkCtl (e_once s) (e_pc s) (in_store s) (c_once s) (c_pc s) (c_closed s) (c_snap s) (in_csock s) (c_nsps s) (s_once s) (s_pc s) (connected s) (in_nsp s) (own_room s) (a_pc s) (h_pc s) (p_sd1 s) v (p_srv s) (cc_pending s) (n_discing s) (n_disc s) (discing_first s) (nh_disc s) (ever_conn s) (g_burnt s).
Definition set_p_srv (v : N) (s : ctl) : ctl :=
  mkCtl (e_once s) (e_pc s) (in_store s) (c_once s) (c_pc s) (c_closed s) (c_snap s) (in_csock s) (c_nsps s) (s_once s) (s_pc s) (connected s) (in_nsp s) (own_room s) (a_pc s) (h_pc s) (p_sd1 s) (sd1_snap s) v (cc_pending s) (n_discing s) (n_disc s) (discing_first s) (nh_disc s) (ever_conn s) (g_burnt s).
Definition set_cc_pending (v : bool) (s : ctl) : ctl :=
  mkCtl (e_once s) (e_pc s) (in_store s) (c_once s) (c_pc s) (c_closed s) (c_snap s) (in_csock s) (c_nsps s) (s_once s) (s_pc s) (connected s) (in_nsp s) (own_room s) (a_pc s) (h_pc s) (p_sd1 s) (sd1_snap s) (p_srv s) v (n_discing s) (n_disc s) (discing_first s) (nh_disc s) (ever_conn s) (g_burnt s).
Definition set_n_discing (v : N) (s : ctl) : ctl :=
  mkCtl (e_once s) (e_pc s) (in_store s) (c_once s) (c_pc s) (c_closed s) (c_snap s) (in_csock s) (c_nsps s) (s_once s) (s_pc s) (connected s) (in_nsp s) (own_room s) (a_pc s) (h_pc s) (p_sd1 s) (sd1_snap s) (p_srv s) (cc_pending s) v (n_disc s) (discing_first s) (nh_disc s) (ever_conn s) (g_burnt s).
Definition set_n_disc (v : N) (s : ctl) : ctl :=
  mkCtl (e_once s) (e_pc s) (in_store s) (c_once s) (c_pc s) (c_closed s) (c_snap s) (in_csock s) (c_nsps s) (s_once s) (s_pc s) (connected s) (in_nsp s) (own_room s) (a_pc s) (h_pc s) (p_sd1 s) (sd1_snap s) (p_srv s) (cc_pending s) (n_discing s) v (discing_first s) (nh_disc s) (ever_conn s) (g_burnt s).
Definition set_discing_first (v : bool) (s : ctl) : ctl :=
  mkCtl (e_once s) (e_pc s) (in_store s) (c_once s) (c_pc s) (c_closed s) (c_snap s) (in_csock s) (c_nsps s) (s_once s) (s_pc s) (connected s) (in_nsp s) (own_room s) (a_pc s) (h_pc s) (p_sd1 s) (sd1_snap s) (p_srv s) (cc_pending s) (n_discing s) (n_disc s) v (nh_disc s) (ever_conn s) (g_burnt s).
Definition set_nh_disc (v : N) (s : ctl) : ctl :=
  mkCtl (e_once s) (e_pc s) (in_store s) (c_once s) (c_pc s) (c_closed s) (c_snap s) (in_csock s) (c_nsps s) (s_once s) (s_pc s) (connected s) (in_nsp s) (own_room s) (a_pc s) (h_pc s) (p_sd1 s) (sd1_snap s) (p_srv s) (cc_pending s) (n_discing s) (n_disc s) (discing_first s) v (ever_conn s) (g_burnt s).
Definition set_ever_conn (v : bool) (s : ctl) : ctl :=
  mkCtl (e_once s) (e_pc s) (in_store s) (c_once s) (c_pc s) (c_closed s) (c_snap s) (in_csock s) (c_nsps s) (s_once s) (s_pc s) (connected s) (in_nsp s) (own_room s) (a_pc s) (h_pc s) (p_sd1 s) (sd1_snap s) (p_srv s) (cc_pending s) (n_discing s) (n_disc s) (discing_first s) (nh_disc s) v (g_burnt s).
Definition set_g_burnt (v : bool) (s : ctl) : ctl :=
  mkCtl (e_once s) (e_pc s) (in_store s) (c_once s) (c_pc s) (c_closed s) (c_snap s) (in_csock s) (c_nsps s) (s_once s) (s_pc s) (connected s) (in_nsp s) (own_room s) (a_pc s) (h_pc s) (p_sd1 s) (sd1_snap s) (p_srv s) (cc_pending s) (n_discing s) (n_disc s) (discing_first s) (nh_disc s) (ever_conn s) v.

(** ** Reason operations performed by a step *)
Inductive rop :=
| SetE (r : N)    (* the eio once was taken by a call with reason r *)
| CopyEC          (* the conn once was taken by the eio body: reason := eio reason *)
| SetC (r : N)    (* the conn once was taken by c.close() with reason r *)
| CopyCS          (* the socket once was taken through the connection: reason := conn reason *)
| SetS (r : N)    (* the socket once was taken by a namespace-level call with reason r *)
| Report.         (* the disconnect handlers are called with the socket reason *)

(** [call_X] is the first half of [x.closeOnce.Do(...)] as seen by a caller: start the body if the
    once is fresh (and say which reason operation that is). *)
Definition call_E (r : N) (s : ctl) : ctl * list rop :=
  if e_once s =? Fresh then (set_e_once Running (set_e_pc 0 s), [SetE r]) else (s, []).
Definition call_C (o : rop) (s : ctl) : ctl * list rop :=
  if c_once s =? Fresh then (set_c_once Running (set_c_pc 0 s), [o]) else (s, []).
(** serverSocket.onClose(reason).  With [gate_outside] the `connected` test comes first and a call
    on a socket that is not connected returns without touching the once. *)
Definition call_S (k : cfg) (o : rop) (s : ctl) : ctl * list rop :=
  if gate_outside k && negb (connected s) then (s, [])
  else if s_once s =? Fresh then (set_s_once Running (set_s_pc 0 s), [o]) else (s, []).
(** the call returns at once (socket not connected, gate before the once): the caller does not wait *)
Definition gate_hit (k : cfg) (s : ctl) : bool := gate_outside k && negb (connected s).
(** a caller that went into closeOnce.Do goes on when the body has finished *)
Definition ret_S (k : cfg) (s : ctl) : bool := s_once s =? Done.

Definition upd (f : ctl -> ctl) (x : ctl * list rop) : ctl * list rop := (f (fst x), snd x).
Definition plain (s : ctl) : option (ctl * list rop) := Some (s, []).

(** ** Termination causes *)
Inductive cause :=
| CClientDisconnect    (* DISCONNECT packet from the client *)
| CServerDisconnect0   (* ServerSocket.Disconnect(false) *)
| CServerDisconnect1   (* ServerSocket.Disconnect(true) *)
| CTransportClose      (* transport reports a clean close (client closed / CLOSE packet) *)
| CTransportError      (* transport reports an error (cut stream, bad payload) *)
| CPingTimeout
| CServerClose         (* Server.Close *)
| CParseError          (* undecodable Socket.IO packet -> onFatalError -> go eio.Close() *)
| CInvalidState        (* packet for a namespace the connection has not joined -> c.close() *)
| CConnectTimeout.     (* no namespace joined within ConnectTimeout -> c.close() *)

(** The mapping table: the reasons a cause hands to the close path.  A DISCONNECT packet that
    arrives before the socket is in the connection's table is an "invalid state" (forced close);
    Server.Close names "server shutting down" for the sockets of "/" it finds and closes the
    sessions with "forced close"; Disconnect(true) disconnects the namespaces first.  (c.close()
    also passes "forced server close" to the connection; that call never wins, see the theorems.) *)
Definition cause_reasons (c : cause) : list N :=
  match c with
  | CClientDisconnect => [RClientNspDisconnect; RForcedClose]
  | CServerDisconnect0 => [RServerNspDisconnect]
  | CServerDisconnect1 => [RServerNspDisconnect; RForcedClose]
  | CTransportClose => [RTransportClose]
  | CTransportError => [RTransportError]
  | CPingTimeout => [RPingTimeout]
  | CServerClose => [RServerShuttingDown; RForcedClose]
  | CParseError => [RForcedClose]
  | CInvalidState => [RForcedClose]
  | CConnectTimeout => [RForcedClose]
  end.

(** ** Actions *)
Inductive act :=
| AEbody | ACbody | ASbody | AAdmit | AHandler
| ACClose               (* second half of c.close(): after eio.Close() returned, c.onClose(forced server close) *)
| ACause (c : cause).

(** c.close(): c.eio.Close(); closePacketQueue(); c.onClose(forced server close) *)
Definition cclose (s : ctl) : ctl * list rop := upd (set_cc_pending true) (call_E RForcedClose s).

Definition cstep (k : cfg) (a : act) (s : ctl) : option (ctl * list rop) :=
  match a with
  (* ---- engine.io serverSocket.close(reason), body of closeOnce ---- *)
  | AEbody =>
      if negb (e_once s =? Running) then None else
      if e_pc s =? 0 then
        (* close(closeChan); [transport.Close()]; deferred callbacks.OnClose(reason) = serverConn.onClose(reason) *)
        Some (upd (set_e_pc 1) (call_C CopyEC s))
      else (* OnClose returned; deferred s.onClose(sid) = store.delete(sid) *)
        if c_once s =? Done then plain (set_e_once Done (set_in_store false s)) else None
  (* ---- serverConn.onClose(reason), body of closeOnce ---- *)
  | ACbody =>
      if negb (c_once s =? Running) then None else
      if c_pc s =? 0 then (* fixed code: closed = true; closeReason = reason *)
        plain (set_c_pc 1 (if recheck k then set_c_closed true s else s))
      else if c_pc s =? 1 then (* sockets.getAndRemoveAll() *)
        plain (set_c_pc 2 (set_c_snap (in_csock s) (set_in_csock false s)))
      else if c_pc s =? 2 then (* for each socket: socket.onClose(reason); then closePacketQueue, parser.Reset *)
        if c_snap s && negb (gate_hit k s) then Some (upd (set_c_pc 3) (call_S k CopyCS s)) else plain (set_c_once Done s)
      else if ret_S k s then plain (set_c_once Done s) else None
  (* ---- serverSocket.onClose(reason), body of closeOnce ---- *)
  | ASbody =>
      if negb (s_once s =? Running) then None else
      if s_pc s =? 0 then (* if !s.Connected() { return } *)
        if connected s then plain (set_s_pc 1 s) else plain (set_s_once Done (set_g_burnt true s))
      else if s_pc s =? 1 then (* disconnecting handlers (goroutines, waited for); [persist session]; join = no-op *)
        plain (set_s_pc 2 (set_n_discing (sat2 (n_discing s)) s))
      else if s_pc s =? 2 then (* leaveAll: adapter.DeleteAll(id) *)
        plain (set_s_pc 3 (set_own_room false s))
      else if s_pc s =? 3 then (* nsp.remove(s) *)
        plain (set_s_pc 4 (set_in_nsp false s))
      else if s_pc s =? 4 then (* conn.remove(s): only if still in c.sockets; then also c.nsps.remove *)
        plain (set_s_pc 5 (if in_csock s then set_in_csock false (set_c_nsps false s) else s))
      else if s_pc s =? 5 then (* connected = false *)
        plain (set_s_pc 6 (set_connected false s))
      else (* disconnect handlers: one goroutine over the handlers registered now *)
        Some (set_s_once Done
               (set_n_disc (sat2 (n_disc s))
                 (set_discing_first ((n_disc s =? 0) && (1 <=? n_discing s))
                   (set_nh_disc (if h_pc s =? 2 then sat2 (nh_disc s) else nh_disc s) s))), [Report])
  (* ---- serverConn.connect -> Namespace.add -> doConnect ---- *)
  | AAdmit =>
      if a_pc s =? 0 then (* CONNECT packet; not in c.sockets; newServerSocket; middlewares return nil *)
        if in_csock s then None else plain (set_a_pc 1 s)
      else if a_pc s =? 1 then (* doConnect: n.sockets.set(socket) *)
        plain (set_a_pc 2 (set_in_nsp true s))
      else if a_pc s =? 2 then (* doConnect: conn.sockets.set(socket); conn.nsps.set(nsp)  (before the CONNECT reply) *)
        plain (set_a_pc 3 (set_in_csock true (set_c_nsps true s)))
      else if a_pc s =? 3 then (* socket.onConnect under connectedMu: Join(own id); CONNECT reply; connected = true; go connection handlers *)
        plain (set_a_pc 4 (set_connected true (set_ever_conn true (set_h_pc 1 (set_own_room true s)))))
      else if a_pc s =? 4 then (* back in serverConn.connect (fixed code): if c.closed { socket.onClose(c.closeReason) } *)
        if recheck k && c_closed s && negb (gate_hit k s) then Some (upd (set_a_pc 5) (call_S k CopyCS s)) else plain (set_a_pc 6 s)
      else if a_pc s =? 5 then
        if ret_S k s then plain (set_a_pc 6 s) else None
      else None
  (* ---- the connection handler: socket.OnDisconnect(...) ---- *)
  | AHandler => if h_pc s =? 1 then plain (set_h_pc 2 s) else None
  | ACClose =>
      if cc_pending s && (e_once s =? Done)
      then Some (upd (set_cc_pending false) (call_C (SetC RForcedServerClose) s))
      else None
  (* ---- causes ---- *)
  | ACause CClientDisconnect =>
      (* goroutine of onParserFinish: c.sockets.getByNsp; found -> socket.onClose; else "invalid state" *)
      if in_csock s then Some (call_S k (SetS RClientNspDisconnect) s) else Some (cclose s)
  | ACause CServerDisconnect0 =>
      (* if !s.Connected() { return }; send DISCONNECT; s.onClose(server namespace disconnect) *)
      if connected s then Some (call_S k (SetS RServerNspDisconnect) s) else plain s
  | ACause CServerDisconnect1 =>
      if p_sd1 s =? 0 then (* if !s.Connected() { return }; conn.disconnectAll: getAndRemoveAll *)
        if connected s then plain (set_p_sd1 1 (set_sd1_snap (in_csock s) (set_in_csock false s))) else plain s
      else if p_sd1 s =? 1 then (* socket.Disconnect(false) for each socket of the snapshot *)
        if sd1_snap s && connected s then Some (upd (set_p_sd1 2) (call_S k (SetS RServerNspDisconnect) s))
        else plain (set_p_sd1 3 s)
      else if p_sd1 s =? 2 then
        if ret_S k s then plain (set_p_sd1 3 s) else None
      else if p_sd1 s =? 3 then (* conn.close() *)
        Some (upd (set_p_sd1 4) (cclose s))
      else None
  | ACause CTransportClose => Some (call_E RTransportClose s)   (* onTransportClose goroutine *)
  | ACause CTransportError => Some (call_E RTransportError s)
  | ACause CPingTimeout => Some (call_E RPingTimeout s)
  | ACause CServerClose =>
      if p_srv s =? 0 then (* for each socket of s.Sockets(): socket.onClose(server shutting down) *)
        if in_nsp s && negb (gate_hit k s) then Some (upd (set_p_srv 1) (call_S k (SetS RServerShuttingDown) s)) else plain (set_p_srv 2 s)
      else if p_srv s =? 1 then
        if ret_S k s then plain (set_p_srv 2 s) else None
      else if p_srv s =? 2 then (* eio.Close: closed flag; store.closeAll: socket.Close() *)
        if in_store s then Some (upd (set_p_srv 3) (call_E RForcedClose s)) else plain (set_p_srv 3 s)
      else None
  | ACause CParseError => Some (call_E RForcedClose s)    (* onFatalError: go c.eio.Close() *)
  | ACause CInvalidState => Some (cclose s)
  | ACause CConnectTimeout => if c_nsps s then plain s else Some (cclose s)
  end.

(** ** Full state = control state + the reason cells *)
Record st := mkSt {
  ctl_of : ctl;
  e_reason : N;     (* reason given to the winner of the eio once *)
  c_reason : N;     (* ... of the conn once *)
  s_reason : N;     (* ... of the socket once *)
  rep_reason : N    (* reason the disconnect handlers were (first) called with *)
}.
Definition init : st := mkSt cinit RNone RNone RNone RNone.

Definition apply_rop (s : st) (o : rop) : st :=
  match o with
  | SetE r => mkSt (ctl_of s) r (c_reason s) (s_reason s) (rep_reason s)
  | CopyEC => mkSt (ctl_of s) (e_reason s) (e_reason s) (s_reason s) (rep_reason s)
  | SetC r => mkSt (ctl_of s) (e_reason s) r (s_reason s) (rep_reason s)
  | CopyCS => mkSt (ctl_of s) (e_reason s) (c_reason s) (c_reason s) (rep_reason s)
  | SetS r => mkSt (ctl_of s) (e_reason s) (c_reason s) r (rep_reason s)
  | Report => mkSt (ctl_of s) (e_reason s) (c_reason s) (s_reason s)
                   (if rep_reason s =? RNone then s_reason s else rep_reason s)
  end.
Definition set_ctl (c : ctl) (s : st) : st := mkSt c (e_reason s) (c_reason s) (s_reason s) (rep_reason s).

Definition step (k : cfg) (a : act) (s : st) : option st :=
  match cstep k a (ctl_of s) with
  | Some (c', ops) => Some (fold_left apply_rop ops (set_ctl c' s))
  | None => None
  end.

Definition all_causes : list cause :=
  [CClientDisconnect; CServerDisconnect0; CServerDisconnect1; CTransportClose; CTransportError;
   CPingTimeout; CServerClose; CParseError; CInvalidState; CConnectTimeout].
Definition all_acts : list act := [AEbody; ACbody; ASbody; AAdmit; AHandler; ACClose] ++ map ACause all_causes.

Lemma all_acts_complete : forall a, In a all_acts.
Proof. intros [| | | | | |[]]; simpl; tauto. Qed.

(** Quiescence: no goroutine that exists can move.  Causes are external events (a cause that has
    not occurred is not pending work), so only the internal actions and the two multi-step cause
    threads, once started, count; a CONNECT packet that was never sent is not pending either. *)
Definition internal_pending (a : act) (s : ctl) : bool :=
  match a with
  | ACause CServerDisconnect1 => negb (p_sd1 s =? 0)
  | ACause CServerClose => negb (p_srv s =? 0)
  | ACause _ => false
  | AAdmit => negb (a_pc s =? 0)
  | _ => true
  end.
Definition quiescentb (k : cfg) (s : ctl) : bool :=
  forallb (fun a => negb (internal_pending a s) || match cstep k a s with None => true | Some _ => false end) all_acts.

(** what the server still holds about the socket: namespace list, rooms, connected flag, and the
    Engine.IO session.  (The per-connection table c.sockets is not part of it: the serverConn
    object is dropped with the session.) *)
Definition no_trace_nsp (s : ctl) : bool :=
  negb (in_nsp s) && negb (own_room s) && negb (connected s).
Definition no_trace (s : ctl) : bool := no_trace_nsp s && negb (in_store s).
