(** Instantiation of the C01 composition section (Sio/EndToEnd.v) with concrete components, so
    that its hypotheses are discharged rather than assumed:

    - codec: Socket.IO's packet structure at the level the composition needs - a header frame
      carrying the name, the number of attachments and the arguments with every binary leaf
      replaced by a numbered placeholder, followed by one frame per binary leaf, and a decoder
      state machine with a reconstructor (idle / waiting for [remaining] attachments);
    - framing: a transport send carries its frames as they are; a send is accepted when its
      payload size is within [max];
    - link: identity; registry: filter of the table by name.
    The byte-level codec (JSON, base64, payload separators) is C09/C10/C11's subject; those
    theorems have the shape of the section hypotheses [codec_roundtrip] / [framing_roundtrip]. *)
From Coq Require Import List Bool Arith Lia Permutation NArith ZArith.
Import ListNotations.
From SioV Require Import Base.GoSem.
From SioV Require Import Sio.EndToEnd.

Definition iname := list N.
Definition iname_eqb : iname -> iname -> bool := list_eqb N.eqb.
Lemma iname_eqb_eq : forall a b, iname_eqb a b = true <-> a = b.
Proof. apply list_eqb_eq. intros; apply N.eqb_eq. Qed.

Inductive iarg := IStr (s : list N) | INum (z : Z) | IBin (b : list N).
Definition ioffset := list N.
Definition ioff_arg (o : ioffset) : iarg := IStr o.

(** argument inside the header frame: binary leaves are placeholders *)
Inductive harg := HStr (s : list N) | HNum (z : Z) | HPh (k : nat).
Inductive iframe :=
| FHead (natt : nat) (nm : iname) (args : list harg)
| FAtt (b : list N).

(** deconstruct: replace binary leaves by placeholders numbered from [k] *)
Fixpoint decon (k : nat) (args : list iarg) : list harg * list (list N) :=
  match args with
  | [] => ([], [])
  | IStr s :: r => let (h, b) := decon k r in (HStr s :: h, b)
  | INum z :: r => let (h, b) := decon k r in (HNum z :: h, b)
  | IBin x :: r => let (h, b) := decon (S k) r in (HPh k :: h, x :: b)
  end.

Definition recon_one (bins : list (list N)) (h : harg) : iarg :=
  match h with
  | HStr s => IStr s
  | HNum z => INum z
  | HPh k => IBin (nth k bins [])
  end.
Definition recon (h : list harg) (bins : list (list N)) : list iarg := map (recon_one bins) h.

Definition ienc (e : event iname iarg) : list iframe :=
  let (h, bins) := decon 0 (snd e) in
  FHead (length bins) (fst e) h :: map FAtt bins.

Inductive idstate :=
| Idle
| Pending (nm : iname) (h : list harg) (remaining : nat) (acc : list (list N)).

Definition idec_step (d : idstate) (f : iframe) : idstate * option (event iname iarg) :=
  match d, f with
  | Idle, FHead 0 nm h => (Idle, Some (nm, recon h []))
  | Idle, FHead (S n) nm h => (Pending nm h (S n) [], None)
  | Idle, FAtt _ => (Idle, None)
  | Pending nm h rem acc, FAtt b =>
      match rem with
      | 0 => (Idle, None)
      | 1 => (Idle, Some (nm, recon h (acc ++ [b])))
      | S r => (Pending nm h r (acc ++ [b]), None)
      end
  | Pending _ _ _ _, FHead _ _ _ => (Idle, None)
  end.

Notation ifeed := (feed iname iarg iframe idstate idec_step).

Lemma recon_decon : forall args pre,
  recon (fst (decon (length pre) args)) (pre ++ snd (decon (length pre) args)) = args.
Proof.
  assert (G : forall args pre rest,
            recon (fst (decon (length pre) args)) (pre ++ snd (decon (length pre) args) ++ rest) = args).
  { induction args as [|a args IH]; intros pre rest; [reflexivity|].
    destruct a as [s | z | x]; simpl.
    - specialize (IH pre rest). destruct (decon (length pre) args) as [h b]; simpl in *. now rewrite IH.
    - specialize (IH pre rest). destruct (decon (length pre) args) as [h b]; simpl in *. now rewrite IH.
    - specialize (IH (pre ++ [x]) rest). rewrite app_length in IH. simpl in IH.
      rewrite Nat.add_1_r in IH.
      destruct (decon (S (length pre)) args) as [h b]; simpl in *.
      rewrite <- app_assoc in IH. simpl in IH. rewrite IH.
      rewrite app_nth2 by lia. now rewrite Nat.sub_diag. }
  intros args pre. specialize (G args pre []). now rewrite app_nil_r in G.
Qed.

Lemma ifeed_cons : forall d f fs,
  ifeed d (f :: fs) =
  let (d1, o) := idec_step d f in
  let (d2, es) := ifeed d1 fs in
  (d2, match o with Some e => e :: es | None => es end).
Proof. reflexivity. Qed.

Lemma feed_atts : forall nm h bins acc, bins <> [] ->
  ifeed (Pending nm h (length bins) acc) (map FAtt bins) = (Idle, [(nm, recon h (acc ++ bins))]).
Proof.
  induction bins as [|b bins IH]; intros acc Hne; [contradiction|].
  destruct bins as [|b2 bins].
  - reflexivity.
  - change (map FAtt (b :: b2 :: bins)) with (FAtt b :: map FAtt (b2 :: bins)).
    change (length (b :: b2 :: bins)) with (S (S (length bins))).
    rewrite ifeed_cons. cbn [idec_step].
    change (S (length bins)) with (length (b2 :: bins)).
    rewrite IH by discriminate. now rewrite <- app_assoc.
Qed.

Lemma feed_atts_partial : forall nm h b1 k acc,
  snd (ifeed (Pending nm h (length b1 + S k) acc) (map FAtt b1)) = [].
Proof.
  induction b1 as [|b b1 IH]; intros k acc; [reflexivity|].
  change (map FAtt (b :: b1)) with (FAtt b :: map FAtt b1).
  replace (length (b :: b1) + S k) with (S (S (length b1 + k))) by (simpl; lia).
  rewrite ifeed_cons. cbn [idec_step].
  specialize (IH k (acc ++ [b])). rewrite Nat.add_succ_r in IH.
  destruct (ifeed (Pending nm h (S (length b1 + k)) (acc ++ [b])) (map FAtt b1)) as [d es].
  simpl in *. exact IH.
Qed.

Lemma icodec_roundtrip : forall e, ifeed Idle (ienc e) = (Idle, [e]).
Proof.
  intros [nm args]. unfold ienc. simpl.
  pose proof (recon_decon args []) as R. simpl in R.
  destruct (decon 0 args) as [h bins]; simpl in *.
  destruct bins as [|b bins].
  - simpl. now rewrite R.
  - change (length (b :: bins)) with (S (length bins)). cbn [feed idec_step].
    pose proof (feed_atts nm h (b :: bins) []) as F. cbn [length] in F.
    rewrite F by discriminate. simpl. now rewrite R.
Qed.

Lemma icodec_silent_prefix : forall e p s,
  ienc e = p ++ s -> s <> [] -> snd (ifeed Idle p) = [].
Proof.
  intros [nm args] p s He Hs. unfold ienc in He. simpl in He.
  destruct (decon 0 args) as [h bins].
  destruct p as [|f p]; [reflexivity|].
  simpl in He. inversion He as [[Hf Hrest]]. subst f.
  apply map_eq_app in Hrest as [b1 [b2 [Hb [Hp Hs2]]]]. subst p s bins.
  destruct b2 as [|x b2]; [contradiction|].
  rewrite app_length. cbn [length].
  destruct (length b1 + S (length b2)) as [|n] eqn:En; [lia|].
  cbn [feed idec_step]. rewrite <- En.
  pose proof (feed_atts_partial nm h b1 (length b2) []) as P.
  destruct (ifeed (Pending nm h (length b1 + S (length b2)) []) (map FAtt b1)). exact P.
Qed.

(** size of a transport send and the receiver's decision *)
Definition iframe_size (f : iframe) : N :=
  match f with
  | FHead _ nm h => N.of_nat (length nm) + N.of_nat (length h)
  | FAtt b => N.of_nat (length b)
  end.
Definition iaccepts (max : N) (u : list iframe) : bool :=
  (fold_right N.add 0 (map iframe_size u) <=? max)%N.

Definition iget_all (hs : list (handler iname)) (n : iname) : list (handler iname) :=
  filter (fun h => iname_eqb (hname iname h) n) hs.

Definition ideliveries (max : N) (hs : list (handler iname)) :=
  deliveries iname iarg iframe idstate Idle idec_step (list iframe) (fun b => b) (fun u => u)
             (iaccepts max) (fun us => us) (iget_all hs).

Lemma all_frames_ok : forall e : event iname iarg, Forall (fun _ : iframe => True) (ienc e).
Proof. intros e. apply Forall_forall. trivial. Qed.

Lemma inst_exactly_once :
  forall (max : N) (hs : list (handler iname)), NoDup (map (hid iname) hs) ->
  forall (c : cfg) (ems : list (list (event iname iarg * ioffset))) tr batches,
    client_strips_offset c = false ->
    Interleave ems tr ->
    concat batches = wire iname iarg ioffset ioff_arg iframe ienc c tr ->
    within_limits iframe (list iframe) (fun b => b) (iaccepts max) batches ->
    sig_matches iname iarg hs (map fst (concat ems)) ->
    forall h, In h hs ->
      Permutation (handed iarg (hid iname h) (ideliveries max hs c batches))
                  (args_named iname iname_eqb iarg (hname iname h) (map fst (concat ems))).
Proof.
  intros max hs Hnd c ems tr batches Hs Hil Hw Hl Hsig h Hh.
  pose proof (exactly_once_intact iname iname_eqb iname_eqb_eq iarg ioffset ioff_arg iframe ienc
                idstate Idle idec_step icodec_roundtrip (fun _ => True) all_frames_ok
                (list iframe) (fun b => b) (fun u => u)
                (fun b _ => eq_refl) (iaccepts max) (fun us => us) (fun us => eq_refl)
                hs (iget_all hs) (fun n => eq_refl) Hnd c ems tr batches Hil Hw Hl Hsig
                (handlers_ok_fixed iname hs c Hs)) as [_ [H _]].
  exact (proj2 (H h Hh)).
Qed.

(** ** Witness of the finding (code before the fix) *)
Definition witness_name : iname := [115; 116; 114]%N.           (* "str" *)
Definition witness_event : event iname iarg := (witness_name, [IStr [104; 105]%N]).   (* "hi" *)
Definition witness_hs : list (handler iname) := [mkHandler iname 0 witness_name 1 true].
Definition witness_ems : list (list (event iname iarg * ioffset)) := [[(witness_event, [49]%N)]].
Definition witness_tr : list (nat * (event iname iarg * ioffset)) := [(0, (witness_event, [49]%N))].
Definition witness_batches : list (list iframe) :=
  [wire iname iarg ioffset ioff_arg iframe ienc (mkCfg true true true) witness_tr].

Lemma inst_refuted :
  exists (c : cfg) (hs : list (handler iname)) ems tr batches h,
    NoDup (map (hid iname) hs) /\ In h hs /\
    Interleave ems tr /\
    concat batches = wire iname iarg ioffset ioff_arg iframe ienc c tr /\
    within_limits iframe (list iframe) (fun b => b) (iaccepts 1000000) batches /\
    sig_matches iname iarg hs (map fst (concat ems)) /\
    handed iarg (hid iname h) (ideliveries 1000000 hs c batches) = [] /\
    args_named iname iname_eqb iarg (hname iname h) (map fst (concat ems)) <> [].
Proof.
  exists (mkCfg true true true), witness_hs, witness_ems, witness_tr, witness_batches,
         (mkHandler iname 0 witness_name 1 true).
  split; [repeat constructor; intros [] |].
  split; [now left |].
  split; [apply (il_step [] (witness_event, [49]%N) [] [] []); apply il_done; repeat constructor |].
  split; [vm_compute; reflexivity |].
  split; [constructor; [vm_compute; reflexivity | constructor] |].
  split; [intros h e [<- | []] [<- | []] _; reflexivity |].
  split; [vm_compute; reflexivity | vm_compute; discriminate].
Qed.

Lemma inst_fixed_example :
  handed iarg 0 (ideliveries 1000000 witness_hs (mkCfg true true false) witness_batches)
  = [[IStr [104; 105]%N]].
Proof. vm_compute. reflexivity. Qed.
