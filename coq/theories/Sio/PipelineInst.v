(** Instances of Sio/Pipeline.v used by Props/C02.v: the real long-polling batcher as the
    [split] of the polling client transport, the checker's soundness at [bytes], and the schedule
    that refutes handler-entry order. *)
From SioV Require Import Base.Conc Sio.Pipeline Sio.PipelineProofs Sio.PipelineCheck.
From SioV Require Import Eio.Batcher Eio.BatcherProofs.
From SioV Require Import Sio.PipelineConn Sio.PipelineConnProofs.

(** *** engine.io/client_socket.go:writeWritablePackets as the splitter of the polling client *)
Definition to_eio (f : frame bytes) : packet := mkPacket (f_bin f) 4 (f_data f).
Definition of_eio (p : packet) : frame bytes := mkFrame (p_binary p) (p_data p).

Definition batcher_split (max : Z) (b : list (frame bytes)) : list (list (frame bytes)) :=
  map (map of_eio) (write_writable max true (map to_eio b)).

Lemma of_to_eio b : map of_eio (map to_eio b) = b.
Proof. induction b as [|[fb fd] b IH]; simpl; [reflexivity|]. now rewrite IH. Qed.

Lemma batcher_split_concat max b : concat (batcher_split max b) = b.
Proof.
  unfold batcher_split. rewrite <- concat_map, write_concat. apply of_to_eio.
Qed.

(** *** The checker on bytes *)
Lemma check_wire_bytes_sound fuel (progs : list (list (spacket bytes))) (w : list (frame bytes))
      order rem :
  check_wire bytes_eqb fuel progs w = Some (order, rem) ->
  exists ps, pops progs order = Some (ps, rem) /\ w = flat_map frames_of ps.
Proof.
  apply check_wire_sound. intros a b H. now apply bytes_eqb_eq.
Qed.

(** *** Handler-entry order is not guaranteed *)
Definition witness_progs : list (list (spacket nat)) := [[mkSP 1 []; mkSP 2 []]].
Definition witness_sched : list action :=
  [Emit 0; Emit 0; DrGet; DrSend; DrSend; Recv; Recv; Dispatch 1; Dispatch 0].

Lemma witness_entered :
  st_entered (run (fun _ : nat => Some 0) 0 (fun b => [b]) WS witness_sched witness_progs)
  = [mkSP 2 []; mkSP 1 []].
Proof. vm_compute. reflexivity. Qed.

Lemma C02_handler_entry_refuted_witness :
  exists (tr : transport) (progs : list (list (spacket nat))) (sched : list action),
    Forall (Forall (wf_packet (fun _ => Some 0) 0)) progs /\
    ~ exists rem, interleaving progs
                    (st_entered (run (fun _ => Some 0) 0 (fun b => [b]) tr sched progs)) rem.
Proof.
  exists WS, witness_progs, witness_sched. split.
  - repeat constructor.
  - rewrite witness_entered. intros (rem & order & H).
    destruct order as [|i o]; simpl in H; [discriminate|].
    destruct i as [|i]; simpl in H.
    + destruct (pops [[mkSP 2 []]] o) as [[r l]|]; [|discriminate]. inversion H.
    + destruct i; discriminate.
Qed.

(** *** Per-emitter order across the connect instant is not guaranteed either: the event emitted
    between `state = Connected` and the flush overtakes the goroutine's own parked event. *)
Definition window_sched : list caction := [CEmit 0; CConnected; CEmit 0; CFlush].

Lemma window_log :
  map snd (c_all (crun (fun _ : nat => Some 0) 0 (fun b => [b]) WS window_sched witness_progs))
  = [mkSP 2 []; mkSP 1 []].
Proof. vm_compute. reflexivity. Qed.

Lemma C02_connect_window_refuted_witness :
  exists (tr : transport) (progs : list (list (spacket nat))) (sched : list caction),
    Forall (Forall (wf_packet (fun _ => Some 0) 0)) progs /\
    ~ exists rem, interleaving progs
                    (map snd (c_all (crun (fun _ => Some 0) 0 (fun b => [b]) tr sched progs))) rem.
Proof.
  exists WS, witness_progs, window_sched. split.
  - repeat constructor.
  - rewrite window_log. intros (rem & order & H).
    destruct order as [|i o]; simpl in H; [discriminate|].
    destruct i as [|i]; simpl in H.
    + destruct (pops [[mkSP 2 []]] o) as [[r l]|]; [|discriminate]. inversion H.
    + destruct i; discriminate.
Qed.
