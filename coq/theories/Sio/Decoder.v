(** Socket.IO decoder: a port of [Parser.Add] / [reconstructor.addBuffer] / the finish call
    (parser/json/decode.go), of [reconstructor.decode] / [reconstruct] and of the placeholder
    index arithmetic of [reconstructBinaryValue] / [reconstructMap] (parser/json/binary.go), as
    repaired by the C10 fixes.

    Every library call is an arbitrary function (Section variable); [None] = the call returned an
    error:
      - [puint]      strconv.ParseUint(s,10,0)
      - [unm_strs]   json.Unmarshal(tmp, &[]string)           (event-name pre-scan)
      - [unmarshal single payload k]  json.Unmarshal(payload, target) where the target is one value
        ([single = true]) or a slice of [k] pointers; the answer is the *shape* of the [k] target
        values afterwards, as far as the reconstruct walk looks at them (see [shape]).
    Nothing is assumed about these functions: the no-panic theorems hold for all of them. *)
From SioV Require Import Base.GoSem Sio.Header.
Local Open Scope Z_scope.

(** * Parser state *)
Record recon := mkRecon {
  r_header    : header;
  r_name      : bytes;          (* eventName *)
  r_buffers   : list bytes;     (* buffers[0] = JSON payload, then the attachments *)
  r_remaining : Z               (* Go int *)
}.

(** What a call of [Add] did: returned an error, called [finish], or neither (more frames are
    needed). *)
Inductive outcome :=
| Failed
| NeedMore
| Finished (r : recon).

Definition two63z : Z := 9223372036854775808.
(** Go int arithmetic wraps. *)
Definition wrap_int (z : Z) : Z := ((z + two63z) mod (2 * two63z)) - two63z.

(** Go [l[z]] with a signed index. *)
Definition index_z {A} (l : list A) (z : Z) : res A :=
  if z <? 0 then Panic else index l (Z.to_nat z).

(** * Shapes: what reconstruct sees of the values produced by json.Unmarshal *)
Inductive shape :=
| SOther                        (* nil, numbers, strings, bools, []byte that is not sio.Binary, ... *)
| SBin (settable : bool) (ph : option Z)
                                (* a sio.Binary cell; Unmarshal of its bytes into [placeholder]
                                   gives [Some num] or an error; [settable]: the cell can be
                                   written (a custom map setter, rv.CanSet() or original.CanSet();
                                   false e.g. for a field of a struct held by value in a map) *)
| SSeq (l : list shape)         (* slice elements / struct fields, walked in turn *)
| SMap (eiface : bool) (l : list shape)
                                (* a map of any type; [eiface]: its ELEMENT type is an interface
                                   type (rv.Type().Elem().Kind() == reflect.Interface); the values
                                   of its entries in key order *)
| SPhMap (n : Z) (fallback : shape).
                                (* a value of kind Map that is placeholder-shaped: string keys,
                                   exactly the two keys _placeholder (a bool, true) and num (a
                                   float64); n = int(num), any int whatever the float was (NaN,
                                   1e300, -5, ...); [fallback] = the shape of that map itself, for
                                   when it is walked into instead of being replaced *)

Inductive value :=
| VOther
| VBin (b : bytes)              (* the cell now holds attachment [b] *)
| VSeq (l : list value).

(** Attachments placed into a decoded value, in walk order. *)
Fixpoint bins_of (v : value) : list bytes :=
  match v with
  | VOther => []
  | VBin b => [b]
  | VSeq l => (fix go (l : list value) : list bytes :=
                 match l with [] => [] | x :: l' => bins_of x ++ go l' end) l
  end.

Section Placeholders.
  Variable buffers : list bytes.

  (** [if n < 0 || n >= len(r.buffers)-1 { return err }; buf := r.buffers[n+1]] *)
  Definition pick (n : Z) : res bytes :=
    if (n <? 0) || (n >=? Z.of_nat (length buffers) - 1) then Err
    else index_z buffers (n + 1).                 (* n + 1 <= len - 1: no wrap-around *)

  (** reflect.Value.SetMapIndex(key, reflect.ValueOf(buf)) on a map whose element type is /
      is not an interface type: a []byte is not assignable to a map, struct, string ... element
      and reflect panics.  (Element types []byte / Binary would accept it too; the guard below
      never lets them get here, so the approximation only makes the model stricter.) *)
  Definition set_map_index_bytes (eiface : bool) (b : bytes) : res value :=
    if eiface then Ok (VBin b) else Panic.

  Fixpoint recon_value (s : shape) : res value :=
    match s with
    | SOther => Ok VOther
    | SBin _ None => Err                                 (* r.json.Unmarshal(pBuf, &p) failed *)
    | SBin st (Some n) =>
      rbind (pick n) (fun b => if st then Ok (VBin b) else Err)   (* ValueError: non-settable value *)
    | SSeq l =>
      rbind ((fix go (l : list shape) : res (list value) :=
                match l with
                | [] => Ok []
                | x :: l' => rbind (recon_value x) (fun v => rbind (go l') (fun vs => Ok (v :: vs)))
                end) l)
            (fun vs => Ok (VSeq vs))
    | SPhMap _ fb => recon_value fb        (* not a map entry: reconstructValue walks into the map *)
    | SMap eiface l =>
      (* reconstructMap: for each entry ... *)
      rbind ((fix go (l : list shape) : res (list value) :=
                match l with
                | [] => Ok []
                | x :: l' =>
                  rbind (match x with
                         | SPhMap n fb =>
                           (* if rv.Type().Elem().Kind() == reflect.Interface && <placeholder-shaped> *)
                           if eiface then rbind (pick n) (set_map_index_bytes eiface)
                           else recon_value fb           (* err := r.reconstructValue(mv) *)
                         | _ => recon_value x
                         end)
                        (fun v => rbind (go l') (fun vs => Ok (v :: vs)))
                end) l)
            (fun vs => Ok (VSeq vs))
    end.

  (** The same walk with the guard reading the element type of the placeholder-shaped map itself
      instead of that of the map it sits in (what the check must NOT be): only used to show that
      the guard is what keeps SetMapIndex from panicking. *)
  Fixpoint recon_value_inner_guard (s : shape) : res value :=
    match s with
    | SOther => Ok VOther
    | SBin _ None => Err
    | SBin st (Some n) => rbind (pick n) (fun b => if st then Ok (VBin b) else Err)
    | SSeq l =>
      rbind ((fix go (l : list shape) : res (list value) :=
                match l with
                | [] => Ok []
                | x :: l' => rbind (recon_value_inner_guard x) (fun v => rbind (go l') (fun vs => Ok (v :: vs)))
                end) l)
            (fun vs => Ok (VSeq vs))
    | SPhMap _ fb => recon_value_inner_guard fb
    | SMap eiface l =>
      rbind ((fix go (l : list shape) : res (list value) :=
                match l with
                | [] => Ok []
                | x :: l' =>
                  rbind (match x with
                         | SPhMap n fb =>
                           if match fb with SMap i _ => i | _ => false end
                           then rbind (pick n) (set_map_index_bytes eiface)
                           else recon_value_inner_guard fb
                         | _ => recon_value_inner_guard x
                         end)
                        (fun v => rbind (go l') (fun vs => Ok (v :: vs)))
                end) l)
            (fun vs => Ok (VSeq vs))
    end.

  (** reconstructPacket *)
  Fixpoint recon_values (l : list shape) : res (list value) :=
    match l with
    | [] => Ok []
    | x :: l' => rbind (recon_value x) (fun v => rbind (recon_values l') (fun vs => Ok (v :: vs)))
    end.
End Placeholders.

Section Decoder.
  Variable puint : bytes -> option N.
  Variable unm_strs : bytes -> option (list bytes).
  Variable unmarshal : bool -> bytes -> nat -> option (nat -> shape).
  Variable max_att : Z.                                  (* Parser.maxAttachments *)

  (** ** Parser.Add *)
  Definition add (st : option recon) (data : bytes) : res (option recon * outcome) :=
    match st with
    | None =>
      match parse_header_with puint unm_strs data with
      | Panic => Panic
      | Err => Ok (None, Failed)
      | Ok (h, buf, name) =>
        let r := mkRecon h name [buf] (h_att h) in
        (* p.r is assigned before the limit is checked *)
        if (0 <? max_att) && (max_att <? h_att h) then Ok (Some r, Failed)
        else if negb (is_binary (h_type h)) || (h_att h =? 0) then Ok (None, Finished r)
        else Ok (Some r, NeedMore)
      end
    | Some r =>
      (* addBuffer *)
      let r' := mkRecon (r_header r) (r_name r) (r_buffers r ++ [data])
                        (wrap_int (r_remaining r - 1)) in
      if r_remaining r' =? 0 then Ok (None, Finished r') else Ok (Some r', NeedMore)
    end.

  (** A connection's frames, one after the other; the caller stops at the first error (both
      onEIOPacket implementations return and close). *)
  Fixpoint run (st : option recon) (frames : list bytes) : res (option recon * list outcome) :=
    match frames with
    | [] => Ok (st, [])
    | f :: fs =>
      rbind (add st f) (fun '(st', o) =>
        match o with
        | Failed => Ok (st', [Failed])
        | _ => rbind (run st' fs) (fun '(st'', os) => Ok (st'', o :: os))
        end)
    end.

  (** ** reconstructor.decode(types...) ; [ntypes] = len(types) *)
  Definition values_of (f : nat -> shape) (k : nat) : list shape := map f (seq 0 k).

  Definition reconstruct (r : recon) (ntypes : nat) : res (list value) :=
    if (length (r_buffers r) <? 1)%nat then Err else         (* errInvalidNumberOfBuffers *)
    rbind (index (r_buffers r) 0) (fun payload =>
    let ev := is_event (h_type (r_header r)) in
    let k := if ev then S ntypes else ntypes in
    if ev && (k =? 0)%nat then Err else                      (* errInvalidNumberOfValues *)
    match unmarshal false payload k with
    | None => Err
    | Some f =>
      rbind (if ev then slice_from (values_of f k) 1 else Ok (values_of f k)) (fun vals =>
      recon_values (r_buffers r) vals)
    end).

  Definition decode (r : recon) (ntypes : nat) : res (list value) :=
    if (length (r_buffers r) =? 1)%nat then
      rbind (index (r_buffers r) 0) (fun payload =>
      let h := r_header r in
      if is_event (h_type h) then
        let k := S ntypes in
        match payload with
        | [] => Err                                          (* errMalformedPacket *)
        | _ =>
          match unmarshal false payload k with
          | None => Err
          | Some f => rbind (slice_from (values_of f k) 1) (fun vals => Ok (map (fun _ => VOther) vals))
          end
        end
      else if (ntypes =? 1)%nat && negb (is_ack (h_type h)) then
        match unmarshal true (match payload with [] => [123; 125]%N | _ => payload end) 1 with
        | None => Err
        | Some f => Ok (map (fun _ => VOther) (values_of f 1))
        end
      else
        match unmarshal false (match payload with [] => [91; 93]%N | _ => payload end) ntypes with
        | None => Err
        | Some f => Ok (map (fun _ => VOther) (values_of f ntypes))
        end)
    else reconstruct r ntypes.
End Decoder.

