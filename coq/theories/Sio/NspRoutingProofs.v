(** Proofs about the namespace routing model (server side: routing, closing, admission, frame and
    non-interference over arbitrary operation histories; client side: routing and frame). *)
From SioV Require Import Base.GoSem Sio.NspRouting.
Local Open Scope N_scope.

(** * Keys *)
Lemma nseqb_eq a b : nseqb a b = true <-> a = b.
Proof. apply list_eqb_eq. intros; apply N.eqb_eq. Qed.
Lemma nseqb_refl a : nseqb a a = true.
Proof. now apply nseqb_eq. Qed.
Lemma nseqb_neq a b : a <> b -> nseqb a b = false.
Proof. intros H. destruct (nseqb a b) eqn:E; [apply nseqb_eq in E; contradiction | reflexivity]. Qed.
Lemma nseqb_false a b : nseqb a b = false -> a <> b.
Proof. intros E ->. now rewrite nseqb_refl in E. Qed.

Lemma upd_same {A} (f : nsname -> A) n v : upd f n v n = v.
Proof. unfold upd. now rewrite nseqb_refl. Qed.
Lemma upd_other {A} (f : nsname -> A) n m v : n <> m -> upd f n v m = f m.
Proof. intros. unfold upd. now rewrite nseqb_neq. Qed.
Lemma updN_same {A} (f : N -> A) c v : updN f c v c = v.
Proof. unfold updN. now rewrite N.eqb_refl. Qed.
Lemma updN_other {A} (f : N -> A) c d v : c <> d -> updN f c v d = f d.
Proof. intros. unfold updN. destruct (N.eqb_spec c d); congruence. Qed.

Lemma alookup_aremove_same {A} n (t : list (nsname * A)) : alookup n (aremove n t) = None.
Proof.
  induction t as [|[k v] t IH]; simpl; auto.
  destruct (nseqb n k) eqn:E; simpl; auto. now rewrite E.
Qed.
Lemma alookup_aremove_other {A} n m (t : list (nsname * A)) :
  n <> m -> alookup m (aremove n t) = alookup m t.
Proof.
  intros H. induction t as [|[k v] t IH]; simpl; auto.
  destruct (nseqb n k) eqn:E; simpl.
  - apply nseqb_eq in E; subst k. rewrite IH. rewrite nseqb_neq; auto.
  - rewrite IH. reflexivity.
Qed.
Lemma alookup_aset_same {A} n (v : A) t : alookup n (aset n v t) = Some v.
Proof. unfold aset. simpl. now rewrite nseqb_refl. Qed.
Lemma alookup_aset_other {A} n m (v : A) t : n <> m -> alookup m (aset n v t) = alookup m t.
Proof.
  intros H. unfold aset. simpl. rewrite (nseqb_neq m n) by congruence.
  now apply alookup_aremove_other.
Qed.

(** look-alike names are different keys *)
Lemma lookalike_keys_distinct :
  let a := [47; 97] in let ab := [47; 97; 98] in let a_b := [47; 97; 47; 98] in let root := [47] in
  forall (t : list (nsname * N)) v,
    alookup ab (aset a v t) = alookup ab t /\ alookup a_b (aset a v t) = alookup a_b t /\
    alookup root (aset a v t) = alookup root t /\ alookup a (aset a_b v t) = alookup a t /\
    alookup a (aset ab v t) = alookup a t.
Proof. intros. repeat split; apply alookup_aset_other; discriminate. Qed.

(** * What a step is scoped to, and when it closes the connection *)
Definition sop_nsp (o : sop) : option nsname :=
  match o with
  | SRecv _ p => Some (norm_hdr (p_nsp p))
  | SVerdict _ n _ _ | SMwJoin _ n _ | SEmit _ n _ _ | SBcast n _ _ _ | SJoin _ n _ | SDisc _ n => Some n
  | SConnClose _ => None
  end.

Definition routes_to_socket (t : ptype) : bool :=
  match t with PEvent | PBinEvent | PAck | PBinAck | PDisconnect => true | _ => false end.

Definition closes (o : sop) (s : server) : option N :=
  match o with
  | SConnClose c => Some c
  | SRecv c p =>
      match alookup (norm_hdr (p_nsp p)) (table s c) with
      | None => match p_type p with PConnect => None | _ => Some c end
      | Some _ => if routes_to_socket (p_type p) then None else Some c
      end
  | _ => None
  end.

Lemma closes_spec o s c : closes o s = Some c -> sstep o s = close_conn c s.
Proof.
  destruct o; simpl; try discriminate.
  - unfold s_recv. destruct (alookup _ _) eqn:E; destruct (p_type p); simpl; intros H; inversion H; reflexivity.
  - intros H; inversion H; reflexivity.
Qed.

Definition out_nsp (x : out) : option nsname :=
  match x with
  | OSend _ p => Some (p_nsp p)
  | OEv _ _ n _ _ | OAck _ _ n _ | OLife _ _ n _ => Some n
  | OClosed _ _ => None
  end.

Definition tbl (s : server) (c : N) (b : nsname) : option N := alookup b (table s c).

(** the part of the server state that belongs to namespace b (plus which connections are closed) *)
Definition closed (s : server) (c : N) : bool := sc_closed (sv_conn s c).
Definition view_eq (b : nsname) (s1 s2 : server) : Prop :=
  sv_nsp s1 b = sv_nsp s2 b /\ (forall c, tbl s1 c b = tbl s2 c b) /\ (forall c, closed s1 c = closed s2 c).

Lemma view_refl b s : view_eq b s s.
Proof. repeat split; auto. Qed.
Lemma view_sym b s1 s2 : view_eq b s1 s2 -> view_eq b s2 s1.
Proof. intros [H1 [H2 H3]]; repeat split; auto. Qed.
Lemma view_trans b s1 s2 s3 : view_eq b s1 s2 -> view_eq b s2 s3 -> view_eq b s1 s3.
Proof.
  intros [H1 [H2 H3]] [H4 [H5 H6]]; repeat split; [congruence | intros; now rewrite H2 | intros; now rewrite H3].
Qed.

Lemma view_set_nsp_other b a s x : a <> b -> view_eq b (set_nsp s a x) s.
Proof. intros H. repeat split; simpl; [now apply upd_other]. Qed.

Lemma tbl_set_table s c t c' b :
  tbl (set_table s c t) c' b = if c =? c' then alookup b t else tbl s c' b.
Proof.
  unfold tbl, table, set_table; simpl. unfold updN.
  destruct (c =? c'); reflexivity.
Qed.

Lemma closed_set_table s c t c' : closed (set_table s c t) c' = closed s c'.
Proof.
  unfold closed, set_table; simpl. unfold updN. destruct (N.eqb_spec c c'); subst; reflexivity.
Qed.

Lemma view_set_table_other b s c t :
  alookup b t = tbl s c b -> view_eq b (set_table s c t) s.
Proof.
  intros H. repeat split.
  - intros c'. rewrite tbl_set_table. destruct (N.eqb_spec c c'); subst; auto.
  - intros c'. apply closed_set_table.
Qed.

Lemma tbl_set_nsp s a x c b : tbl (set_nsp s a x) c b = tbl s c b.
Proof. reflexivity. Qed.

(** ** Frame: a step scoped to namespace a that does not close the connection leaves the part of
    the state that belongs to any other namespace untouched, and everything it emits carries a *)
Lemma sstep_frame o s a b :
  sop_nsp o = Some a -> closes o s = None -> a <> b -> view_eq b (fst (sstep o s)) s.
Proof.
  intros Hs Hc Hab. destruct o; simpl in *; inversion Hs; subst; clear Hs.
  - (* SRecv *)
    unfold s_recv. set (n := norm_hdr (p_nsp p)) in *.
    destruct (alookup n (table s c)) eqn:E; destruct (p_type p) eqn:T; simpl in Hc; try discriminate; simpl.
    + unfold sock_close; simpl. eapply view_trans; [apply view_set_table_other | apply view_set_nsp_other; auto].
      rewrite tbl_set_nsp. unfold tbl. now apply alookup_aremove_other.
    + unfold s_event. destruct (find_sock _ _); apply view_refl.
    + unfold s_ack. destruct (find_sock _ _); [|apply view_refl].
      destruct (p_id p); [|apply view_refl]. destruct (take_ack _ _) as [[? ?]|]; [|apply view_refl].
      simpl. now apply view_set_nsp_other.
    + unfold s_event. destruct (find_sock _ _); apply view_refl.
    + unfold s_ack. destruct (find_sock _ _); [|apply view_refl].
      destruct (p_id p); [|apply view_refl]. destruct (take_ack _ _) as [[? ?]|]; [|apply view_refl].
      simpl. now apply view_set_nsp_other.
    + unfold s_connect. destruct (ns_exists _); simpl; [now apply view_set_nsp_other | apply view_refl].
  - (* SVerdict *)
    unfold s_verdict. destruct (existsb _ _); [|apply view_refl].
    destruct ok; simpl; [|now apply view_set_nsp_other].
    assert (V1 : forall x, view_eq b (set_table (set_nsp s a x) c (aset a sid (table s c))) s).
    { intros x. eapply view_trans; [apply view_set_table_other | apply view_set_nsp_other; auto].
      rewrite tbl_set_nsp. unfold tbl. now apply alookup_aset_other. }
    destruct (sc_closed (sv_conn s c)); simpl; [|apply V1].
    unfold sock_close; simpl.
    eapply view_trans; [apply view_set_table_other | eapply view_trans; [apply view_set_nsp_other; auto | apply V1]].
    rewrite tbl_set_nsp. unfold tbl. now apply alookup_aremove_other.
  - (* SMwJoin *)
    unfold s_mwjoin. destruct (existsb _ _); [|apply view_refl]. simpl. now apply view_set_nsp_other.
  - (* SEmit *)
    unfold s_emit. destruct (sock_of _ _ _); [|apply view_refl].
    destruct ack; simpl; [now apply view_set_nsp_other | apply view_refl].
  - apply view_refl.
  - unfold s_join. destruct (sock_of _ _ _); [|apply view_refl]. simpl. now apply view_set_nsp_other.
  - unfold s_disc. destruct (sock_of _ _ _); [|apply view_refl]. simpl.
    eapply view_trans; [apply view_set_table_other | apply view_set_nsp_other; auto].
    rewrite tbl_set_nsp. unfold tbl. now apply alookup_aremove_other.
Qed.

Lemma sstep_out_nsp o s a :
  sop_nsp o = Some a -> closes o s = None ->
  Forall (fun x => out_nsp x = Some a) (snd (sstep o s)).
Proof.
  intros Hs Hc. destruct o; simpl in *; inversion Hs; subst; clear Hs.
  - unfold s_recv. set (n := norm_hdr (p_nsp p)) in *.
    destruct (alookup n (table s c)) eqn:E; destruct (p_type p) eqn:T; simpl in Hc; try discriminate; simpl.
    + repeat constructor.
    + unfold s_event. destruct (find_sock _ _); simpl; [|constructor].
      destruct (p_id p); repeat constructor.
    + unfold s_ack. destruct (find_sock _ _); [|constructor].
      destruct (p_id p); [|constructor]. destruct (take_ack _ _) as [[? ?]|]; repeat constructor.
    + unfold s_event. destruct (find_sock _ _); simpl; [|constructor].
      destruct (p_id p); repeat constructor.
    + unfold s_ack. destruct (find_sock _ _); [|constructor].
      destruct (p_id p); [|constructor]. destruct (take_ack _ _) as [[? ?]|]; repeat constructor.
    + unfold s_connect. destruct (ns_exists _); repeat constructor.
  - unfold s_verdict. destruct (existsb _ _); [|constructor]. destruct ok; [|repeat constructor].
    destruct (sc_closed _); simpl; repeat constructor.
  - unfold s_mwjoin. destruct (existsb _ _); constructor.
  - unfold s_emit. destruct (sock_of _ _ _); [|constructor]. destruct ack; repeat constructor.
  - unfold s_bcast; simpl. apply Forall_forall. intros x Hx. apply in_map_iff in Hx as [k [<- _]]. reflexivity.
  - unfold s_join. destruct (sock_of _ _ _); constructor.
  - unfold s_disc. destruct (sock_of _ _ _); repeat constructor.
Qed.

(** ** A step scoped to b reads only the part of the state that belongs to b *)
Lemma sock_of_view b s1 s2 c : view_eq b s1 s2 -> sock_of s1 c b = sock_of s2 c b.
Proof.
  intros [H1 [H2 _]]. unfold sock_of. specialize (H2 c). unfold tbl in H2. rewrite H2, H1. reflexivity.
Qed.

Lemma view_set_nsp_same b s1 s2 x : view_eq b s1 s2 -> view_eq b (set_nsp s1 b x) (set_nsp s2 b x).
Proof. intros [H1 [H2 H3]]. repeat split; simpl; [now rewrite !upd_same | exact H2 | exact H3]. Qed.

Lemma view_set_table_same b s1 s2 c t1 t2 :
  view_eq b s1 s2 -> alookup b t1 = alookup b t2 -> view_eq b (set_table s1 c t1) (set_table s2 c t2).
Proof.
  intros [H1 [H2 H3]] Ht. repeat split; [exact H1 | |].
  - intros c'. rewrite !tbl_set_table. destruct (c =? c'); auto.
  - intros c'. rewrite !closed_set_table. auto.
Qed.

Lemma closes_view o b s1 s2 :
  sop_nsp o = Some b -> view_eq b s1 s2 -> closes o s1 = closes o s2.
Proof.
  intros Hs [H1 [H2 _]]. destruct o; simpl in *; auto. inversion Hs; subst.
  specialize (H2 c). unfold tbl in H2. now rewrite H2.
Qed.

Lemma sstep_view o b s1 s2 :
  sop_nsp o = Some b -> closes o s1 = None -> view_eq b s1 s2 ->
  view_eq b (fst (sstep o s1)) (fst (sstep o s2)) /\ snd (sstep o s1) = snd (sstep o s2).
Proof.
  intros Hs Hc V. pose proof V as [Vn [Vt Vc']].
  destruct o; simpl in *; inversion Hs; subst; clear Hs.
  - unfold s_recv. set (n := norm_hdr (p_nsp p)) in *.
    pose proof (Vt c) as Vc. unfold tbl in Vc. rewrite <- Vc.
    destruct (alookup n (table s1 c)) eqn:E; destruct (p_type p) eqn:T; simpl in Hc; try discriminate; simpl.
    + unfold sock_close; simpl. rewrite Vn. split; auto.
      apply view_set_table_same; [now apply view_set_nsp_same|].
      now rewrite !alookup_aremove_same.
    + unfold s_event. rewrite Vn. destruct (find_sock _ _); auto.
    + unfold s_ack. rewrite Vn. destruct (find_sock _ _); auto.
      destruct (p_id p); auto. destruct (take_ack _ _) as [[? ?]|]; auto. simpl. split; auto.
      now apply view_set_nsp_same.
    + unfold s_event. rewrite Vn. destruct (find_sock _ _); auto.
    + unfold s_ack. rewrite Vn. destruct (find_sock _ _); auto.
      destruct (p_id p); auto. destruct (take_ack _ _) as [[? ?]|]; auto. simpl. split; auto.
      now apply view_set_nsp_same.
    + unfold s_connect. rewrite Vn. destruct (ns_exists _); simpl; auto. split; auto.
      now apply view_set_nsp_same.
  - unfold s_verdict. rewrite Vn. destruct (existsb _ _); auto.
    destruct ok; simpl; [|split; auto; now apply view_set_nsp_same].
    pose proof (Vt c) as Vc. unfold tbl in Vc. pose proof (Vc' c) as Vk. unfold closed in Vk. rewrite <- Vk.
    assert (V1 : forall x, view_eq b (set_table (set_nsp s1 b x) c (aset b sid (table s1 c)))
                                     (set_table (set_nsp s2 b x) c (aset b sid (table s2 c)))).
    { intros x. apply view_set_table_same; [now apply view_set_nsp_same|]. now rewrite !alookup_aset_same. }
    destruct (sc_closed (sv_conn s1 c)); simpl; [|split; auto].
    split; auto. unfold sock_close; simpl. rewrite !upd_same.
    apply view_set_table_same; [apply view_set_nsp_same; apply V1|].
    now rewrite !alookup_aremove_same.
  - unfold s_mwjoin. rewrite Vn. destruct (existsb _ _); auto. simpl. split; auto. now apply view_set_nsp_same.
  - unfold s_emit. rewrite (sock_of_view _ _ _ _ V). destruct (sock_of _ _ _); auto. rewrite Vn.
    destruct ack; simpl; auto. split; auto. now apply view_set_nsp_same.
  - unfold s_bcast; simpl. rewrite Vn. auto.
  - unfold s_join. rewrite (sock_of_view _ _ _ _ V). destruct (sock_of _ _ _); auto. rewrite Vn. simpl.
    split; auto. now apply view_set_nsp_same.
  - unfold s_disc. rewrite (sock_of_view _ _ _ _ V). destruct (sock_of _ _ _); auto. simpl. rewrite Vn.
    split; auto. apply view_set_table_same; [now apply view_set_nsp_same|].
    now rewrite !alookup_aremove_same.
Qed.

(** * Non-interference over arbitrary histories *)
Fixpoint quiet (l : list sop) (s : server) : bool :=
  match l with
  | [] => true
  | o :: l' => match closes o s with Some _ => false | None => quiet l' (fst (sstep o s)) end
  end.

Definition scoped (b : nsname) (o : sop) : bool :=
  match sop_nsp o with Some a => nseqb a b | None => false end.
Definition out_in (b : nsname) (x : out) : bool :=
  match out_nsp x with Some a => nseqb a b | None => false end.

Lemma filter_all {A} (f : A -> bool) l : Forall (fun x => f x = true) l -> filter f l = l.
Proof. induction 1; simpl; auto. rewrite H. now f_equal. Qed.
Lemma filter_none {A} (f : A -> bool) l : Forall (fun x => f x = false) l -> filter f l = [].
Proof. induction 1; simpl; auto. now rewrite H. Qed.

Lemma srun_cons o l s :
  srun (o :: l) s = (fst (srun l (fst (sstep o s))), snd (sstep o s) ++ snd (srun l (fst (sstep o s)))).
Proof. simpl. destruct (sstep o s) as [s1 o1]. simpl. destruct (srun l s1). reflexivity. Qed.

Theorem noninterference b : forall l s1 s2,
  view_eq b s1 s2 -> quiet l s1 = true ->
  view_eq b (fst (srun l s1)) (fst (srun (filter (scoped b) l) s2)) /\
  filter (out_in b) (snd (srun l s1)) = snd (srun (filter (scoped b) l) s2).
Proof.
  induction l as [|o l IH]; intros s1 s2 V Q.
  - simpl. split; auto.
  - simpl in Q. destruct (closes o s1) eqn:Hc; [discriminate|].
    rewrite srun_cons. simpl fst; simpl snd.
    destruct (sop_nsp o) as [a|] eqn:Hs.
    2:{ destruct o; simpl in Hs; discriminate. }
    assert (Hsc : scoped b o = nseqb a b) by (unfold scoped; now rewrite Hs).
    simpl filter. rewrite Hsc.
    destruct (nseqb a b) eqn:Eab.
    + apply nseqb_eq in Eab; subst a.
      destruct (sstep_view o b s1 s2 Hs Hc V) as [V' O'].
      rewrite srun_cons. simpl fst; simpl snd.
      destruct (IH _ _ V' Q) as [IH1 IH2]. split; [exact IH1|].
      rewrite filter_app, IH2. f_equal.
      rewrite <- O'. apply filter_all.
      eapply Forall_impl; [|apply (sstep_out_nsp o s1 b Hs Hc)].
      intros x Hx. unfold out_in. rewrite Hx. apply nseqb_refl.
    + apply nseqb_false in Eab.
      assert (V' : view_eq b (fst (sstep o s1)) s2).
      { eapply view_trans; [apply (sstep_frame o s1 a b Hs Hc Eab) | exact V]. }
      destruct (IH _ _ V' Q) as [IH1 IH2]. split; [exact IH1|].
      rewrite filter_app, IH2.
      rewrite filter_none; [reflexivity|].
      eapply Forall_impl; [|apply (sstep_out_nsp o s1 a Hs Hc)].
      intros x Hx. unfold out_in. rewrite Hx. now apply nseqb_neq.
Qed.

(** * Routing by the header's namespace *)
Definition delivery (x : out) : bool :=
  match x with OEv _ _ _ _ _ | OAck _ _ _ _ => true | _ => false end.

Lemma s_recv_routed c p s :
  Forall (fun x => match x with
                   | OEv _ c' n sid _ =>
                       c' = c /\ n = norm_hdr (p_nsp p) /\ alookup n (table s c) = Some sid
                   | OAck _ c' n _ =>
                       c' = c /\ n = norm_hdr (p_nsp p) /\ exists sid, alookup n (table s c) = Some sid
                   | _ => True
                   end) (snd (s_recv c p s)).
Proof.
  unfold s_recv. set (n := norm_hdr (p_nsp p)).
  destruct (alookup n (table s c)) eqn:E; destruct (p_type p); simpl;
    try (repeat constructor; fail);
    try (constructor; [exact I|]; apply Forall_forall; intros x Hx; apply in_map_iff in Hx as [? [<- _]]; exact I).
  - unfold s_event. destruct (find_sock _ _); simpl; [|constructor].
    constructor; [auto|]. destruct (p_id p); repeat constructor.
  - unfold s_ack. destruct (find_sock _ _); [|constructor]. destruct (p_id p); [|constructor].
    destruct (take_ack _ _) as [[? ?]|]; repeat constructor; eauto.
  - unfold s_event. destruct (find_sock _ _); simpl; [|constructor].
    constructor; [auto|]. destruct (p_id p); repeat constructor.
  - unfold s_ack. destruct (find_sock _ _); [|constructor]. destruct (p_id p); [|constructor].
    destruct (take_ack _ _) as [[? ?]|]; repeat constructor; eauto.
  - unfold s_connect. destruct (ns_exists _); repeat constructor.
Qed.

(** * Packets for a namespace that is not joined *)
Lemma s_recv_unknown_closes c p s :
  alookup (norm_hdr (p_nsp p)) (table s c) = None -> p_type p <> PConnect ->
  s_recv c p s = close_conn c s /\
  sc_closed (sv_conn (fst (s_recv c p s)) c) = true /\
  table (fst (s_recv c p s)) c = [] /\
  Forall (fun x => delivery x = false) (snd (s_recv c p s)).
Proof.
  intros E T. assert (H : s_recv c p s = close_conn c s).
  { unfold s_recv. rewrite E. destruct (p_type p); try reflexivity. contradiction. }
  rewrite H. split; [reflexivity|]. unfold close_conn, table; simpl. rewrite updN_same. simpl.
  repeat split. constructor; [reflexivity|].
  apply Forall_forall. intros x Hx. apply in_map_iff in Hx as [? [<- _]]. reflexivity.
Qed.

(** a CONNECT (or CONNECT_ERROR) for a namespace that IS joined closes the connection as well *)
Lemma s_recv_connect_joined_closes c p s sid :
  alookup (norm_hdr (p_nsp p)) (table s c) = Some sid ->
  p_type p = PConnect \/ p_type p = PConnectError ->
  s_recv c p s = close_conn c s.
Proof. intros E [T|T]; unfold s_recv; rewrite E, T; reflexivity. Qed.

(** * Admission *)
(** the table of a connection gains a namespace only in the step in which nsp.add succeeds
    (middlewares accepted) for a CONNECT of this very connection to this very namespace *)
Lemma table_gains_only_by_accept o s c n sid :
  tbl s c n <> Some sid -> tbl (fst (sstep o s)) c n = Some sid ->
  o = SVerdict c n true sid /\ existsb (N.eqb c) (ns_held (sv_nsp s n)) = true.
Proof.
  intros H0 H1.
  destruct (closes o s) as [d|] eqn:Hc.
  { rewrite (closes_spec _ _ _ Hc) in H1. unfold close_conn, tbl, table in H1; simpl in H1.
    unfold updN in H1. destruct (d =? c); simpl in H1; [discriminate|]. unfold tbl, table in H0. congruence. }
  destruct (sop_nsp o) as [a|] eqn:Hs.
  2:{ destruct o; simpl in Hs; discriminate. }
  destruct (nseqb a n) eqn:Ean.
  2:{ apply nseqb_false in Ean. destruct (sstep_frame o s a n Hs Hc Ean) as [_ [Ht _]]. rewrite Ht in H1. congruence. }
  apply nseqb_eq in Ean; subst a.
  destruct o; simpl in *; inversion Hs; subst; clear Hs.
  - exfalso. unfold s_recv in H1. set (n := norm_hdr (p_nsp p)) in *.
    destruct (alookup n (table s c0)) eqn:E; destruct (p_type p) eqn:T; simpl in Hc; try discriminate; simpl in H1.
    + unfold sock_close in H1; simpl in H1. rewrite tbl_set_table in H1.
      destruct (c0 =? c); [now rewrite alookup_aremove_same in H1 | rewrite tbl_set_nsp in H1; congruence].
    + unfold s_event in H1. destruct (find_sock _ _); simpl in H1; congruence.
    + unfold s_ack in H1. destruct (find_sock _ _); [|simpl in H1; congruence].
      destruct (p_id p); [|simpl in H1; congruence].
      destruct (take_ack _ _) as [[? ?]|]; simpl in H1; [rewrite tbl_set_nsp in H1|]; congruence.
    + unfold s_event in H1. destruct (find_sock _ _); simpl in H1; congruence.
    + unfold s_ack in H1. destruct (find_sock _ _); [|simpl in H1; congruence].
      destruct (p_id p); [|simpl in H1; congruence].
      destruct (take_ack _ _) as [[? ?]|]; simpl in H1; [rewrite tbl_set_nsp in H1|]; congruence.
    + unfold s_connect in H1. destruct (ns_exists _); simpl in H1; [rewrite tbl_set_nsp in H1|]; congruence.
  - unfold s_verdict in H1. destruct (existsb (N.eqb c0) _) eqn:Eh; [|simpl in H1; congruence].
    destruct ok; simpl in H1.
    + destruct (sc_closed (sv_conn s c0)); simpl in H1.
      * exfalso. unfold sock_close in H1; simpl in H1. rewrite tbl_set_table in H1.
        destruct (N.eqb_spec c0 c).
        -- now rewrite alookup_aremove_same in H1.
        -- rewrite tbl_set_nsp, tbl_set_table in H1. destruct (N.eqb_spec c0 c); [contradiction|].
           rewrite tbl_set_nsp in H1. congruence.
      * rewrite tbl_set_table in H1. destruct (N.eqb_spec c0 c).
        -- subst c0. rewrite alookup_aset_same in H1. inversion H1; subst. auto.
        -- rewrite tbl_set_nsp in H1. congruence.
    + rewrite tbl_set_nsp in H1. congruence.
  - exfalso. unfold s_mwjoin in H1. destruct (existsb _ _); simpl in H1; [rewrite tbl_set_nsp in H1|]; congruence.
  - exfalso. unfold s_emit in H1. destruct (sock_of _ _ _); [|simpl in H1; congruence].
    destruct ack; simpl in H1; [rewrite tbl_set_nsp in H1|]; congruence.
  - exfalso. simpl in H1. congruence.
  - exfalso. unfold s_join in H1. destruct (sock_of _ _ _); simpl in H1; [rewrite tbl_set_nsp in H1|]; congruence.
  - exfalso. unfold s_disc in H1. destruct (sock_of _ _ _); [|simpl in H1; congruence]. simpl in H1.
    rewrite tbl_set_table in H1. destruct (c0 =? c); [now rewrite alookup_aremove_same in H1|].
    rewrite tbl_set_nsp in H1. congruence.
Qed.

(** trace level: whatever the history, a namespace present in a connection's table was put there
    by a successful nsp.add for that connection and namespace *)
Lemma srun_app l1 l2 s :
  srun (l1 ++ l2) s = (fst (srun l2 (fst (srun l1 s))), snd (srun l1 s) ++ snd (srun l2 (fst (srun l1 s)))).
Proof.
  revert s. induction l1 as [|o l1 IH]; intros s.
  - simpl. destruct (srun l2 s); reflexivity.
  - rewrite <- app_comm_cons, !srun_cons, IH. simpl. now rewrite app_assoc.
Qed.

Lemma srun_snoc l o s : fst (srun (l ++ [o]) s) = fst (sstep o (fst (srun l s))).
Proof. rewrite srun_app. cbn [fst]. unfold srun at 1. destruct (sstep o (fst (srun l s))). reflexivity. Qed.

Theorem attach_only_after_accept names : forall l c n sid,
  tbl (fst (srun l (server0 names))) c n = Some sid ->
  exists l1 l2, l = l1 ++ SVerdict c n true sid :: l2.
Proof.
  intros l. induction l as [|o l IH] using rev_ind; intros c n sid H.
  - simpl in H. discriminate.
  - rewrite srun_snoc in H.
    set (s := fst (srun l (server0 names))) in *.
    destruct (tbl s c n) as [sid0|] eqn:E0.
    + destruct (N.eq_dec sid0 sid) as [->|Hne].
      * destruct (IH _ _ _ E0) as [l1 [l2 ->]].
        exists l1, (l2 ++ [o]). now rewrite <- app_assoc, <- app_comm_cons.
      * assert (Hd : tbl s c n <> Some sid) by (rewrite E0; congruence).
        destruct (table_gains_only_by_accept o s c n sid Hd H) as [-> _].
        exists l, []. reflexivity.
    + assert (Hd : tbl s c n <> Some sid) by (rewrite E0; congruence).
      destruct (table_gains_only_by_accept o s c n sid Hd H) as [-> _].
      exists l, []. reflexivity.
Qed.

(** * Reachable by broadcasts only after the accept
    The adapter of a namespace delivers only to sockets that nsp.sockets knows; a socket enters
    nsp.sockets only in the step in which nsp.add succeeds for its CONNECT. *)
Definition ids (ns : nstate) : list (N * N) := map (fun k => (ss_sid k, ss_conn k)) (ns_socks ns).

Lemma ids_ns_remove sid ns x : In x (ids (ns_remove sid ns)) -> In x (ids ns).
Proof.
  unfold ids, ns_remove; simpl. intros H. apply in_map_iff in H as [k [<- Hk]].
  apply filter_In in Hk as [Hk _]. apply in_map_iff. eauto.
Qed.

Lemma ids_ns_update k ns : ids (ns_update k ns) = ids ns.
Proof.
  unfold ids, ns_update; simpl. rewrite map_map. apply map_ext. intros k'.
  destruct (ss_sid k' =? ss_sid k); reflexivity.
Qed.

Lemma ids_close_fold t f n x :
  In x (ids (fold_right (fun kv g => upd g (fst kv) (ns_remove (snd kv) (g (fst kv)))) f t n)) -> In x (ids (f n)).
Proof.
  induction t as [|[k v] t IH]; simpl; auto. unfold upd at 1.
  destruct (nseqb k n) eqn:E; simpl; auto. apply nseqb_eq in E; subst k.
  intros H. apply ids_ns_remove in H. auto.
Qed.

Lemma socks_gain_only_by_accept o s n x :
  In x (ids (sv_nsp (fst (sstep o s)) n)) ->
  In x (ids (sv_nsp s n)) \/
  (exists c sid, o = SVerdict c n true sid /\ x = (sid, c) /\ existsb (N.eqb c) (ns_held (sv_nsp s n)) = true).
Proof.
  intros H1.
  destruct (closes o s) as [d|] eqn:Hc.
  { left. rewrite (closes_spec _ _ _ Hc) in H1. unfold close_conn in H1; simpl in H1.
    eapply ids_close_fold; eauto. }
  destruct (sop_nsp o) as [a|] eqn:Hs.
  2:{ destruct o; simpl in Hs; discriminate. }
  destruct (nseqb a n) eqn:Ean.
  2:{ left. apply nseqb_false in Ean. destruct (sstep_frame o s a n Hs Hc Ean) as [Hn _]. now rewrite Hn in H1. }
  apply nseqb_eq in Ean; subst a.
  destruct o; simpl in *; inversion Hs; subst; clear Hs.
  - left. unfold s_recv in H1. set (n := norm_hdr (p_nsp p)) in *.
    destruct (alookup n (table s c)) eqn:E; destruct (p_type p) eqn:T; simpl in Hc; try discriminate; simpl in H1.
    + unfold sock_close in H1; simpl in H1. rewrite upd_same in H1. eapply ids_ns_remove; eauto.
    + unfold s_event in H1. destruct (find_sock _ _); exact H1.
    + unfold s_ack in H1. destruct (find_sock _ _); [|exact H1]. destruct (p_id p); [|exact H1].
      destruct (take_ack _ _) as [[? ?]|]; [|exact H1]. simpl in H1. rewrite upd_same, ids_ns_update in H1. exact H1.
    + unfold s_event in H1. destruct (find_sock _ _); exact H1.
    + unfold s_ack in H1. destruct (find_sock _ _); [|exact H1]. destruct (p_id p); [|exact H1].
      destruct (take_ack _ _) as [[? ?]|]; [|exact H1]. simpl in H1. rewrite upd_same, ids_ns_update in H1. exact H1.
    + unfold s_connect in H1. destruct (ns_exists _); [|exact H1]. simpl in H1. rewrite upd_same in H1. exact H1.
  - unfold s_verdict in H1. destruct (existsb (N.eqb c) _) eqn:Eh; [|left; exact H1].
    destruct ok; simpl in H1.
    + assert (Hadd : forall y, In y (ids (mkNS (ns_exists (sv_nsp s n)) (ns_socks (sv_nsp s n) ++ [mkSS sid c [] (pre_rooms c (ns_pre (sv_nsp s n)))])
                                      (ns_ack (sv_nsp s n)) (remove_one c (ns_held (sv_nsp s n))) (pre_drop c (ns_pre (sv_nsp s n))))) ->
                               In y (ids (sv_nsp s n)) \/ y = (sid, c)).
      { intros y Hy. unfold ids in Hy; simpl in Hy. rewrite map_app in Hy. apply in_app_or in Hy as [Hy|Hy]; [now left|].
        simpl in Hy. destruct Hy as [<-|[]]. now right. }
      destruct (sc_closed (sv_conn s c)); simpl in H1.
      * unfold sock_close in H1; simpl in H1. rewrite !upd_same in H1. apply ids_ns_remove in H1.
        destruct (Hadd _ H1) as [?| ->]; [now left | right; eauto].
      * rewrite upd_same in H1. destruct (Hadd _ H1) as [?| ->]; [now left | right; eauto].
    + left. rewrite upd_same in H1. exact H1.
  - left. unfold s_mwjoin in H1. destruct (existsb _ _); [|exact H1]. simpl in H1. rewrite upd_same in H1. exact H1.
  - left. unfold s_emit in H1. destruct (sock_of _ _ _); [|exact H1].
    destruct ack; [|exact H1]. simpl in H1. rewrite upd_same in H1. unfold ids in *; simpl in *.
    rewrite map_map in H1. erewrite map_ext in H1; [exact H1|].
    intros k'. simpl. destruct (ss_sid k' =? _); reflexivity.
  - left. exact H1.
  - left. unfold s_join in H1. destruct (sock_of _ _ _); [|exact H1]. simpl in H1. rewrite upd_same, ids_ns_update in H1. exact H1.
  - left. unfold s_disc in H1. destruct (sock_of _ _ _); [|exact H1]. simpl in H1. rewrite upd_same in H1.
    eapply ids_ns_remove; eauto.
Qed.

Theorem socks_only_after_accept names : forall l n sid c,
  In (sid, c) (ids (sv_nsp (fst (srun l (server0 names))) n)) ->
  exists l1 l2, l = l1 ++ SVerdict c n true sid :: l2.
Proof.
  intros l. induction l as [|o l IH] using rev_ind; intros n sid c H.
  - simpl in H. contradiction.
  - rewrite srun_snoc in H.
    destruct (socks_gain_only_by_accept o _ n _ H) as [Hin|[c' [sid' [-> [E _]]]]].
    + destruct (IH _ _ _ Hin) as [l1 [l2 ->]]. exists l1, (l2 ++ [o]). now rewrite <- app_assoc, <- app_comm_cons.
    + inversion E; subst. exists l, []. reflexivity.
Qed.

(** every packet a broadcast in namespace n puts on a connection goes to a socket of n that was
    accepted (successful nsp.add for that connection) earlier in the history: never to a socket whose
    CONNECT is still being examined, whatever rooms a middleware joined it to *)
Theorem broadcast_reaches_only_accepted names l n room ex tag c p :
  In (OSend c p) (snd (s_bcast n room ex tag (fst (srun l (server0 names))))) ->
  p_nsp p = n /\ exists sid l1 l2, l = l1 ++ SVerdict c n true sid :: l2.
Proof.
  unfold s_bcast; simpl. intros H. apply in_map_iff in H as [k [E Hk]]. inversion E; subst. split; [reflexivity|].
  apply filter_In in Hk as [Hk _]. exists (ss_sid k).
  apply (socks_only_after_accept names l n (ss_sid k) (ss_conn k)).
  unfold ids. apply in_map_iff. exists k. auto.
Qed.

(** * Disconnecting one namespace keeps the others *)
Lemma disconnect_one_keeps_others_recv c p s sid b :
  p_type p = PDisconnect -> alookup (norm_hdr (p_nsp p)) (table s c) = Some sid ->
  norm_hdr (p_nsp p) <> b ->
  let s' := fst (s_recv c p s) in
  tbl s' c b = tbl s c b /\ sv_nsp s' b = sv_nsp s b /\
  sc_closed (sv_conn s' c) = sc_closed (sv_conn s c) /\
  tbl s' c (norm_hdr (p_nsp p)) = None.
Proof.
  intros T E Hb. simpl.
  assert (Hc : closes (SRecv c p) s = None) by (simpl; now rewrite E, T).
  destruct (sstep_frame (SRecv c p) s _ b eq_refl Hc Hb) as [Hn [Ht Hcl]]. simpl in *.
  repeat split; auto.
  - unfold s_recv. rewrite E, T. simpl. unfold updN. now rewrite N.eqb_refl.
  - unfold s_recv. rewrite E, T. unfold sock_close. simpl. rewrite tbl_set_table, N.eqb_refl.
    apply alookup_aremove_same.
Qed.

Lemma disconnect_one_keeps_others_srv c a s b :
  a <> b ->
  let s' := fst (s_disc c a s) in
  tbl s' c b = tbl s c b /\ sv_nsp s' b = sv_nsp s b /\
  sc_closed (sv_conn s' c) = sc_closed (sv_conn s c).
Proof.
  intros Hb. simpl.
  destruct (sstep_frame (SDisc c a) s a b eq_refl eq_refl Hb) as [Hn [Ht Hcl]]. simpl in *.
  repeat split; auto.
  unfold s_disc. destruct (sock_of s c a); [|reflexivity]. simpl. unfold updN. now rewrite N.eqb_refl.
Qed.

(** * Client manager: dispatch to the socket registered for exactly the packet's namespace *)
Definition cop_nsp (o : cop) : option nsname :=
  match o with
  | CConnect n | CEmit n _ _ | CDisconnect n => Some (norm_api n)
  | CRecv p => Some (norm_hdr (p_nsp p))
  | CClosed => None
  end.

Lemma put_sock_other m n k b : n <> b -> alookup b (m_socks (put_sock m n k)) = alookup b (m_socks m).
Proof. intros. unfold put_sock. cbn [m_socks]. now apply alookup_aset_other. Qed.

Lemma c_destroy_socks c m n k b :
  n <> b -> alookup b (m_socks (fst (c_destroy c m n k))) = alookup b (m_socks m).
Proof.
  intros H. unfold c_destroy. destruct (any_active _); simpl; now apply alookup_aset_other.
Qed.

Lemma c_destroy_out c m n k :
  Forall (fun x => delivery x = false) (snd (c_destroy c m n k)).
Proof. unfold c_destroy. destruct (any_active _); repeat constructor. Qed.

Lemma cstep_frame c o m a b :
  cop_nsp o = Some a -> a <> b ->
  alookup b (m_socks (fst (cstep c o m))) = alookup b (m_socks m).
Proof.
  intros Hs Hab. destruct o; simpl in *; inversion Hs; subst; clear Hs.
  - unfold c_connect. destruct (negb (m_open m)); [reflexivity|].
    destruct (cs_state _); simpl; now apply alookup_aset_other.
  - unfold c_emit. destruct (cs_state _); simpl; now apply alookup_aset_other.
  - unfold c_disc. remember (norm_api n) as n' eqn:En.
    pose proof (c_destroy_socks c m n' (get_sock m n') b Hab) as Hd.
    destruct (c_destroy c m n' (get_sock m n')) as [m1 o1]. simpl in Hd.
    destruct (cs_state _); cbn [fst]; auto; rewrite put_sock_other; auto.
  - unfold c_recv. set (n := norm_hdr (p_nsp p)) in *.
    destruct (alookup n (m_socks m)) as [k|] eqn:E; [|reflexivity].
    destruct (p_type p).
    + simpl. now apply alookup_aset_other.
    + pose proof (c_destroy_socks c m n k b Hab) as Hd.
      destruct (c_destroy c m n k) as [m1 o1]. cbn [fst] in *. rewrite put_sock_other; auto.
    + destruct (cs_state k); simpl; auto; now apply alookup_aset_other.
    + destruct (p_id p); [|reflexivity]. destruct (take_ack _ _) as [[? ?]|]; [|reflexivity].
      simpl. now apply alookup_aset_other.
    + pose proof (c_destroy_socks c m n k b Hab) as Hd.
      destruct (c_destroy c m n k) as [m1 o1]. simpl in *. exact Hd.
    + destruct (cs_state k); simpl; auto; now apply alookup_aset_other.
    + destruct (p_id p); [|reflexivity]. destruct (take_ack _ _) as [[? ?]|]; [|reflexivity].
      simpl. now apply alookup_aset_other.
Qed.

Lemma ev_outs_nsp c n p : Forall (fun x => out_nsp x = Some n) (ev_outs c n p).
Proof. unfold ev_outs. destruct (p_id p); repeat constructor. Qed.

Lemma c_recv_routed c p m :
  Forall (fun x => match x with
                   | OEv _ c' n _ _ | OAck _ c' n _ =>
                       c' = c /\ n = norm_hdr (p_nsp p) /\ exists k, alookup n (m_socks m) = Some k
                   | _ => True
                   end) (snd (c_recv c p m)).
Proof.
  unfold c_recv. set (n := norm_hdr (p_nsp p)).
  destruct (alookup n (m_socks m)) as [k|] eqn:E; [|constructor].
  assert (Hev : forall q, Forall (fun x => match x with
                   | OEv _ c' n' _ _ | OAck _ c' n' _ => c' = c /\ n' = n /\ exists k, alookup n' (m_socks m) = Some k
                   | _ => True end) (ev_outs c n q)).
  { intros q. unfold ev_outs. constructor; [eauto|]. destruct (p_id q); repeat constructor. }
  destruct (p_type p); simpl.
  - apply Forall_app; split.
    + apply Forall_forall. intros x Hx. apply in_flat_map in Hx as [q [_ Hq]].
      eapply Forall_forall in Hq; [|apply Hev]. exact Hq.
    + apply Forall_app; split; [|repeat constructor].
      apply Forall_forall. intros x Hx. apply in_map_iff in Hx as [? [<- _]]. exact I.
  - destruct (c_destroy c m n k) as [m1 o1] eqn:D. simpl. apply Forall_app; split; [|repeat constructor].
    pose proof (c_destroy_out c m n k) as Ho. rewrite D in Ho. simpl in Ho.
    eapply Forall_impl; [|exact Ho]. intros [] Hx; simpl in *; auto; discriminate.
  - destruct (cs_state k); try (constructor; fail); apply Hev.
  - destruct (p_id p); [|constructor]. destruct (take_ack _ _) as [[? ?]|]; repeat constructor; eauto.
  - destruct (c_destroy c m n k) as [m1 o1] eqn:D. simpl. apply Forall_app; split; [|repeat constructor].
    pose proof (c_destroy_out c m n k) as Ho. rewrite D in Ho. simpl in Ho.
    eapply Forall_impl; [|exact Ho]. intros [] Hx; simpl in *; auto; discriminate.
  - destruct (cs_state k); try (constructor; fail); apply Hev.
  - destruct (p_id p); [|constructor]. destruct (take_ack _ _) as [[? ?]|]; repeat constructor; eauto.
Qed.

(** a packet for a namespace the manager has no socket for is dropped: nothing is dispatched *)
Lemma c_recv_unknown_dropped c p m :
  alookup (norm_hdr (p_nsp p)) (m_socks m) = None -> c_recv c p m = (m, []).
Proof. intros E. unfold c_recv. now rewrite E. Qed.

(** a client socket hands nothing to the wire before the CONNECT reply (repaired code) *)
Lemma c_emit_buffers_until_connected c n tag ack m :
  cs_state (get_sock m (norm_api n)) <> CConn -> snd (c_emit c n tag ack m) = [].
Proof. intros H. unfold c_emit. destruct (cs_state _); auto. contradiction. Qed.

(** the CONNECT reply is written in the very step that writes the connection's table: whenever a
    step hands a CONNECT packet of namespace n to an open connection c, c's table has n afterwards
    (so the first packet a client sends on reading the reply is routed to its socket, not closed) *)
Lemma connect_reply_implies_attached o s c p :
  In (OSend c p) (snd (sstep o s)) -> p_type p = PConnect -> closed s c = false ->
  tbl (fst (sstep o s)) c (p_nsp p) <> None.
Proof.
  intros Hin Ht Hcl.
  destruct o; simpl in *.
  - exfalso. unfold s_recv in Hin. destruct (alookup _ _) eqn:E; destruct (p_type p0) eqn:T; simpl in Hin;
      try (unfold close_conn in Hin; simpl in Hin; destruct Hin as [Hin|Hin]; [discriminate|];
           apply in_map_iff in Hin as [? [? _]]; discriminate).
    + unfold sock_close in Hin; simpl in Hin. destruct Hin as [Hin|[]]; discriminate.
    + unfold s_event in Hin. destruct (find_sock _ _); simpl in Hin; [|contradiction].
      destruct Hin as [Hin|Hin]; [discriminate|]. destruct (p_id p0); simpl in Hin; [|contradiction].
      destruct Hin as [Hin|[]]. inversion Hin; subst. discriminate.
    + unfold s_ack in Hin. destruct (find_sock _ _); [|contradiction]. destruct (p_id p0); [|contradiction].
      destruct (take_ack _ _) as [[? ?]|]; simpl in Hin; [|contradiction]. destruct Hin as [Hin|[]]; discriminate.
    + unfold s_event in Hin. destruct (find_sock _ _); simpl in Hin; [|contradiction].
      destruct Hin as [Hin|Hin]; [discriminate|]. destruct (p_id p0); simpl in Hin; [|contradiction].
      destruct Hin as [Hin|[]]. inversion Hin; subst. discriminate.
    + unfold s_ack in Hin. destruct (find_sock _ _); [|contradiction]. destruct (p_id p0); [|contradiction].
      destruct (take_ack _ _) as [[? ?]|]; simpl in Hin; [|contradiction]. destruct Hin as [Hin|[]]; discriminate.
    + unfold s_connect in Hin. destruct (ns_exists _); simpl in Hin; [contradiction|].
      destruct Hin as [Hin|[]]. inversion Hin; subst. discriminate.
  - unfold s_verdict in *. destruct (existsb _ _); [|contradiction]. destruct ok.
    + destruct (sc_closed (sv_conn s c0)) eqn:Ec; simpl in Hin |- *.
      * exfalso. destruct Hin as [Hin|[Hin|Hin]]; try discriminate.
        -- inversion Hin; subst. unfold closed in Hcl. congruence.
        -- unfold sock_close in Hin; simpl in Hin. destruct Hin as [Hin|[]]; discriminate.
      * destruct Hin as [Hin|[Hin|[]]]; [|discriminate]. inversion Hin; subst. simpl.
        rewrite tbl_set_table, N.eqb_refl, alookup_aset_same. discriminate.
    + exfalso. simpl in Hin. destruct Hin as [Hin|[]]. inversion Hin; subst. discriminate.
  - exfalso. unfold s_mwjoin in Hin. destruct (existsb _ _); contradiction.
  - exfalso. unfold s_emit in Hin. destruct (sock_of _ _ _); [|contradiction].
    destruct ack; simpl in Hin; destruct Hin as [Hin|[]]; inversion Hin; subst; discriminate.
  - exfalso. apply in_map_iff in Hin as [k [E _]]. inversion E; subst. discriminate.
  - exfalso. unfold s_join in Hin. destruct (sock_of _ _ _); contradiction.
  - exfalso. unfold s_disc in Hin. destruct (sock_of _ _ _); [|contradiction]. simpl in Hin.
    destruct Hin as [Hin|[Hin|[]]]; [inversion Hin; subst|]; discriminate.
  - exfalso. unfold close_conn in Hin; simpl in Hin. destruct Hin as [Hin|Hin]; [discriminate|].
    apply in_map_iff in Hin as [? [? _]]. discriminate.
Qed.
