(** C01 - end-to-end composition: Emit on one side ... handler invocation on the other.

    The development is a [Section] parametric in the components that other properties verify:

      C09/C10  Socket.IO codec          [enc], [dec_step], hypothesis [codec_roundtrip]
      C11      Engine.IO framing        [pack], [unpack], hypothesis [framing_roundtrip]
      C13      size limits              [accepts] (the receiving transport's decision per wire unit)
      C02      send path                premise [Interleave]: the wire carries whole packets, each
                                        emitter's packets in its own order (conclusion of C02_wire_order)
      C18/C05  handler registry         [get_all], hypothesis [get_all_spec]
      TCP/HTTP/websocket                [link], hypothesis [link_fifo] (assumed, tied by the live rig)

    and it models, as coded, the two Socket.IO-level steps that are C01's own:
      - server side, connection state recovery on: an offset is appended to the arguments of every
        event (adapter_session_aware.go Broadcast, reached from server_socket.go emit);
      - receiving side: the handler's declared parameters are decoded from the leading wire
        arguments ([decode(handler.inputArgs...)]); the Go client's [callEvent] is modelled by
        [handler_runs] (see there).
    [EndToEndInst.v] instantiates the section (hypotheses discharged, not assumed). *)
From Coq Require Import List Bool Arith Lia Permutation.
Import ListNotations.

(** * Interleavings at packet granularity *)

(** [Interleave ls tr]: the trace [tr] is a merge of the per-emitter lists [ls] that keeps the
    order inside each list; every trace entry carries the index of the emitter that moved (so a
    trace is at the same time the schedule).  Any number of emitters, any merge. *)
Inductive Interleave {A : Type} : list (list A) -> list (nat * A) -> Prop :=
| il_done : forall ls, Forall (fun l => l = []) ls -> Interleave ls []
| il_step : forall ls1 x l ls2 tr,
    Interleave (ls1 ++ l :: ls2) tr ->
    Interleave (ls1 ++ (x :: l) :: ls2) ((length ls1, x) :: tr).

(** what emitter [i] contributed to a tagged trace, in trace order *)
Definition proj {A} (i : nat) (tr : list (nat * A)) : list A :=
  map snd (filter (fun p => fst p =? i) tr).

Section E2E.

  (** ** Components (each is another property's subject) *)
  Variable name : Type.
  Variable name_eqb : name -> name -> bool.
  Hypothesis name_eqb_eq : forall a b, name_eqb a b = true <-> a = b.

  Variable arg : Type.                 (* one argument tree, binary leaves included *)
  Variable offset : Type.              (* the recovery offset (a yeast id) *)
  Variable off_arg : offset -> arg.    (* ... as the string argument the server appends *)

  (** a Socket.IO event: name and argument list *)
  Definition event := (name * list arg)%type.

  Variable frame : Type.               (* one Engine.IO message packet (header+JSON, or one attachment) *)
  Variable enc : event -> list frame.  (* C09: one packet = header frame followed by its attachments *)
  Variable dstate : Type.              (* C10: decoder state (the reconstructor) *)
  Variable d0 : dstate.                (* idle *)
  Variable dec_step : dstate -> frame -> dstate * option event.

  Fixpoint feed (d : dstate) (fs : list frame) : dstate * list event :=
    match fs with
    | [] => (d, [])
    | f :: fs' =>
        let (d1, o) := dec_step d f in
        let (d2, es) := feed d1 fs' in
        (d2, match o with Some e => e :: es | None => es end)
    end.

  (** C09 round trip: an idle decoder fed the frames of [e] yields exactly [e] and is idle again ... *)
  Hypothesis codec_roundtrip : forall e, feed d0 (enc e) = (d0, [e]).
  (** ... and nothing before the last frame. *)
  Hypothesis codec_silent_prefix :
    forall e p s, enc e = p ++ s -> s <> [] -> snd (feed d0 p) = [].

  (** what the codec emits is a well-formed Engine.IO message packet (C11's precondition) *)
  Variable frame_ok : frame -> Prop.
  Hypothesis enc_frames_ok : forall e, Forall frame_ok (enc e).

  Variable wunit : Type.               (* what one transport send puts on the wire *)
  Variable pack : list frame -> wunit. (* C11: payload / message framing of a batch *)
  Variable unpack : wunit -> list frame.
  Hypothesis framing_roundtrip : forall b, Forall frame_ok b -> unpack (pack b) = b.

  Variable accepts : wunit -> bool.    (* C13: the receiving transport's size decision *)

  Variable link : list wunit -> list wunit.
  Hypothesis link_fifo : forall us, link us = us.   (* reliable FIFO per connection (assumed) *)

  (** ** Configuration and handlers *)
  Record cfg := mkCfg {
    recovery : bool;   (* ServerConnectionStateRecovery.Enabled *)
    s2c : bool;        (* direction: true = server emits, Go client receives *)
    client_strips_offset : bool  (* client_socket.go callEvent drops a trailing string value when a
                                    pid is known - true for the code before the fix *)
  }.

  Record handler := mkHandler {
    hid : nat;          (* identity of the registration *)
    hname : name;       (* event name it was registered for *)
    harity : nat;       (* number of declared parameters *)
    hlast_str : bool    (* reflect.Kind of the last parameter is String *)
  }.

  Variable hs : list handler.                      (* everything registered on the receiving socket *)
  Variable get_all : name -> list handler.         (* C18: eventHandlerStore.getAll *)
  Hypothesis get_all_spec :
    forall n, get_all n = filter (fun h => name_eqb (hname h) n) hs.

  (** ** Send side *)

  (** server_socket.go emit -> sessionAwareAdapter.Broadcast: with recovery on, every event the
      server emits gets the packet id appended as a last argument. *)
  Definition stamp (c : cfg) (x : event * offset) : event :=
    let (e, o) := x in
    if recovery c && s2c c then (fst e, snd e ++ [off_arg o]) else e.

  (** frames in the order they enter the connection's queue *)
  Definition wire (c : cfg) (tr : list (nat * (event * offset))) : list frame :=
    flat_map (fun p => enc (stamp c (snd p))) tr.

  (** ** Receive side *)

  (** units are read in order; the first rejected unit closes the connection *)
  Fixpoint accept_units (us : list wunit) : list wunit :=
    match us with
    | [] => []
    | u :: r => if accepts u then u :: accept_units r else []
    end.

  (** the parser keeps its state across transport deliveries *)
  Fixpoint recv_units (d : dstate) (us : list wunit) : dstate * list event :=
    match us with
    | [] => (d, [])
    | u :: us' =>
        let (d1, e1) := feed d (unpack u) in
        let (d2, e2) := recv_units d1 us' in
        (d2, e1 ++ e2)
    end.

  Definition parsed (batches : list (list frame)) : list event :=
    snd (recv_units d0 (accept_units (link (map pack batches)))).

  (** client_socket.go callEvent: with a pid known (recovery on, client side) a trailing value of
      kind String is taken for the offset and removed; the call then has one argument too few,
      reflect panics, the panic is turned into an error and the handler never runs.  The value's
      kind is the kind of the handler's last parameter, whatever was sent. *)
  Definition handler_runs (c : cfg) (h : handler) : bool :=
    negb (client_strips_offset c && recovery c && s2c c && hlast_str h).

  (** onPacket/onEvent: every handler registered for the name gets the leading arguments it
      declares (further wire arguments, such as the offset, are not decoded). *)
  Definition deliver (c : cfg) (we : event) : list (nat * list arg) :=
    flat_map (fun h => if handler_runs c h then [(hid h, firstn (harity h) (snd we))] else [])
             (get_all (fst we)).

  Definition deliveries (c : cfg) (batches : list (list frame)) : list (nat * list arg) :=
    flat_map (deliver c) (parsed batches).

  (** what handler [k] was handed, in order *)
  Definition handed (k : nat) (log : list (nat * list arg)) : list (list arg) :=
    map snd (filter (fun d => fst d =? k) log).

  (** the argument lists of the events named [n] *)
  Definition args_named (n : name) (evs : list event) : list (list arg) :=
    map snd (filter (fun e => name_eqb n (fst e)) evs).

  (** ** Side conditions *)

  (** every registered handler declares as many parameters as the events of its name carry *)
  Definition sig_matches (evs : list event) : Prop :=
    forall h e, In h hs -> In e evs -> fst e = hname h -> harity h = length (snd e).

  Definition handlers_ok (c : cfg) : bool := forallb (handler_runs c) hs.

  Definition within_limits (batches : list (list frame)) : Prop :=
    Forall (fun b => accepts (pack b) = true) batches.


  (** * Proofs *)

  (** ** Decoder over concatenated packets *)
  Lemma feed_app : forall a d b,
    feed d (a ++ b) =
    let (d1, e1) := feed d a in let (d2, e2) := feed d1 b in (d2, e1 ++ e2).
  Proof.
    induction a as [|f a IH]; intros d b; simpl.
    - destruct (feed d b); reflexivity.
    - destruct (dec_step d f) as [d1 o]. rewrite IH.
      destruct (feed d1 a) as [d2 e1]. destruct (feed d2 b) as [d3 e2].
      destruct o; reflexivity.
  Qed.

  Lemma feed_packets : forall evs, feed d0 (flat_map enc evs) = (d0, evs).
  Proof.
    induction evs as [|e evs IH]; simpl; [reflexivity|].
    rewrite feed_app, codec_roundtrip, IH. reflexivity.
  Qed.

  (** a connection cut inside a packet delivers the complete packets before it and nothing of
      the partial one (nothing truncated is ever handed on) *)
  Lemma no_truncated_delivery : forall evs e p s,
    enc e = p ++ s -> s <> [] -> snd (feed d0 (flat_map enc evs ++ p)) = evs.
  Proof.
    intros evs e p s He Hs. rewrite feed_app, feed_packets.
    pose proof (codec_silent_prefix e p s He Hs) as Hp.
    destruct (feed d0 p) as [d2 e2]; simpl in *. subst e2. apply app_nil_r.
  Qed.

  Lemma recv_units_flat : forall us d, recv_units d us = feed d (flat_map unpack us).
  Proof.
    induction us as [|u us IH]; intros d; simpl; [reflexivity|].
    rewrite feed_app. destruct (feed d (unpack u)) as [d1 e1]. rewrite IH.
    destruct (feed d1 (flat_map unpack us)); reflexivity.
  Qed.

  Lemma accept_units_all : forall us, Forall (fun u => accepts u = true) us -> accept_units us = us.
  Proof.
    induction 1 as [|u us Hu _ IH]; simpl; [reflexivity|]. now rewrite Hu, IH.
  Qed.

  Lemma unpack_pack_all : forall bs,
    Forall (Forall frame_ok) bs -> flat_map unpack (map pack bs) = concat bs.
  Proof.
    induction 1 as [|b bs Hb _ IH]; simpl; [reflexivity|]. now rewrite framing_roundtrip, IH.
  Qed.

  Lemma Forall_concat_inv : forall {X} (P : X -> Prop) (bs : list (list X)),
    Forall P (concat bs) -> Forall (Forall P) bs.
  Proof.
    induction bs as [|b bs IH]; intros H; [constructor|].
    simpl in H. apply Forall_app in H as [H1 H2]. constructor; auto.
  Qed.

  Lemma wire_frames_ok : forall c tr, Forall frame_ok (wire c tr).
  Proof.
    intros c tr. unfold wire. induction tr as [|p tr IH]; simpl; [constructor|].
    apply Forall_app. split; [apply enc_frames_ok | exact IH].
  Qed.

  Lemma flat_map_enc_map : forall {X} (f : X -> event) l,
    flat_map (fun x => enc (f x)) l = flat_map enc (map f l).
  Proof. induction l as [|x l IH]; simpl; [reflexivity|]. now rewrite IH. Qed.

  (** the receiving parser finishes exactly the packets that entered the sender's queue, in
      that order - for every batching of the frame stream into transport sends *)
  Theorem parsed_in_wire_order : forall c tr batches,
    concat batches = wire c tr -> within_limits batches ->
    parsed batches = map (fun p => stamp c (snd p)) tr.
  Proof.
    intros c tr batches Hw Hl. unfold parsed.
    rewrite link_fifo, accept_units_all.
    - rewrite recv_units_flat, unpack_pack_all, Hw.
      + unfold wire. rewrite flat_map_enc_map, feed_packets. reflexivity.
      + apply Forall_concat_inv. rewrite Hw. apply wire_frames_ok.
    - unfold within_limits in Hl. now apply Forall_map.
  Qed.

  (** A send the receiver refuses closes the connection: the complete packets carried by the
      sends before it are delivered, a packet cut by the refusal yields nothing, and nothing sent
      afterwards arrives (what lies beyond [within_limits]). *)
  Lemma accept_units_cut : forall us1 u us2,
    Forall (fun x => accepts x = true) us1 -> accepts u = false ->
    accept_units (us1 ++ u :: us2) = us1.
  Proof.
    induction 1 as [|x us1 Hx _ IH]; intros Hu; simpl.
    - now rewrite Hu.
    - now rewrite Hx, IH.
  Qed.

  Lemma packets_frames_ok : forall evs, Forall frame_ok (flat_map enc evs).
  Proof.
    induction evs as [|e evs IH]; simpl; [constructor|].
    apply Forall_app. split; [apply enc_frames_ok | exact IH].
  Qed.

  Theorem rejected_send_cuts : forall evs1 p batches1 bad batches2,
    concat batches1 = flat_map enc evs1 ++ p ->
    (p = [] \/ exists e s, enc e = p ++ s /\ s <> []) ->
    Forall (fun b => accepts (pack b) = true) batches1 ->
    accepts (pack bad) = false ->
    parsed (batches1 ++ bad :: batches2) = evs1.
  Proof.
    intros evs1 p batches1 bad batches2 Hc Hp Hok Hbad. unfold parsed.
    rewrite link_fifo, map_app. simpl. rewrite accept_units_cut.
    - rewrite recv_units_flat, unpack_pack_all, Hc.
      + destruct Hp as [-> | [e [s [He Hs]]]].
        * rewrite app_nil_r, feed_packets. reflexivity.
        * eapply no_truncated_delivery; eassumption.
      + apply Forall_concat_inv. rewrite Hc. apply Forall_app. split.
        * apply packets_frames_ok.
        * destruct Hp as [-> | [e [s [He _]]]]; [constructor|].
          pose proof (enc_frames_ok e) as H. rewrite He in H. now apply Forall_app in H as [H _].
    - now apply Forall_map.
    - exact Hbad.
  Qed.

  (** ** Interleavings *)
  Lemma all_nil_nth : forall {A} (ls : list (list A)) i,
    Forall (fun l => l = []) ls -> nth i ls [] = [].
  Proof.
    intros A ls i H. destruct (nth_in_or_default i ls []) as [Hin | E]; [|exact E].
    rewrite Forall_forall in H. now apply H.
  Qed.

  Lemma all_nil_concat : forall {A} (ls : list (list A)),
    Forall (fun l => l = []) ls -> concat ls = [].
  Proof. induction 1 as [|l ls Hl _ IH]; simpl; [reflexivity|]. now rewrite Hl, IH. Qed.

  (** per-emitter order: what emitter [i] contributed to the trace is its own list, in order *)
  Lemma interleave_proj : forall {A} (ls : list (list A)) tr,
    Interleave ls tr -> forall i, proj i tr = nth i ls [].
  Proof.
    intros A ls tr H. induction H as [ls Hn | ls1 x l ls2 tr _ IH]; intros i.
    - unfold proj; simpl. symmetry. now apply all_nil_nth.
    - unfold proj in *. simpl.
      destruct (Nat.eqb_spec (length ls1) i) as [E | NE].
      + subst i. simpl. rewrite IH. rewrite !nth_middle. reflexivity.
      + rewrite IH. destruct (Nat.lt_ge_cases i (length ls1)) as [Hlt | Hge].
        * rewrite !app_nth1 by assumption. reflexivity.
        * rewrite !app_nth2 by assumption.
          destruct (i - length ls1) as [|k] eqn:Ek; [lia | reflexivity].
  Qed.

  Lemma interleave_perm : forall {A} (ls : list (list A)) tr,
    Interleave ls tr -> Permutation (map snd tr) (concat ls).
  Proof.
    intros A ls tr H. induction H as [ls Hn | ls1 x l ls2 tr _ IH].
    - rewrite all_nil_concat by assumption. constructor.
    - simpl. rewrite concat_app in *. simpl in *.
      now apply Permutation_cons_app.
  Qed.

  (** ** Dispatch *)
  Lemma handed_app : forall k a b, handed k (a ++ b) = handed k a ++ handed k b.
  Proof. intros. unfold handed. now rewrite filter_app, map_app. Qed.

  Section OneHandler.
    Variable c : cfg.
    Variable h : handler.
    Variable we : event.

    Let g := fun h' : handler =>
      if handler_runs c h' then [(hid h', firstn (harity h') (snd we))] else [].
    Let G := fun hs' : list handler =>
      handed (hid h) (flat_map g (filter (fun h' => name_eqb (hname h') (fst we)) hs')).

    Lemma G_cons : forall a hs', G (a :: hs') =
      (if name_eqb (hname a) (fst we) then handed (hid h) (g a) else []) ++ G hs'.
    Proof.
      intros. unfold G. simpl. destruct (name_eqb (hname a) (fst we)); simpl.
      - now rewrite handed_app.
      - reflexivity.
    Qed.

    Lemma g_other : forall a, hid a <> hid h -> handed (hid h) (g a) = [].
    Proof.
      intros a NE. unfold g, handed. destruct (handler_runs c a); simpl; [|reflexivity].
      destruct (Nat.eqb_spec (hid a) (hid h)); [contradiction | reflexivity].
    Qed.

    Lemma G_others : forall hs', (forall a, In a hs' -> hid a <> hid h) -> G hs' = [].
    Proof.
      induction hs' as [|a hs' IH]; intros Hne; [reflexivity|].
      rewrite G_cons, IH by (intros; apply Hne; now right).
      rewrite g_other by (apply Hne; now left). now destruct (name_eqb _ _).
    Qed.

    Lemma G_select : forall hs', NoDup (map hid hs') -> In h hs' ->
      G hs' = if handler_runs c h && name_eqb (hname h) (fst we)
              then [firstn (harity h) (snd we)] else [].
    Proof.
      induction hs' as [|a hs' IH]; intros Hnd Hin; [contradiction|].
      simpl in Hnd. inversion Hnd as [|? ? Hnotin Hnd']; subst.
      rewrite G_cons. destruct Hin as [E | Hin].
      - subst a. rewrite G_others.
        + rewrite app_nil_r. unfold g, handed.
          destruct (name_eqb (hname h) (fst we)); [|now rewrite andb_false_r].
          destruct (handler_runs c h); simpl; [|reflexivity].
          now rewrite Nat.eqb_refl.
        + intros a Ha E. apply Hnotin. rewrite <- E. now apply in_map.
      - assert (NE : hid a <> hid h).
        { intros E. apply Hnotin. rewrite E. now apply in_map. }
        rewrite g_other by assumption. rewrite IH by assumption.
        now destruct (name_eqb (hname a) (fst we)).
    Qed.
  End OneHandler.

  Hypothesis hids_distinct : NoDup (map hid hs).

  (** one registered handler's view of the dispatch of one packet *)
  Lemma handed_deliver : forall c h we, In h hs ->
    handed (hid h) (deliver c we) =
    if handler_runs c h && name_eqb (hname h) (fst we)
    then [firstn (harity h) (snd we)] else [].
  Proof.
    intros c h we Hin. unfold deliver. rewrite get_all_spec.
    exact (G_select c h we hs hids_distinct Hin).
  Qed.

  Lemma name_eqb_sym : forall a b, name_eqb a b = name_eqb b a.
  Proof.
    intros a b. destruct (name_eqb a b) eqn:E1, (name_eqb b a) eqn:E2; try reflexivity.
    - apply name_eqb_eq in E1. subst. assert (name_eqb b b = true) by now apply name_eqb_eq. congruence.
    - apply name_eqb_eq in E2. subst. assert (name_eqb a a = true) by now apply name_eqb_eq. congruence.
  Qed.

  Lemma firstn_stamp : forall c e o n,
    n = length (snd e) -> firstn n (snd (stamp c (e, o))) = snd e.
  Proof.
    intros c [nm a] o n ->. unfold stamp. simpl.
    destruct (recovery c && s2c c); simpl.
    - rewrite firstn_app, firstn_all, Nat.sub_diag. simpl. apply app_nil_r.
    - apply firstn_all.
  Qed.

  Lemma fst_stamp : forall c x, fst (stamp c x) = fst (fst x).
  Proof. intros c [[nm a] o]. unfold stamp. simpl. now destruct (recovery c && s2c c). Qed.

  (** a running handler, over a whole stream of emitted (event, offset) items: it is handed the
      argument lists of exactly the events of its name, unchanged, in stream order *)
  Lemma handed_stream : forall c h (items : list (event * offset)),
    In h hs -> handler_runs c h = true ->
    (forall x, In x items -> fst (fst x) = hname h -> harity h = length (snd (fst x))) ->
    handed (hid h) (flat_map (deliver c) (map (stamp c) items)) =
    args_named (hname h) (map fst items).
  Proof.
    intros c h items Hin Hrun. induction items as [|[e o] items IH]; intros Hsig; [reflexivity|].
    cbn [map flat_map]. rewrite handed_app, IH by (intros; apply Hsig; [now right | assumption]).
    rewrite handed_deliver by assumption. rewrite Hrun, fst_stamp.
    unfold args_named at 2. cbn [map filter fst andb].
    destruct (name_eqb (hname h) (fst e)) eqn:En; [|reflexivity].
    apply name_eqb_eq in En.
    rewrite firstn_stamp by (apply (Hsig (e, o)); [now left | now symmetry]). reflexivity.
  Qed.

  (** a handler the client refuses to call is handed nothing, whatever is sent *)
  Lemma handed_skipped : forall c h wevs,
    In h hs -> handler_runs c h = false -> handed (hid h) (flat_map (deliver c) wevs) = [].
  Proof.
    intros c h wevs Hin Hrun. induction wevs as [|we wevs IH]; [reflexivity|].
    simpl. rewrite handed_app, IH, handed_deliver by assumption. now rewrite Hrun.
  Qed.

  (** nothing is handed to anything that is not a registered handler of the event's own name *)
  Lemma deliver_only_registered : forall c we k a,
    In (k, a) (deliver c we) ->
    exists h, In h hs /\ hid h = k /\ hname h = fst we /\ a = firstn (harity h) (snd we).
  Proof.
    intros c we k a H. unfold deliver in H. rewrite get_all_spec in H.
    apply in_flat_map in H as [h [Hh Hd]]. apply filter_In in Hh as [Hin Hn].
    apply name_eqb_eq in Hn. destruct (handler_runs c h); [|contradiction].
    destruct Hd as [E | []]. inversion E; subst. now exists h.
  Qed.

  Lemma Permutation_filter' : forall {X} (f : X -> bool) l1 l2,
    Permutation l1 l2 -> Permutation (filter f l1) (filter f l2).
  Proof.
    intros X f l1 l2 H. induction H; simpl.
    - constructor.
    - destruct (f x); [now constructor | assumption].
    - destruct (f x), (f y); try (apply Permutation_refl); apply perm_swap.
    - eapply perm_trans; eassumption.
  Qed.

  (** * The end-to-end theorem

      For every configuration, every number of emitters [length ems], every list of events per
      emitter (each with whatever offset the server gives it), every interleaving [tr] of the
      emitters at packet granularity (C02), every cutting of the resulting frame stream into
      transport sends [batches] (drainer wake-ups, C13's batcher), with all sends within the limit
      the receiver enforces, all handlers matching the arity of the events of their name, and
      [handlers_ok] (no handler hit by the client's offset stripping):

      (a) the receiving parser finishes exactly the emitted events, in wire order, which keeps
          every emitter's own order;
      (b) every registered handler is handed exactly the argument lists of the events emitted
          under its name, unchanged, in wire order - hence, as a multiset, exactly those that the
          emitters sent under that name, each once;
      (c) every invocation is of a registered handler of the event's own name. *)
  Theorem exactly_once_intact :
    forall (c : cfg) (ems : list (list (event * offset))) tr batches,
      Interleave ems tr ->
      concat batches = wire c tr ->
      within_limits batches ->
      sig_matches (map fst (concat ems)) ->
      handlers_ok c = true ->
      let got := deliveries c batches in
      (parsed batches = map (stamp c) (map snd tr)
       /\ forall i, proj i tr = nth i ems [])
      /\ (forall h, In h hs ->
            handed (hid h) got = args_named (hname h) (map fst (map snd tr))
            /\ Permutation (handed (hid h) got)
                                       (args_named (hname h) (map fst (concat ems))))
      /\ (forall k a, In (k, a) got ->
            exists h e, In h hs /\ hid h = k /\ In e (map fst (concat ems))
                        /\ hname h = fst e /\ a = snd e).
  Proof.
    intros c ems tr batches Hil Hw Hl Hsig Hok got.
    pose proof (interleave_perm ems tr Hil) as Hperm.
    assert (Hparsed : parsed batches = map (stamp c) (map snd tr)).
    { rewrite (parsed_in_wire_order c tr batches Hw Hl). now rewrite map_map. }
    assert (Hsig' : forall h x, In h hs -> In x (map snd tr) ->
                    fst (fst x) = hname h -> harity h = length (snd (fst x))).
    { intros h x Hh Hx Hn. apply (Hsig h (fst x)); try assumption.
      apply in_map. eapply Permutation_in; eassumption. }
    assert (Hrun : forall h, In h hs -> handler_runs c h = true).
    { unfold handlers_ok in Hok. rewrite forallb_forall in Hok. exact Hok. }
    split; [split; [exact Hparsed | intros i; now apply interleave_proj] |].
    split.
    - intros h Hh. unfold got, deliveries. rewrite Hparsed.
      rewrite handed_stream; try (now auto).
      split; [reflexivity|].
      unfold args_named. apply Permutation_map, Permutation_filter'.
      now apply Permutation_map.
    - intros k a Hin. unfold got, deliveries in Hin. rewrite Hparsed in Hin.
      apply in_flat_map in Hin as [we [Hwe Hd]].
      apply in_map_iff in Hwe as [x [Ex Hx]]. subst we.
      apply deliver_only_registered in Hd as [h [Hh [Ek [En Ea]]]].
      exists h, (fst x). rewrite fst_stamp in En.
      repeat split; try assumption.
      + apply in_map. eapply Permutation_in; eassumption.
      + subst a. destruct x as [e o]. apply firstn_stamp.
        apply (Hsig' h (e, o)); auto.
  Qed.

  (** The gap (recovery on, server -> client, handler whose last parameter is a string) as a
      theorem about the model of the code with the stripping: such a handler is never called,
      whatever is emitted, while the parser did receive the events. *)
  Theorem stripped_handler_starves :
    forall (c : cfg) h batches,
      In h hs ->
      client_strips_offset c = true -> recovery c = true -> s2c c = true -> hlast_str h = true ->
      handed (hid h) (deliveries c batches) = [].
  Proof.
    intros c h batches Hin Hs Hr Hd Hl. unfold deliveries. apply handed_skipped; [assumption|].
    unfold handler_runs. now rewrite Hs, Hr, Hd, Hl.
  Qed.

  (** ... and with the stripping gone (the repaired client) [handlers_ok] holds for every table. *)
  Lemma handlers_ok_fixed : forall c, client_strips_offset c = false -> handlers_ok c = true.
  Proof.
    intros c Hs. unfold handlers_ok. apply forallb_forall. intros h _.
    unfold handler_runs. now rewrite Hs.
  Qed.

  Lemma handlers_ok_other_configs : forall c,
    recovery c = false \/ s2c c = false -> handlers_ok c = true.
  Proof.
    intros c H. unfold handlers_ok. apply forallb_forall. intros h _. unfold handler_runs.
    destruct H as [-> | ->]; now rewrite ?andb_false_r.
  Qed.

End E2E.

(** Side condition of the several-feeders statements (Sio/EndToEndFeeders.v): every delivery is fed
    to the parser atomically, and while another transport's delivery is still in flight a
    transport that delivers frame by frame (websocket) carries no packet with attachments. *)
Definition feeders_safe (delivery_atomic ws_attachments_while_poll_in_flight : bool) : bool :=
  delivery_atomic && negb ws_attachments_while_poll_in_flight.
