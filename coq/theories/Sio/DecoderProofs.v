(** Proofs about Sio/Decoder.v: for every frame sequence and every answer of the libraries the
    decoder neither panics nor gets stuck; an announced attachment count is honoured exactly. *)
From SioV Require Import Base.GoSem Sio.Header Sio.HeaderProofs Sio.Decoder.
From Coq Require Import Lia ZifyN ZifyNat ZifyBool.
Local Open Scope Z_scope.

(** * Add / run *)
Section AddProofs.
  Variable puint : bytes -> option N.
  Variable unm_strs : bytes -> option (list bytes).
  Variable max_att : Z.

  Notation add := (add puint unm_strs max_att).
  Notation run := (run puint unm_strs max_att).

  Lemma add_no_panic st data : add st data <> Panic.
  Proof.
    unfold Decoder.add. destruct st as [r|].
    - destruct (_ =? 0); discriminate.
    - pose proof (parse_header_no_panic puint unm_strs data) as H.
      destruct (parse_header_with puint unm_strs data) as [[[h buf] name]| |]; try congruence.
      destruct (_ && _); [discriminate|]. destruct (_ || _); discriminate.
  Qed.

  Lemma add_total st data : exists st' o, add st data = Ok (st', o).
  Proof.
    pose proof (add_no_panic st data) as H.
    unfold Decoder.add in *. destruct st as [r|].
    - destruct (_ =? 0); eauto.
    - destruct (parse_header_with puint unm_strs data) as [[[h buf] name]| |]; try congruence; eauto.
      destruct (_ && _); eauto. destruct (_ || _); eauto.
  Qed.

  Lemma run_no_panic frames : forall st, run st frames <> Panic.
  Proof.
    induction frames as [|f fs IH]; intros st; simpl; [discriminate|].
    apply rbind_no_panic; [apply add_no_panic|].
    intros [st' o] _. destruct o; try discriminate;
      (apply rbind_no_panic; [apply IH|]); intros [st'' os] _; discriminate.
  Qed.

  (** ** The pending state: invariant and exact completion *)
  Definition pending_ok (r : recon) : Prop :=
    1 <= r_remaining r < two63z /\ (1 <= length (r_buffers r))%nat.

  Definition state_ok (st : option recon) : Prop :=
    match st with None => True | Some r => pending_ok r end.

  Lemma wrap_int_id z : - two63z <= z < two63z -> wrap_int z = z.
  Proof.
    intros H. unfold wrap_int. rewrite Z.mod_small; unfold two63z in *; lia.
  Qed.

  Lemma uint64_to_int_range v : - two63z <= uint64_to_int v < two63z.
  Proof.
    unfold uint64_to_int, two63z.
    assert (Hm : (v mod two64 < two64)%N) by (apply N.mod_lt; discriminate).
    unfold two64, two63 in *.
    destruct (N.ltb_spec (v mod 18446744073709551616) 9223372036854775808); lia.
  Qed.

  Lemma parse_prefix_att_lt data h d :
    parse_prefix_with puint data = Ok (h, d) -> h_att h < two63z.
  Proof.
    unfold parse_prefix_with. destruct data as [|c data1]; [discriminate|].
    destruct ((c <? 48) || (54 <? c))%N eqn:Ec; [discriminate|].
    intros H.
    apply rbind_ok in H as ([att d2] & H1 & H).
    apply rbind_ok in H as ([nsp d3] & H2 & H).
    apply rbind_ok in H as ([id d4] & H3 & H).
    inversion H; subst; clear H; simpl.
    destruct (is_binary (c - 48)) eqn:Eb.
    - destruct (index_byte 45 data1) as [i|]; [|discriminate].
      apply rbind_ok in H1 as (s & _ & H1).
      destruct (puint s); [|discriminate].
      destruct (uint64_to_int n <? 0)%Z eqn:En; [discriminate|].
      apply rbind_ok in H1 as (dd & _ & H1). inversion H1; subst.
      apply uint64_to_int_range.
    - inversion H1; subst. unfold two63z; lia.
  Qed.

  Lemma parse_header_att data h buf name :
    parse_header_with puint unm_strs data = Ok (h, buf, name) ->
    0 <= h_att h < two63z /\ (is_binary (h_type h) = false -> h_att h = 0).
  Proof.
    unfold parse_header_with. intros H.
    apply rbind_ok in H as ([h' d] & H1 & H).
    assert (h' = h) as ->.
    { destruct (is_event (h_type h')).
      - apply rbind_ok in H as (tmp & _ & H).
        destruct (unm_strs tmp) as [[|n [|? ?]]|]; try discriminate. now inversion H.
      - now inversion H. }
    pose proof (parse_prefix_att _ _ _ _ H1) as (A & B & _).
    pose proof (parse_prefix_att_lt _ _ _ H1). auto.
  Qed.

  (** Every call of Add ends in exactly one of three ways, and what it leaves behind is
      well-formed: a finished packet has exactly the announced number of attachments and leaves
      the parser idle; "need more" leaves a pending packet that still waits for >= 1 frames. *)
  Lemma add_outcome st data :
    state_ok st ->
    exists st' o, add st data = Ok (st', o) /\
      match o with
      | Finished r =>
          st' = None /\ r_remaining r = 0
          /\ Z.of_nat (length (r_buffers r)) = 1 + h_att (r_header r) \/
          (* continuation of a pending packet *)
          st' = None /\ r_remaining r = 0 /\ exists r0, st = Some r0
      | NeedMore => exists r, st' = Some r /\ pending_ok r
      | Failed => st = None
      end.
  Proof.
    intros Hst. unfold Decoder.add. destruct st as [r|].
    - destruct Hst as [Hrem Hlen].
      rewrite (wrap_int_id (r_remaining r - 1)) by (unfold two63z in *; lia).
      cbn [r_remaining].
      destruct (Z.eqb_spec (r_remaining r - 1) 0) as [E|E].
      + do 2 eexists; split; [reflexivity|]. right. cbn. eauto.
      + do 2 eexists; split; [reflexivity|]. eexists; split; [reflexivity|].
        split; cbn; [lia|]. rewrite app_length; simpl; lia.
    - pose proof (parse_header_no_panic puint unm_strs data) as Hnp.
      destruct (parse_header_with puint unm_strs data) as [[[h buf] name]| |] eqn:E; try congruence.
      2:{ do 2 eexists; split; [reflexivity|]. reflexivity. }
      apply parse_header_att in E as [Hatt Hnb].
      destruct ((0 <? max_att) && (max_att <? h_att h)).
      { do 2 eexists; split; [reflexivity|]. reflexivity. }
      destruct (is_binary (h_type h)) eqn:Eb; cbn [negb orb].
      + destruct (Z.eqb_spec (h_att h) 0) as [E0|E0].
        * do 2 eexists; split; [reflexivity|]. left. cbn [r_remaining r_buffers r_header length]. repeat split; lia.
        * do 2 eexists; split; [reflexivity|]. eexists; split; [reflexivity|].
          split; cbn [r_remaining r_buffers r_header length]; lia.
      + do 2 eexists; split; [reflexivity|]. left. cbn [r_remaining r_buffers r_header length]. specialize (Hnb eq_refl). repeat split; lia.
  Qed.

  (** A pending packet that waits for [n] frames is completed by exactly the next [n] frames,
      whatever they contain, and carries them in order. *)
  Lemma run_pending fs : forall r,
    pending_ok r -> Z.of_nat (length fs) = r_remaining r ->
    run (Some r) fs =
      Ok (None, repeat NeedMore (length fs - 1)
                ++ [Finished (mkRecon (r_header r) (r_name r) (r_buffers r ++ fs) 0)]).
  Proof.
    induction fs as [|f fs IH]; intros r [Hrem Hlen] Hn; [simpl in Hn; lia|].
    cbn [Decoder.run Decoder.add].
    rewrite (wrap_int_id (r_remaining r - 1)) by (unfold two63z in *; lia).
    cbn [r_remaining].
    destruct (Z.eqb_spec (r_remaining r - 1) 0) as [E|E].
    - destruct fs; [|simpl in Hn; lia]. cbn. rewrite E. reflexivity.
    - cbn [rbind].
      set (r' := mkRecon _ _ _ _).
      assert (Hp : pending_ok r').
      { split; cbn; [simpl in Hn; lia|]. rewrite app_length; simpl; lia. }
      rewrite (IH r' Hp) by (cbn; simpl in Hn; lia).
      cbn [rbind]. destruct fs as [|g fs]; [simpl in Hn; cbn in *; lia|].
      cbn [length]. replace (S (S (length fs)) - 1)%nat with (S (length fs)) by lia.
      replace (S (length fs) - 1)%nat with (length fs) by lia.
      subst r'. cbn [repeat app r_header r_name r_buffers]. rewrite <- app_assoc. reflexivity.
  Qed.

  (** ... and by no shorter prefix: before the last frame every outcome is NeedMore. *)
  Lemma run_pending_prefix fs : forall r,
    pending_ok r -> Z.of_nat (length fs) < r_remaining r ->
    exists r', run (Some r) fs = Ok (Some r', repeat NeedMore (length fs)) /\
               r_buffers r' = r_buffers r ++ fs /\
               r_remaining r' = r_remaining r - Z.of_nat (length fs) /\ pending_ok r'.
  Proof.
    induction fs as [|f fs IH]; intros r Hp Hn.
    - exists r. cbn. rewrite app_nil_r. repeat split; try lia; apply Hp.
    - destruct Hp as [Hrem Hlen]. cbn [Decoder.run Decoder.add].
      rewrite (wrap_int_id (r_remaining r - 1)) by (unfold two63z in *; lia).
      cbn [r_remaining].
      destruct (Z.eqb_spec (r_remaining r - 1) 0) as [E|E]; [simpl in Hn; lia|].
      cbn [rbind]. set (r' := mkRecon _ _ _ _).
      assert (Hp : pending_ok r').
      { split; cbn; [simpl in Hn; lia|]. rewrite app_length; simpl; lia. }
      destruct (IH r' Hp) as (r'' & H1 & H2 & H3 & H4); [cbn; simpl in Hn; lia|].
      exists r''. rewrite H1. cbn [rbind]. split; [reflexivity|split; [|split; [|exact H4]]].
      + rewrite H2. subst r'. cbn [r_buffers]. rewrite <- app_assoc. reflexivity.
      + rewrite H3. subst r'. cbn [r_remaining length]. lia.
  Qed.
End AddProofs.

(** * decode *)
Section ShapeInd.
  Variable P : shape -> Prop.
  Hypothesis HO : P SOther.
  Hypothesis HB : forall st ph, P (SBin st ph).
  Hypothesis HS : forall l, Forall P l -> P (SSeq l).
  Hypothesis HM : forall e l, Forall P l -> P (SMap e l).
  Hypothesis HP : forall n fb, P fb -> P (SPhMap n fb).

  Fixpoint shape_ind' (s : shape) : P s :=
    let all := fix go (l : list shape) : Forall P l :=
                 match l with
                 | [] => Forall_nil P
                 | x :: l' => Forall_cons x (shape_ind' x) (go l')
                 end in
    match s with
    | SOther => HO
    | SBin st ph => HB st ph
    | SSeq l => HS l (all l)
    | SMap e l => HM e l (all l)
    | SPhMap n fb => HP n fb (shape_ind' fb)
    end.
End ShapeInd.

Lemma index_z_ok {A} (l : list A) z :
  0 <= z < Z.of_nat (length l) -> exists x, index_z l z = Ok x /\ nth_error l (Z.to_nat z) = Some x.
Proof.
  intros H. unfold index_z. destruct (Z.ltb_spec z 0); [lia|].
  unfold index. destruct (nth_error l (Z.to_nat z)) eqn:E; [eauto|].
  apply nth_error_None in E. lia.
Qed.

Lemma pick_spec buffers n :
  pick buffers n <> Panic /\
  forall b, pick buffers n = Ok b ->
    0 <= n < Z.of_nat (length buffers) - 1 /\ nth_error buffers (S (Z.to_nat n)) = Some b.
Proof.
  unfold pick.
  destruct (Z.ltb_spec n 0); cbn [orb]; [split; [discriminate|intros; discriminate]|].
  destruct (Z.geb_spec n (Z.of_nat (length buffers) - 1)); [split; [discriminate|intros; discriminate]|].
  destruct (index_z_ok buffers (n + 1)) as (x & Hx & Hn); [lia|].
  rewrite Hx. split; [discriminate|]. intros b Hb; inversion Hb; subst.
  split; [lia|]. replace (S (Z.to_nat n)) with (Z.to_nat (n + 1)) by lia. exact Hn.
Qed.

Lemma set_map_index_iface b : set_map_index_bytes true b = Ok (VBin b).
Proof. reflexivity. Qed.

(** The walk never panics: placeholder numbers are range-checked before the buffers are indexed,
    and an attachment is stored into a map only when the map's element type is an interface type,
    so SetMapIndex never receives a value it cannot assign. *)
Lemma recon_value_no_panic buffers s : recon_value buffers s <> Panic.
Proof.
  induction s as [| st [n|] | l IH | e l IH | n fb IH] using shape_ind'; cbn [recon_value]; try discriminate.
  - apply rbind_no_panic; [apply pick_spec|]. intros b _. destruct st; discriminate.
  - apply rbind_no_panic; [|discriminate].
    induction IH as [|x l Hx Hl IHl]; [discriminate|].
    apply rbind_no_panic; [exact Hx|]. intros v _.
    apply rbind_no_panic; [exact IHl|]. discriminate.
  - apply rbind_no_panic; [|discriminate].
    induction IH as [|x l Hx Hl IHl]; [discriminate|].
    apply rbind_no_panic.
    + destruct x as [| ph | l0 | e0 l0 | n fb]; try exact Hx.
      destruct e.
      * apply rbind_no_panic; [apply pick_spec|]. intros b _. discriminate.
      * exact Hx.
    + intros v _. apply rbind_no_panic; [exact IHl|]. discriminate.
  - exact IH.
Qed.

Lemma recon_typed_entry buffers n fb :
  recon_value buffers (SMap false [SPhMap n fb]) =
  rbind (recon_value buffers fb) (fun v => Ok (VSeq [v])).
Proof. cbn [recon_value]. destruct (recon_value buffers fb); reflexivity. Qed.

Lemma inner_guard_refuted :
  let bufs := [[91]; [1; 2; 3]]%N in
  let s := SMap false [SPhMap 0 (SMap true [SOther; SOther])] in
  recon_value_inner_guard bufs s = Panic /\ recon_value bufs s = Ok (VSeq [VSeq [VOther; VOther]]).
Proof. vm_compute. split; reflexivity. Qed.

Lemma recon_values_no_panic buffers l : recon_values buffers l <> Panic.
Proof.
  induction l as [|x l IH]; cbn [recon_values]; [discriminate|].
  apply rbind_no_panic; [apply recon_value_no_panic|]. intros v _.
  apply rbind_no_panic; [exact IH|]. discriminate.
Qed.

Lemma values_of_length f k : length (values_of f k) = k.
Proof. unfold values_of. now rewrite map_length, seq_length. Qed.

Section DecodeProofs.
  Variable unmarshal : bool -> bytes -> nat -> option (nat -> shape).

  Lemma reconstruct_no_panic r ntypes : reconstruct unmarshal r ntypes <> Panic.
  Proof.
    unfold reconstruct. destruct (Nat.ltb_spec (length (r_buffers r)) 1); [discriminate|].
    destruct (index_lt (r_buffers r) 0 ltac:(lia)) as [p Hp]. rewrite Hp. cbn [rbind].
    destruct (_ && _); [discriminate|].
    destruct (unmarshal false p _) as [f|]; [|discriminate].
    apply rbind_no_panic; [|intros; apply recon_values_no_panic].
    destruct (is_event _); [|discriminate].
    rewrite slice_from_le by (rewrite values_of_length; lia). discriminate.
  Qed.

  Lemma decode_no_panic r ntypes : decode unmarshal r ntypes <> Panic.
  Proof.
    unfold decode. destruct (Nat.eqb_spec (length (r_buffers r)) 1) as [E|E];
      [|apply reconstruct_no_panic].
    destruct (index_lt (r_buffers r) 0 ltac:(lia)) as [p Hp]. rewrite Hp. cbn [rbind].
    destruct (is_event _).
    - destruct p; [discriminate|].
      destruct (unmarshal false _ _) as [f|]; [|discriminate].
      rewrite slice_from_le by (rewrite values_of_length; lia). discriminate.
    - destruct (_ && _).
      + destruct (unmarshal true _ _); discriminate.
      + destruct (unmarshal false _ _); discriminate.
  Qed.
End DecodeProofs.

(** * Placed data is always an attachment *)
Lemma pick_in buffers n b : pick buffers n = Ok b -> In b (tl buffers).
Proof.
  intros H. destruct (pick_spec buffers n) as [_ P]. destruct (P b H) as [_ Hn].
  destruct buffers as [|p bs]; simpl in *; [discriminate|].
  eapply nth_error_In; exact Hn.
Qed.

Definition seq_bins := fix go (l : list value) : list bytes :=
  match l with [] => [] | x :: l' => bins_of x ++ go l' end.

Lemma recon_value_bins buffers s : forall v,
  recon_value buffers s = Ok v -> forall b, In b (bins_of v) -> In b (tl buffers).
Proof.
  induction s as [| st ph | l IH | e l IH | n fb IH] using shape_ind'; cbn [recon_value]; intros v Hv b Hb.
  - inversion Hv; subst; simpl in Hb; contradiction.
  - destruct ph as [n|]; [|discriminate]. apply rbind_ok in Hv as (x & Hp & Hx).
    destruct st; [|discriminate].
    inversion Hx; subst. simpl in Hb. destruct Hb as [<-|[]]. eapply pick_in; eauto.
  - apply rbind_ok in Hv as (vs & Hgo & Hx). inversion Hx; subst; clear Hx.
    change (In b (seq_bins vs)) in Hb.
    revert vs Hgo Hb. induction IH as [|x l Hx Hl IHl]; intros vs Hgo Hb.
    + inversion Hgo; subst. simpl in Hb. contradiction.
    + apply rbind_ok in Hgo as (v & Hv & Hgo). apply rbind_ok in Hgo as (vs' & Hvs & Hgo).
      inversion Hgo; subst; clear Hgo. cbn [seq_bins] in Hb.
      apply in_app_or in Hb as [Hb|Hb]; [eapply Hx; eauto | eapply IHl; eauto].
  - apply rbind_ok in Hv as (vs & Hgo & Hx). inversion Hx; subst; clear Hx.
    change (In b (seq_bins vs)) in Hb.
    revert vs Hgo Hb. induction IH as [|x l Hx Hl IHl]; intros vs Hgo Hb.
    + inversion Hgo; subst. simpl in Hb. contradiction.
    + apply rbind_ok in Hgo as (v & Hv & Hgo). apply rbind_ok in Hgo as (vs' & Hvs & Hgo).
      inversion Hgo; subst; clear Hgo. cbn [seq_bins] in Hb.
      apply in_app_or in Hb as [Hb|Hb]; [|eapply IHl; eauto].
      destruct x as [| st ph | l0 | e0 l0 | n fb]; try (eapply Hx; eauto; fail).
      destruct e.
      * apply rbind_ok in Hv as (bb & Hp & Hset). inversion Hset; subst.
        simpl in Hb. destruct Hb as [<-|[]]. eapply pick_in; eauto.
      * eapply Hx; eauto.
  - eapply IH; eauto.
Qed.

Lemma recon_values_bins buffers l : forall vs,
  recon_values buffers l = Ok vs -> forall b, In b (concat (map bins_of vs)) -> In b (tl buffers).
Proof.
  induction l as [|x l IH]; cbn [recon_values]; intros vs Hvs b Hb.
  - inversion Hvs; subst. simpl in Hb. contradiction.
  - apply rbind_ok in Hvs as (v & Hv & Hvs). apply rbind_ok in Hvs as (vs' & Hvs' & Hvs).
    inversion Hvs; subst; clear Hvs. simpl in Hb.
    apply in_app_or in Hb as [Hb|Hb]; [eapply recon_value_bins; eauto | eapply IH; eauto].
Qed.

Lemma map_const_bins {A} (l : list A) : concat (map bins_of (map (fun _ => VOther) l)) = [].
Proof. induction l; simpl; auto. Qed.

(** Whatever the JSON library answers and whatever the placeholders say, every byte slice that
    decode places into a value is one of the packet's attachment frames - never the JSON payload
    (buffers[0]) and never data from elsewhere. *)
Lemma decode_bins unmarshal r ntypes vs :
  decode unmarshal r ntypes = Ok vs ->
  forall b, In b (concat (map bins_of vs)) -> In b (tl (r_buffers r)).
Proof.
  unfold decode. destruct (Nat.eqb_spec (length (r_buffers r)) 1) as [E|E].
  - intros H b Hb. exfalso.
    apply rbind_ok in H as (p & _ & H).
    destruct (is_event _).
    + destruct p; [discriminate|]. destruct (unmarshal false _ _); [|discriminate].
      apply rbind_ok in H as (vals & _ & H). inversion H; subst. now rewrite (map_const_bins vals) in Hb.
    + destruct (_ && _).
      * destruct (unmarshal true _ _); [|discriminate]. inversion H; subst. first [ now (simpl in Hb) | match type of Hb with In _ (concat (map bins_of (map _ ?l))) => now rewrite (map_const_bins l) in Hb end ].
      * destruct (unmarshal false _ _); [|discriminate]. inversion H; subst. first [ now (simpl in Hb) | match type of Hb with In _ (concat (map bins_of (map _ ?l))) => now rewrite (map_const_bins l) in Hb end ].
  - unfold reconstruct. destruct (_ <? 1)%nat; [discriminate|].
    intros H. apply rbind_ok in H as (p & _ & H).
    destruct (_ && _); [discriminate|]. destruct (unmarshal false p _); [|discriminate].
    apply rbind_ok in H as (vals & _ & H). intros b Hb. eapply recon_values_bins; eauto.
Qed.
