(** Wire level of namespace isolation: the namespace written into a packet header is the one read
    back, and distinct namespaces give distinct wire prefixes.  Built on C10's port of the header
    printer / parser (Sio/Header.v, Sio/HeaderProofs.v: [nsp_part] is what encodeString writes for the
    namespace, [nsp_stage] the namespace stage of parseHeader). *)
From SioV Require Import Base.GoSem Sio.Header Sio.HeaderProofs.
Local Open Scope N_scope.

(** a namespace name as Server.Of / Manager.Socket produce it, without a comma *)
Definition wf_nsp (n : bytes) : Prop := exists r, n = 47 :: r /\ ~ In 44 r.

Lemma nsp_wire_roundtrip n rest :
  wf_nsp n -> starts_not_slash rest -> nsp_stage (nsp_part n ++ rest) = Ok (n, rest).
Proof. intros [r [-> Hr]] Hs. now apply nsp_stage_encoded. Qed.

Lemma nsp_wire_injective n1 n2 rest1 rest2 :
  wf_nsp n1 -> wf_nsp n2 -> starts_not_slash rest1 -> starts_not_slash rest2 ->
  nsp_part n1 ++ rest1 = nsp_part n2 ++ rest2 -> n1 = n2 /\ rest1 = rest2.
Proof.
  intros W1 W2 S1 S2 E.
  pose proof (nsp_wire_roundtrip n1 rest1 W1 S1) as R1.
  pose proof (nsp_wire_roundtrip n2 rest2 W2 S2) as R2.
  rewrite E in R1. rewrite R1 in R2. inversion R2; auto.
Qed.

(** a comma inside a namespace name breaks the round trip: "/a,b" is read back as "/a" *)
Lemma nsp_comma_not_roundtrip :
  nsp_stage (nsp_part [47; 97; 44; 98] ++ [91]) = Ok ([47; 97], [98; 44; 91]).
Proof. vm_compute. reflexivity. Qed.
