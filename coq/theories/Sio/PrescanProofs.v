(** The event-name pre-scan (C10's port [find_end] / [prescan] of the loop in parseHeader) finds
    the name's string literal in every text [jprint] writes for an array that starts with a string. *)
From Coq Require Import ZifyN ZifyNat ZifyBool.
From SioV Require Import Base.GoSem Sio.Json Sio.JsonProofs Sio.Header Sio.HeaderProofs.
Local Open Scope N_scope.

(** * A list-based characterisation of [find_end] *)
(** Offset of the first double quote that is not escaped: a backslash skips the next byte. *)
Fixpoint scan (l : bytes) : option nat :=
  match l with
  | [] => None
  | c :: r =>
    if c =? 92 then
      match r with
      | [] => None
      | _ :: r' => option_map (fun k => S (S k)) (scan r')
      end
    else if c =? 34 then Some O
    else option_map S (scan r)
  end.

Lemma skipn_nth {A} (l : list A) e c : nth_error l e = Some c -> skipn e l = c :: skipn (S e) l.
Proof.
  revert e; induction l as [|x l IH]; intros [|e] H; simpl in *; try discriminate.
  - now inversion H.
  - now apply IH.
Qed.

Lemma skipn_all' {A} (l : list A) e : (length l <= e)%nat -> skipn e l = [].
Proof. revert e; induction l; intros [|e] H; simpl in *; auto; try lia. apply IHl. lia. Qed.

Lemma find_end_scan : forall fuel data e,
  (length data - e <= fuel)%nat ->
  find_end fuel data e = Ok (option_map (fun k => (e + k)%nat) (scan (skipn e data))).
Proof.
  induction fuel as [|f IH]; intros data e Hf.
  - simpl. rewrite skipn_all' by lia. reflexivity.
  - cbn [find_end]. destruct (Nat.ltb_spec e (length data)) as [L|L].
    2:{ rewrite skipn_all' by lia. reflexivity. }
    unfold index. destruct (nth_error data e) as [c|] eqn:N.
    2:{ apply nth_error_None in N. lia. }
    cbn [rbind]. rewrite (skipn_nth _ _ _ N). cbn [scan].
    destruct (c =? 92).
    + rewrite IH by lia.
      destruct (Nat.ltb_spec (S e) (length data)) as [L2|L2].
      * destruct (nth_error data (S e)) as [c2|] eqn:N2.
        2:{ apply nth_error_None in N2. lia. }
        rewrite (skipn_nth _ _ _ N2).
        destruct (scan (skipn (S (S e)) data)) as [k|]; simpl; [|reflexivity].
        do 2 f_equal. lia.
      * rewrite (skipn_all' data (S e)) by lia. rewrite (skipn_all' data (S (S e))) by lia. reflexivity.
    + destruct (c =? 34).
      * simpl. do 2 f_equal. lia.
      * rewrite IH by lia. destruct (scan (skipn (S e) data)) as [k|]; simpl; [|reflexivity].
        do 2 f_equal. lia.
Qed.

(** * Chunks the scan passes over *)
Fixpoint sc_run (t : bytes) : bool :=
  match t with
  | [] => true
  | c :: r =>
    if c =? 92 then match r with [] => false | _ :: r' => sc_run r' end
    else if c =? 34 then false
    else sc_run r
  end.

Lemma scan_tok : forall t X, sc_run t = true ->
  scan (t ++ X) = option_map (fun k => (length t + k)%nat) (scan X).
Proof.
  intros t. remember (length t) as n eqn:Hn. revert t Hn.
  induction n as [n IH] using lt_wf_ind. intros t Hn X H.
  destruct t as [|c r]; subst n.
  - simpl. destruct (scan X); reflexivity.
  - cbn [sc_run] in H. cbn [app scan]. destruct (c =? 92).
    + destruct r as [|c2 r']; [discriminate|]. cbn [app].
      rewrite (IH (length r')) by (simpl; auto; lia).
      destruct (scan X); reflexivity.
    + destruct (c =? 34); [discriminate|].
      rewrite (IH (length r)) by (simpl; auto; lia).
      destruct (scan X); reflexivity.
Qed.

Lemma sc_esc b : sc_run (esc b) = true.
Proof.
  destruct (N.ltb_spec b 128) as [L|L].
  - apply (below128 (fun b => sc_run (esc b))); [vm_compute; reflexivity|exact L].
  - rewrite esc_hi by exact L. simpl.
    assert (E : forall k, k < 128 -> (b =? k) = false) by (intros; apply N.eqb_neq; lia).
    rewrite !E by lia. reflexivity.
Qed.

(** The scan of the inside of a printed string literal stops exactly at the closing quote. *)
Theorem scan_pq : forall s R, scan (pq s ++ 34 :: R) = Some (length (pq s)).
Proof.
  intros s. remember (length s) as n eqn:Hn. revert s Hn.
  induction n as [n IH] using lt_wf_ind. intros s Hn R.
  destruct s as [|b r]; [reflexivity|].
  assert (IH' : forall r0, (length r0 < n)%nat -> forall R, scan (pq r0 ++ 34 :: R) = Some (length (pq r0))).
  { intros r0 L R0. eapply IH; eauto. }
  assert (Plain : scan ((esc b ++ pq r) ++ 34 :: R) = Some (length (esc b ++ pq r))).
  { rewrite <- app_assoc. rewrite scan_tok by apply sc_esc.
    rewrite IH' by (subst; simpl; lia). rewrite app_length. reflexivity. }
  rewrite pq_unfold. destruct r as [|c [|d r']]; try exact Plain.
  destruct (is_lsep b c d); [|exact Plain].
  rewrite <- app_assoc. rewrite scan_tok by (destruct (d =? 168); reflexivity).
  rewrite IH' by (subst; simpl; lia). rewrite app_length. reflexivity.
Qed.

(** * The pre-scan on a text that starts with an opening bracket and a string literal *)
Theorem prescan_pstring name R :
  prescan (91 :: pstring name ++ R) = Ok (91 :: pstring name ++ [93]).
Proof.
  rewrite pstring_app. unfold prescan.
  change (index_byte 34 (91 :: 34 :: pq name ++ 34 :: R)) with (Some 1%nat).
  cbv iota beta. rewrite find_end_scan by lia.
  change (skipn 2 (91 :: 34 :: pq name ++ 34 :: R)) with (pq name ++ 34 :: R).
  rewrite scan_pq. cbn [option_map rbind].
  unfold slice.
  assert (LB : (Nat.leb 1 (S (2 + length (pq name))) &&
                Nat.leb (S (2 + length (pq name))) (length (91 :: 34 :: pq name ++ 34 :: R))) = true).
  { apply andb_true_iff. split; apply Nat.leb_le; [lia|]. simpl length. rewrite app_length. simpl. lia. }
  rewrite LB. cbn [rbind].
  replace (S (2 + length (pq name)) - 1)%nat with (S (length (pq name) + 1)) by lia.
  change (skipn 1 (91 :: 34 :: pq name ++ 34 :: R)) with (34 :: pq name ++ 34 :: R).
  cbn [firstn]. rewrite firstn_app_2. cbn [firstn].
  unfold pstring. reflexivity.
Qed.

(** H2 for the instance: for every event name (any bytes, quotes and backslashes included) and
    every list of further arguments, the pre-scan of the payload [jprint] writes cuts out the
    name's literal, and [jparse] of the bracketed literal gives the name. *)
Theorem prescan_name name rest :
  exists tmp, prescan (jprint (JArr (JStr name :: rest))) = Ok tmp /\
              jparse tmp = Some (JArr [JStr name]).
Proof.
  exists (91 :: pstring name ++ [93]). split.
  - rewrite jprint_arr. cbn [jprint]. apply prescan_pstring.
  - change (91 :: pstring name ++ [93]) with (jprint (JArr [JStr name])). apply jparse_jprint.
Qed.
