(** Binary attachments: a port of parser/json/binary.go (as repaired by the C09 and C10 fixes).

    Encode side.  [gv] is a Go value as reflection sees it: scalars, [sio.Binary] cells, interface
    cells ([VAny]), pointers, slices, structs (exported fields, JSON names, declaration order),
    maps with string keys (entries in the order the map iteration produced them - an input of the
    model).  [dvw] is a port of deconstructValue / deconstructBinaryValue / deconstructStruct /
    deconstructMap INCLUDING which caller-visible cell each placeholder is written to: settability
    is computed as reflect does (Elem of a pointer and slice elements are settable, Elem of an
    interface and map values are not, a struct field is settable iff the struct is).  Every
    overwritten cell is returned as [VSubst new old]: [new] is what the JSON encoder then sees
    ([cur]), [old] is what the undo log of the repaired code puts back ([undo]).

    Decode side.  [ty] is the handler's parameter type; [recon] is json.Unmarshal into a value of
    that type followed by reconstructValue / reconstructBinaryValue / reconstructStruct /
    reconstructMap, giving the decoded value's shape [jb] (JSON tree with binary leaves).

    The JSON library is a parameter: [marshal : jv -> bytes] and [unmarshal : bytes -> option jv]. *)
From SioV Require Import Base.GoSem Sio.Json.
Local Open Scope N_scope.

(** * Values *)
Inductive gv : Type :=
| VNil                                 (* nil interface / pointer / slice / map *)
| VBool (b : bool)
| VInt (z : Z)
| VStr (s : bytes)
| VBin (b : bytes)                     (* a sio.Binary cell and its bytes *)
| VAny (v : gv)                        (* an interface cell holding v *)
| VPtr (v : gv)                        (* a pointer to v *)
| VSlice (l : list gv)
| VStruct (fs : list (bytes * gv))
| VMap (kvs : list (bytes * gv))
| VSubst (new old : gv).               (* a cell overwritten during Encode *)

(** Decoded shape: a JSON tree with binary leaves. *)
Inductive jb : Type :=
| BNull
| BBool (b : bool)
| BInt (z : Z)
| BStr (s : bytes)
| BBin (b : bytes)
| BArr (l : list jb)
| BObj (kvs : list (bytes * jb)).

(** Handler parameter types. *)
Inductive ty : Type :=
| TAny | TBool | TInt | TStr | TBin
| TPtr (t : ty)
| TSlice (t : ty)
| TStruct (fs : list (bytes * ty))
| TMapAny.                             (* map[string]any *)

Definition k_ph : bytes := [95; 112; 108; 97; 99; 101; 104; 111; 108; 100; 101; 114].
Definition k_num : bytes := [110; 117; 109].
(** placeholder{Placeholder: true, Num: n} *)
Definition ph_jv (n : N) : jv := JObj [(k_ph, JBool true); (k_num, JInt (Z.of_N n))].

(** Insertion sort of object members by key (encoding/json sorts map keys bytewise). *)
Fixpoint ins_key {A} (k : bytes) (x : A) (l : list (bytes * A)) : list (bytes * A) :=
  match l with
  | [] => [(k, x)]
  | (k', y) :: l' => if bytes_ltb k' k then (k', y) :: ins_key k x l' else (k, x) :: l
  end.
Fixpoint sort_keys {A} (l : list (bytes * A)) : list (bytes * A) :=
  match l with
  | [] => []
  | (k, x) :: l' => ins_key k x (sort_keys l')
  end.

Fixpoint res_all {A} (l : list (res A)) : res (list A) :=
  match l with
  | [] => Ok []
  | r :: l' => rbind r (fun a => rbind (res_all l') (fun t => Ok (a :: t)))
  end.

(** * The view of a value during / after Encode *)
Fixpoint cur (v : gv) : gv :=
  match v with
  | VSubst new _ => cur new
  | VAny x => VAny (cur x)
  | VPtr x => VPtr (cur x)
  | VSlice l => VSlice (map cur l)
  | VStruct fs => VStruct (map (fun '(k, x) => (k, cur x)) fs)
  | VMap kvs => VMap (map (fun '(k, x) => (k, cur x)) kvs)
  | _ => v
  end.

Fixpoint undo (v : gv) : gv :=
  match v with
  | VSubst _ old => old
  | VAny x => VAny (undo x)
  | VPtr x => VPtr (undo x)
  | VSlice l => VSlice (map undo l)
  | VStruct fs => VStruct (map (fun '(k, x) => (k, undo x)) fs)
  | VMap kvs => VMap (map (fun '(k, x) => (k, undo x)) kvs)
  | _ => v
  end.

(** The shape a receiver should see. *)
Fixpoint shape (v : gv) : jb :=
  match v with
  | VNil => BNull
  | VBool b => BBool b
  | VInt z => BInt z
  | VStr s => BStr s
  | VBin b => BBin b
  | VAny x => shape x
  | VPtr x => shape x
  | VSlice l => BArr (map shape l)
  | VStruct fs => BObj (map (fun '(k, x) => (k, shape x)) fs)
  | VMap kvs => BObj (sort_keys (map (fun '(k, x) => (k, shape x)) kvs))
  | VSubst new _ => shape new
  end.

(** hasBinary (two unwrapping steps per value, as in the code). *)
Fixpoint hb (u : nat) (v : gv) : bool :=
  match v with
  | VAny x | VPtr x => match u with S u' => hb u' x | O => false end
  | VBin _ => true
  | VSlice l => existsb (hb 2) l
  | VStruct fs => existsb (fun kv => hb 2 (snd kv)) fs
  | VMap kvs => existsb (fun kv => hb 2 (snd kv)) kvs
  | _ => false
  end.

Section WithJson.
  Variable marshal : jv -> bytes.
  Variable unmarshal : bytes -> option jv.

  (** ** json.Marshal of a Go value.  A Binary cell marshals through MarshalJSON, i.e. as its own
      bytes, which encoding/json validates and compacts ([unmarshal] then print). *)
  Fixpoint to_jv (v : gv) : res jv :=
    match v with
    | VNil => Ok JNull
    | VBool b => Ok (JBool b)
    | VInt z => Ok (JInt z)
    | VStr s => Ok (JStr s)
    | VBin b => match unmarshal b with Some j => Ok j | None => Err end
    | VAny x => to_jv x
    | VPtr x => to_jv x
    | VSlice l => rbind (res_all (map to_jv l)) (fun js => Ok (JArr js))
    | VStruct fs =>
      rbind (res_all (map (fun '(k, x) => rbind (to_jv x) (fun j => Ok (k, j))) fs))
            (fun m => Ok (JObj m))
    | VMap kvs =>
      rbind (res_all (map (fun '(k, x) => rbind (to_jv x) (fun j => Ok (k, j))) kvs))
            (fun m => Ok (JObj (sort_keys m)))
    | VSubst new _ => to_jv new
    end.

  (** ** deconstruct *)
  Inductive okind := OSelf | OIface | OIfacePtr | OPtr.
  (** What happened to the value handed to deconstructValue: its content was updated through
      pointers / slices ([InPlace]) or the cell [original] itself was overwritten ([Repl]). *)
  Inductive dout := InPlace (v : gv) | Repl (c : gv).
  Definition dres := res (dout * list bytes * N).

  Definition fin (v : gv) (r : dres) : res (gv * list bytes * N) :=
    match r with
    | Ok (InPlace v', bs, n) => Ok (v', bs, n)
    | Ok (Repl c, bs, n) => Ok (VSubst c v, bs, n)
    | Err => Err
    | Panic => Panic
    end.

  Definition wrap (w : gv -> gv) (r : res (gv * list bytes * N)) : res (gv * list bytes * N) :=
    match r with
    | Ok (v', bs, n) => Ok (w v', bs, n)
    | Err => Err
    | Panic => Panic
    end.

  Definition inplace (w : gv -> gv) (r : dres) : dres :=
    match r with
    | Ok (InPlace v', bs, n) => Ok (InPlace (w v'), bs, n)
    | _ => r
    end.

  Definition ph_bytes (n : N) : bytes := marshal (ph_jv n).

  (** [u]: unwrapping steps left; [ok]: kind of [original]; [ost]: original.CanSet();
      [st]: rv.CanSet(). *)
  Fixpoint dvw (u : nat) (ok : okind) (ost st : bool) (v : gv) (n : N) {struct v} : dres :=
    match v with
    | VAny x =>
      match u with
      | S u' =>
        let ok' := match ok with
                   | OSelf => match x with VPtr _ => OIfacePtr | _ => OIface end
                   | _ => ok
                   end in
        inplace VAny (dvw u' ok' ost false x n)
      | O => Ok (InPlace v, [], n)
      end
    | VPtr x =>
      match u with
      | S u' =>
        let ok' := match ok with OSelf => OPtr | _ => ok end in
        inplace VPtr (dvw u' ok' ost true x n)
      | O => Ok (InPlace v, [], n)
      end
    | VBin b =>
      match ok with
      | OIfacePtr | OPtr => Err                                   (* errBinaryCannotBeAPtr *)
      | _ =>
        if st then Ok (InPlace (VSubst (VBin (ph_bytes n)) v), [b], n + 1)       (* SetBytes *)
        else if ost then Ok (Repl (VAny (VPtr (VBin (ph_bytes n)))), [b], n + 1) (* original.Set(x) *)
        else Err                                                  (* errNonSettableValue *)
      end
    | VSlice l =>
      let r := (fix go (l : list gv) (n : N) : res (list gv * list bytes * N) :=
                  match l with
                  | [] => Ok ([], [], n)
                  | el :: l' =>
                    match fin el (dvw 2 OSelf true true el n) with
                    | Ok (el', b1, n1) =>
                      match go l' n1 with
                      | Ok (t, b2, n2) => Ok (el' :: t, b1 ++ b2, n2)
                      | Err => Err | Panic => Panic
                      end
                    | Err => Err | Panic => Panic
                    end
                  end) l n in
      match r with
      | Ok (l', bs, n') => Ok (InPlace (VSlice l'), bs, n')
      | Err => Err | Panic => Panic
      end
    | VStruct fs =>
      (* a struct held by value in a settable interface is copied, the interface then points to the copy *)
      let copy := negb st && (match ok with OIface | OIfacePtr => true | _ => false end) && ost in
      let fst_ := st || copy in
      let r := (fix go (fs : list (bytes * gv)) (n : N) : res (list (bytes * gv) * list bytes * N) :=
                  match fs with
                  | [] => Ok ([], [], n)
                  | (k, f) :: fs' =>
                    (* deconstructStruct unwraps one interface / pointer itself *)
                    let rf := match f with
                              | VAny x => wrap VAny (fin x (dvw 2 OSelf false false x n))
                              | VPtr x => wrap VPtr (fin x (dvw 2 OSelf true true x n))
                              | _ => fin f (dvw 2 OSelf fst_ fst_ f n)
                              end in
                    match rf with
                    | Ok (f', b1, n1) =>
                      match go fs' n1 with
                      | Ok (t, b2, n2) => Ok ((k, f') :: t, b1 ++ b2, n2)
                      | Err => Err | Panic => Panic
                      end
                    | Err => Err | Panic => Panic
                    end
                  end) fs n in
      match r with
      | Ok (fs', bs, n') =>
        if copy then Ok (Repl (VAny (VPtr (VStruct fs'))), bs, n')
        else Ok (InPlace (VStruct fs'), bs, n')
      | Err => Err | Panic => Panic
      end
    | VMap kvs =>
      let r := (fix go (kvs : list (bytes * gv)) (n : N) : res (list (bytes * gv) * list bytes * N) :=
                  match kvs with
                  | [] => Ok ([], [], n)
                  | (k, e) :: kvs' =>
                    let re := match e with
                              | VBin b => Ok (VSubst (VBin (ph_bytes n)) e, [b], n + 1)
                              | VAny x =>
                                match x with
                                | VBin b => Ok (VSubst (VAny (VPtr (VBin (ph_bytes n)))) e, [b], n + 1)
                                | _ => wrap VAny (fin x (dvw 2 OSelf false false x n))
                                end
                              | VPtr x =>
                                match x with
                                | VBin b => Ok (VSubst (VPtr (VBin (ph_bytes n))) e, [b], n + 1)
                                | _ => wrap VPtr (fin x (dvw 2 OSelf true true x n))
                                end
                              | _ => fin e (dvw 2 OSelf false false e n)
                              end in
                    match re with
                    | Ok (e', b1, n1) =>
                      match go kvs' n1 with
                      | Ok (t, b2, n2) => Ok ((k, e') :: t, b1 ++ b2, n2)
                      | Err => Err | Panic => Panic
                      end
                    | Err => Err | Panic => Panic
                    end
                  end) kvs n in
      match r with
      | Ok (kvs', bs, n') => Ok (InPlace (VMap kvs'), bs, n')
      | Err => Err | Panic => Panic
      end
    | _ => Ok (InPlace v, [], n)
    end.

  (** deconstructValue on a reflect.Value with CanSet() = [st]. *)
  Definition dv (st : bool) (v : gv) (n : N) : res (gv * list bytes * N) :=
    fin v (dvw 2 OSelf st st v n).

  (** ** reconstruct *)
  Definition lookup {A} (k : bytes) (l : list (bytes * A)) : option A :=
    match find (fun kv => bytes_eqb (fst kv) k) l with Some kv => Some (snd kv) | None => None end.

  (** buffers[n+1] with the (repaired) two-sided check; [bufs] are the attachments only. *)
  Definition attachment (bufs : list bytes) (n : Z) : res bytes :=
    if (n <? 0)%Z then Err
    else match nth_error bufs (Z.to_nat n) with Some b => Ok b | None => Err end.

  (** A value that json.Unmarshal produced in an [any] cell, walked by reconstructValue /
      reconstructMap: a map ENTRY that is exactly {_placeholder:true, num:n} becomes the
      attachment; arrays reached from the top are walked, arrays inside maps are not. *)
  Definition is_ph (j : jv) : option Z :=
    match j with
    | JObj [(k1, v1); (k2, v2)] =>
      if bytes_eqb k1 k_ph && bytes_eqb k2 k_num then
        match v1, v2 with JBool true, JInt z => Some z | _, _ => None end
      else if bytes_eqb k1 k_num && bytes_eqb k2 k_ph then
        match v2, v1 with JBool true, JInt z => Some z | _, _ => None end
      else None
    | _ => None
    end.

  Fixpoint plain (j : jv) : jb :=
    match j with
    | JNull => BNull
    | JBool b => BBool b
    | JInt z => BInt z
    | JStr s => BStr s
    | JArr l => BArr (map plain l)
    | JObj kvs => BObj (sort_keys (map (fun '(k, x) => (k, plain x)) kvs))
    end.

  Fixpoint rgen (bufs : list bytes) (j : jv) : res jb :=
    match j with
    | JArr l => rbind (res_all (map (rgen bufs) l)) (fun r => Ok (BArr r))
    | JObj kvs =>
      rbind (res_all (map (fun '(k, x) =>
               match is_ph x with
               | Some n => rbind (attachment bufs n) (fun b => Ok (k, BBin b))
               | None =>
                 match x with
                 | JObj _ => rbind (rgen bufs x) (fun r => Ok (k, r))
                 | _ => Ok (k, plain x)
                 end
               end) kvs))
            (fun m => Ok (BObj (sort_keys m)))
    | _ => Ok (plain j)
    end.

  (** The value of a Binary cell after Unmarshal is the raw JSON text; reconstructBinaryValue
      unmarshals it into placeholder{Placeholder bool; Num int}. *)
  Definition ph_num (j : jv) : res Z :=
    match j with
    | JNull => Ok 0%Z
    | JObj kvs =>
      match lookup k_ph kvs with
      | Some (JBool _) | Some JNull | None =>
        match lookup k_num kvs with
        | Some (JInt z) => Ok z
        | Some JNull | None => Ok 0%Z
        | Some _ => Err
        end
      | Some _ => Err
      end
    | _ => Err
    end.

  (** The zero value of a type, as reconstruct sees it ([recon] = true: the binary path, where
      an empty Binary cell makes reconstructBinaryValue fail). *)
  Fixpoint zero (rc : bool) (t : ty) : res jb :=
    match t with
    | TAny => Ok BNull
    | TBool => Ok (BBool false)
    | TInt => Ok (BInt 0)
    | TStr => Ok (BStr [])
    | TBin => if rc then Err else Ok (BBin [])
    | TPtr _ => Ok BNull
    | TSlice _ => Ok BNull
    | TStruct fs =>
      rbind (res_all (map (fun '(k, t') => rbind (zero rc t') (fun z => Ok (k, z))) fs))
            (fun m => Ok (BObj m))
    | TMapAny => Ok BNull
    end.

  (** json.Unmarshal of [j] into a value of type [t], then (when [bufs] is given) reconstructValue. *)
  Fixpoint recon (bufs : option (list bytes)) (t : ty) (j : jv) {struct t} : res jb :=
    let rc := match bufs with Some _ => true | None => false end in
    match t with
    | TAny => match bufs with Some b => rgen b j | None => Ok (plain j) end
    | TBool => match j with JBool b => Ok (BBool b) | JNull => Ok (BBool false) | _ => Err end
    | TInt => match j with JInt z => Ok (BInt z) | JNull => Ok (BInt 0) | _ => Err end
    | TStr => match j with JStr s => Ok (BStr s) | JNull => Ok (BStr []) | _ => Err end
    | TBin =>
      match bufs with
      | Some b => rbind (ph_num j) (fun n => rbind (attachment b n) (fun x => Ok (BBin x)))
      | None => Ok (BBin (marshal j))
      end
    | TPtr t' => match j with JNull => Ok BNull | _ => recon bufs t' j end
    | TSlice t' =>
      match j with
      | JNull => Ok BNull
      | JArr l => rbind (res_all (map (recon bufs t') l)) (fun r => Ok (BArr r))
      | _ => Err
      end
    | TStruct fs =>
      match j with
      | JNull => zero rc t
      | JObj kvs =>
        rbind (res_all (map (fun '(k, t') =>
                 match lookup k kvs with
                 | Some x => rbind (recon bufs t' x) (fun r => Ok (k, r))
                 | None => rbind (zero rc t') (fun z => Ok (k, z))
                 end) fs))
              (fun m => Ok (BObj m))
      | _ => Err
      end
    | TMapAny =>
      match j with
      | JNull => Ok BNull
      | JObj _ => match bufs with Some b => rgen b j | None => Ok (plain j) end
      | _ => Err
      end
    end.
End WithJson.
