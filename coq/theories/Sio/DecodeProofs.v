(** Feeding the frames of [encode] to a fresh decoder gives the packet back. *)
From Coq Require Import ZifyN ZifyNat ZifyBool.
From SioV Require Import Base.GoSem Sio.Json Sio.Header Sio.HeaderProofs Sio.Binary Sio.BinaryProofs
  Sio.Codec Sio.RoundtripProofs Sio.ReconProofs.
Local Open Scope N_scope.

(** Handler types against the argument shapes. *)
Fixpoint args_ok (tys : list ty) (bs : list jb) : bool :=
  match tys, bs with
  | [], [] => true
  | t :: ts, b :: bs' => wtb t b && ty_ok t b && nofake b && args_ok ts bs'
  | _, _ => false
  end.
Fixpoint views (tys : list ty) (bs : list jb) : list jb :=
  match tys, bs with
  | t :: ts, b :: bs' => view_ty t b :: views ts bs'
  | _, _ => []
  end.

Lemma zero_null rc t : wtb t BNull = true -> zero rc t = Ok BNull.
Proof. destruct t; simpl; intros; try discriminate; reflexivity. Qed.

Section Decode.
  Local Opaque encode_header.
  Variable marshal : jv -> bytes.
  Variable unmarshal : bytes -> option jv.
  Variable max_att : Z.
  (** H1: the library reads back what it wrote. *)
  Hypothesis H1 : forall j, unmarshal (marshal j) = Some j.
  (** H2: the text of an array whose first element is the string [name] starts in a way that
      the pre-scan cuts out exactly that string literal. *)
  Hypothesis H2 : forall name rest,
    exists tmp, prescan (marshal (JArr (JStr name :: rest))) = Ok tmp /\
                unmarshal tmp = Some (JArr [JStr name]).
  (** H3: the text of an array starts with an opening bracket. *)
  Hypothesis H3 : forall l, exists r, marshal (JArr l) = 91 :: r.

  (** ** The arguments *)
  Lemma args_recon : forall tys sargs n pre post js bs n',
    args_ok tys sargs = true -> length pre = N.to_nat n ->
    ex_list sargs n = (js, bs, n') ->
    res_all (unm_args marshal (Some (pre ++ bs ++ post)) tys js) = Ok (views tys sargs).
  Proof.
    induction tys as [|t ts IH]; intros [|b sargs] n pre post js bs n' A L E; simpl in A; try discriminate.
    - reflexivity.
    - apply andb_true_iff in A as [A A4]. apply andb_true_iff in A as [A A3]. apply andb_true_iff in A as [A1 A2].
      simpl in E. pose proof (extract_count b n) as CN. pose proof (extract_head b n) as EH.
      destruct (extract b n) as [[j b1] n1] eqn:EX. destruct (ex_list sargs n1) as [[tl b2] n2] eqn:ET.
      inversion E; subst; clear E. simpl in CN, EH. cbn [unm_args views].
      assert (HD : (match j with JNull => zero true t | _ => recon marshal (Some (pre ++ (b1 ++ b2) ++ post)) t j end)
                   = Ok (view_ty t b)).
      { replace (pre ++ (b1 ++ b2) ++ post) with (pre ++ b1 ++ (b2 ++ post)) by (now rewrite <- !app_assoc).
        pose proof (recon_all marshal t b A1 A2 A3 n pre (b2 ++ post) L j b1 n1 EX) as R.
        destruct j; try exact R. subst b. rewrite view_null. now apply zero_null. }
      rewrite HD. cbn [res_all rbind].
      replace (pre ++ (b1 ++ b2) ++ post) with ((pre ++ b1) ++ b2 ++ post) by (now rewrite <- !app_assoc).
      assert (L' : length (pre ++ b1) = N.to_nat n1) by (rewrite app_length; lia).
      erewrite IH; eauto. reflexivity.
  Qed.

  (** ** Add, frame by frame *)
  Lemma feed_atts : forall atts h name bufs i,
    atts <> [] ->
    feed unmarshal (Some (mkD h name bufs (Z.of_nat (length atts)))) i atts =
    Ok ([((i + length atts - 1)%nat, (h, name, bufs ++ atts))], None).
  Proof.
    induction atts as [|a atts IH]; intros h name bufs i NE; [contradiction|].
    cbn [feed add d_bufs d_rem d_h d_name].
    destruct atts as [|a2 atts'].
    - simpl. repeat f_equal. symmetry. apply Nat.add_sub.
    - assert (R : (Z.of_nat (length (a :: a2 :: atts')) - 1 =? 0)%Z = false) by (simpl length; lia).
      rewrite R. cbn [rbind].
      replace (Z.of_nat (length (a :: a2 :: atts')) - 1)%Z with (Z.of_nat (length (a2 :: atts'))) by (simpl length; lia).
      rewrite IH by discriminate. cbn [rbind]. rewrite <- app_assoc. cbn [app].
      replace (S i + length (a2 :: atts') - 1)%nat with (i + length (a :: a2 :: atts') - 1)%nat
        by (simpl length; lia).
      reflexivity.
  Qed.

  Lemma unm_names_one tmp name : unmarshal tmp = Some (JArr [JStr name]) -> unm_names unmarshal tmp = Some [name].
  Proof. intros E. unfold unm_names. rewrite E. reflexivity. Qed.

  (** ** EVENT packets with binary *)
  Theorem decode_encode_event h x e tys name sargs :
    wfv x = true -> h_type h = 2 -> hb 2 x = true ->
    shape x = BArr (BStr name :: sargs) -> args_ok tys sargs = true ->
    header_ok (e_header e) ->
    encode marshal unmarshal max_att h (Some x) = Ok e ->
    exists p atts,
      e_frames e = (encode_header (e_header e) ++ p) :: atts /\
      atts = leaves (shape x) /\
      e_header e = mkHeader 5 (h_nsp h) (h_id h) (Z.of_nat (length atts)) /\
      feed unmarshal None 0 (e_frames e) =
        Ok ([(length atts, (e_header e, name, p :: atts))], None) /\
      decode marshal unmarshal (e_header e) (p :: atts) tys = Ok (views tys sargs).
  Proof.
    unfold wfv. intros Wf T2 HB SH AO HO E.
    apply andb_true_iff in Wf as [Wf HX]. apply andb_true_iff in Wf as [Wf W].
    apply andb_true_iff in Wf as [C S].
    unfold encode in E. destruct (negb (arg_ok x)); [discriminate|].
    rewrite T2, HB in E. cbn [N.eqb Pos.eqb orb andb] in E.
    destruct (dv marshal false x 0) as [[[m bufs] n]| |] eqn:D; try discriminate.
    destruct ((0 <? max_att)%Z && (max_att <? Z.of_N n)%Z); [discriminate|].
    destruct (dv_spec marshal unmarshal H1 false x 0 m bufs n C S W D) as (j & J1 & J2 & J3 & J4).
    unfold encode_string in E. rewrite J1 in E. cbn [rbind] in E. inversion E; subst e; clear E.
    cbn [e_frames e_header] in *.
    assert (NE : bufs <> []) by (rewrite J3; eapply hb_leaves; eauto).
    exists (marshal j), bufs.
    assert (HN : Z.of_N n = Z.of_nat (length bufs)) by lia.
    rewrite HN in *.
    split; [reflexivity|]. split; [exact J3|]. split; [reflexivity|].
    (* the JSON part *)
    rewrite SH in J2. rewrite extract_arr in J2. cbn [ex_list extract] in J2.
    destruct (ex_list sargs 0) as [[js bs0] n0] eqn:EL. inversion J2; subst j bs0 n0; clear J2.
    set (h' := mkHeader 5 (h_nsp h) (h_id h) (Z.of_nat (length bufs))) in *.
    (* the first frame *)
    assert (PH : parse_header (unm_names unmarshal) (encode_header h' ++ marshal (JArr (JStr name :: js))) =
                 Ok (h', marshal (JArr (JStr name :: js)), name)).
    { rewrite parse_encode_header_full; [|exact HO|].
      - cbn [h_type h' is_event N.eqb Pos.eqb orb].
        destruct (H2 name js) as (tmp & P1 & P2). rewrite P1. cbn [rbind].
        now rewrite (unm_names_one _ _ P2).
      - destruct (H3 (JStr name :: js)) as (r & ->). split; [left; reflexivity|intros; discriminate]. }
    split.
    - cbn [feed add]. rewrite PH. cbn [rbind h_type h' is_binary N.eqb Pos.eqb orb negb h_att].
      assert (Z0 : (Z.of_nat (length bufs) =? 0)%Z = false).
      { destruct bufs; [contradiction|]. simpl length. lia. }
      rewrite Z0. cbn [rbind]. rewrite (feed_atts bufs h' name [marshal (JArr (JStr name :: js))] 1 NE).
      cbn [rbind app]. replace (1 + length bufs - 1)%nat with (length bufs) by lia. reflexivity.
    - unfold decode. destruct bufs as [|b0 bufs']; [contradiction|].
      rewrite H1. cbn [h_type h' is_event N.eqb Pos.eqb orb ev_args].
      replace (b0 :: bufs') with ([] ++ (b0 :: bufs') ++ []) at 1 by (now rewrite app_nil_r).
      eapply args_recon; eauto. reflexivity.
  Qed.
  (** ** ACK packets with binary *)
  Theorem decode_encode_ack h x e tys sargs :
    wfv x = true -> h_type h = 3 -> hb 2 x = true ->
    shape x = BArr sargs -> args_ok tys sargs = true ->
    header_ok (e_header e) ->
    encode marshal unmarshal max_att h (Some x) = Ok e ->
    exists p atts,
      e_frames e = (encode_header (e_header e) ++ p) :: atts /\
      atts = leaves (shape x) /\
      e_header e = mkHeader 6 (h_nsp h) (h_id h) (Z.of_nat (length atts)) /\
      feed unmarshal None 0 (e_frames e) =
        Ok ([(length atts, (e_header e, [], p :: atts))], None) /\
      decode marshal unmarshal (e_header e) (p :: atts) tys = Ok (views tys sargs).
  Proof.
    unfold wfv. intros Wf T2 HB SH AO HO E.
    apply andb_true_iff in Wf as [Wf HX]. apply andb_true_iff in Wf as [Wf W].
    apply andb_true_iff in Wf as [C S].
    unfold encode in E. destruct (negb (arg_ok x)); [discriminate|].
    rewrite T2, HB in E. cbn [N.eqb Pos.eqb orb andb] in E.
    destruct (dv marshal false x 0) as [[[m bufs] n]| |] eqn:D; try discriminate.
    destruct ((0 <? max_att)%Z && (max_att <? Z.of_N n)%Z); [discriminate|].
    destruct (dv_spec marshal unmarshal H1 false x 0 m bufs n C S W D) as (j & J1 & J2 & J3 & J4).
    unfold encode_string in E. rewrite J1 in E. cbn [rbind] in E. inversion E; subst e; clear E.
    cbn [e_frames e_header] in *.
    assert (NE : bufs <> []) by (rewrite J3; eapply hb_leaves; eauto).
    exists (marshal j), bufs.
    assert (HN : Z.of_N n = Z.of_nat (length bufs)) by lia.
    rewrite HN in *.
    split; [reflexivity|]. split; [exact J3|]. split; [reflexivity|].
    (* the JSON part *)
    rewrite SH in J2. rewrite extract_arr in J2.
    destruct (ex_list sargs 0) as [[js bs0] n0] eqn:EL. inversion J2; subst j bs0 n0; clear J2.
    set (h' := mkHeader 6 (h_nsp h) (h_id h) (Z.of_nat (length bufs))) in *.
    (* the first frame *)
    assert (PH : parse_header (unm_names unmarshal) (encode_header h' ++ marshal (JArr js)) =
                 Ok (h', marshal (JArr js), [])).
    { rewrite parse_encode_header_full; [|exact HO|].
      - reflexivity.
      - destruct (H3 js) as (r & ->). split; [left; reflexivity|intros; discriminate]. }
    split.
    - cbn [feed add]. rewrite PH. cbn [rbind h_type h' is_binary N.eqb Pos.eqb orb negb h_att].
      assert (Z0 : (Z.of_nat (length bufs) =? 0)%Z = false).
      { destruct bufs; [contradiction|]. simpl length. lia. }
      rewrite Z0. cbn [rbind]. rewrite (feed_atts bufs h' [] [marshal (JArr js)] 1 NE).
      cbn [rbind app]. replace (1 + length bufs - 1)%nat with (length bufs) by lia. reflexivity.
    - unfold decode. destruct bufs as [|b0 bufs']; [contradiction|].
      rewrite H1. cbn [h_type h' is_event N.eqb Pos.eqb orb].
      replace (b0 :: bufs') with ([] ++ (b0 :: bufs') ++ []) at 1 by (now rewrite app_nil_r).
      eapply args_recon; eauto. reflexivity.
  Qed.
End Decode.
