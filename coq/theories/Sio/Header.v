(** Socket.IO packet header: a port of [parseHeader] (parser/json/decode.go, as repaired by the
    C10 fixes) and of the header prefix written by [encodeString] (parser/json/encode.go).

    Conventions: bytes are [N]; indexes and lengths are [nat]; every Go index / slice expression
    goes through [index] / [slice_from] / [slice_to], which return [Panic] when Go would panic
    (index out of range, slice bounds out of range), so never-panics is a real theorem.
    Library calls are function arguments returning [option] ([None] = the call returned an error):
      - [puint : bytes -> option N]                = strconv.ParseUint(s, 10, 0)
      - [unm   : bytes -> option (list bytes)]     = json.Unmarshal(tmp, &v) with v []string
    [parse_uint_go] is a Gallina implementation of ParseUint(s,10,0) (64-bit range check). *)
From SioV Require Import Base.GoSem.
Local Open Scope N_scope.

(** * The header record (parser.PacketHeader) *)
Record header := mkHeader {
  h_type : N;            (* 0..6: CONNECT DISCONNECT EVENT ACK CONNECT_ERROR BINARY_EVENT BINARY_ACK *)
  h_nsp  : bytes;        (* Namespace *)
  h_id   : option N;     (* ID *uint64 *)
  h_att  : Z             (* Attachments int *)
}.

Definition is_binary (t : N) : bool := (t =? 5) || (t =? 6).
Definition is_event  (t : N) : bool := (t =? 2) || (t =? 5).
Definition is_ack    (t : N) : bool := (t =? 3) || (t =? 6).

(** * Go slices with explicit bounds *)
Definition index {A} (l : list A) (i : nat) : res A :=
  match nth_error l i with Some x => Ok x | None => Panic end.
(** [l[i:]] *)
Definition slice_from {A} (l : list A) (i : nat) : res (list A) :=
  if (i <=? length l)%nat then Ok (skipn i l) else Panic.
(** [l[:i]] *)
Definition slice_to {A} (l : list A) (i : nat) : res (list A) :=
  if (i <=? length l)%nat then Ok (firstn i l) else Panic.
(** [l[i:j]] *)
Definition slice {A} (l : list A) (i j : nat) : res (list A) :=
  if ((i <=? j) && (j <=? length l))%nat then Ok (firstn (j - i) (skipn i l)) else Panic.

(** bytes.IndexByte *)
Fixpoint index_byte (c : N) (l : bytes) : option nat :=
  match l with
  | [] => None
  | x :: l' => if x =? c then Some O else option_map S (index_byte c l')
  end.

(** [for i := 0; ; i++ { if i == len(data) { break } else if stop(data[i]) { break } }]:
    the value of [i] after the loop (the access is guarded by the length test). *)
Fixpoint scan_until (stop : N -> bool) (l : bytes) : nat :=
  match l with
  | [] => O
  | x :: l' => if stop x then O else S (scan_until stop l')
  end.

Definition is_digit (c : N) : bool := (48 <=? c) && (c <=? 57).

(** * strconv.ParseUint(s, 10, 0) and strconv.FormatUint / Itoa *)
Definition dec_val (a : N) (l : bytes) : N := fold_left (fun a d => a * 10 + (d - 48)) l a.

Definition two64 : N := 18446744073709551616.
Definition two63 : N := 9223372036854775808.

Definition parse_uint_go (s : bytes) : option N :=
  match s with
  | [] => None                                   (* ErrSyntax *)
  | _ => if forallb is_digit s
         then let v := dec_val 0 s in if v <? two64 then Some v else None   (* ErrRange *)
         else None                               (* ErrSyntax: no sign, no underscore in base 10 *)
  end.

Fixpoint fmt_aux (fuel : nat) (n : N) (acc : bytes) : bytes :=
  match fuel with
  | O => acc
  | S f => let acc' := (48 + n mod 10) :: acc in
           if n <? 10 then acc' else fmt_aux f (n / 10) acc'
  end.
(** strconv.FormatUint(n, 10) *)
Definition fmt_uint (n : N) : bytes := fmt_aux (S (N.to_nat (N.log2 n + 1))) n [].
(** strconv.Itoa *)
Definition fmt_int (z : Z) : bytes :=
  if (z <? 0)%Z then 45 :: fmt_uint (Z.to_N (- z)) else fmt_uint (Z.to_N z).

(** Go conversion [int(u)] of a uint64 on a 64-bit platform. *)
Definition uint64_to_int (v : N) : Z :=
  let u := v mod two64 in                      (* a uint64 *)
  if u <? two63 then Z.of_N u else (Z.of_N u - Z.of_N two64)%Z.

(** * parseHeader *)

(** The event-name pre-scan: the first double quote and then the next double quote that is not
    escaped (a backslash skips the byte after it).  [e] is Go's loop variable [end]. *)
Fixpoint find_end (fuel : nat) (data : bytes) (e : nat) : res (option nat) :=
  match fuel with
  | O => Ok None
  | S f =>
    if (e <? length data)%nat then
      rbind (index data e) (fun c =>
        if c =? 92 then find_end f data (S (S e))            (* end++; continue (then end++) *)
        else if c =? 34 then Ok (Some e)
        else find_end f data (S e))
    else Ok None
  end.

(** Result: [tmp] = '[' ++ data[start:end+1] ++ ']' handed to json.Unmarshal. *)
Definition prescan (data : bytes) : res bytes :=
  match index_byte 34 data with
  | None => Err                                              (* errMalformedPacket *)
  | Some start =>
    rbind (find_end (length data) data (S start)) (fun oe =>
      match oe with
      | None => Err                                          (* errMalformedPacket *)
      | Some e => rbind (slice data start (S e)) (fun b => Ok (91 :: b ++ [93]))
      end)
  end.

Section WithLibraries.
  Variable puint : bytes -> option N.
  Variable unm : bytes -> option (list bytes).

  (** Everything up to and including the id: (header, rest of data). *)
  Definition parse_prefix_with (data : bytes) : res (header * bytes) :=
    match data with
    | [] => Err                                              (* errInvalidPacketSize *)
    | c :: data1 =>                                          (* data[0]; data = data[1:] *)
      if (c <? 48) || (54 <? c) then Err else                (* FromChar *)
      let ty := c - 48 in
      rbind
        (if is_binary ty then
           match index_byte 45 data1 with
           | None => Err                                     (* errMalformedPacket *)
           | Some i =>
             rbind (slice_to data1 i) (fun s =>
               match puint s with
               | None => Err
               | Some a =>
                 let att := uint64_to_int a in
                 if (att <? 0)%Z then Err else               (* C10 fix: count wrapped negative *)
                 rbind (if (i + 1 <? length data1)%nat
                        then slice_from data1 (i + 1) else slice_from data1 i)
                       (fun d => Ok (att, d))
               end)
           end
         else Ok (0%Z, data1))
        (fun '(att, data2) =>
      rbind
        (match data2 with
         | c2 :: _ =>
           if c2 =? 47 then
             let i := scan_until (N.eqb 44) data2 in
             if (i =? length data2)%nat then Err else        (* C10 fix: no comma *)
             rbind (slice_to data2 i) (fun nsp =>
             rbind (slice_from data2 (i + 1)) (fun d => Ok (nsp, d)))
           else Ok ([47], data2)
         | [] => Ok ([47], data2)
         end)
        (fun '(nsp, data3) =>
      rbind
        (match data3 with
         | c3 :: _ =>
           if is_digit c3 then
             let i := scan_until (fun x => negb (is_digit x)) data3 in
             rbind (slice_to data3 i) (fun s =>
               match puint s with
               | None => Err
               | Some n => rbind (slice_from data3 i) (fun d => Ok (Some n, d))
               end)
           else Ok (None, data3)
         | [] => Ok (None, data3)
         end)
        (fun '(id, data4) => Ok (mkHeader ty nsp id att, data4))))
    end.

  (** parseHeader: (header, buf, eventName). *)
  Definition parse_header_with (data : bytes) : res (header * bytes * bytes) :=
    rbind (parse_prefix_with data) (fun '(h, d) =>
      if is_event (h_type h) then
        rbind (prescan d) (fun tmp =>
          match unm tmp with
          | None => Err
          | Some [name] => Ok (h, d, name)
          | Some _ => Err                                    (* len(v) != 1 *)
          end)
      else Ok (h, d, [])).
End WithLibraries.

Definition parse_prefix : bytes -> res (header * bytes) := parse_prefix_with parse_uint_go.
(** [parse_header unm data]: ParseUint is the Gallina implementation; the JSON library stays an
    argument. *)
Definition parse_header (unm : bytes -> option (list bytes)) : bytes -> res (header * bytes * bytes) :=
  parse_header_with parse_uint_go unm.

(** * The header prefix written by encodeString *)
Definition encode_header (h : header) : bytes :=
  [48 + h_type h]
  ++ (if is_binary (h_type h) then fmt_int (h_att h) ++ [45] else [])
  ++ (match h_nsp h with
      | [] => []
      | [c] => if c =? 47 then [] else [c; 44]
      | nsp => nsp ++ [44]
      end)
  ++ (match h_id h with Some n => fmt_uint n | None => [] end).

(** Side conditions of the round trip (what Encode can produce and parseHeader gives back
    unchanged). *)
Definition header_ok (h : header) : Prop :=
  h_type h <= 6 /\
  (exists r, h_nsp h = 47 :: r /\ ~ In 44 r) /\
  (match h_id h with Some n => n < two64 | None => True end) /\
  (if is_binary (h_type h) then (0 <= h_att h < Z.of_N two63)%Z else h_att h = 0%Z).

(** The payload cannot be mistaken for a namespace or an id: it is empty or starts with one of
    [ or { or a double quote.  One corner: the frame 51- (binary, default namespace, no id, no payload) leaves the '-' in the
    buffer (the code keeps data[i:] when '-' is the last byte), so that combination needs a
    payload. *)
Definition payload_ok (h : header) (p : bytes) : Prop :=
  (match p with [] => True | c :: _ => c = 91 \/ c = 123 \/ c = 34 end) /\
  (is_binary (h_type h) = true -> h_nsp h = [47] -> h_id h = None -> p <> []).
