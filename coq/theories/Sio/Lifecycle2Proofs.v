(** Sio/Lifecycle2Proofs.v - theorems about the two-socket system Sio/Lifecycle2.v (C06). *)
From SioV Require Import Base.GoSem Base.Conc Sio.Lifecycle Sio.LifecycleReach Sio.LifecycleInv
  Sio.Lifecycle2 Sio.Lifecycle2Inv.
Local Open Scope N_scope.

(** [same = false]: sockets of two namespaces; [same = true]: two sockets of one namespace *)
Definition run2 (same : bool) (sched : list act2) : ctl2 := exec (cstep2 (code2 same)) sched cinit2.

Lemma reachable_p_all2 : forall same sched, p_all2 (code2 same) (run2 same sched) = true.
Proof.
  intros [] sched.
  - destruct (reach_ok_of2_split _ _ reach_ok_code2_same) as (HC & H0 & HP).
    exact (@all_exec ctl2 act2 (list N) (cstep2 (code2 true)) all_acts2 hkey2 lcmp lcmp_eq hkey2_inj all_acts2_complete
                     leqb leqb_eq (reach_tree2 (code2 true)) cinit2 (p_all2 (code2 true)) HC H0 HP sched).
  - destruct (reach_ok_of2_split _ _ reach_ok_code2) as (HC & H0 & HP).
    exact (@all_exec ctl2 act2 (list N) (cstep2 (code2 false)) all_acts2 hkey2 lcmp lcmp_eq hkey2_inj all_acts2_complete
                     leqb leqb_eq (reach_tree2 (code2 false)) cinit2 (p_all2 (code2 false)) HC H0 HP sched).
Qed.

Lemma p_sock_run same sched (w : bool) :
  p_sock (code2 same) (run2 same sched) (gsk w (run2 same sched)) = true.
Proof.
  pose proof (reachable_p_all2 same sched) as H. unfold p_all2 in H. apply andb_true_iff in H as [HA HB].
  destruct w; assumption.
Qed.

Section Two.
  Variable same : bool.
  Variable sched : list act2.
  Variable w : bool.
  Let s := run2 same sched.
  Let k := gsk w s.

  Lemma two_spec :
    (nd k <= 1) /\ (ndg k <= 1)
    /\ (ever k = false -> nd k = 0 /\ ndg k = 0)
    /\ (nd k = 1 -> ndg k = 1 /\ o k = Done /\ conn k = false)
    /\ (quiescent2 (code2 same) s = true -> ever k = true -> end_begun2 s k = true -> nd k = 1 /\ ndg k = 1)
    /\ (quiescent2 (code2 same) s = true -> e_once2 s = Done -> sk_clean k = true /\ store2 s = false)
    /\ (quiescent2 (code2 same) s = true -> o k = Done -> sk_clean k = true).
  Proof.
    pose proof (p_sock_run same sched w) as H. fold s in H. fold k in H. unfold p_sock, implb' in H.
    rewrite !andb_true_iff in H. destruct H as [[[[[[A B] C] D] E] F] G].
    split; [now apply N.leb_le|]. split; [now apply N.leb_le|].
    split; [|split; [|split; [|split]]].
    - intros Ev. rewrite Ev in C. simpl in C. rewrite andb_true_iff in C. destruct C. split; now apply N.eqb_eq.
    - intros E1. rewrite E1 in D. simpl in D. rewrite !andb_true_iff in D. destruct D as [[D1 D2] D3].
      repeat split; try (now apply N.eqb_eq). now apply negb_true_iff.
    - intros Q Ev B1. rewrite Q, Ev, B1 in E. simpl in E. rewrite andb_true_iff in E. destruct E.
      split; now apply N.eqb_eq.
    - intros Q E1. rewrite Q, E1 in F. simpl in F. rewrite andb_true_iff in F. destruct F as [F1 F2].
      split; [assumption | now apply negb_true_iff].
    - intros Q E1. rewrite Q, E1 in G. simpl in G. exact G.
  Qed.
End Two.

(** the closed flag set AFTER the loop: socket A is connected, B is in its middleware; the
    connection ends; the close loop is busy with A (its disconnecting handlers take their time);
    B's middleware returns, B is admitted and sees closed = false; it is never closed *)
Definition sched_flag_late : list act2 :=
  [A2Admit false; A2Admit false; A2Admit false; A2Admit false; A2Admit false;   (* A connected *)
   A2Admit true;                                                               (* B: CONNECT, middleware *)
   A2ConnEnd; A2Ebody; A2Cbody; A2Cbody; A2Cpick false;                        (* loop: A.onClose started *)
   A2Sbody false; A2Sbody false;                                               (* ... waiting for A's handlers *)
   A2Admit true; A2Admit true; A2Admit true; A2Admit true;                     (* B admitted; re-check: not closed *)
   A2Sbody false; A2Sbody false; A2Sbody false; A2Sbody false; A2Sbody false;  (* A's close completes *)
   A2Cpick false; A2Cbody; A2Cbody; A2Ebody].                                  (* flag set now; connection gone *)

Lemma flag_late_witness :
  let s := exec (cstep2 (mkCfg2 false false false)) sched_flag_late cinit2 in
  quiescent2 (mkCfg2 false false false) s = true /\ e_once2 s = Done /\ store2 s = false
  /\ nd (skA s) = 1 /\ sk_clean (skA s) = true
  /\ ever (skB s) = true /\ nd (skB s) = 0 /\ conn (skB s) = true /\ innsp (skB s) = true /\ room (skB s) = true.
Proof. vm_compute. repeat split. Qed.

(** the same schedule on the code: B's re-check sees the flag and closes it *)
Lemma flag_first_same_schedule :
  let s := exec (cstep2 (code2 false)) (sched_flag_late ++ [A2Sbody true; A2Sbody true; A2Sbody true; A2Sbody true;
                                                  A2Sbody true; A2Sbody true; A2Sbody true; A2Admit true;
                                                  A2Cbody; A2Ebody]) cinit2 in
  quiescent2 (code2 false) s = true /\ e_once2 s = Done /\ nd (skA s) = 1 /\ nd (skB s) = 1
  /\ sk_clean (skA s) = true /\ sk_clean (skB s) = true.
Proof. vm_compute. repeat split. Qed.

(** two overlapping CONNECT packets for ONE namespace; a table `set` that drops the by-id entry of the
    socket it displaces: both sockets connect, the connection ends, only the later one is closed *)
Definition sched_displace : list act2 :=
  [A2Admit false; A2Admit true;                       (* both CONNECTs passed getByNsp, both in the middleware *)
   A2Admit false; A2Admit false; A2Admit false; A2Admit false;   (* A admitted, connected *)
   A2Admit true; A2Admit true; A2Admit true; A2Admit true;       (* B admitted: displaces A in the table *)
   A2ConnEnd; A2Ebody; A2Cbody; A2Cbody; A2Cpick true;
   A2Sbody true; A2Sbody true; A2Sbody true; A2Sbody true; A2Sbody true; A2Sbody true; A2Sbody true;
   A2Cpick true; A2Cbody; A2Ebody].

Lemma displace_witness :
  let s := exec (cstep2 (mkCfg2 true true true)) sched_displace cinit2 in
  quiescent2 (mkCfg2 true true true) s = true /\ e_once2 s = Done /\ store2 s = false
  /\ nd (skB s) = 1 /\ sk_clean (skB s) = true
  /\ ever (skA s) = true /\ nd (skA s) = 0 /\ conn (skA s) = true /\ innsp (skA s) = true /\ room (skA s) = true.
Proof. vm_compute. repeat split. Qed.

(** the same schedule on the code: the connection's by-id table still holds A; both are closed *)
Lemma displace_same_schedule_code :
  let s := exec (cstep2 (code2 true))
             [A2Admit false; A2Admit true; A2Admit false; A2Admit false; A2Admit false; A2Admit false;
              A2Admit true; A2Admit true; A2Admit true; A2Admit true;
              A2ConnEnd; A2Ebody; A2Cbody; A2Cbody; A2Cpick true;
              A2Sbody true; A2Sbody true; A2Sbody true; A2Sbody true; A2Sbody true; A2Sbody true; A2Sbody true;
              A2Cpick true; A2Cpick false;
              A2Sbody false; A2Sbody false; A2Sbody false; A2Sbody false; A2Sbody false; A2Sbody false; A2Sbody false;
              A2Cpick false; A2Cbody; A2Ebody] cinit2 in
  quiescent2 (code2 true) s = true /\ e_once2 s = Done /\ nd (skA s) = 1 /\ nd (skB s) = 1
  /\ sk_clean (skA s) = true /\ sk_clean (skB s) = true.
Proof. vm_compute. repeat split. Qed.
