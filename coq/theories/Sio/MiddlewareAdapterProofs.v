(** C12 - facts about the association-list maps and the in-memory adapter of Sio/Middleware.v. *)
From SioV Require Import Base.GoSem Sio.Middleware.

Section AMapFacts.
  Context {K V : Type} (keqb : K -> K -> bool).
  Hypothesis keqb_eq : forall x y, keqb x y = true <-> x = y.

  Lemma keqb_refl : forall x, keqb x x = true.
  Proof. intros; now apply keqb_eq. Qed.

  Lemma keqb_neq : forall x y, x <> y -> keqb x y = false.
  Proof. intros x y H. destruct (keqb x y) eqn:E; auto. apply keqb_eq in E. contradiction. Qed.

  Lemma mget_mset_same : forall k (v : V) m, mget keqb k (mset keqb k v m) = Some v.
  Proof.
    induction m as [|[k' v'] m IH]; simpl.
    - now rewrite keqb_refl.
    - destruct (keqb k k') eqn:E; simpl; rewrite ?keqb_refl, ?E; auto.
  Qed.

  Lemma mget_mset_other : forall k k' (v : V) m, k' <> k -> mget keqb k' (mset keqb k v m) = mget keqb k' m.
  Proof.
    induction m as [|[k2 v2] m IH]; intros NE; simpl.
    - now rewrite keqb_neq.
    - destruct (keqb k k2) eqn:E; simpl.
      + apply keqb_eq in E; subst k2. now rewrite keqb_neq.
      + destruct (keqb k' k2); auto.
  Qed.

  Lemma mget_mdel_same : forall k (m : list (K * V)), mget keqb k (mdel keqb k m) = None.
  Proof.
    induction m as [|[k' v'] m IH]; simpl; auto.
    destruct (keqb k k') eqn:E; simpl; rewrite ?E; auto.
  Qed.

  Lemma mget_mdel_other : forall k k' (m : list (K * V)), k' <> k -> mget keqb k' (mdel keqb k m) = mget keqb k' m.
  Proof.
    induction m as [|[k2 v2] m IH]; intros NE; simpl; auto.
    destruct (keqb k k2) eqn:E; simpl.
    - apply keqb_eq in E; subst k2. rewrite keqb_neq by auto. auto.
    - destruct (keqb k' k2); auto.
  Qed.

  Lemma mem_In : forall x (l : list K), mem keqb x l = true <-> In x l.
  Proof.
    intros x l. unfold mem. rewrite existsb_exists. split.
    - intros (y & I & E). apply keqb_eq in E. now subst.
    - intros I. exists x. split; auto. apply keqb_refl.
  Qed.

  Lemma set_add_In : forall x y (l : list K), In y (set_add keqb x l) <-> y = x \/ In y l.
  Proof.
    intros x y l. unfold set_add. destruct (mem keqb x l) eqn:M.
    - apply mem_In in M. split; auto. intros [->|]; auto.
    - rewrite in_app_iff. simpl. intuition.
  Qed.

  Lemma set_remove_In : forall x y (l : list K), In y (set_remove keqb x l) <-> In y l /\ y <> x.
  Proof.
    intros x y l. unfold set_remove. rewrite filter_In. split.
    - intros [I E]. split; auto. intros ->. rewrite keqb_refl in E. discriminate.
    - intros [I NE]. split; auto. rewrite keqb_neq; auto.
  Qed.
End AMapFacts.

Lemma room_eqb_eq : forall a b, room_eqb a b = true <-> a = b.
Proof.
  intros [x|x] [y|y]; simpl; rewrite ?N.eqb_eq; split; intros H; try discriminate; try congruence.
Qed.

Definition Neqb_eq := N.eqb_eq.

(** ** add_one / add_all *)

Lemma add_one_sids_other : forall s a r x, x <> s ->
  mget N.eqb x (a_sids (add_one s a r)) = mget N.eqb x (a_sids a).
Proof. intros. unfold add_one; simpl. apply mget_mset_other; auto. apply N.eqb_eq. Qed.

Lemma add_one_sids_same : forall s a r,
  mget N.eqb s (a_sids (add_one s a r)) = Some (set_add room_eqb r (rooms_of a s)).
Proof. intros. unfold add_one; simpl. apply mget_mset_same. apply N.eqb_eq. Qed.

Lemma add_one_rooms_of : forall s a r x r',
  In r' (rooms_of (add_one s a r) x) <-> In r' (rooms_of a x) \/ (x = s /\ r' = r).
Proof.
  intros s a r x r'. destruct (N.eq_dec x s) as [->|NE].
  - unfold rooms_of at 1. rewrite add_one_sids_same.
    rewrite (set_add_In room_eqb room_eqb_eq). intuition.
  - unfold rooms_of. rewrite add_one_sids_other by auto. intuition.
Qed.

Lemma add_one_members : forall s a r x r',
  In x (members (add_one s a r) r') <-> In x (members a r') \/ (x = s /\ r' = r).
Proof.
  intros s a r x r'. destruct (room_eqb r' r) eqn:E.
  - apply room_eqb_eq in E; subst r'. unfold members at 1, add_one; simpl.
    rewrite (mget_mset_same room_eqb room_eqb_eq).
    rewrite (set_add_In N.eqb N.eqb_eq). intuition.
  - assert (r' <> r) as NE by (intros ->; rewrite (keqb_refl room_eqb room_eqb_eq) in E; discriminate).
    unfold members, add_one; simpl.
    rewrite (mget_mset_other room_eqb room_eqb_eq) by auto. intuition.
Qed.

Lemma fold_add_one_sids_other : forall s rs a x, x <> s ->
  mget N.eqb x (a_sids (fold_left (add_one s) rs a)) = mget N.eqb x (a_sids a).
Proof.
  induction rs as [|r rs IH]; intros a x NE; simpl; auto.
  rewrite IH by auto. apply add_one_sids_other; auto.
Qed.

Lemma fold_add_one_rooms_of : forall s rs a x r',
  In r' (rooms_of (fold_left (add_one s) rs a) x) <-> In r' (rooms_of a x) \/ (x = s /\ In r' rs).
Proof.
  induction rs as [|r rs IH]; intros a x r'; simpl.
  - intuition.
  - rewrite IH, add_one_rooms_of. intuition; subst; auto.
Qed.

Lemma fold_add_one_members : forall s rs a x r',
  In x (members (fold_left (add_one s) rs a) r') <-> In x (members a r') \/ (x = s /\ In r' rs).
Proof.
  induction rs as [|r rs IH]; intros a x r'; simpl.
  - intuition.
  - rewrite IH, add_one_members. intuition; subst; auto.
Qed.

Lemma fold_add_one_known : forall s rs a,
  mget N.eqb s (a_sids a) <> None -> mget N.eqb s (a_sids (fold_left (add_one s) rs a)) <> None.
Proof.
  induction rs as [|r rs IH]; intros a H; simpl; auto.
  apply IH. rewrite add_one_sids_same. discriminate.
Qed.

Definition touch (s : sid) (a : adapter) : adapter :=
  match mget N.eqb s (a_sids a) with
  | Some _ => a
  | None => mkAdapter (mset N.eqb s [] (a_sids a)) (a_rooms a)
  end.

Lemma add_all_touch : forall s rs a, add_all s rs a = fold_left (add_one s) rs (touch s a).
Proof. reflexivity. Qed.

Lemma touch_sids_other : forall s a x, x <> s -> mget N.eqb x (a_sids (touch s a)) = mget N.eqb x (a_sids a).
Proof.
  intros. unfold touch. destruct (mget N.eqb s (a_sids a)); simpl; auto.
  apply mget_mset_other; auto. apply N.eqb_eq.
Qed.

Lemma touch_known : forall s a, mget N.eqb s (a_sids (touch s a)) <> None.
Proof.
  intros. unfold touch. destruct (mget N.eqb s (a_sids a)) eqn:E; simpl.
  - rewrite E; discriminate.
  - rewrite (mget_mset_same N.eqb N.eqb_eq). discriminate.
Qed.

Lemma touch_rooms_of : forall s a x, rooms_of (touch s a) x = rooms_of a x.
Proof.
  intros. unfold touch. destruct (mget N.eqb s (a_sids a)) eqn:E; simpl; auto.
  unfold rooms_of; simpl. destruct (N.eq_dec x s) as [->|NE].
  - rewrite (mget_mset_same N.eqb N.eqb_eq), E. reflexivity.
  - rewrite (mget_mset_other N.eqb N.eqb_eq) by auto. reflexivity.
Qed.

Lemma touch_members : forall s a r, members (touch s a) r = members a r.
Proof. intros. unfold touch. destruct (mget N.eqb s (a_sids a)); reflexivity. Qed.

Lemma add_all_sids_other : forall s rs a x, x <> s ->
  mget N.eqb x (a_sids (add_all s rs a)) = mget N.eqb x (a_sids a).
Proof. intros. rewrite add_all_touch, fold_add_one_sids_other, touch_sids_other; auto. Qed.

Lemma add_all_known : forall s rs a, mget N.eqb s (a_sids (add_all s rs a)) <> None.
Proof. intros. rewrite add_all_touch. apply fold_add_one_known, touch_known. Qed.

Lemma add_all_rooms_of : forall s rs a x r',
  In r' (rooms_of (add_all s rs a) x) <-> In r' (rooms_of a x) \/ (x = s /\ In r' rs).
Proof. intros. rewrite add_all_touch, fold_add_one_rooms_of, touch_rooms_of. reflexivity. Qed.

Lemma add_all_members : forall s rs a x r',
  In x (members (add_all s rs a) r') <-> In x (members a r') \/ (x = s /\ In r' rs).
Proof. intros. rewrite add_all_touch, fold_add_one_members, touch_members. reflexivity. Qed.

(** ** del_one / delete_all *)

Lemma del_one_sids : forall s a r, a_sids (del_one s a r) = a_sids a.
Proof.
  intros. unfold del_one. destruct (mget room_eqb r (a_rooms a)); auto.
  destruct (set_remove N.eqb s l); auto.
Qed.

Lemma del_one_members : forall s a r x r',
  In x (members (del_one s a r) r') <-> In x (members a r') /\ ~ (x = s /\ r' = r).
Proof.
  intros s a r x r'. unfold del_one.
  destruct (mget room_eqb r (a_rooms a)) as [l|] eqn:G.
  - destruct (room_eqb r' r) eqn:E.
    + apply room_eqb_eq in E; subst r'.
      assert (In x (members a r) /\ ~ (x = s /\ r = r) <-> In x (set_remove N.eqb s l)) as ->.
      { rewrite (set_remove_In N.eqb N.eqb_eq). unfold members. rewrite G. intuition. }
      destruct (set_remove N.eqb s l) as [|y l'] eqn:R.
      * unfold members; simpl. rewrite (mget_mdel_same room_eqb). simpl. intuition.
      * unfold members; simpl. rewrite (mget_mset_same room_eqb room_eqb_eq). reflexivity.
    + assert (r' <> r) as NE by (intros ->; rewrite (keqb_refl room_eqb room_eqb_eq) in E; discriminate).
      destruct (set_remove N.eqb s l) as [|y l'].
      * unfold members; simpl. rewrite (mget_mdel_other room_eqb room_eqb_eq) by auto. intuition.
      * unfold members; simpl. rewrite (mget_mset_other room_eqb room_eqb_eq) by auto. intuition.
  - split; [|tauto]. intros H. split; auto. intros [-> ->]. unfold members in H. rewrite G in H. destruct H.
Qed.

Lemma fold_del_one_sids : forall s rs a, a_sids (fold_left (del_one s) rs a) = a_sids a.
Proof. induction rs as [|r rs IH]; intros; simpl; auto. rewrite IH. apply del_one_sids. Qed.

Lemma fold_del_one_members : forall s rs a x r',
  In x (members (fold_left (del_one s) rs a) r') <-> In x (members a r') /\ ~ (x = s /\ In r' rs).
Proof.
  induction rs as [|r rs IH]; intros a x r'; simpl.
  - intuition.
  - rewrite IH, del_one_members. intuition; subst; auto.
Qed.

Lemma delete_all_sids_other : forall s a x, x <> s ->
  mget N.eqb x (a_sids (delete_all s a)) = mget N.eqb x (a_sids a).
Proof.
  intros. unfold delete_all. destruct (mget N.eqb s (a_sids a)) eqn:E; auto. simpl.
  rewrite (mget_mdel_other N.eqb N.eqb_eq) by auto. now rewrite fold_del_one_sids.
Qed.

Lemma delete_all_sids_same : forall s a, mget N.eqb s (a_sids (delete_all s a)) = None.
Proof.
  intros. unfold delete_all. destruct (mget N.eqb s (a_sids a)) eqn:E; auto. simpl.
  apply (mget_mdel_same N.eqb).
Qed.

Lemma delete_all_members : forall s a x r',
  In x (members (delete_all s a) r') <-> In x (members a r') /\ ~ (x = s /\ In r' (rooms_of a s)).
Proof.
  intros. unfold delete_all, rooms_of. destruct (mget N.eqb s (a_sids a)) eqn:E.
  - unfold members at 1; simpl. fold (members (fold_left (del_one s) l a) r').
    apply fold_del_one_members.
  - simpl. intuition.
Qed.

(** ** The two maps stay in step *)
Definition consistent (a : adapter) : Prop :=
  forall x r, In x (members a r) <-> In r (rooms_of a x).

Lemma consistent0 : consistent adapter0.
Proof. intros x r. unfold members, rooms_of; simpl. tauto. Qed.

Lemma add_all_consistent : forall s rs a, consistent a -> consistent (add_all s rs a).
Proof.
  intros s rs a C x r. rewrite add_all_members, add_all_rooms_of, (C x r). reflexivity.
Qed.

Lemma delete_all_consistent : forall s a, consistent a -> consistent (delete_all s a).
Proof.
  intros s a C x r. rewrite delete_all_members. destruct (N.eq_dec x s) as [->|NE].
  - unfold rooms_of at 2. rewrite delete_all_sids_same. simpl. rewrite (C s r). tauto.
  - unfold rooms_of at 2. rewrite delete_all_sids_other by auto. fold (rooms_of a x).
    rewrite (C x r). intuition.
Qed.

(** Whoever a broadcast reaches is in the namespace's socket store. *)
Lemma dedup_In : forall l seen x, In x (dedup l seen) -> In x l.
Proof.
  induction l as [|y l IH]; intros seen x H; simpl in *; auto.
  destruct (mem N.eqb y seen); [right; eauto|].
  destruct H as [->|H]; [auto | right; eauto].
Qed.

Lemma targets_in_store : forall store a rooms ex x, In x (targets store a rooms ex) -> In x store.
Proof.
  intros store a rooms ex x H. unfold targets in H.
  assert (forall l, In x (filter (fun s => negb (mem N.eqb s (except_sids a ex)) && mem N.eqb s store) l) -> In x store) as F.
  { intros l I. apply filter_In in I as [_ I]. apply andb_true_iff in I as [_ I].
    now apply (mem_In N.eqb N.eqb_eq) in I. }
  destruct rooms; [eapply F; eauto|]. apply dedup_In in H. eapply F; eauto.
Qed.
