(** Proofs about Sio/PacketQueue.v: inductive invariants over ALL schedules (any number of
    producers, consumers and closers; close/reset anywhere), bounded progress. *)
From Coq Require Import List NArith Bool Arith Lia.
From SioV Require Import Base.Conc Sio.PacketQueue.
Import ListNotations.

Lemma qis_nil_true {A} (l : list A) : is_nil l = true <-> l = [].
Proof. destruct l; simpl; split; intros; congruence. Qed.

Lemma qadded_app l1 l2 : qadded (l1 ++ l2) = qadded l1 ++ qadded l2.
Proof. induction l1 as [|[]]; simpl; rewrite ?IHl1, ?app_assoc; auto. Qed.

Lemma qleft_app l1 l2 : qleft (l1 ++ l2) = qleft l1 ++ qleft l2.
Proof. induction l1 as [|[]]; simpl; rewrite ?IHl1, ?app_assoc; auto. Qed.

Lemma qdelivered_app l1 l2 : qdelivered (l1 ++ l2) = qdelivered l1 ++ qdelivered l2.
Proof. induction l1 as [|[]]; simpl; rewrite ?IHl1, ?app_assoc; auto. Qed.

Ltac qstep_inv H :=
  match type of H with
  | qstep ?l ?s = Some ?s' =>
      destruct l; simpl in H;
      repeat match type of H with
             | context [match q_pc ?s ?c with _ => _ end] => destruct (q_pc s c) eqn:?
             | context [match q_nsig ?s with _ => _ end] => destruct (q_nsig s) eqn:?
             | context [match q_wwin ?s with _ => _ end] => destruct (q_wwin s) eqn:?
             | context [match q_wpark ?s with _ => _ end] => destruct (q_wpark s) eqn:?
             | context [match q_wclose ?s with _ => _ end] => destruct (q_wclose s) eqn:?
             | context [if ?b then _ else _] => destruct b eqn:?
             end;
      try discriminate; inversion H; subst; clear H; simpl in *
  end.

(** ** No lost wake-up *)

(** Whenever packets are queued, a wake-up is on its way: the token is pending in [ready], or a
    producer that has appended is about to signal, or a consumer has taken the token and is
    about to get(). *)
Definition qwake_inv (s : qstate) : Prop :=
  q_q s <> [] -> q_tok s = true \/ q_nsig s > 0 \/ exists c, q_pc s c = QWoke.

Lemma qwoke_keep (s : qstate) c p :
  (exists c', q_pc s c' = QWoke) -> q_pc s c <> QWoke -> exists c', set_pc s c p c' = QWoke.
Proof.
  intros [c' H] N. exists c'. unfold set_pc. rewrite upd_other; [exact H|]. intros ->. contradiction.
Qed.

Lemma qwake_inv_inductive : inductive qstep (fun s => s = qinit) qwake_inv.
Proof.
  split.
  - intros s ->. intros H. now elim H.
  - intros s l s' I St. unfold qwake_inv in *.
    qstep_inv St; intros NE; try (now elim NE); try (now left); try (right; left; lia);
      try (exact (I NE));
      try (destruct (I NE) as [T | [G | W]]; [now left | right; left; lia | right; right; exact W]);
      try (destruct (I NE) as [T | [G | W]]; [now left | right; left; lia |
             right; right; apply qwoke_keep; [exact W | congruence]]).
    + (* QSelReady: the token moves into the consumer *)
      right; right. exists c. apply upd_same.
Qed.

Theorem no_lost_wakeup : forall s, qreachable s -> qwake_inv s.
Proof. apply invariant_reachable, qwake_inv_inductive. Qed.

(** The property's phrasing: packets queued, every producer has finished its add, no consumer
    already holds the token (all are parked at the wait) => the token is pending. *)
Corollary no_lost_wakeup_parked s :
  qreachable s -> q_q s <> [] -> q_nsig s = 0 -> (forall c, q_pc s c <> QWoke) -> q_tok s = true.
Proof.
  intros R NE NS NW. destruct (no_lost_wakeup _ R NE) as [T | [G | [c W]]];
    [exact T | lia | now elim (NW c)].
Qed.

(** ** Bounded progress, no timer exists on this path *)

(** From every reachable state with packets queued, all producers past their signal and no close
    pending, if some consumer is waiting inside poll then at most three steps of ONE consumer
    (receive from ready, get, drain signal) make its poll return the whole queue; a closer
    parked in waitForDrain is released by the same steps. *)
Theorem progress : forall s c,
  qreachable s -> q_q s <> [] -> q_nsig s = 0 -> qwaiting (q_pc s c) = true ->
  exists c' sched,
    length sched <= 3 /\
    (forall l, In l sched -> l = QSelReady c' \/ l = QGet c' \/ l = QDrain c') /\
    exists s', exec_opt qstep sched s = Some s' /\
      q_pc s' c' = QDone (RPk (q_q s)) /\ q_q s' = [] /\
      (q_wpark s > 0 -> q_wclose s' = S (q_wclose s) /\ q_wpark s' = pred (q_wpark s)).
Proof.
  intros s c R NE NS W.
  assert (RES : res_of (q_q s) = RPk (q_q s)).
  { unfold res_of. destruct (is_nil (q_q s)) eqn:N; [apply qis_nil_true in N; contradiction | reflexivity]. }
  assert (FromWoke : forall c', q_pc s c' = QWoke ->
    exists s', exec_opt qstep [QGet c'; QDrain c'] s = Some s' /\
      q_pc s' c' = QDone (RPk (q_q s)) /\ q_q s' = [] /\
      (q_wpark s > 0 -> q_wclose s' = S (q_wclose s) /\ q_wpark s' = pred (q_wpark s))).
  { intros c' Wk. simpl. rewrite Wk. simpl. unfold set_pc at 1. rewrite upd_same.
    destruct (q_wpark s) eqn:WP; simpl; eexists; (split; [reflexivity|]); simpl;
      unfold set_pc; rewrite upd_same, RES; (split; [reflexivity|]); (split; [reflexivity|]);
      intros; try lia; auto. }
  destruct (no_lost_wakeup _ R NE) as [T | [G | [c' Wk]]]; [|lia|].
  - destruct (q_pc s c) eqn:PC; try discriminate.
    + (* c parked, token pending *)
      exists c, [QSelReady c; QGet c; QDrain c]. split; [simpl; lia|]. split.
      { intros l [<-|[<-|[<-|[]]]]; auto. }
      simpl. rewrite PC, T. simpl. unfold set_pc at 1. rewrite upd_same. simpl.
      unfold set_pc at 1. rewrite upd_same.
      destruct (q_wpark s) eqn:WP; simpl; eexists; (split; [reflexivity|]); simpl;
        unfold set_pc; rewrite upd_same, RES; (split; [reflexivity|]); (split; [reflexivity|]);
        intros; try lia; auto.
    + destruct (FromWoke c PC) as (s' & E & H).
      exists c, [QGet c; QDrain c]. split; [simpl; lia|]. split.
      { intros l [<-|[<-|[]]]; auto. }
      exists s'. split; [exact E | exact H].
  - destruct (FromWoke c' Wk) as (s' & E & H).
    exists c', [QGet c'; QDrain c']. split; [simpl; lia|]. split.
    { intros l [<-|[<-|[]]]; auto. }
    exists s'. split; [exact E | exact H].
Qed.

(** While no close is pending, the select of a parked consumer has exactly one ready case when
    the token is there: Go cannot choose anything else ([QSelClose] is not enabled). *)
Lemma select_deterministic_without_close s c :
  q_clo s = false -> qstep (QSelClose c) s = None.
Proof. intros H. simpl. destruct (q_pc s c); auto. now rewrite H. Qed.

(** A poll that starts while packets are queued returns them at once. *)
Theorem arriving_poll_returns_queue : forall s c s',
  q_q s <> [] -> qstep (QStart c) s = Some s' -> q_pc s' c = QDone (RPk (q_q s)) /\ q_q s' = [].
Proof.
  intros s c s' NE St. simpl in St.
  destruct (is_nil (q_q s)) eqn:N; [apply qis_nil_true in N; contradiction|].
  destruct (q_pc s c); try discriminate; inversion St; subst; simpl;
    (split; [apply upd_same | reflexivity]).
Qed.

(** ** FIFO; nothing lost or duplicated; close/reset drop exactly what is queued *)

(** Everything that ever left the queue (handed to a poll, or discarded by close/reset at that
    moment), followed by what is still queued, is exactly what was added, in order. *)
Definition qconserve (s : qstate) : Prop := qleft (q_log s) ++ q_q s = qadded (q_log s).

Lemma qconserve_inductive : inductive qstep (fun s => s = qinit) qconserve.
Proof.
  split.
  - intros s ->. reflexivity.
  - intros s l s' I St. unfold qconserve in *.
    qstep_inv St; rewrite ?qadded_app, ?qleft_app; simpl; rewrite ?app_nil_r; auto;
      try (match goal with H : is_nil (q_q s) = true |- _ =>
                             apply qis_nil_true in H; rewrite H in I; now rewrite app_nil_r in I end);
      try (rewrite <- I; now rewrite app_assoc).
Qed.

Theorem fifo_conservation : forall s, qreachable s -> qconserve s.
Proof. apply invariant_reachable, qconserve_inductive. Qed.

Lemma qleft_no_drop l : existsb is_drop l = false -> qleft l = qdelivered l.
Proof.
  induction l as [|e l IH]; simpl; [reflexivity|]. intros H. apply orb_false_iff in H as [H1 H2].
  destruct e; simpl; rewrite ?IH by assumption; auto.
  destruct pkts; [reflexivity | discriminate].
Qed.

(** Until a close/reset discards something: what the polls returned, in order, followed by what
    is still queued, is exactly what was added. *)
Theorem fifo_all_delivered : forall s,
  qreachable s -> existsb is_drop (q_log s) = false ->
  qdelivered (q_log s) ++ q_q s = qadded (q_log s).
Proof.
  intros s R ND. rewrite <- qleft_no_drop by exact ND. now apply fifo_conservation.
Qed.

(** ** close: the close signal is not lost either *)

(** Once close() has been called, the close token stays pending until a poll returns closed. *)
Definition qclose_inv (s : qstate) : Prop :=
  existsb is_close (q_log s) = true -> q_clo s = true \/ existsb is_closed (q_log s) = true.

Lemma qclose_inv_inductive : inductive qstep (fun s => s = qinit) qclose_inv.
Proof.
  split.
  - intros s ->. discriminate.
  - intros s l s' I St. unfold qclose_inv in *.
    qstep_inv St; rewrite ?existsb_app; simpl; rewrite ?orb_false_r; auto;
      try (destruct (is_nil (q_q s)); simpl; rewrite ?existsb_app; simpl; rewrite ?orb_false_r; now auto);
      try (intros _; right; apply orb_true_r).
Qed.

Theorem close_signal_not_lost : forall s, qreachable s -> qclose_inv s.
Proof. apply invariant_reachable, qclose_inv_inductive. Qed.

(** After close(), a consumer parked at the wait returns closed in one step of its own (the
    sender goroutine terminates), unless another poll already consumed the close. *)
Theorem close_releases_consumer : forall s c,
  qreachable s -> existsb is_close (q_log s) = true -> existsb is_closed (q_log s) = false ->
  q_pc s c = QWin ->
  exists s', qstep (QSelClose c) s = Some s' /\ q_pc s' c = QDone RClosed.
Proof.
  intros s c R C NC PC. destruct (close_signal_not_lost _ R C) as [T | T]; [|congruence].
  simpl. rewrite PC, T. eexists; split; [reflexivity|]. simpl. apply upd_same.
Qed.

(** A closer is never stuck: parked in waitForDrain it can always leave by its timer, and once
    past waitForDrain its close() is always enabled (close never blocks: non-blocking send). *)
Theorem closer_never_deadlocks : forall s,
  (q_wpark s > 0 -> qstep WTimeout s <> None) /\ (q_wclose s > 0 -> qstep WClose s <> None) /\
  (q_wwin s > 0 -> qstep WEnter s <> None) /\ qstep QClose s <> None /\ qstep QReset s <> None.
Proof.
  intros s. simpl. repeat split; try discriminate;
    intros H; [destruct (q_wpark s) | destruct (q_wclose s) | destruct (q_wwin s)];
    try lia; discriminate.
Qed.

(** The drain hand-shake itself can miss (drain is unbuffered and the closer checks-then-waits
    exactly like the original poll queue): a closer that saw packets, then lost the CPU while the
    sender drained them, parks with nothing left to wake it but its 2-minute timer.  No packet
    is affected (the queue is empty); the connection's two helper goroutines just linger. *)
Definition drain_miss_schedule : list qlabel :=
  [QStart 0; QAppend [1%N]; QSignal; WStart; QSelReady 0; QGet 0; QDrain 0; WEnter; QStart 0].

Lemma drain_signal_can_be_missed :
  exists s, exec_opt qstep drain_miss_schedule qinit = Some s /\
    q_q s = [] /\ q_wpark s = 1 /\ q_tok s = false /\ q_rst s = false /\ q_pc s 0 = QWin.
Proof. eexists. split; [vm_compute; reflexivity|]. repeat split; reflexivity. Qed.

(** ** The sender goroutine alone, from wherever it is *)

(** One iteration of [pollAndSend]'s loop, as labels of consumer [c] (a label that is not
    enabled is skipped by [exec]). *)
Definition sender_round (c : nat) : list qlabel := [QStart c; QSelReady c; QGet c; QDrain c].

Ltac qcbn E :=
  cbn [qstep q_pc q_q q_tok q_clo q_rst q_nsig q_wwin q_wpark q_wclose q_log is_nil res_of] in E.
Ltac stpE E :=
  rewrite exec_cons in E; unfold step_skip at 1 in E; qcbn E;
  unfold set_pc in E; rewrite ?upd_same in E; qcbn E.

(** Packets queued, producers past their signal, no other consumer holding the token: wherever
    the sender [c] is in its loop (idle, between polls, parked at the wait, woken, about to
    signal drain), two loop iterations of the sender running ALONE hand out the whole queue -
    no timer, no further add, no other traffic is needed. *)
Theorem sender_loop_delivers : forall s c,
  qreachable s -> q_q s <> [] -> q_nsig s = 0 ->
  (forall c', c' <> c -> q_pc s c' <> QWoke) ->
  let s' := exec qstep (sender_round c ++ sender_round c) s in
  q_q s' = [] /\ qdelivered (q_log s') = qdelivered (q_log s) ++ q_q s.
Proof.
  intros s c R NE NS Oth s'.
  assert (N : is_nil (q_q s) = false) by (destruct (q_q s); [contradiction|reflexivity]).
  assert (TK : q_pc s c = QWin -> q_tok s = true).
  { intros PC. destruct (no_lost_wakeup _ R NE) as [T|[G|[c' W]]]; [exact T|lia|].
    destruct (Nat.eq_dec c' c) as [->|D]; [congruence|now elim (Oth c' D)]. }
  assert (E : s' = exec qstep (sender_round c ++ sender_round c) s) by reflexivity.
  clearbody s'. unfold sender_round in E; cbn [app] in E.
  destruct s as [q tok clo rst nsig pc ww wp wc lg]. cbn [q_q q_tok q_nsig q_pc q_log] in *.
  destruct (pc c) eqn:PC; destruct tok; destruct wp as [|[|wp]];
    try (specialize (TK eq_refl); discriminate);
    repeat (stpE E; rewrite ?PC, ?N in E; qcbn E);
    rewrite exec_nil in E; subst s'; cbn [q_q q_log];
    (split; [reflexivity|]); rewrite ?qdelivered_app; cbn [qdelivered]; rewrite ?app_nil_r; reflexivity.
Qed.
