(** Sio/LifecycleProofs.v - theorems about Sio/Lifecycle.v (C06), derived from the exhaustive
    exploration in Sio/LifecycleInv.v ([reach_ok_code]) and, for the reason flow, by induction. *)
From SioV Require Import Base.GoSem Base.Conc Sio.Lifecycle Sio.LifecycleReach Sio.LifecycleInv.
Local Open Scope N_scope.

Lemma reachable_p_all : forall sched, p_all code_cfg (exec (cstep' code_cfg) sched cinit) = true.
Proof.
  destruct (reach_ok_of_split _ _ reach_ok_code) as (HC & H0 & HP).
  intros sched.
  exact (@all_exec ctl act (list N) (cstep' code_cfg) all_acts hkey lcmp lcmp_eq hkey_inj all_acts_complete
                   leqb leqb_eq (reach_tree code_cfg) cinit (p_all code_cfg) HC H0 HP sched).
Qed.

Lemma p_all_run sched :
  p_all code_cfg (ctl_of (exec (step code_cfg) sched init)) = true.
Proof. rewrite ctl_exec. apply reachable_p_all. Qed.

Ltac split_andb H :=
  repeat match type of H with
         | (_ && _) = true => let H1 := fresh H in apply andb_true_iff in H as [H H1]
         end.

(** ** Control theorems, for every schedule *)
Section ControlTheorems.
  Variable sched : list act.
  Let s := exec (step code_cfg) sched init.
  Let c := ctl_of s.

  Lemma facts : p_once c = true /\ p_exactly code_cfg c = true /\ p_no_trace code_cfg c = true
                /\ p_fsc c = true /\ p_step_facts code_cfg c = true /\ p_never_burnt c = true.
  Proof.
    pose proof (p_all_run sched) as H. fold s in H. fold c in H. unfold p_all in H.
    rewrite !andb_true_iff in H. destruct H as [[[[[A B] C] D] E] F]. repeat split; assumption.
  Qed.

  (** handler fan-outs happen at most once each; never for a socket that did not connect;
      a disconnect report comes after exactly one disconnecting report, with the once done and
      the socket no longer connected *)
  Lemma at_most_once :
    (n_disc c <= 1) /\ (n_discing c <= 1) /\ (nh_disc c <= n_disc c)
    /\ (ever_conn c = false -> n_disc c = 0 /\ n_discing c = 0)
    /\ (n_disc c = 1 -> discing_first c = true /\ n_discing c = 1 /\ s_once c = Done /\ connected c = false)
    /\ (s_once c = Fresh -> n_disc c = 0 /\ n_discing c = 0).
  Proof.
    destruct facts as (H & _). unfold p_once, implb' in H.
    rewrite !andb_true_iff in H. destruct H as [[[[[A B] C] D] E] F].
    split; [now apply N.leb_le|]. split; [now apply N.leb_le|]. split; [now apply N.leb_le|].
    split; [|split].
    - intros Ev. rewrite Ev in D. simpl in D. rewrite andb_true_iff in D. destruct D as [D1 D2].
      split; now apply N.eqb_eq.
    - intros E1. rewrite E1 in E. simpl in E. rewrite !andb_true_iff in E. destruct E as [[[E2 E3] E4] E5].
      repeat split; try assumption; try (now apply N.eqb_eq). now apply negb_true_iff.
    - intros F1. rewrite F1 in F. simpl in F. rewrite andb_true_iff in F. destruct F as [F2 F3].
      split; now apply N.eqb_eq.
  Qed.

  Lemma exactly_once_quiescent :
    quiescentb code_cfg c = true -> ever_conn c = true -> end_begun c = true ->
    n_disc c = 1 /\ n_discing c = 1.
  Proof.
    intros Q E B. destruct facts as (_ & H & _). unfold p_exactly, implb' in H.
    rewrite Q, E, B in H. simpl in H. rewrite andb_true_iff in H. destruct H as [H1 H2].
    split; now apply N.eqb_eq.
  Qed.

  Lemma no_trace_quiescent :
    quiescentb code_cfg c = true -> e_once c = Done -> no_trace c = true.
  Proof.
    intros Q E. destruct facts as (_ & _ & H & _). unfold p_no_trace, implb' in H.
    rewrite Q, E in H. simpl in H. rewrite andb_true_iff in H. destruct H as [H1 H2]. exact H1.
  Qed.

  Lemma no_trace_nsp_quiescent :
    quiescentb code_cfg c = true -> s_once c = Done -> no_trace_nsp c = true.
  Proof.
    intros Q E. destruct facts as (_ & _ & H & _). unfold p_no_trace, implb' in H.
    rewrite Q, E in H. rewrite andb_true_iff in H. destruct H as [H1 H2]. simpl in H2. exact H2.
  Qed.

  Lemma conn_done_when_eio_done : e_once c = Done -> c_once c = Done.
  Proof.
    intros E. destruct facts as (_ & _ & _ & H & _). unfold p_fsc, implb' in H.
    rewrite E in H. simpl in H. now apply N.eqb_eq.
  Qed.

  Lemma never_burnt : g_burnt c = false.
  Proof. destruct facts as (_ & _ & _ & _ & _ & H). unfold p_never_burnt in H. now apply negb_true_iff. Qed.
End ControlTheorems.

(** ** Witnesses *)

(** the code before the fix: the connection ends (transport error) while the namespace middleware
    runs; the socket is admitted afterwards, connects, and is never closed *)
Definition sched_admission_race : list act :=
  [AAdmit;                                   (* CONNECT received, middleware running *)
   ACause CTransportError; AEbody; ACbody; ACbody; ACbody; AEbody;   (* the connection ends completely *)
   AAdmit; AAdmit; AAdmit; AAdmit; AHandler]. (* the middleware returns: admitted, connected *)

Lemma admission_race_prefix :
  let c := ctl_of (exec (step prefix_cfg) sched_admission_race init) in
  quiescentb prefix_cfg c = true /\ e_once c = Done /\ g_burnt c = false /\ ever_conn c = true
  /\ n_disc c = 0 /\ in_nsp c = true /\ own_room c = true /\ connected c = true /\ in_store c = false.
Proof. vm_compute. repeat split. Qed.

(** the same schedule on the fixed code (one more step: the re-check closes the socket) *)
Lemma admission_race_fixed :
  let s := exec (step code_cfg) (sched_admission_race ++ [ASbody; ASbody; ASbody; ASbody; ASbody; ASbody; ASbody; AAdmit]) init in
  quiescentb code_cfg (ctl_of s) = true /\ n_disc (ctl_of s) = 1 /\ no_trace (ctl_of s) = true
  /\ rep_reason s = RTransportError.
Proof. vm_compute. repeat split. Qed.

(** the re-check alone (socket.onClose still testing `connected` inside its once) is not enough:
    the connection's close path finds the socket in c.sockets between c.sockets.set and onConnect,
    its onClose consumes the once while `connected` is false, and the re-check's onClose is a no-op *)
Definition sched_burnt : list act :=
  [AAdmit; AAdmit; AAdmit;               (* in the namespace list and in c.sockets, not yet connected *)
   ACause CTransportError; AEbody; ACbody; ACbody; ACbody;   (* conn.onClose: closed; snapshot; socket.onClose *)
   ASbody;                               (* `if !connected return` inside the once: consumed *)
   ACbody; AEbody;                       (* the connection's end completes *)
   AAdmit; AAdmit; AAdmit; AHandler].    (* onConnect: connected; re-check -> onClose is a no-op *)

Lemma burnt_once_witness :
  let c := ctl_of (exec (step recheck_only_cfg) sched_burnt init) in
  quiescentb recheck_only_cfg c = true /\ e_once c = Done /\ g_burnt c = true /\ ever_conn c = true
  /\ n_disc c = 0 /\ in_nsp c = true /\ own_room c = true /\ connected c = true.
Proof. vm_compute. repeat split. Qed.

(** the socket is closed before the connection handler has registered its OnDisconnect handler *)
Definition sched_late_handler : list act :=
  [AAdmit; AAdmit; AAdmit; AAdmit; AAdmit;
   ACause CServerDisconnect0; ASbody; ASbody; ASbody; ASbody; ASbody; ASbody; ASbody;
   AHandler].

Lemma late_handler_witness :
  let c := ctl_of (exec (step code_cfg) sched_late_handler init) in
  quiescentb code_cfg c = true /\ n_disc c = 1 /\ h_pc c = 2 /\ nh_disc c = 0 /\ g_burnt c = false.
Proof. vm_compute. repeat split. Qed.

(** non-vacuity of the quiescence hypotheses: a plain session ended by a ping timeout *)
Definition sched_plain : list act :=
  [AAdmit; AAdmit; AAdmit; AAdmit; AAdmit; AHandler;
   ACause CPingTimeout; AEbody; ACbody; ACbody; ACbody;
   ASbody; ASbody; ASbody; ASbody; ASbody; ASbody; ASbody; ACbody; AEbody].

Lemma plain_session :
  let s := exec (step code_cfg) sched_plain init in
  quiescentb code_cfg (ctl_of s) = true /\ e_once (ctl_of s) = Done /\ ever_conn (ctl_of s) = true
  /\ g_burnt (ctl_of s) = false /\ n_disc (ctl_of s) = 1 /\ nh_disc (ctl_of s) = 1
  /\ no_trace (ctl_of s) = true /\ rep_reason s = RPingTimeout.
Proof. vm_compute. repeat split. Qed.

(** ** Reason flow: by induction over the schedule *)
Definition OKR (sched : list act) (r : N) : Prop :=
  exists c, In (ACause c) sched /\ In r (cause_reasons c).

Lemma OKR_app sched a r : OKR sched r -> OKR (sched ++ [a]) r.
Proof. intros (c & H1 & H2). exists c. split; [apply in_or_app; now left | exact H2]. Qed.

Lemma act_gives_OKR sched a r : act_gives a r = true -> OKR (sched ++ [a]) r.
Proof.
  destruct a; simpl; try discriminate. intros H.
  apply existsb_exists in H as (x & Hx & E). apply N.eqb_eq in E. subst x.
  exists c. split; [apply in_or_app; right; now left | exact Hx].
Qed.

Record RI (sched : list act) (s : st) : Prop := mkRI {
  ri_e : (e_once (ctl_of s) =? Fresh) = false -> OKR sched (e_reason s);
  ri_c : (c_once (ctl_of s) =? Fresh) = false -> OKR sched (c_reason s);
  ri_s : (s_once (ctl_of s) =? Fresh) = false -> OKR sched (s_reason s);
  ri_rep : (n_disc (ctl_of s) =? 0) = false ->
           rep_reason s = s_reason s /\ (s_once (ctl_of s) =? Fresh) = false;
  ri_none : (n_disc (ctl_of s) =? 0) = true -> rep_reason s = RNone
}.

Ltac prep HF :=
  split_andb HF;
  repeat match goal with
         | H : Bool.eqb _ _ = true |- _ => apply eqb_prop in H
         | H : negb _ = true |- _ => apply negb_true_iff in H
         end.

Lemma RI_all : forall sched, RI sched (exec (step code_cfg) sched init).
Proof.
  induction sched as [|a sched IH] using rev_ind.
  - constructor; simpl; intros H; try discriminate H; reflexivity.
  - rewrite exec_app. simpl. 
    pose proof (facts sched) as (_ & _ & _ & _ & HF & _).
    set (s0 := exec (step code_cfg) sched init) in *.
    unfold p_step_facts in HF. rewrite forallb_forall in HF. specialize (HF a (all_acts_complete a)).
    unfold step_fact in HF. unfold step_skip, step.
    destruct IH as [IHe IHc IHs IHrep IHnone].
    destruct (cstep code_cfg a (ctl_of s0)) as [[c' ops]|] eqn:E.
    2: { constructor; intros H; auto using OKR_app. }
    apply andb_true_iff in HF as [_ HF].
    destruct ops as [|o ops]; [|destruct o; destruct ops as [|o2 ops]; try discriminate HF]; simpl; prep HF.
    + (* no reason operation *)
      constructor; simpl; intros H.
      * rewrite HF in H. auto using OKR_app.
      * rewrite HF2 in H. auto using OKR_app.
      * rewrite HF1 in H. auto using OKR_app.
      * rewrite HF0 in H. destruct (IHrep H) as [R1 R2]. split; [exact R1 | now rewrite HF1].
      * rewrite HF0 in H. auto.
    + (* SetE r *)
      constructor; simpl; intros H.
      * now apply act_gives_OKR.
      * rewrite HF2 in H. auto using OKR_app.
      * rewrite HF1 in H. auto using OKR_app.
      * rewrite HF0 in H. destruct (IHrep H) as [R1 R2]. split; [exact R1 | now rewrite HF1].
      * rewrite HF0 in H. auto.
    + (* CopyEC *)
      constructor; simpl; intros H.
      * auto using OKR_app.
      * auto using OKR_app.
      * rewrite HF1 in H. auto using OKR_app.
      * rewrite HF0 in H. destruct (IHrep H) as [R1 R2]. split; [exact R1 | now rewrite HF1].
      * rewrite HF0 in H. auto.
    + (* CopyCS *)
      apply N.eqb_eq in HF2, HF1.
      constructor; simpl; intros H.
      * rewrite HF0 in H. auto using OKR_app.
      * auto using OKR_app.
      * auto using OKR_app.
      * rewrite HF1 in H. discriminate H.
      * apply IHnone. now rewrite HF2.
    + (* SetS r *)
      apply N.eqb_eq in HF3, HF2.
      constructor; simpl; intros H.
      * rewrite HF1 in H. auto using OKR_app.
      * rewrite HF0 in H. auto using OKR_app.
      * now apply act_gives_OKR.
      * rewrite HF2 in H. discriminate H.
      * apply IHnone. now rewrite HF3.
    + (* Report *)
      apply N.eqb_eq in HF3.
      assert (R0 : rep_reason s0 = RNone) by (apply IHnone; now rewrite HF3).
      constructor; simpl; intros H.
      * rewrite HF1 in H. auto using OKR_app.
      * rewrite HF0 in H. auto using OKR_app.
      * auto using OKR_app.
      * rewrite R0. simpl. split; [reflexivity | assumption].
      * rewrite H in HF2. discriminate HF2.
Qed.

Lemma reason_names_cause : forall sched,
  let s := exec (step code_cfg) sched init in
  n_disc (ctl_of s) <> 0 ->
  rep_reason s = s_reason s /\
  exists c, In (ACause c) sched /\ In (rep_reason s) (cause_reasons c).
Proof.
  intros sched s H. destruct (RI_all sched) as [_ _ Hs Hrep _]. fold s in Hs, Hrep.
  apply N.eqb_neq in H. destruct (Hrep H) as [R1 R2]. split; [exact R1|].
  rewrite R1. apply Hs. exact R2.
Qed.

Lemma never_forced_server_close : forall sched,
  rep_reason (exec (step code_cfg) sched init) <> RForcedServerClose
  /\ rep_reason (exec (step code_cfg) sched init) <> RParseError.
Proof.
  intros sched. destruct (RI_all sched) as [_ _ Hs Hrep Hnone].
  set (s := exec (step code_cfg) sched init) in *.
  destruct (n_disc (ctl_of s) =? 0) eqn:E.
  - rewrite (Hnone eq_refl). split; discriminate.
  - destruct (Hrep eq_refl) as [R1 R2]. rewrite R1. destruct (Hs R2) as (c & _ & Hin).
    destruct c; simpl in Hin;
      repeat (destruct Hin as [Hin|Hin]; [rewrite <- Hin; split; discriminate|]); destruct Hin.
Qed.
