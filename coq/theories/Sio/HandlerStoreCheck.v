(** Executable comparison ([…_model]) and property oracle ([…_spec]) used by the C18
    correspondence check (kernel evaluation on what the real registries returned). *)
From SioV Require Import Base.GoSem Sio.HandlerStore Sio.HandlerStoreHeap.

(** What the occurrences of one run returned, as a digit stream: per occurrence one digit (id+1,
    ids 0..5) per handler run and a closing 0.  The harness sends the same digits (as one base-8
    number with a leading 1) and appends the digit 7 and stops when a call panicked (the model
    never does). *)
Definition digits_of (outs : list (list N)) : list N :=
  flat_map (fun l => map N.succ l ++ [0%N]) outs.
Definition enc_digits (ds : list N) : N := fold_left (fun n d => n * 8 + d)%N ds 1%N.

(** 61-bit polynomial digest of digit streams (the harness computes the same function on what
    the implementation returned; a mismatch is then located by the exact comparison below). *)
Definition M61 : N := 2305843009213693951%N.
Definition red (x : N) : N :=
  let y := (N.land x M61 + N.shiftr x 61)%N in if (M61 <=? y)%N then (y - M61)%N else y.
Definition hstep (h x : N) : N := red (red (h * 1000003 + x + 1)%N).
Definition hseq (h : N) (ds : list N) : N := hstep (fold_left hstep ds h) 9%N.

(** All op sequences of length [d] over [alpha], first op most significant (harness order). *)
Fixpoint seqs {X} (alpha : list X) (d : nat) : list (list X) :=
  match d with
  | O => [[]]
  | S d' => flat_map (fun o => map (cons o) (seqs alpha d')) alpha
  end.

Fixpoint bad_from {X} (f : list X -> list N) (pre suf : list X) (i : N)
         (ss : list (list X)) (obs : list N) : list N :=
  match ss, obs with
  | [], [] => []
  | s :: ss', o :: obs' =>
      if N.eqb (enc_digits (f (pre ++ s ++ suf))) o then bad_from f pre suf (N.succ i) ss' obs'
      else i :: bad_from f pre suf (N.succ i) ss' obs'
  | _, _ => [4000000000%N]         (* observation count does not match the enumeration *)
  end.

(** Indexes (in enumeration order) of the sequences [pre ++ s ++ suf], [s] of length [d] over
    [alpha], on which [f] differs from the observed number. *)
Definition enum_bad {X} (f : list X -> list N) (alpha pre suf : list X) (d : nat) (obs : list N) : list N :=
  bad_from f pre suf 0%N (seqs alpha d) obs.

(** Same, each index with the finding-class flag of its sequence. *)
Fixpoint bad_cls_from {X} (f : list X -> list N) (cls : list X -> bool) (pre suf : list X) (i : N)
         (ss : list (list X)) (obs : list N) : list (N * bool) :=
  match ss, obs with
  | [], [] => []
  | s :: ss', o :: obs' =>
      let ops := pre ++ s ++ suf in
      if N.eqb (enc_digits (f ops)) o then bad_cls_from f cls pre suf (N.succ i) ss' obs'
      else (i, cls ops) :: bad_cls_from f cls pre suf (N.succ i) ss' obs'
  | _, _ => [(4000000000%N, false)]
  end.

Definition nlen {X} (l : list X) : N := N.of_nat (length l).

(** One row of an enumerated suite, as a flat list of numbers:
    [#model-mismatches; k; first k indexes;  #spec-failures in the finding class; k; first k;
     #spec-failures outside the class; k; first k]. *)
Definition enum_check {X} (fm fs : list X -> list N) (cls : list X -> bool)
           (alpha pre suf : list X) (d : nat) (obs : list N) : list N :=
  let bm := enum_bad fm alpha pre suf d obs in
  let bs := bad_cls_from fs cls pre suf 0%N (seqs alpha d) obs in
  let bin := map fst (filter (fun x => snd x) bs) in
  let bout := map fst (filter (fun x => negb (snd x)) bs) in
  let part l := nlen l :: nlen (firstn 20 l) :: firstn 20 l in
  part bm ++ part bin ++ part bout.

Definition no_class {X} (_ : list X) : bool := false.

(** One row by digest: [digest of the model over all sequences; digest of the specification over
    the sequences outside the finding class; #sequences in the class; #of those on which the
    specification differs from the model; index+1 of the first such (0 if none)]. *)
Fixpoint digest_from {X} (fm fs : list X -> list N) (cls : list X -> bool) (pre suf : list X)
         (ss : list (list X)) (i hm hs nin nfail first : N) : list N :=
  match ss with
  | [] => [hm; hs; nin; nfail; first]
  | s :: ss' =>
      let ops := pre ++ s ++ suf in
      let dm := fm ops in
      let hm' := hseq hm dm in
      if cls ops then
        let differs := negb (list_eqb N.eqb dm (fs ops)) in
        digest_from fm fs cls pre suf ss' (N.succ i) hm' hs (N.succ nin)
                    (if differs then N.succ nfail else nfail)
                    (if differs && N.eqb first 0 then N.succ i else first)
      else
        digest_from fm fs cls pre suf ss' (N.succ i) hm' (hseq hs (fs ops)) nin nfail first
  end.
Definition enum_digest {X} (fm fs : list X -> list N) (cls : list X -> bool)
           (alpha pre suf : list X) (d : nat) : list N :=
  digest_from fm fs cls pre suf (seqs alpha d) 0%N 7%N 7%N 0%N 0%N 0%N.

(** *** handlerStore[T] driven directly (handlers are pointers, ids 0..5). *)
Definition ls_model (ops : list (op N)) : list N := digits_of (outs N N.eqb ops).
Definition ls_spec (ops : list (op N)) : list N := digits_of (spec_outs N N.eqb ops).

(** *** eventHandlerStore, directly and through OnEvent/OnceEvent/OffEvent/OffAll of namespace /
    server socket / client socket objects.  A handler is (code pointer, closure instance); the
    harness menu is such that code+instance is a distinct digit. *)
Definition fdigit (a : fval) : N := (fst a + snd a)%N.
Definition es_model (ops : list (eop fval)) : list N :=
  digits_of (map (fun x => map fdigit (snd x)) (eouts fval same_code ops)).
Definition es_spec (ops : list (eop fval)) : list N :=
  digits_of (map (fun x => map fdigit (snd x)) (espec_outs fval same_fval ops)).
(** finding class closures-share-code-pointer *)
Definition es_class (ops : list (eop fval)) : bool := negb (code_identifies (ehandlers_of ops)).

(** *** lifecycle handlers through OnX/OnceX/OffX/OffAll of the public objects. *)
Definition api_model (ops : list aop) : list N := digits_of (aouts ops).
Definition api_spec (ops : list aop) : list N := digits_of (spec_outs N N.eqb (map aop_spec ops)).
(** finding class off-by-func-identity:lifecycle *)
Definition api_class (ops : list aop) : bool := existsb names_handler ops.

(** Small numbers by name (numeral parsing dominates the cost of literal cases). *)
Definition n0 := 0%N. Definition n1 := 1%N. Definition n2 := 2%N. Definition n3 := 3%N.
Definition n4 := 4%N. Definition n5 := 5%N. Definition n6 := 6%N. Definition n7 := 7%N.
Definition n8 := 8%N. Definition n9 := 9%N.

(** *** Explicit cases (long random sequences): ops, what each occurrence returned, whether a call
    panicked, final slice lengths. *)
Definition lcase := (list (op N) * list (list N) * bool * (N * N * N))%type.
Definition lens_of (s : store N) : N * N * N :=
  (N.of_nat (length (funcs s)), N.of_nat (length (once s)), N.of_nat (length (subs s))).
Definition ls_agree (c : lcase) : bool :=
  let '(ops, obs, panicked, (lf, lo, lsb)) := c in
  let '(s, o) := run N N.eqb empty ops in
  negb panicked && list_eqb (list_eqb N.eqb) o obs &&
  (let '(a, b, d) := lens_of s in N.eqb a lf && N.eqb b lo && N.eqb d lsb).
Definition ls_oracle (c : lcase) : bool :=
  let '(ops, obs, panicked, _) := c in
  negb panicked && list_eqb (list_eqb N.eqb) (spec_outs N N.eqb ops) obs.

Definition ecase := (list (eop fval) * list (list N) * bool * (N * N))%type.
Definition es_agree (c : ecase) : bool :=
  let '(ops, obs, panicked, (le, lo)) := c in
  let '(s, o) := erun fval same_code eempty ops in
  negb panicked && list_eqb (list_eqb N.eqb) (map (fun x => map fdigit (snd x)) o) obs &&
  N.eqb (N.of_nat (length (events s))) le && N.eqb (N.of_nat (length (eventsOnce s))) lo.
Definition es_oracle (c : ecase) : bool :=
  let '(ops, obs, panicked, _) := c in
  negb panicked &&
  list_eqb (list_eqb N.eqb) (map (fun x => map fdigit (snd x)) (espec_outs fval same_fval ops)) obs.
Definition es_case_class (c : ecase) : bool :=
  let '(ops, _, _, _) := c in es_class ops.

(** the same through a public object (map sizes not observable) *)
Definition ecase' := (list (eop fval) * list (list N) * bool)%type.
Definition es_agree_nolens (c : ecase') : bool :=
  let '(ops, obs, panicked) := c in
  negb panicked && list_eqb (list_eqb N.eqb) (map (fun x => map fdigit (snd x)) (eouts fval same_code ops)) obs.
Definition es_oracle_nolens (c : ecase') : bool :=
  let '(ops, obs, panicked) := c in es_oracle (ops, obs, panicked, (0%N, 0%N)).
Definition es_class_nolens (c : ecase') : bool :=
  let '(ops, _, _) := c in es_class ops.

Definition acase := (list aop * list (list N) * bool)%type.
Definition api_agree (c : acase) : bool :=
  let '(ops, obs, panicked) := c in
  negb panicked && list_eqb (list_eqb N.eqb) (aouts ops) obs.
Definition api_oracle (c : acase) : bool :=
  let '(ops, obs, panicked) := c in
  negb panicked && list_eqb (list_eqb N.eqb) (spec_outs N N.eqb (map aop_spec ops)) obs.
Definition api_case_class (c : acase) : bool :=
  let '(ops, _, _) := c in api_class ops.

(** *** Concurrent once race: per once-handler the number of times it was run, as a histogram
    (count, how many handlers had that count); and per On handler (runs, occurrences). *)
Definition race_oracle (c : list (N * N) * list (N * N)) : bool :=
  let '(once_hist, on_runs) := c in
  forallb (fun x => N.leb (fst x) 1 || N.eqb (snd x) 0) once_hist &&
  forallb (fun x => N.eqb (fst x) (snd x)) on_runs.

(** *** Occurrences in progress (re-entrant / concurrent registry calls during a dispatch).
    The harness records what it executed as a flat step list: a registry call, the start of
    occurrence number k (its getAll), "the loop of occurrence k handed handler id to the
    dispatcher" (then follow the calls that handler - or another goroutine meanwhile - made), the end
    of the loop of occurrence k. *)
Inductive ostep (X : Type) := OOp (o : X) | OBegin (o : X) | ONext (k id : N) | OEnd (k : N).
Arguments OOp {X}. Arguments OBegin {X}. Arguments ONext {X}. Arguments OEnd {X}.

(** the call history: an occurrence counts where its getAll ran *)
Definition hist {X} (steps : list (ostep X)) : list X :=
  flat_map (fun s => match s with OOp o | OBegin o => [o] | _ => [] end) steps.
Definition obs_of {X} (steps : list (ostep X)) (k : N) : list N :=
  flat_map (fun s => match s with ONext k' id => if N.eqb k' k then [id] else [] | _ => [] end) steps.
Definition ended {X} (steps : list (ostep X)) (k : N) : bool :=
  existsb (fun s => match s with OEnd k' => N.eqb k' k | _ => false end) steps.
Definition nbegins {X} (steps : list (ostep X)) : nat :=
  length (filter (fun s => match s with OBegin _ => true | _ => false end) steps).

(** every occurrence ran exactly the expected handlers, in order, and its loop ended *)
Fixpoint disp_ok_from {X} (steps : list (ostep X)) (k : N) (expected : list (list N)) : bool :=
  match expected with
  | [] => true
  | l :: r => list_eqb N.eqb (obs_of steps k) l && ended steps k && disp_ok_from steps (N.succ k) r
  end.
Definition disp_ok {X} (steps : list (ostep X)) (expected : list (list N)) : bool :=
  Nat.eqb (nbegins steps) (length expected) && disp_ok_from steps 0%N expected.

Definition rcase (X : Type) := (list (ostep X) * bool)%type.     (* steps, a call panicked *)

Definition re_ls_agree (c : rcase (op N)) : bool :=
  let '(steps, p) := c in negb p && disp_ok steps (outs N N.eqb (hist steps)).
Definition re_ls_oracle (c : rcase (op N)) : bool :=
  let '(steps, p) := c in negb p && disp_ok steps (spec_outs N N.eqb (hist steps)).

Definition re_api_agree (c : rcase aop) : bool :=
  let '(steps, p) := c in negb p && disp_ok steps (aouts (hist steps)).
Definition re_api_oracle (c : rcase aop) : bool :=
  let '(steps, p) := c in negb p && disp_ok steps (spec_outs N N.eqb (map aop_spec (hist steps))).
Definition re_api_class (c : rcase aop) : bool := let '(steps, _) := c in api_class (hist steps).

(** replay on the heap machine: every loop iteration must hand out the observed handler *)
Fixpoint heap_replay (st : hstate fval) (steps : list (ostep (eop fval))) : bool :=
  match steps with
  | [] => true
  | OOp o :: r => heap_replay (fst (HandlerStoreHeap.hstep fval same_code st (SOp o))) r
  | OBegin (EFire e) :: r => heap_replay (fst (HandlerStoreHeap.hstep fval same_code st (SBegin e))) r
  | OBegin _ :: _ => false
  | ONext k id :: r =>
      match HandlerStoreHeap.hstep fval same_code st (SNext (N.to_nat k)) with
      | (st', Some (_, Some a)) => N.eqb (fdigit a) id && heap_replay st' r
      | _ => false
      end
  | OEnd k :: r =>
      match nth_error (hdisp fval st) (N.to_nat k) with
      | Some d => Nat.eqb (didx fval d) (slen (dview fval d)) && heap_replay st r
      | None => false
      end
  end.

Definition edigits (l : list (N * list fval)) : list (list N) := map (fun x => map fdigit (snd x)) l.
Definition re_es_agree (c : rcase (eop fval)) : bool :=
  let '(steps, p) := c in
  negb p && heap_replay (hempty fval) steps
  && disp_ok steps (edigits (eouts fval same_code (hist steps))).
Definition re_es_oracle (c : rcase (eop fval)) : bool :=
  let '(steps, p) := c in negb p && disp_ok steps (edigits (espec_outs fval same_fval (hist steps))).
Definition re_es_class (c : rcase (eop fval)) : bool := let '(steps, _) := c in es_class (hist steps).

(** *** Linearizability certificates.  All theorems about concurrency (C18_once_at_most_once, ...)
    assume that each registry method is ONE atomic step of the model.  The harness runs several
    goroutines against one registry, stamps every call at invocation and at response with a global
    clock, and the check searches an order of the calls (a) that respects real time - a call that
    had returned before another was invoked comes first - and (b) under which the atomic model
    returns what every occurrence observed.  The order found is verified here: (a) by
    [lin_order_ok] on the (invocation, response) stamps listed in that order, (b) by the ordinary
    [*_agree] / [*_oracle] functions on the calls listed in that order. *)
Fixpoint lin_order_ok (stamps : list (N * N)) : bool :=
  match stamps with
  | [] => true
  | (inv, _) :: rest =>
      forallb (fun later => negb (N.ltb (snd later) inv)) rest && lin_order_ok rest
  end.
