(** Executable comparison ([…_model]) and property oracle ([…_spec]) used by the C18
    correspondence check (kernel evaluation on what the real registries returned). *)
From SioV Require Import Base.GoSem Sio.HandlerStore.

(** What the occurrences of one run returned, as one number in base 8: a leading 1, then per
    occurrence one digit (id+1, ids 0..5) per handler run and a closing 0; the harness appends the
    digit 7 and stops when a call panicked (the model never does). *)
Definition enc_outs (outs : list (list N)) : N :=
  fold_left (fun n l => (fold_left (fun n x => n * 8 + (x + 1)) l n) * 8)%N outs 1%N.

(** All op sequences of length [d] over [alpha], first op most significant (harness order). *)
Fixpoint seqs {X} (alpha : list X) (d : nat) : list (list X) :=
  match d with
  | O => [[]]
  | S d' => flat_map (fun o => map (cons o) (seqs alpha d')) alpha
  end.

Fixpoint bad_from {X} (f : list X -> N) (pre suf : list X) (i : N)
         (ss : list (list X)) (obs : list N) : list N :=
  match ss, obs with
  | [], [] => []
  | s :: ss', o :: obs' =>
      if N.eqb (f (pre ++ s ++ suf)) o then bad_from f pre suf (N.succ i) ss' obs'
      else i :: bad_from f pre suf (N.succ i) ss' obs'
  | _, _ => [4000000000%N]         (* observation count does not match the enumeration *)
  end.

(** Indexes (in enumeration order) of the sequences [pre ++ s ++ suf], [s] of length [d] over
    [alpha], on which [f] differs from the observed number. *)
Definition enum_bad {X} (f : list X -> N) (alpha pre suf : list X) (d : nat) (obs : list N) : list N :=
  bad_from f pre suf 0%N (seqs alpha d) obs.

(** Which of the given indexes are sequences of the finding class [cls]. *)
Definition in_class {X} (cls : list X -> bool) (alpha pre suf : list X) (d : nat) (idx : list N) : list bool :=
  map (fun i => cls (pre ++ nth (N.to_nat i) (seqs alpha d) [] ++ suf)) idx.

(** *** handlerStore[T] driven directly (handlers are pointers, ids 0..5). *)
Definition ls_model (ops : list (op N)) : N := enc_outs (outs N N.eqb ops).
Definition ls_spec (ops : list (op N)) : N := enc_outs (spec_outs N N.eqb ops).

(** *** eventHandlerStore, directly and through OnEvent/OnceEvent/OffEvent/OffAll of namespace /
    server socket / client socket objects.  A handler is (code pointer, closure instance); the
    harness menu is such that code+instance is a distinct digit. *)
Definition fdigit (a : fval) : N := (fst a + snd a)%N.
Definition es_model (ops : list (eop fval)) : N :=
  enc_outs (map (fun x => map fdigit (snd x)) (eouts fval same_code ops)).
Definition es_spec (ops : list (eop fval)) : N :=
  enc_outs (map (fun x => map fdigit (snd x)) (espec_outs fval same_fval ops)).
(** finding class closures-share-code-pointer *)
Definition es_class (ops : list (eop fval)) : bool := negb (code_identifies (ehandlers_of ops)).

(** *** lifecycle handlers through OnX/OnceX/OffX/OffAll of the public objects. *)
Definition api_model (ops : list aop) : N := enc_outs (aouts ops).
Definition api_spec (ops : list aop) : N := enc_outs (spec_outs N N.eqb (map aop_spec ops)).
(** finding class off-by-func-identity:lifecycle *)
Definition api_class (ops : list aop) : bool := existsb names_handler ops.

(** *** Explicit cases (long random sequences): ops, what each occurrence returned, whether a call
    panicked, final slice lengths. *)
Definition lcase := (list (op N) * list (list N) * bool * (N * N * N))%type.
Definition lens_of (s : store N) : N * N * N :=
  (N.of_nat (length (funcs s)), N.of_nat (length (once s)), N.of_nat (length (subs s))).
Definition ls_agree (c : lcase) : bool :=
  let '(ops, obs, panicked, (lf, lo, lsb)) := c in
  let '(s, o) := run N N.eqb empty ops in
  negb panicked && list_eqb (list_eqb N.eqb) o obs &&
  (let '(a, b, d) := lens_of s in N.eqb a lf && N.eqb b lo && N.eqb d lsb).
Definition ls_oracle (c : lcase) : bool :=
  let '(ops, obs, panicked, _) := c in
  negb panicked && list_eqb (list_eqb N.eqb) (spec_outs N N.eqb ops) obs.

Definition ecase := (list (eop fval) * list (list N) * bool * (N * N))%type.
Definition es_agree (c : ecase) : bool :=
  let '(ops, obs, panicked, (le, lo)) := c in
  let '(s, o) := erun fval same_code eempty ops in
  negb panicked && list_eqb (list_eqb N.eqb) (map (fun x => map fdigit (snd x)) o) obs &&
  N.eqb (N.of_nat (length (events s))) le && N.eqb (N.of_nat (length (eventsOnce s))) lo.
Definition es_oracle (c : ecase) : bool :=
  let '(ops, obs, panicked, _) := c in
  negb panicked &&
  list_eqb (list_eqb N.eqb) (map (fun x => map fdigit (snd x)) (espec_outs fval same_fval ops)) obs.
Definition es_case_class (c : ecase) : bool :=
  let '(ops, _, _, _) := c in es_class ops.

Definition acase := (list aop * list (list N) * bool)%type.
Definition api_agree (c : acase) : bool :=
  let '(ops, obs, panicked) := c in
  negb panicked && list_eqb (list_eqb N.eqb) (aouts ops) obs.
Definition api_oracle (c : acase) : bool :=
  let '(ops, obs, panicked) := c in
  negb panicked && list_eqb (list_eqb N.eqb) (spec_outs N N.eqb (map aop_spec ops)) obs.
Definition api_case_class (c : acase) : bool :=
  let '(ops, _, _) := c in api_class ops.

(** *** Concurrent once race: per once-handler the number of times it was run, as a histogram
    (count, how many handlers had that count); and per On handler (runs, occurrences). *)
Definition race_oracle (c : list (N * N) * list (N * N)) : bool :=
  let '(once_hist, on_runs) := c in
  forallb (fun x => N.leb (fst x) 1 || N.eqb (snd x) 0) once_hist &&
  forallb (fun x => N.eqb (fst x) (snd x)) on_runs.
