(** Proofs about Sio/AckQueue.v (client retry queue, property C03), for all schedules. *)
From Coq Require Import List Arith Bool Lia NArith.
From SioV Require Import Base.GoSem Base.Conc Sio.Ack Sio.AckProofs Sio.AckQueue.
Import ListNotations.

Definition isLive (p : nat) (x : nat * nat * bool) : bool := Nat.eqb (fst (fst x)) p && snd x.
Definition isPreT (p : nat) (r : rapc) : bool :=
  match r with
  | RA0 q _ | RAShift q _ => Nat.eqb q p
  | RAClear q false => Nat.eqb q p
  | _ => false
  end.
Definition isCallT (p : nat) (r : rapc) : bool := match r with RACall q _ => Nat.eqb q p | _ => false end.
Definition isClearF (p : nat) (r : rapc) : bool := match r with RAClear q true => Nat.eqb q p | _ => false end.
Definition isQ (p : nat) (x : nat) : bool := Nat.eqb x p.
Definition isLogQ (p : nat) (x : nat * outcome) : bool := Nat.eqb (fst x) p.

Definition cq s p := cnt (isQ p) (qs_queue s).
Definition ncall s p := cnt (isCallT p) (qs_threads s).
Definition nlog s p := cnt (isLogQ p) (qs_log s).
Definition pre s p := cnt (isLive p) (qs_attempts s) + cnt (isPreT p) (qs_threads s).
Definition nclf s p := cnt (isClearF p) (qs_threads s).

(** per packet: one "callback token" (queue entry -> the goroutine about to call -> the logged call);
    at most one holder before the shift, only while [pending], and only for the HEAD of the queue;
    a goroutine past its callback belongs to a packet that has been called *)
Definition qnum (pend : bool) (c nc nl pr nf : nat) (hd : option nat) (p : nat) : Prop :=
  c + nc + nl <= 1 /\ pr <= b2n pend /\ (1 <= pr -> hd = Some p) /\ nf <= nl.

Definition qinv (s : qstate) : Prop :=
  (forall p q, nth_error (qs_packets s) p = Some q ->
     qnum (q_pending q) (cq s p) (ncall s p) (nlog s p) (pre s p) (nclf s p) (hd_error (qs_queue s)) p)
  /\ (forall p, length (qs_packets s) <= p -> cq s p + ncall s p + nlog s p + pre s p + nclf s p = 0).

Definition q_is_init (s : qstate) : Prop := exists r c, s = q_init r c.
Definition qreach := reachable qstep q_is_init.          (* everything, forced drains included *)
Definition qreach_nf := reachable qstep_nf q_is_init.    (* without the finding class *)

Lemma isLive_live p' p t : isLive p' (p, t, true) = Nat.eqb p p'.
Proof. unfold isLive. simpl. apply andb_true_r. Qed.
Lemma isLive_dead p' p t : isLive p' (p, t, false) = false.
Proof. unfold isLive. simpl. apply andb_false_r. Qed.

Lemma hd_cnt p l : hd_error l = Some p -> 1 <= cnt (isQ p) l.
Proof. destruct l; simpl; [discriminate|]. intros [= ->]. rewrite cnt_cons. unfold isQ. rewrite Nat.eqb_refl. simpl. lia. Qed.

Lemma hd_app {A} (l m : list A) x : hd_error l = Some x -> hd_error (l ++ m) = Some x.
Proof. destruct l; simpl; [discriminate | auto]. Qed.

Ltac qunf := unfold cq, ncall, nlog, pre, nclf in *;
  unfold q_with_conn, q_with_packets, q_with_queue, q_with_attempts, q_with_threads, q_with_drains, q_with_log in *;
  simpl qs_queue in *; simpl qs_threads in *; simpl qs_log in *; simpl qs_attempts in *; simpl qs_packets in *.

(** drainQueue keeps the invariant, provided a forced drain does not hit a pending head *)
Lemma qinv_drain force s : qinv s -> (force = false \/ head_pending s = false) -> qinv (drain force s).
Proof.
  intros HI Hf. pose proof HI as [H1 H2]. unfold drain.
  destruct (qs_conn s); [|exact HI].
  destruct (qs_queue s) as [|h rest] eqn:Q; [exact HI|].
  destruct (nth_error (qs_packets s) h) as [q|] eqn:G; [|exact HI].
  destruct (q_pending q && negb force) eqn:C; [exact HI|].
  assert (Pq : q_pending q = false).
  { destruct Hf as [->|Hp].
    - rewrite andb_true_r in C. exact C.
    - unfold head_pending in Hp. rewrite Q in Hp. unfold q_pending_of in Hp. now rewrite G in Hp. }
  pose proof (nth_some_lt _ _ _ G) as Lh.
  split.
  - intros p q' Gp. qunf. rewrite Q. simpl hd_error. rewrite cnt_snoc.
    destruct (Nat.eq_dec p h) as [->|Ne].
    + rewrite nth_upd_same in Gp by exact Lh. inversion Gp; subst. simpl q_pending.
      destruct (H1 h q G) as (A & B & C' & D). qunf. rewrite Q in *. rewrite Pq in B. simpl in B.
      rewrite isLive_live, Nat.eqb_refl. simpl.
      unfold qnum; cbn [b2n]; repeat split; try lia.
    + rewrite nth_upd_other in Gp by exact Ne.
      destruct (H1 p q' Gp) as (A & B & C' & D). qunf. rewrite Q in *.
      rewrite isLive_live, (eqb_neq_false h p (not_eq_sym Ne)). simpl.
      unfold qnum; cbn [b2n]; repeat split; try lia. intros L. apply C'. lia.
  - intros p Lp. qunf. rewrite length_upd_nth in Lp. rewrite cnt_snoc.
    rewrite isLive_live. assert (Ne : h <> p) by lia. rewrite (eqb_neq_false _ _ Ne). simpl.
    specialize (H2 p Lp). qunf. lia.
Qed.

Lemma qinv_threads_neutral s k r r' :
  qinv s -> nth_error (qs_threads s) k = Some r ->
  (forall p, isPreT p r = false /\ isCallT p r = false /\ isClearF p r = false) ->
  (forall p, isPreT p r' = false /\ isCallT p r' = false /\ isClearF p r' = false) ->
  qinv (q_with_threads s (upd_nth k r' (qs_threads s))).
Proof.
  intros [H1 H2] R N N'.
  assert (E : forall p, ncall (q_with_threads s (upd_nth k r' (qs_threads s))) p = ncall s p
                     /\ pre (q_with_threads s (upd_nth k r' (qs_threads s))) p = pre s p
                     /\ nclf (q_with_threads s (upd_nth k r' (qs_threads s))) p = nclf s p).
  { intros p. qunf. destruct (N p) as (a & b & c). destruct (N' p) as (a' & b' & c').
    pose proof (cnt_upd_nth (isPreT p) _ k r r' R). pose proof (cnt_upd_nth (isCallT p) _ k r r' R).
    pose proof (cnt_upd_nth (isClearF p) _ k r r' R).
    rewrite a, b, c, a', b', c' in *. simpl in *. repeat split; lia. }
  split.
  - intros p q G. destruct (E p) as (A & B & C). rewrite A, B, C. exact (H1 p q G).
  - intros p L. destruct (E p) as (A & B & C). rewrite A, B, C. exact (H2 p L).
Qed.

Lemma qinv_init s : q_is_init s -> qinv s.
Proof.
  intros (r & c & ->). split.
  - intros p q G. destruct p; discriminate.
  - intros p _. reflexivity.
Qed.

(** one step of the system without the finding class *)
Lemma qinv_step s l s' : qinv s -> qstep_nf l s = Some s' -> qinv s'.
Proof.
  intros HI Hs. destruct l as [| | |a o|k| |]; simpl in Hs.
  - (* QAdd *)
    inversion Hs; subst; clear Hs. destruct HI as [H1 H2]. set (n := length (qs_packets s)).
    split.
    + intros p q G. qunf. rewrite cnt_snoc. unfold isQ at 2.
      destruct (Nat.lt_ge_cases p n) as [L|L].
      * rewrite nth_error_app1 in G by exact L. destruct (H1 p q G) as (A & B & C & D). qunf.
        assert (Ne : n <> p) by lia. rewrite (eqb_neq_false _ _ Ne). simpl.
        unfold qnum; cbn [b2n]; repeat split; try lia. intros L1. apply hd_app. now apply C.
      * rewrite nth_error_app2 in G by exact L. fold n in G.
        destruct (p - n) as [|[|m]] eqn:E; simpl in G; try discriminate. inversion G; subst.
        assert (p = n) by lia. subst p. specialize (H2 n (le_n _)). qunf. rewrite Nat.eqb_refl. simpl.
        unfold qnum; cbn [b2n]; repeat split; try lia.
    + intros p L. qunf. rewrite app_length in L. simpl in L. rewrite cnt_snoc. unfold isQ at 2.
      assert (Ne : n <> p) by (unfold n; lia). rewrite (eqb_neq_false _ _ Ne). simpl.
      assert (L' : length (qs_packets s) <= p) by lia. specialize (H2 p L'). qunf. lia.
  - (* QDrain *)
    destruct (qs_drains s) as [|n]; [discriminate|]. inversion Hs; subst; clear Hs.
    apply qinv_drain; [|now left]. exact HI.
  - (* QForceDrain, not on a pending head *)
    destruct (head_pending s) eqn:HP; [discriminate|]. simpl in Hs. inversion Hs; subst; clear Hs.
    apply qinv_drain; [exact HI | now right].
  - (* QOutcome *)
    destruct (nth_error (qs_attempts s) a) as [[[p t] [|]]|] eqn:A; try discriminate.
    inversion Hs; subst; clear Hs. destruct HI as [H1 H2].
    pose proof (fun p' => cnt_upd_nth (isLive p') _ a _ (p, t, false) A) as U.
    split.
    + intros p' q G. destruct (H1 p' q G) as (X & B & C & D). specialize (U p'). qunf. rewrite !cnt_snoc.
      rewrite isLive_live, isLive_dead in U. simpl in U. simpl.
      unfold qnum; cbn [b2n]; repeat split; try lia. intros L. apply C. lia.
    + intros p' L. specialize (H2 p' L). specialize (U p'). qunf. rewrite !cnt_snoc.
      rewrite isLive_live, isLive_dead in U. simpl in U. simpl. lia.
  - (* QRA *)
    destruct (nth_error (qs_threads s) k) as [r|] eqn:R; [|discriminate].
    destruct r as [p o|p o|p o|p fin| | |]; try discriminate.
    + (* RA0: decide *)
      inversion Hs; subst; clear Hs. destruct HI as [H1 H2].
      match goal with |- qinv (q_with_threads s (upd_nth k ?nx _)) => set (next := nx) end.
      assert (NX : forall p', isPreT p' next = Nat.eqb p p' /\ isCallT p' next = false /\ isClearF p' next = false).
      { intros p'. unfold next. destruct (is_timeout_o o); [destruct (nth_error (qs_packets s) p) as [q|]; [destruct (qs_retries s <? q_try q)|]|]; simpl; auto. }
      assert (E : forall p', ncall (q_with_threads s (upd_nth k next (qs_threads s))) p' = ncall s p'
                     /\ pre (q_with_threads s (upd_nth k next (qs_threads s))) p' = pre s p'
                     /\ nclf (q_with_threads s (upd_nth k next (qs_threads s))) p' = nclf s p').
      { intros p'. qunf. destruct (NX p') as (a & b & c).
        pose proof (cnt_upd_nth (isPreT p') _ k _ next R). pose proof (cnt_upd_nth (isCallT p') _ k _ next R).
        pose proof (cnt_upd_nth (isClearF p') _ k _ next R). rewrite a, b, c in *. simpl in *. repeat split; lia. }
      split.
      * intros p' q G. destruct (E p') as (A & B & C). rewrite A, B, C. exact (H1 p' q G).
      * intros p' L. destruct (E p') as (A & B & C). rewrite A, B, C. exact (H2 p' L).
    + (* RAShift *)
      destruct HI as [H1 H2].
      pose proof (fun p' r' => cnt_upd_nth (isPreT p') _ k _ r' R) as UP.
      pose proof (fun p' r' => cnt_upd_nth (isCallT p') _ k _ r' R) as UC.
      pose proof (fun p' r' => cnt_upd_nth (isClearF p') _ k _ r' R) as UF.
      destruct (qs_queue s) as [|h rest] eqn:Q; inversion Hs; subst; clear Hs.
      * (* empty queue: the goroutine dies *)
        split.
        -- intros p' q G. destruct (H1 p' q G) as (X & B & C & D).
           specialize (UP p' RAPanicked). specialize (UC p' RAPanicked). specialize (UF p' RAPanicked).
           qunf. rewrite Q in *. rewrite ?cnt_nil in *. simpl in *. unfold qnum; cbn [b2n]; repeat split; try lia; try (intros L; apply C; lia).
        -- intros p' L. specialize (H2 p' L).
           specialize (UP p' RAPanicked). specialize (UC p' RAPanicked). specialize (UF p' RAPanicked).
           qunf. rewrite Q in *. rewrite ?cnt_nil in *. simpl in *. lia.
      * (* the head is this goroutine's own packet *)
        assert (Hp : h = p).
        { destruct (nth_error (qs_packets s) p) as [q|] eqn:G.
          - destruct (H1 p q G) as (_ & _ & C & _). qunf. simpl in C.
            pose proof (cnt_ge1 (isPreT p) _ _ _ R) as Z. simpl in Z. rewrite Nat.eqb_refl in Z. specialize (Z eq_refl).
            assert (HH : Some h = Some p) by (apply C; lia). now inversion HH.
          - apply nth_error_None in G. specialize (H2 p G). qunf.
            pose proof (cnt_ge1 (isPreT p) _ _ _ R) as Z. simpl in Z. rewrite Nat.eqb_refl in Z. specialize (Z eq_refl). lia. }
        subst h.
        split.
        -- intros p' q G. destruct (H1 p' q G) as (X & B & C & D).
           specialize (UP p' (RACall p o)). specialize (UC p' (RACall p o)). specialize (UF p' (RACall p o)).
           qunf. rewrite Q in *. rewrite cnt_cons in X. unfold isQ at 1 in X. simpl in *.
           destruct (Nat.eq_dec p' p) as [->|Ne].
           ++ rewrite Nat.eqb_refl in *. simpl in *. destruct (q_pending q); simpl in B;
                unfold qnum; cbn [b2n]; repeat split; try lia.
           ++ rewrite (eqb_neq_false p p' (not_eq_sym Ne)) in *. simpl in *.
              assert (P0 : cnt (isLive p') (qs_attempts s) + cnt (isPreT p') (qs_threads s) = 0).
              { destruct (Nat.eq_dec (cnt (isLive p') (qs_attempts s) + cnt (isPreT p') (qs_threads s)) 0) as [Z|Z]; [exact Z|].
                assert (HH : Some p = Some p') by (apply C; lia). inversion HH. congruence. }
              unfold qnum; cbn [b2n]; repeat split; try lia.
        -- intros p' L. specialize (H2 p' L).
           specialize (UP p' (RACall p o)). specialize (UC p' (RACall p o)). specialize (UF p' (RACall p o)).
           qunf. rewrite Q in *. rewrite cnt_cons in H2. simpl in *.
           destruct (Nat.eq_dec p' p) as [->|Ne].
           ++ rewrite Nat.eqb_refl in *. unfold isQ in H2. rewrite Nat.eqb_refl in H2. simpl in *. lia.
           ++ rewrite (eqb_neq_false p p' (not_eq_sym Ne)) in *. simpl in *. lia.
    + (* RACall: the user's callback *)
      inversion Hs; subst; clear Hs. destruct HI as [H1 H2].
      pose proof (fun p' => cnt_upd_nth (isPreT p') _ k _ (RAClear p true) R) as UP.
      pose proof (fun p' => cnt_upd_nth (isCallT p') _ k _ (RAClear p true) R) as UC.
      pose proof (fun p' => cnt_upd_nth (isClearF p') _ k _ (RAClear p true) R) as UF.
      split.
      * intros p' q G. destruct (H1 p' q G) as (X & B & C & D).
        specialize (UP p'). specialize (UC p'). specialize (UF p'). qunf. rewrite cnt_snoc. unfold isLogQ at 2. simpl in *.
        destruct (Nat.eqb p p'); simpl in *; unfold qnum; cbn [b2n]; repeat split; try lia; intros L; apply C; lia.
      * intros p' L. specialize (H2 p' L). specialize (UP p'). specialize (UC p'). specialize (UF p').
        qunf. rewrite cnt_snoc. unfold isLogQ at 2. simpl in *. destruct (Nat.eqb p p'); simpl in *; lia.
    + (* RAClear *)
      destruct HI as [H1 H2].
      pose proof (fun p' => cnt_upd_nth (isPreT p') _ k _ RADrain R) as UP.
      pose proof (fun p' => cnt_upd_nth (isCallT p') _ k _ RADrain R) as UC.
      pose proof (fun p' => cnt_upd_nth (isClearF p') _ k _ RADrain R) as UF.
      destruct (nth_error (qs_packets s) p) as [q0|] eqn:G0; inversion Hs; subst; clear Hs.
      * pose proof (nth_some_lt _ _ _ G0) as Lp.
        split.
        -- intros p' q G. specialize (UP p'). specialize (UC p'). specialize (UF p'). qunf.
           destruct (Nat.eq_dec p' p) as [->|Ne].
           ++ rewrite nth_upd_same in G by exact Lp. inversion G; subst. simpl q_pending.
              destruct (H1 p q0 G0) as (X & B & C & D). qunf. simpl in *.
              destruct fin; simpl in *; rewrite Nat.eqb_refl in *; simpl in *.
              ** (* final: the packet has been called, so it is not in the queue and has no holder *)
                 assert (P0 : cnt (isLive p) (qs_attempts s) + cnt (isPreT p) (qs_threads s) = 0).
                 { destruct (Nat.eq_dec (cnt (isLive p) (qs_attempts s) + cnt (isPreT p) (qs_threads s)) 0) as [Z|Z]; [exact Z|].
                   assert (HH : hd_error (qs_queue s) = Some p) by (apply C; lia).
                   apply hd_cnt in HH. lia. }
                 unfold qnum; cbn [b2n]; repeat split; try lia.
              ** destruct (q_pending q0); simpl in *; unfold qnum; cbn [b2n]; repeat split; try lia.
           ++ rewrite nth_upd_other in G by exact Ne. destruct (H1 p' q G) as (X & B & C & D). qunf. simpl in *.
              destruct fin; simpl in *; rewrite (eqb_neq_false p p' (not_eq_sym Ne)) in *; simpl in *;
                unfold qnum; cbn [b2n]; repeat split; try lia; intros L; apply C; lia.
        -- intros p' L. simpl in L. rewrite length_upd_nth in L. specialize (H2 p' L).
           specialize (UP p'). specialize (UC p'). specialize (UF p'). qunf. simpl in *.
           destruct fin; simpl in *; destruct (Nat.eqb p p'); simpl in *; lia.
      * split.
        -- intros p' q G. destruct (H1 p' q G) as (X & B & C & D).
           specialize (UP p'). specialize (UC p'). specialize (UF p'). qunf. simpl in *.
           assert (Ne : p <> p') by (apply nth_error_None in G0; apply nth_some_lt in G; lia).
           destruct fin; simpl in *; rewrite (eqb_neq_false p p' Ne) in *; simpl in *;
             unfold qnum; cbn [b2n]; repeat split; try lia; intros L; apply C; lia.
        -- intros p' L. specialize (H2 p' L). specialize (UP p'). specialize (UC p'). specialize (UF p'). qunf. simpl in *.
           destruct fin; simpl in *; destruct (Nat.eqb p p'); simpl in *; lia.
    + (* RADrain *)
      inversion Hs; subst; clear Hs. apply qinv_drain; [|now left].
      apply qinv_threads_neutral with (r := RADrain); auto; intros; simpl; auto.
  - destruct (qs_conn s); [discriminate|]. inversion Hs; subst; clear Hs. exact HI.
  - destruct (qs_conn s); [|discriminate]. inversion Hs; subst; clear Hs. exact HI.
Qed.

Lemma qinv_reach s : qreach_nf s -> qinv s.
Proof.
  apply invariant_reachable. split; [apply qinv_init | intros ? ? ? ? ?; eapply qinv_step; eauto].
Qed.

Lemma q_outcomes_length s p : length (q_outcomes s p) = nlog s p.
Proof. unfold q_outcomes, nlog. rewrite map_length. reflexivity. Qed.

(** at most once per user callback, for every schedule of emitters, outcomes, retries and drains *)
Lemma queue_at_most_once s p : qreach_nf s -> length (q_outcomes s p) <= 1.
Proof.
  intros R. destruct (qinv_reach s R) as [H1 H2]. rewrite q_outcomes_length.
  destruct (nth_error (qs_packets s) p) as [q|] eqn:G.
  - destruct (H1 p q G) as (A & _). lia.
  - apply nth_error_None in G. specialize (H2 p G). lia.
Qed.

(** the head stays pending until it has been shifted: while an attempt of [p] can still deliver, or a
    replacementAck goroutine of [p] has not yet shifted the queue / is on its retry path, [p] is the
    head of the queue, is marked pending, has not been called, and nobody else holds it *)
Lemma head_pending_until_shifted s p :
  qreach_nf s ->
  (exists a t, nth_error (qs_attempts s) a = Some (p, t, true))
  \/ (exists k r, nth_error (qs_threads s) k = Some r /\ isPreT p r = true) ->
  hd_error (qs_queue s) = Some p /\ q_pending_of s p = true /\ q_outcomes s p = [] /\ pre s p = 1.
Proof.
  intros R Hh. destruct (qinv_reach s R) as [H1 H2].
  assert (P1 : 1 <= pre s p).
  { unfold pre. destruct Hh as [(a & t & A)|(k & r & K & T)].
    - pose proof (cnt_ge1 (isLive p) _ _ _ A) as Z. unfold isLive in Z at 1. simpl in Z. rewrite Nat.eqb_refl in Z.
      specialize (Z eq_refl). lia.
    - pose proof (cnt_ge1 (isPreT p) _ _ _ K T). lia. }
  destruct (nth_error (qs_packets s) p) as [q|] eqn:G.
  - destruct (H1 p q G) as (A & B & C & D). specialize (C P1).
    pose proof (hd_cnt _ _ C) as HC. fold (cq s p) in HC.
    unfold q_pending_of. rewrite G. destruct (q_pending q); simpl in B; [|lia].
    repeat split; auto; [|lia].
    pose proof (q_outcomes_length s p) as OL. destruct (q_outcomes s p); [reflexivity | simpl in OL; lia].
  - apply nth_error_None in G. specialize (H2 p G). lia.
Qed.

Lemma drain_threads force s : qs_threads (drain force s) = qs_threads s.
Proof.
  unfold drain. destruct (qs_conn s); [|reflexivity]. destruct (qs_queue s); [reflexivity|].
  destruct (nth_error (qs_packets s) n); [|reflexivity]. destruct (q_pending q && negb force); reflexivity.
Qed.

(** the blind shift never hits an empty queue (no panic, no goroutine lost) *)
Lemma shift_never_panics s : qreach_nf s -> forall r, In r (qs_threads s) -> r <> RAPanicked.
Proof.
  intros R. induction R as [s0 (r0 & c & ->) | s l s' R IH St]; [intros r []|].
  intros r Hin E. subst r.
  destruct l as [| | |a o|k| |]; simpl in St.
  - inversion St; subst. now apply (IH RAPanicked).
  - destruct (qs_drains s); [discriminate|]. inversion St; subst. rewrite drain_threads in Hin. now apply (IH RAPanicked).
  - destruct (head_pending s); [discriminate|]. simpl in St. inversion St; subst. rewrite drain_threads in Hin.
    now apply (IH RAPanicked).
  - destruct (nth_error (qs_attempts s) a) as [[[p t] [|]]|]; try discriminate. inversion St; subst.
    simpl in Hin. apply in_app_or in Hin as [Hin|[Hin|[]]]; [now apply (IH RAPanicked) | discriminate].
  - destruct (nth_error (qs_threads s) k) as [r|] eqn:K; [|discriminate].
    assert (U : forall r', r' <> RAPanicked -> In RAPanicked (upd_nth k r' (qs_threads s)) -> False).
    { intros r' N Hi. apply in_upd_nth in Hi as [Hi|Hi]; [congruence | now apply (IH RAPanicked)]. }
    destruct r as [p o|p o|p o|p fin| | |]; try discriminate.
    + inversion St; subst. simpl in Hin. eapply U; [|exact Hin].
      destruct (is_timeout_o o); [destruct (nth_error (qs_packets s) p) as [q|]; [destruct (qs_retries s <? q_try q)|]|]; discriminate.
    + destruct (qs_queue s) as [|h rest] eqn:Q; inversion St; subst.
      * (* impossible: the goroutine's packet is the head *)
        destruct (head_pending_until_shifted s p R) as (HH & _).
        { right. exists k, (RAShift p o). split; [exact K | simpl; apply Nat.eqb_refl]. }
        rewrite Q in HH. discriminate.
      * simpl in Hin. eapply U; [|exact Hin]. discriminate.
    + inversion St; subst. simpl in Hin. eapply U; [|exact Hin]. discriminate.
    + destruct (nth_error (qs_packets s) p); inversion St; subst; simpl in Hin; (eapply U; [|exact Hin]; discriminate).
    + inversion St; subst. rewrite drain_threads in Hin. simpl in Hin.
      eapply U; [|exact Hin]. discriminate.
  - destruct (qs_conn s); [discriminate|]. inversion St; subst. now apply (IH RAPanicked).
  - destruct (qs_conn s); [|discriminate]. inversion St; subst. now apply (IH RAPanicked).
Qed.

(** the known finding inside the model: a reconnect drain that hits a pending head *)
Definition known_sched : list qlabel :=
  [QAdd; QDrain; QAdd; QDrain;          (* Emit q(41), Emit q(51): P0 sent (attempt 0), P1 waits behind it *)
   QForceDrain;                         (* reconnect: P0 sent again (attempt 1) while attempt 0 is armed *)
   QOutcome 0 OTimeout; QRA 0; QRA 0; QRA 0; QRA 0; QRA 0;   (* tryCount 2 > Retries 1: shift, cb(timeout), P1 sent (attempt 2) *)
   QOutcome 1 (OReply [42%N]); QRA 1; QRA 1; QRA 1; QRA 1; QRA 1;  (* shift removes P1 (!), cb of P0 again *)
   QOutcome 2 (OReply [52%N]); QRA 2; QRA 2].                 (* P1's reply: shift on the empty queue panics *)

Lemma known_finding_in_model :
  let s := qrun known_sched (q_init 1 true) in
  q_outcomes s 0 = [OTimeout; OReply [42%N]] /\ q_outcomes s 1 = [] /\ In RAPanicked (qs_threads s).
Proof. vm_compute. split; [reflexivity|]. split; [reflexivity|]. right; right; left; reflexivity. Qed.

Lemma qrun_reach sched s : qreach s -> qreach (qrun sched s).
Proof.
  revert s; induction sched as [|l sched IH]; intros s R; simpl; [exact R|].
  apply IH. destruct (qstep l s) eqn:E; [eapply reach_step; eauto | exact R].
Qed.

Lemma queue_at_most_once_refuted :
  exists s, qreach s /\ length (q_outcomes s 0) = 2.
Proof.
  exists (qrun known_sched (q_init 1 true)). split.
  - apply qrun_reach. apply reach_init. now exists 1, true.
  - vm_compute. reflexivity.
Qed.
