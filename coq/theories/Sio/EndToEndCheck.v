(** Executable oracle and model prediction for the C01 live rig (kernel evaluation).

    A case is one recorded history of a scenario (harness engine e2e): what every emitter sent and
    what every handler was handed, both as (connection, name index, digest of the canonical
    argument tree).  The handler's name index is the name the HANDLER was registered for, so an
    event given to a handler of another name shows up as a foreign key. *)
From Coq Require Import Permutation.
From SioV Require Import Base.GoSem.
From SioV Require Import Sio.EndToEnd.

Definition key := (N * N * N)%type.          (* connection, name index, digest *)

Definition key_eqb (a b : key) : bool :=
  let '(a1, a2, a3) := a in let '(b1, b2, b3) := b in
  N.eqb a3 b3 && N.eqb a2 b2 && N.eqb a1 b1.

Fixpoint count (x : key) (l : list key) : N :=
  match l with
  | [] => 0%N
  | y :: l' => if key_eqb x y then N.succ (count x l') else count x l'
  end.

(** multiset equality / inclusion by cancelling one occurrence at a time *)
Fixpoint remove_one (x : key) (l : list key) : option (list key) :=
  match l with
  | [] => None
  | y :: l' => if key_eqb x y then Some l'
               else match remove_one x l' with Some r => Some (y :: r) | None => None end
  end.

Fixpoint ms_eq (a b : list key) : bool :=
  match a with
  | [] => match b with [] => true | _ => false end
  | x :: a' => match remove_one x b with Some b' => ms_eq a' b' | None => false end
  end.

Fixpoint ms_sub (a b : list key) : bool :=
  match a with
  | [] => true
  | x :: a' => match remove_one x b with Some b' => ms_sub a' b' | None => false end
  end.

(** per name of the scenario: index, last handler parameter is a string, the name is one the
    codec round-trips (C09's side condition; false = name ending in a backslash while that
    defect is open) *)
Definition nrow := (N * bool * bool)%type.
(** emitted event: key and the harness's own prediction (delivered exactly once?) *)
Definition erow := (key * bool)%type.

(** flags: recovery on, server->client, client strips a trailing string (code as it stands),
    websocket traffic with attachments while a poll response of the old transport is in flight *)
(** last component: how often the offset-probe handler (one more string parameter than the
    emitter sends) saw a non-empty / an empty extra argument *)
(** Once registrations: the (connection, name index) pairs that have a Once handler, and what those
    handlers were handed (keys carry the BASE name index). *)
Definition once_part := (list (N * N) * list key)%type.
Definition ccase := ((bool * bool * bool * bool) * list nrow * list erow * list key * (N * N) * once_part)%type.

Definition find_name (i : N) (ns : list nrow) : option nrow :=
  find (fun r => N.eqb (fst (fst r)) i) ns.

(** the model's side condition for one emitted event, through [handler_runs] of Sio/EndToEnd.v *)
Definition event_ok (c : ccase) (e : erow) : bool :=
  let '(fl, ns, _, _, _, _) := c in
  let '(rec, dir, strips, _) := fl in
  let '(_, ni, _) := fst e in
  match find_name ni ns with
  | Some (_, last_str, name_ok) =>
      name_ok && handler_runs N (mkCfg rec dir strips) (mkHandler N 0 ni 0 last_str)
  | None => false
  end.

(** an event outside C09's side condition breaks the connection (parse error), after which the
    rest of the history is only constrained to be a part of what was sent *)
Definition conn_safe (c : ccase) : bool :=
  let '(fl, ns, em, _, _, _) := c in
  let '(_, _, _, wsatt) := fl in
  feeders_safe true wsatt &&
  forallb (fun e => match find_name (snd (fst (fst e))) ns with
                    | Some (_, _, name_ok) => name_ok | None => false end) em.

Definition predicted (c : ccase) : list key :=
  let '(_, _, em, _, _, _) := c in map fst (filter (event_ok c) em).

(** A Once handler of (connection, name): handed exactly one of the events emitted under that
    name on that connection (none if there was none), intact.  [base] are the emitted keys with
    their base name index (registration 0). *)
Definition same_cn (cn : N * N) (k : key) : bool :=
  let '(c, n, _) := k in N.eqb c (fst cn) && N.eqb n (snd cn).
Definition once_ok (base : list key) (oregs : list (N * N)) (odel : list key) : bool :=
  forallb (fun k => existsb (key_eqb k) base) odel
  && forallb (fun k => existsb (fun cn => same_cn cn k) oregs) odel
  && forallb (fun cn =>
        Nat.eqb (length (filter (same_cn cn) odel))
                (if existsb (same_cn cn) base then 1 else 0)) oregs.

(** Property oracle on the observation alone: every emitted event was handed exactly once, intact,
    to the handler registered for its name on its connection, and nothing else was handed. *)
Definition oracle (c : ccase) : bool :=
  let '(_, _, em, del, _, (oregs, odel)) := c in
  ms_eq del (map fst em) && once_ok (map fst em) oregs odel.

(** Correspondence: the implementation delivered what the model predicts (including the predicted
    non-deliveries), and the harness's classification equals the model's side condition. *)
(** the model's [stamp]: does the wire event carry one more argument than was emitted? *)
Definition model_appends_offset (rec dir strips : bool) : bool :=
  Nat.ltb 2 (length (snd (stamp N N N (fun o => o) (mkCfg rec dir strips) ((0%N, [1%N; 2%N]), 7%N)))).

Definition agree (c : ccase) : bool :=
  let '(fl, _, em, del, (probe_set, probe_zero), _) := c in
  let '(rec, dir, strips, _) := fl in
  forallb (fun e => Bool.eqb (snd e) (event_ok c e)) em
  && (let '(_, _, _, wsatt) := fl in
      if negb (feeders_safe true wsatt) then true   (* refuted configuration: no prediction *)
      else if conn_safe c then ms_eq del (predicted c) else ms_sub del (predicted c))
  (* the handler with an extra parameter sees the appended offset exactly when the model appends one *)
  && (if model_appends_offset rec dir strips then N.eqb probe_zero 0 else N.eqb probe_set 0).

(** [ms_eq] is sound: it only accepts permutations (so equal multiplicity of every key) *)
Lemma key_eqb_eq : forall a b, key_eqb a b = true -> a = b.
Proof.
  intros [[a1 a2] a3] [[b1 b2] b3] H. simpl in H.
  apply andb_true_iff in H as [H H1]. apply andb_true_iff in H as [H3 H2].
  apply N.eqb_eq in H1, H2, H3. now subst.
Qed.

Lemma remove_one_perm : forall x l r, remove_one x l = Some r -> Permutation.Permutation l (x :: r).
Proof.
  induction l as [|y l IH]; intros r H; simpl in H; [discriminate|].
  destruct (key_eqb x y) eqn:E.
  - apply key_eqb_eq in E. inversion H; subst. reflexivity.
  - destruct (remove_one x l) as [r'|]; [|discriminate]. inversion H; subst.
    eapply Permutation.perm_trans; [apply Permutation.perm_skip, (IH r' eq_refl) | apply Permutation.perm_swap].
Qed.

Lemma ms_eq_perm : forall a b, ms_eq a b = true -> Permutation.Permutation a b.
Proof.
  induction a as [|x a IH]; intros b H; simpl in H.
  - destruct b; [constructor | discriminate].
  - destruct (remove_one x b) as [b'|] eqn:E; [|discriminate].
    eapply Permutation.perm_trans; [| apply Permutation.Permutation_sym, (remove_one_perm _ _ _ E)].
    constructor. now apply IH.
Qed.

(** both at once (the driver evaluates the two separately only when this fails) *)
Definition both (c : ccase) : bool := oracle c && agree c.
