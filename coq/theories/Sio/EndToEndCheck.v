(** Executable oracle and model prediction for the C01 live rig (kernel evaluation).

    A case is one recorded history of a scenario (harness engine e2e): what every emitter sent and
    what every handler was handed, both as (connection, name index, digest of the canonical
    argument tree).  The handler's name index is the name the HANDLER was registered for, so an
    event given to a handler of another name shows up as a foreign key. *)
From SioV Require Import Base.GoSem Sio.EndToEnd.

Definition key := (N * N * N)%type.          (* connection, name index, digest *)

Definition key_eqb (a b : key) : bool :=
  let '(a1, a2, a3) := a in let '(b1, b2, b3) := b in
  N.eqb a1 b1 && N.eqb a2 b2 && N.eqb a3 b3.

Fixpoint count (x : key) (l : list key) : N :=
  match l with
  | [] => 0%N
  | y :: l' => if key_eqb x y then N.succ (count x l') else count x l'
  end.

(** multiset equality / inclusion by counting *)
Definition ms_eq (a b : list key) : bool :=
  forallb (fun x => N.eqb (count x a) (count x b)) (a ++ b).
Definition ms_sub (a b : list key) : bool :=
  forallb (fun x => N.leb (count x a) (count x b)) a.

(** per name of the scenario: index, last handler parameter is a string, the name is one the
    codec round-trips (C09's side condition; false = name ending in a backslash while that
    defect is open) *)
Definition nrow := (N * bool * bool)%type.
(** emitted event: key and the harness's own prediction (delivered exactly once?) *)
Definition erow := (key * bool)%type.

(** flags: recovery on, server->client, client strips a trailing string (code as it stands) *)
Definition ccase := ((bool * bool * bool) * list nrow * list erow * list key)%type.

Definition find_name (i : N) (ns : list nrow) : option nrow :=
  find (fun r => N.eqb (fst (fst r)) i) ns.

(** the model's side condition for one emitted event, through [handler_runs] of Sio/EndToEnd.v *)
Definition event_ok (c : ccase) (e : erow) : bool :=
  let '(fl, ns, _, _) := c in
  let '(rec, dir, strips) := fl in
  let '(_, ni, _) := fst e in
  match find_name ni ns with
  | Some (_, last_str, name_ok) =>
      name_ok && handler_runs N (mkCfg rec dir strips) (mkHandler N 0 ni 0 last_str)
  | None => false
  end.

(** an event outside C09's side condition breaks the connection (parse error), after which the
    rest of the history is only constrained to be a part of what was sent *)
Definition conn_safe (c : ccase) : bool :=
  let '(_, ns, em, _) := c in
  forallb (fun e => match find_name (snd (fst (fst e))) ns with
                    | Some (_, _, name_ok) => name_ok | None => false end) em.

Definition predicted (c : ccase) : list key :=
  let '(_, _, em, _) := c in map fst (filter (event_ok c) em).

(** Property oracle on the observation alone: every emitted event was handed exactly once, intact,
    to the handler registered for its name on its connection, and nothing else was handed. *)
Definition oracle (c : ccase) : bool :=
  let '(_, _, em, del) := c in ms_eq del (map fst em).

(** Correspondence: the implementation delivered what the model predicts (including the predicted
    non-deliveries), and the harness's classification equals the model's side condition. *)
Definition agree (c : ccase) : bool :=
  let '(_, _, em, del) := c in
  forallb (fun e => Bool.eqb (snd e) (event_ok c e)) em
  && (if conn_safe c then ms_eq del (predicted c) else ms_sub del (predicted c)).

(** the oracle is sound for multiset equality in the sense needed: equal counts for every key *)
Lemma ms_eq_counts : forall a b, ms_eq a b = true ->
  forall x, In x (a ++ b) -> count x a = count x b.
Proof.
  intros a b H x Hx. unfold ms_eq in H. rewrite forallb_forall in H.
  apply N.eqb_eq. now apply H.
Qed.

(** both at once (the driver evaluates the two separately only when this fails) *)
Definition both (c : ccase) : bool := oracle c && agree c.
