(** Proofs about the heap-level event registry (C18): an occurrence in progress runs exactly the
    snapshot taken by its getAll, whatever registry calls and other occurrences are interleaved. *)
From SioV Require Import Base.GoSem Sio.HandlerStore Sio.HandlerStoreHeap.

Section HeapProofs.
  Variable A : Type.
  Variable same : A -> A -> bool.
  Notation mem := (mem A).
  Notation arr := (arr A).
  Notation contents := (contents A).
  Notation go_append := (go_append A).
  Notation go_make := (go_make A).
  Notation append_all := (append_all A).
  Notation hstate := (hstate A).
  Notation hstep := (hstep A same).
  Notation hrun := (hrun A same).

  (** *** lists *)
  Lemma length_set_nth : forall X (l : list X) i x, length (set_nth l i x) = length l.
  Proof. induction l as [|y l IH]; intros [|i] x; simpl; auto. Qed.

  Lemma nth_set_nth_other : forall X (l : list X) i j x d, i <> j -> nth j (set_nth l i x) d = nth j l d.
  Proof.
    induction l as [|y l IH]; intros [|i] [|j] x d H; simpl; auto; try congruence.
  Qed.

  Lemma nth_set_nth_same : forall X (l : list X) i x d, i < length l -> nth i (set_nth l i x) d = x.
  Proof.
    induction l as [|y l IH]; intros [|i] x d H; simpl in *; try lia; auto. apply IH; lia.
  Qed.

  Lemma firstn_set_nth_snoc : forall X (l : list X) n x, n < length l ->
    firstn (S n) (set_nth l n x) = firstn n l ++ [x].
  Proof.
    induction l as [|y l IH]; intros [|n] x H; simpl in *; try lia; auto.
    f_equal. apply IH; lia.
  Qed.

  Lemma firstn_app_snoc : forall X (l1 l2 : list X) x n, length l1 = n ->
    firstn (S n) (l1 ++ x :: l2) = l1 ++ [x].
  Proof.
    induction l1 as [|y l1 IH]; intros l2 x n H; simpl in *; subst; simpl; [reflexivity|].
    f_equal. now apply IH.
  Qed.

  Lemma nth_error_set_nth_same : forall X (l : list X) i x, i < length l ->
    nth_error (set_nth l i x) i = Some x.
  Proof. induction l as [|y l IH]; intros [|i] x H; simpl in *; try lia; auto. apply IH; lia. Qed.

  Lemma nth_error_set_nth_other : forall X (l : list X) i j x, i <> j ->
    nth_error (set_nth l i x) j = nth_error l j.
  Proof. induction l as [|y l IH]; intros [|i] [|j] x H; simpl; auto; congruence. Qed.

  (** *** memory operations touch only the array they append to, or new arrays *)
  Lemma go_append_frame : forall (m : mem) s a m' s',
    go_append m s a = (m', s') ->
    length m <= length m'
    /\ (forall i, i < length m -> i <> sid s -> arr m' i = arr m i)
    /\ (sid s' = sid s \/ sid s' = length m)
    /\ slen s' = S (slen s)
    /\ (sid s < length m -> sid s' < length m').
  Proof.
    intros m s a m' s' H. unfold HandlerStoreHeap.go_append in H.
    destruct (Nat.ltb (slen s) (cap A m s)).
    - inversion H; subst; clear H. rewrite length_set_nth. repeat split; auto.
      intros i Hi Hne. unfold HandlerStoreHeap.arr. apply nth_set_nth_other. congruence.
    - unfold alloc in H. inversion H; subst; clear H. rewrite app_length; simpl. repeat split; auto; try lia.
      intros i Hi _. unfold HandlerStoreHeap.arr. now rewrite app_nth1.
  Qed.

  Lemma go_append_contents : forall (m : mem) s a m' s',
    go_append m s a = (m', s') -> sid s < length m -> slen s <= cap A m s ->
    contents m' s' = contents m s ++ [Some a] /\ slen s' <= cap A m' s' /\ sid s' < length m'.
  Proof.
    intros m s a m' s' H Hid Hcap. unfold HandlerStoreHeap.go_append in H.
    destruct (Nat.ltb (slen s) (cap A m s)) eqn:E.
    - apply Nat.ltb_lt in E. inversion H; subst; clear H.
      unfold HandlerStoreHeap.contents, HandlerStoreHeap.cap, HandlerStoreHeap.arr in *. simpl.
      rewrite nth_set_nth_same by assumption. rewrite length_set_nth.
      split; [now apply firstn_set_nth_snoc|]. split; [lia|now rewrite length_set_nth].
    - apply Nat.ltb_ge in E. unfold alloc in H. inversion H; subst; clear H.
      unfold HandlerStoreHeap.contents, HandlerStoreHeap.cap, HandlerStoreHeap.arr in *. simpl.
      rewrite app_nth2 by lia. rewrite Nat.sub_diag. simpl.
      assert (L : length (firstn (slen s) (nth (sid s) m [])) = slen s) by (rewrite firstn_length; lia).
      split; [now apply firstn_app_snoc|].
      rewrite !app_length, L. simpl. rewrite repeat_length. lia.
  Qed.

  Lemma go_make_spec : forall (m : mem) n m' s,
    go_make m n = (m', s) ->
    length m' = S (length m) /\ sid s = length m /\ slen s = 0 /\ cap A m' s = n
    /\ (forall i, i < length m -> arr m' i = arr m i).
  Proof.
    intros m n m' s H. unfold HandlerStoreHeap.go_make, alloc in H. inversion H; subst; clear H.
    rewrite app_length; simpl. repeat split; try lia.
    - unfold HandlerStoreHeap.cap, HandlerStoreHeap.arr; simpl. rewrite app_nth2 by lia.
      rewrite Nat.sub_diag. simpl. apply repeat_length.
    - intros i Hi. unfold HandlerStoreHeap.arr. now rewrite app_nth1.
  Qed.

  Lemma append_all_frame : forall l (m : mem) s m' s' n,
    append_all m s l = (m', s') -> n <= length m ->
    length m <= length m'
    /\ (forall i, i < n -> i <> sid s -> arr m' i = arr m i)
    /\ (sid s' = sid s \/ n <= sid s')
    /\ slen s' = slen s + length l.
  Proof.
    induction l as [|a l IH]; intros m s m' s' n H Hn; simpl in H.
    - inversion H; subst. simpl. repeat split; auto; lia.
    - destruct (go_append m s a) as [m1 s1] eqn:E1.
      destruct (go_append_frame _ _ _ _ _ E1) as (L1 & F1 & S1 & N1 & _).
      destruct (IH _ _ _ _ n H ltac:(lia)) as (L2 & F2 & S2 & N2).
      split; [lia|]. split; [|split].
      + intros i Hi Hne. rewrite F2; try assumption.
        * apply F1; [lia|assumption].
        * destruct S1 as [E | E]; rewrite E; [assumption|lia].
      + destruct S2 as [E2 | ?]; [|now right]. rewrite E2.
        destruct S1 as [E | E]; rewrite E; [now left|right; lia].
      + simpl. lia.
  Qed.

  Lemma append_all_contents : forall l (m : mem) s m' s',
    append_all m s l = (m', s') -> sid s < length m -> slen s <= cap A m s ->
    contents m' s' = contents m s ++ map Some l /\ sid s' < length m'.
  Proof.
    induction l as [|a l IH]; intros m s m' s' H Hid Hcap; simpl in H.
    - inversion H; subst. now rewrite app_nil_r.
    - destruct (go_append m s a) as [m1 s1] eqn:E1.
      destruct (go_append_contents _ _ _ _ _ E1 Hid Hcap) as (C1 & K1 & I1).
      destruct (IH _ _ _ _ H I1 K1) as (C2 & I2). split; [|assumption].
      rewrite C2, C1, <- app_assoc. reflexivity.
  Qed.

  (** building a new slice from a list: fresh array, old arrays untouched, shows the list *)
  Lemma build_spec : forall (m : mem) l m1 v0 m2 v,
    go_make m (length l) = (m1, v0) -> append_all m1 v0 l = (m2, v) ->
    length m < length m2
    /\ (forall i, i < length m -> arr m2 i = arr m i)
    /\ length m <= sid v /\ sid v < length m2
    /\ slen v = length l
    /\ contents m2 v = map Some l.
  Proof.
    intros m l m1 v0 m2 v HM HA.
    destruct (go_make_spec _ _ _ _ HM) as (L1 & I0 & N0 & C0 & F0).
    destruct (append_all_frame _ _ _ _ _ (length m) HA ltac:(lia)) as (L2 & F2 & S2 & N2).
    destruct (append_all_contents _ _ _ _ _ HA ltac:(lia) ltac:(lia)) as (C2 & I2).
    assert (Hge : length m <= sid v) by (destruct S2 as [E | ?]; [rewrite E|]; lia).
    split; [lia|]. split; [|split; [|split; [|split]]]; try lia.
    - intros i Hi. rewrite F2; [now apply F0|assumption|lia].
    - rewrite C2. unfold HandlerStoreHeap.contents. now rewrite N0.
  Qed.

  (** *** the invariant: no occurrence in progress shares its array with a stored slice *)
  Definition stored (st : hstate) : list slice := map snd (hev A st) ++ map snd (hon A st).

  Definition Inv (st : hstate) : Prop :=
    (forall s, In s (stored st) -> sid s < length (hmem A st))
    /\ (forall d, In d (hdisp A st) ->
          sid (dview A d) < length (hmem A st)
          /\ slen (dview A d) = length (dsnap A d)
          /\ contents (hmem A st) (dview A d) = map Some (dsnap A d)
          /\ didx A d <= length (dsnap A d)
          /\ (forall s, In s (stored st) -> sid s <> sid (dview A d))).

  Lemma inv_empty : Inv (hempty A).
  Proof. split; simpl; intros; contradiction. Qed.

  Lemma in_hdel : forall e (h : hmap) s, In s (map snd (hdel e h)) -> In s (map snd h).
  Proof.
    intros e h s H. apply in_map_iff in H as ((k, v) & <- & Hin).
    unfold hdel in Hin. apply filter_In in Hin as [Hin _]. apply in_map_iff. now exists (k, v).
  Qed.

  Lemma in_hset : forall e v (h : hmap) s, In s (map snd (hset e v h)) -> s = v \/ In s (map snd h).
  Proof.
    intros e v h s H. simpl in H. destruct H as [<- | H]; [now left|right; now apply in_hdel in H].
  Qed.

  Lemma hfind_in : forall e (h : hmap) s, hfind e h = Some s -> In s (map snd h).
  Proof.
    intros e h s; induction h as [|[k v] h IH]; simpl; [discriminate|].
    destruct (N.eqb k e); [intros H; inversion H; now left | intros H; right; auto].
  Qed.

  (** effect of one registry-map update on memory, abstractly: arrays that are neither stored in
      the map being updated nor new are untouched; the stored slices afterwards are old or new *)
  Definition mem_step (m m' : mem) (h h' : hmap) : Prop :=
    length m <= length m'
    /\ (forall i, i < length m -> ~ In i (map (fun s => sid s) (map snd h)) -> arr m' i = arr m i)
    /\ (forall s, In s (map snd h') -> (In s (map snd h) \/ In (sid s) (map (fun s => sid s) (map snd h)) \/ length m <= sid s)
                                        /\ sid s < length m').

  Lemma h_on_step : forall (m : mem) h e a m' h',
    h_on A m h e a = (m', h') -> (forall s, In s (map snd h) -> sid s < length m) ->
    mem_step m m' h h'.
  Proof.
    intros m h e a m' h' H Hwf. unfold h_on in H. destruct (hfind e h) as [s|] eqn:F.
    - destruct (go_append m s a) as [m1 s1] eqn:E. inversion H; subst; clear H.
      destruct (go_append_frame _ _ _ _ _ E) as (L & Fr & S & N & B).
      pose proof (hfind_in _ _ _ F) as Hin.
      split; [assumption|]. split.
      + intros i Hi Hni. apply Fr; [assumption|]. intros ->. apply Hni.
        apply in_map_iff. now exists s.
      + intros x Hx. apply in_hset in Hx as [-> | Hx].
        * split.
          -- destruct S as [S | S]; [right; left; rewrite S; apply in_map_iff; now exists s | right; right; lia].
          -- apply B. now apply Hwf.
        * split; [now left|]. specialize (Hwf _ Hx). lia.
    - unfold alloc in H. inversion H; subst; clear H.
      split; [rewrite app_length; simpl; lia|]. split.
      + intros i Hi _. unfold HandlerStoreHeap.arr. now rewrite app_nth1.
      + intros x Hx. apply in_hset in Hx as [-> | Hx]; simpl.
        * split; [right; right; lia | rewrite app_length; simpl; lia].
        * split; [now left|]. specialize (Hwf _ Hx). rewrite app_length; simpl; lia.
  Qed.

  Lemma h_off_in_step : forall (m : mem) h e hs m' h',
    h_off_in A same m h e hs = (m', h') -> (forall s, In s (map snd h) -> sid s < length m) ->
    mem_step m m' h h'.
  Proof.
    intros m h e hs m' h' H Hwf. unfold h_off_in in H. destruct (hfind e h) as [s|] eqn:F.
    - unfold h_remove in H.
      destruct (go_make m (slen s)) as [m1 k0] eqn:EM.
      destruct (append_all m1 k0 (remove A same hs (vals A m s))) as [m2 k] eqn:EA.
      inversion H; subst; clear H.
      destruct (go_make_spec _ _ _ _ EM) as (L1 & I0 & N0 & C0 & F0).
      destruct (append_all_frame _ _ _ _ _ (length m) EA ltac:(lia)) as (L2 & F2 & S2 & N2).
      destruct (append_all_contents _ _ _ _ _ EA ltac:(lia) ltac:(lia)) as (_ & I2).
      split; [lia|]. split.
      + intros i Hi _. rewrite F2; [now apply F0|assumption|lia].
      + intros x Hx. destruct (Nat.eqb (slen k) 0).
        * apply in_hdel in Hx. split; [now left|]. specialize (Hwf _ Hx). lia.
        * apply in_hset in Hx as [-> | Hx].
          -- split; [right; right; destruct S2 as [-> | ?]; lia | assumption].
          -- split; [now left|]. specialize (Hwf _ Hx). lia.
    - inversion H; subst. split; [lia|]. split; [auto|].
      intros x Hx. split; [now left|auto].
  Qed.

  Lemma mem_step_refl_sub : forall (m : mem) (h h' : hmap),
    (forall s, In s (map snd h') -> In s (map snd h)) ->
    (forall s, In s (map snd h) -> sid s < length m) -> mem_step m m h h'.
  Proof.
    intros m h h' Hsub Hwf. split; [lia|]. split; [auto|]. intros s Hs. split; [left; auto|auto].
  Qed.

  (** a map update that respects [mem_step] keeps the invariant, the other map being untouched *)
  Lemma inv_mem_step : forall st m' ev' on',
    Inv st ->
    (mem_step (hmem A st) m' (hev A st) ev' /\ on' = hon A st
     \/ mem_step (hmem A st) m' (hon A st) on' /\ ev' = hev A st) ->
    Inv (mkH A m' ev' on' (hdisp A st)).
  Proof.
    intros st m' ev' on' (Hs & Hd) Hstep.
    assert (G : length (hmem A st) <= length m'
                /\ (forall i, i < length (hmem A st) ->
                      ~ In i (map (fun s => sid s) (stored st)) -> arr m' i = arr (hmem A st) i)
                /\ (forall s, In s (map snd ev' ++ map snd on') ->
                      (In s (stored st) \/ In (sid s) (map (fun s => sid s) (stored st))
                       \/ length (hmem A st) <= sid s) /\ sid s < length m')).
    { unfold stored. destruct Hstep as [((L & F & S) & ->) | ((L & F & S) & ->)].
      - split; [assumption|]. split.
        + intros i Hi Hn. apply F; [assumption|]. intros Hc. apply Hn. rewrite map_app. apply in_or_app. now left.
        + intros s Hin. apply in_app_or in Hin as [Hin | Hin].
          * destruct (S _ Hin) as ([H1 | [H1 | H1]] & H2); (split; [|assumption]).
            -- left. apply in_or_app; now left.
            -- right; left. rewrite map_app. apply in_or_app; now left.
            -- now right; right.
          * split; [left; apply in_or_app; now right|].
            assert (In s (stored st)) by (apply in_or_app; now right). specialize (Hs _ H). lia.
      - split; [assumption|]. split.
        + intros i Hi Hn. apply F; [assumption|]. intros Hc. apply Hn. rewrite map_app. apply in_or_app. now right.
        + intros s Hin. apply in_app_or in Hin as [Hin | Hin].
          * split; [left; apply in_or_app; now left|].
            assert (In s (stored st)) by (apply in_or_app; now left). specialize (Hs _ H). lia.
          * destruct (S _ Hin) as ([H1 | [H1 | H1]] & H2); (split; [|assumption]).
            -- left. apply in_or_app; now right.
            -- right; left. rewrite map_app. apply in_or_app; now right.
            -- now right; right. }
    destruct G as (L & F & S).
    split; simpl.
    - intros s Hin. now apply S.
    - intros d Hin. destruct (Hd d Hin) as (D1 & D2 & D3 & D4 & D5).
      assert (Hun : arr m' (sid (dview A d)) = arr (hmem A st) (sid (dview A d))).
      { apply F; [assumption|]. intros Hc. apply in_map_iff in Hc as (s & E & Hs'). now apply (D5 s Hs'). }
      split; [lia|]. split; [assumption|]. split.
      + unfold HandlerStoreHeap.contents in *. now rewrite Hun.
      + split; [assumption|]. intros s Hin'. unfold stored in Hin'. simpl in Hin'.
        destruct (S _ Hin') as ([H1 | [H1 | H1]] & _).
        * now apply D5.
        * apply in_map_iff in H1 as (s0 & E & Hs0). rewrite <- E. now apply D5.
        * lia.
  Qed.

  Lemma step_inv : forall st x, Inv st -> Inv (fst (hstep st x)).
  Proof.
    intros st x HI. pose proof HI as (Hs & Hd).
    assert (Hev : forall s, In s (map snd (hev A st)) -> sid s < length (hmem A st))
      by (intros; apply Hs; apply in_or_app; now left).
    assert (Hon : forall s, In s (map snd (hon A st)) -> sid s < length (hmem A st))
      by (intros; apply Hs; apply in_or_app; now right).
    assert (Hbegin : forall e,
      Inv (fst (let snap := hget_vals A (hmem A st) (hev A st) e ++ hget_vals A (hmem A st) (hon A st) e in
                let '(m1, v0) := go_make (hmem A st) (length snap) in
                let '(m2, v) := append_all m1 v0 snap in
                (mkH A m2 (hev A st) (hdel e (hon A st)) (hdisp A st ++ [mkD A v 0 snap]), @None (nat * cell A))))).
    { intros e. cbv zeta.
      set (snap := hget_vals A (hmem A st) (hev A st) e ++ hget_vals A (hmem A st) (hon A st) e).
      destruct (go_make (hmem A st) (length snap)) as [m1 v0] eqn:EM.
      destruct (append_all m1 v0 snap) as [m2 v] eqn:EA. simpl.
      destruct (build_spec _ _ _ _ _ _ EM EA) as (L & F & I1 & I2 & N & C).
      assert (Hsub : forall s, In s (map snd (hev A st) ++ map snd (hdel e (hon A st))) -> In s (stored st)).
      { intros s Hin. apply in_app_or in Hin as [Hin|Hin]; apply in_or_app; [now left|right; now apply in_hdel in Hin]. }
      split; simpl.
      - intros s Hin. specialize (Hs _ (Hsub _ Hin)). lia.
      - intros d Hin. apply in_app_or in Hin as [Hin | [<- | []]].
        + destruct (Hd d Hin) as (D1 & D2 & D3 & D4 & D5).
          split; [lia|]. split; [assumption|]. split.
          * unfold HandlerStoreHeap.contents in *. now rewrite F.
          * split; [assumption|]. intros s Hin'. apply D5. now apply Hsub.
        + simpl. split; [assumption|]. split; [assumption|]. split; [assumption|]. split; [lia|].
          intros s Hin'. specialize (Hs _ (Hsub _ Hin')). lia. }
    destruct x as [o | e | k].
    - destruct o as [e a|e a|e hs| |e].
      + simpl. destruct (h_on A (hmem A st) (hev A st) e a) as [m' ev'] eqn:E. simpl.
        apply inv_mem_step; [assumption|]. left. split; [|reflexivity]. now apply (h_on_step _ _ _ _ _ _ E).
      + simpl. destruct (h_on A (hmem A st) (hon A st) e a) as [m' on'] eqn:E. simpl.
        apply inv_mem_step; [assumption|]. right. split; [|reflexivity]. now apply (h_on_step _ _ _ _ _ _ E).
      + destruct hs as [|h hs].
        * simpl.
          assert (I1 : Inv (mkH A (hmem A st) (hdel e (hev A st)) (hon A st) (hdisp A st))).
          { apply inv_mem_step; [assumption|]. left. split; [|reflexivity].
            apply mem_step_refl_sub; [intros; now apply in_hdel in H|assumption]. }
          apply (inv_mem_step _ (hmem A st) (hdel e (hev A st)) (hdel e (hon A st)) I1). right. simpl. split; [|reflexivity].
          apply mem_step_refl_sub; [intros; now apply in_hdel in H|assumption].
        * cbn [hstep].
          destruct (h_off_in A same (hmem A st) (hev A st) e (h :: hs)) as [m1 ev'] eqn:E1.
          destruct (h_off_in A same m1 (hon A st) e (h :: hs)) as [m2 on'] eqn:E2. simpl.
          assert (I1 : Inv (mkH A m1 ev' (hon A st) (hdisp A st))).
          { apply inv_mem_step; [assumption|]. left. split; [|reflexivity]. now apply (h_off_in_step _ _ _ _ _ _ E1). }
          apply (inv_mem_step _ m2 ev' on' I1). right. simpl. split; [|reflexivity].
          apply (h_off_in_step _ _ _ _ _ _ E2). intros s Hin. destruct I1 as (Hs1 & _). apply Hs1.
          apply in_or_app. now right.
      + simpl.
        assert (I1 : Inv (mkH A (hmem A st) [] (hon A st) (hdisp A st))).
        { apply inv_mem_step; [assumption|]. left. split; [|reflexivity].
          apply mem_step_refl_sub; [intros ? []|assumption]. }
        apply (inv_mem_step _ (hmem A st) [] [] I1). right. simpl. split; [|reflexivity].
        apply mem_step_refl_sub; [intros ? []|assumption].
      + apply (Hbegin e).
    - apply (Hbegin e).
    - simpl. destruct (nth_error (hdisp A st) k) as [d|] eqn:E; [|assumption].
      destruct (Nat.ltb (didx A d) (slen (dview A d))) eqn:EL; [|assumption]. simpl.
      apply Nat.ltb_lt in EL. split; [assumption|]. simpl.
      intros d' Hin. apply In_nth_error in Hin as (j & Hj).
      destruct (Nat.eq_dec k j) as [<- | Hne].
      + rewrite nth_error_set_nth_same in Hj by (apply nth_error_Some; congruence).
        inversion Hj; subst; clear Hj. simpl.
        destruct (Hd d (nth_error_In _ _ E)) as (D1 & D2 & D3 & D4 & D5).
        repeat split; try assumption. lia.
      + rewrite nth_error_set_nth_other in Hj by assumption. apply Hd. now apply nth_error_In in Hj.
  Qed.

  (** *** what an occurrence has run so far is a prefix of its snapshot *)
  Definition Ran (st : hstate) (outs : list (nat * cell A)) : Prop :=
    (forall k d, nth_error (hdisp A st) k = Some d ->
       ran_by A k outs = map Some (firstn (didx A d) (dsnap A d)))
    /\ (forall k, length (hdisp A st) <= k -> ran_by A k outs = []).

  Lemma ran_by_app : forall k (o1 o2 : list (nat * cell A)),
    ran_by A k (o1 ++ o2) = ran_by A k o1 ++ ran_by A k o2.
  Proof. intros; unfold ran_by. now rewrite filter_app, map_app. Qed.

  Lemma firstn_S_nth : forall X (l : list X) n d, n < length l ->
    firstn (S n) l = firstn n l ++ [nth n l d].
  Proof.
    induction l as [|y l IH]; intros [|n] d H; simpl in *; try lia; auto. f_equal. apply IH; lia.
  Qed.

  Lemma nth_firstn : forall X (l : list X) n i d, i < n -> nth i (firstn n l) d = nth i l d.
  Proof.
    induction l as [|y l IH]; intros [|n] [|i] d H; simpl; try lia; auto. apply IH; lia.
  Qed.

  Definition out_list (o : option (nat * cell A)) : list (nat * cell A) :=
    match o with Some x => [x] | None => [] end.

  Lemma step_ran : forall st x outs, Inv st -> Ran st outs ->
    Ran (fst (hstep st x)) (outs ++ out_list (snd (hstep st x))).
  Proof.
    intros st x outs HI (R1 & R2).
    assert (Hsame : forall m ev on, Ran (mkH A m ev on (hdisp A st)) (outs ++ [])).
    { intros. rewrite app_nil_r. split; simpl; assumption. }
    assert (Hbegin : forall m ev on v snap,
              Ran (mkH A m ev on (hdisp A st ++ [mkD A v 0 snap])) (outs ++ [])).
    { intros. rewrite app_nil_r. split; simpl.
      - intros k d Hk. destruct (Nat.lt_ge_cases k (length (hdisp A st))) as [Hlt | Hge].
        + rewrite nth_error_app1 in Hk by assumption. now apply R1.
        + rewrite nth_error_app2 in Hk by assumption.
          destruct (k - length (hdisp A st)) as [|j] eqn:E; simpl in Hk.
          * inversion Hk; subst; simpl. now apply R2.
          * destruct j; discriminate.
      - intros k Hk. rewrite app_length in Hk; simpl in Hk. apply R2. lia. }
    destruct x as [o | e | k].
    - destruct o as [e a|e a|e hs| |e]; cbn [hstep].
      + destruct (h_on A (hmem A st) (hev A st) e a); simpl. apply Hsame.
      + destruct (h_on A (hmem A st) (hon A st) e a); simpl. apply Hsame.
      + destruct hs as [|h hs]; [simpl; apply Hsame|].
        destruct (h_off_in A same (hmem A st) (hev A st) e (h :: hs)) as [m1 ev'].
        destruct (h_off_in A same m1 (hon A st) e (h :: hs)); simpl. apply Hsame.
      + simpl. apply Hsame.
      + cbv zeta. destruct (go_make _ _) as [m1 v0]. destruct (append_all m1 v0 _) as [m2 v]. simpl. apply Hbegin.
    - cbn [hstep]. cbv zeta. destruct (go_make _ _) as [m1 v0]. destruct (append_all m1 v0 _) as [m2 v]. simpl. apply Hbegin.
    - cbn [hstep]. destruct (nth_error (hdisp A st) k) as [d|] eqn:E.
      2:{ simpl. rewrite app_nil_r. split; assumption. }
      destruct (Nat.ltb (didx A d) (slen (dview A d))) eqn:EL.
      2:{ simpl. rewrite app_nil_r. split; assumption. }
      apply Nat.ltb_lt in EL. simpl.
      destruct HI as (_ & Hd). destruct (Hd d (nth_error_In _ _ E)) as (D1 & D2 & D3 & D4 & D5).
      assert (Hcell : nth (didx A d) (arr (hmem A st) (sid (dview A d))) None
                      = nth (didx A d) (map Some (dsnap A d)) None).
      { rewrite <- D3. unfold HandlerStoreHeap.contents. now rewrite nth_firstn. }
      rewrite Hcell. split; simpl.
      + intros k' d' Hk'. rewrite ran_by_app.
        destruct (Nat.eq_dec k k') as [<- | Hne].
        * rewrite nth_error_set_nth_same in Hk' by (apply nth_error_Some; congruence).
          inversion Hk'; subst; clear Hk'. cbn [didx dsnap dview].
          rewrite (R1 _ _ E).
          unfold ran_by at 1. cbn [filter fst map snd]. rewrite Nat.eqb_refl. cbn [map snd].
          rewrite <- !firstn_map.
          symmetry. apply firstn_S_nth. rewrite map_length. lia.
        * rewrite nth_error_set_nth_other in Hk' by assumption.
          rewrite (R1 _ _ Hk'). unfold ran_by. simpl.
          destruct (Nat.eqb k k') eqn:EE; [apply Nat.eqb_eq in EE; congruence|]. simpl. now rewrite app_nil_r.
      + intros k' Hk'. rewrite length_set_nth in Hk'. rewrite ran_by_app, (R2 _ Hk').
        unfold ran_by. simpl.
        assert (k < length (hdisp A st)) by (apply nth_error_Some; congruence).
        destruct (Nat.eqb k k') eqn:EE; [apply Nat.eqb_eq in EE; lia|]. reflexivity.
  Qed.

  Lemma hrun_ran : forall xs st outs0, Inv st -> Ran st outs0 ->
    Inv (fst (hrun st xs)) /\ Ran (fst (hrun st xs)) (outs0 ++ snd (hrun st xs)).
  Proof.
    induction xs as [|x xs IH]; intros st outs0 HI HR; simpl.
    - rewrite app_nil_r. now split.
    - pose proof (step_inv st x HI) as HI'. pose proof (step_ran st x outs0 HI HR) as HR'.
      destruct (hstep st x) as [st1 out] eqn:E. simpl in HI', HR'.
      destruct (IH st1 _ HI' HR') as (I2 & R2).
      destruct (hrun st1 xs) as [st2 outs] eqn:E2. simpl in *.
      split; [assumption|]. destruct out as [o|]; simpl in *.
      + now rewrite <- app_assoc in R2.
      + now rewrite app_nil_r in R2.
  Qed.

  (** Whatever calls and other occurrences are interleaved (any step list): the handlers an
      occurrence has been handed so far are exactly the first [didx] handlers the registry held
      for the event when its getAll ran - never nil, never shifted, none skipped or repeated. *)
  Theorem dispatch_runs_snapshot : forall xs k d,
    nth_error (hdisp A (fst (hrun (hempty A) xs))) k = Some d ->
    ran_by A k (snd (hrun (hempty A) xs)) = map Some (firstn (didx A d) (dsnap A d))
    /\ didx A d <= length (dsnap A d)
    /\ slen (dview A d) = length (dsnap A d).
  Proof.
    intros xs k d H.
    destruct (hrun_ran xs (hempty A) [] inv_empty) as ((_ & Hd) & (R1 & _)).
    { split; simpl; intros; [destruct k0; discriminate | reflexivity]. }
    simpl in R1. split; [now apply R1|].
    destruct (Hd d (nth_error_In _ _ H)) as (_ & D2 & _ & D4 & _). now split.
  Qed.

  (** The snapshot is what the registry held for the event at the getAll, and it is fixed then:
      later steps change the loop index only. *)
  Lemma begin_snapshot : forall st e,
    let st' := fst (hstep st (SBegin e)) in
    exists d, hdisp A st' = hdisp A st ++ [d] /\ didx A d = 0
              /\ dsnap A d = hget_vals A (hmem A st) (hev A st) e ++ hget_vals A (hmem A st) (hon A st) e.
  Proof.
    intros st e. cbn [hstep]. cbv zeta.
    destruct (go_make _ _) as [m1 v0]. destruct (append_all m1 v0 _) as [m2 v]. simpl.
    eexists. repeat split.
  Qed.

  Lemma step_keeps_snapshot : forall st x k d,
    nth_error (hdisp A st) k = Some d ->
    exists d', nth_error (hdisp A (fst (hstep st x))) k = Some d' /\ dsnap A d' = dsnap A d
               /\ dview A d' = dview A d.
  Proof.
    intros st x k d H.
    assert (Happ : forall dn, exists d',
              nth_error (hdisp A st ++ [dn]) k = Some d'
              /\ dsnap A d' = dsnap A d /\ dview A d' = dview A d).
    { intros. exists d. rewrite nth_error_app1 by (apply nth_error_Some; congruence). auto. }
    destruct x as [o | e | j].
    - destruct o as [e a|e a|e hs| |e]; cbn [hstep].
      + destruct (h_on A (hmem A st) (hev A st) e a); simpl; exists d; auto.
      + destruct (h_on A (hmem A st) (hon A st) e a); simpl; exists d; auto.
      + destruct hs as [|h hs]; [simpl; exists d; auto|].
        destruct (h_off_in A same (hmem A st) (hev A st) e (h :: hs)) as [m1 ev'].
        destruct (h_off_in A same m1 (hon A st) e (h :: hs)); simpl; exists d; auto.
      + simpl; exists d; auto.
      + cbv zeta. destruct (go_make _ _) as [m1 v0]. destruct (append_all m1 v0 _) as [m2 v]. simpl. apply Happ.
    - cbn [hstep]. cbv zeta. destruct (go_make _ _) as [m1 v0]. destruct (append_all m1 v0 _) as [m2 v]. simpl. apply Happ.
    - cbn [hstep]. destruct (nth_error (hdisp A st) j) as [dj|] eqn:E; [|exists d; auto].
      destruct (Nat.ltb (didx A dj) (slen (dview A dj))); [|exists d; auto]. simpl.
      destruct (Nat.eq_dec j k) as [-> | Hne].
      + rewrite nth_error_set_nth_same by (apply nth_error_Some; congruence).
        rewrite H in E. inversion E; subst. eexists; repeat split.
      + rewrite nth_error_set_nth_other by assumption. exists d; auto.
  Qed.
End HeapProofs.
