(** C12 - executable comparison (model prediction = observation) and property oracle (evaluated on
    the implementation's observation alone) for the live rigs of harness/cmd/vh/middleware*.go. *)
From SioV Require Import Base.GoSem Sio.Middleware.

(** ** Admission cases *)

(** What the public API showed about the case's socket id at one moment:
    listed (Namespace.Sockets), fetch (FetchSockets), connected (ServerSocket.Connected),
    SocketRooms ok, rooms (codes: 0 = own room, n+1 = named room n), reachable by a broadcast to
    everybody / to its own room, named rooms through which it is reachable. *)
Definition view := (bool * bool * bool * bool * list N * bool * bool * list N)%type.

(** chain: per registered middleware (join code, verdict code)
      join: 0 none, 1 Join(r_i), 2 Join() without rooms, 3 Join(r_i, shared)
      verdict: 0 accept, 1 error, 2 string, 3 structured data
    calls: middleware entries in the order they happened, each with the view at entry
    handler: views taken by each run of the namespace's connection handler for this socket
    resp: 0 CONNECT, 1 CONNECT_ERROR, 2 anything else (timeout, connection closed)
    message of the CONNECT_ERROR: (kind: 0 none 1 text 2 data, middleware index, verdict code)
    misc: (CONNECT carried the server-side sid, own-room broadcast arrived, calls of the other
           namespace's middleware, OnAnyConnection runs, unexpected packets on the connection
           (a second CONNECT / CONNECT_ERROR for an attempt, DISCONNECT, ACK, any EVENT on a
           connection that was never admitted), handler seen within the wait)
    recovery: (the adapter restored the session named by the CONNECT's pid/offset - same socket id,
           its own room and the room "sess" -, ServerConnectionStateRecovery.UseMiddlewares) *)
Definition acase :=
  (list (N * N) * list (N * view) * list view * N * (N * N * N) * view * view
   * (bool * bool * N * N * N * bool) * (bool * bool))%type.

Definition room_code (x : sid) (r : room) : N :=
  match r with
  | ROwn y => if N.eqb x y then 0%N else 1000000%N
  | RNamed n => N.succ n
  end.

Definition subset (a b : list N) : bool := forallb (fun x => mem N.eqb x b) a.
Definition same_set (a b : list N) : bool := subset a b && subset b a.

Definition named_candidates (k : nat) : list N :=
  50%N :: map N.of_nat (seq 0 (S k)) ++ map (fun i => (100 + N.of_nat i)%N) (seq 0 k)
  ++ map (fun i => (200 + N.of_nat i)%N) (seq 0 k).

Definition view_of (k : nat) (s : server) (x : sid) : view :=
  (listed s x, reach_all s x, is_connected s x,
   match socket_rooms (adp s) x with Some _ => true | None => false end,
   map (room_code x) (rooms_of (adp s) x),
   reach_all s x, reach_room s (ROwn x) x,
   map N.succ (filter (fun n => reach_room s (RNamed n) x) (named_candidates k))).

Definition view_eqb (a b : view) : bool :=
  let '(l1, f1, c1, h1, r1, ra1, ro1, v1) := a in
  let '(l2, f2, c2, h2, r2, ra2, ro2, v2) := b in
  Bool.eqb l1 l2 && Bool.eqb f1 f2 && Bool.eqb c1 c2 && Bool.eqb h1 h2 && same_set r1 r2
  && Bool.eqb ra1 ra2 && Bool.eqb ro1 ro2 && same_set v1 v2.

(** join codes 4 and 5: the middleware starts `go socket.Join(room)`: 4 = room "slow_i", whose AddAll
    the rig's adapter holds up (the Join is in progress while the chain goes on); 5 = room "late_i",
    a Join that is only started after the client got its answer. *)
Definition mk_mwb (i : nat) (jv : N * N) : mwb :=
  let '(j, v) := jv in
  let ri := N.of_nat (S i) in             (* named room of middleware i; named room 0 = "shared" *)
  let ni := N.of_nat i in
  mkMwb (match j with 1 => [[ri]] | 2 => [[]] | 3 => [[ri; 0]] | _ => [] end)%N
        (match v with
         | 1 => Reject (RErr [ni; 1])
         | 2 => Reject (RStr [ni; 2])
         | 3 => Reject (RData (ni * 10 + 3))
         | _ => Accept
         end)%N
        (match j with 4 => [[100 + ni]] | 5 => [[200 + ni]] | _ => [] end)%N.

Fixpoint mk_chain (i : nat) (l : list (N * N)) : list mwb :=
  match l with [] => [] | jv :: l' => mk_mwb i jv :: mk_chain (S i) l' end.

(** Other sockets already went through the namespace: one admitted (in room "shared"), one refused
    after joining rooms.  The case's socket is thread 0 of a fresh run on top of that state. *)
Definition background : server :=
  let t1 := new_adm 100%N 50%N [mkMwb [[0; 7]]%N Accept []] in
  let t2 := new_adm 101%N 51%N [mkMwb [[0; 8]]%N Accept []; mkMwb [[9]]%N (Reject (RStr [1]%N)) []] in
  fst (run (solo_sched 2) (fst (run (solo_sched 1) (server0, [t1])), [t2])).

Definition case_sid : sid := 7%N.

(** Drive the case's thread the way the rig forces it: the admission runs; right after a middleware
    ran, the Join goroutine it started on a "slow" room enters Join (it now holds joinMu, its
    AddAll is held up by the rig's adapter; an earlier held Join finishes first); when the admission
    cannot move (it waits for joinMu) or is over, the held Join completes.  "late" Joins run after the handlers.  The view is recorded
    at every middleware entry. *)
Definition is_late (j : jthread) : bool := existsb (fun r => (200 <=? r)%N) (fst j).

Definition step_joins (sel : jthread -> bool) (t : adm) (s : server) : adm * server :=
  fold_left (fun ts j => match nth_error (t_js (fst ts)) j with
                         | Some jt => if sel jt then step_join j (fst ts) (snd ts) else ts
                         | None => ts
                         end)
            (seq 0 (length (t_js t))) (t, s).

Definition pc_code (p : pc) : N :=
  match p with
  | PNew => 1000 | PMw i => N.of_nat i | PDisable _ => 1001 | PLeave _ => 1002 | PSendError _ => 1003
  | PRejected _ => 1004 | PStore => 1005 | PConnTables => 1006 | PJoinOwn => 1007
  | PSendConnect => 1008 | PSetConnected => 1009 | PSpawn => 1010 | PAdmitted => 1011
  end%N.

Definition is_new (j : jthread) : bool := match snd j with JNew => true | _ => false end.

(** right after a middleware ran: the Join it started on a "slow" room gets in progress before the
    middleware returns; if an earlier Join still holds joinMu, that one has to finish first *)
Definition settle_new (t : adm) (s : server) : adm * server :=
  let pending := fun j => negb (is_late j) && is_new j in
  let '(ta, sa) := step_joins pending t s in
  if existsb pending (t_js ta)
  then let '(tb, sb) := step_joins is_hold ta sa in step_joins pending tb sb
  else (ta, sa).

Fixpoint sim (fuel : nat) (k : nat) (t : adm) (s : server) (acc : list (N * view))
  : adm * server * list (N * view) :=
  match fuel with
  | O => (t, s, acc)
  | S f =>
      (* the middleware is entered (and takes its view) even if its own Join then waits for joinMu *)
      let acc' := match t_pc t with
                  | PMw i => match nth_error (t_chain t) i with
                             | Some _ => if mem N.eqb (N.of_nat i) (map fst acc) then acc
                                         else acc ++ [(N.of_nat i, view_of k s (t_sid t))]
                             | None => acc
                             end
                  | _ => acc
                  end in
      let '(t1, s1) := step_main t s in
      if N.eqb (pc_code (t_pc t1)) (pc_code (t_pc t)) then
        (* blocked on joinMu, or over: let the held Join finish *)
        if held t then let '(t2, s2) := step_joins is_hold t s in sim f k t2 s2 acc'
        else (t, s, acc')
      else
        let '(t2, s2) := settle_new t1 s1 in
        sim f k t2 s2 acc'
  end.

Definition predict_rec (chain : list (N * N)) (rec usemw : bool)
  : list (N * view) * list view * N * (N * N * N) * view :=
  let k := length chain in
  let t0 := new_adm_rec case_sid 9%N (mk_chain 0 chain) (if rec then Some [50%N] else None) usemw in
  let '(t1, s1, calls) := sim (3 * k + 13) k t0 background [] in
  let hviews := match t_h t1 with HPending => [view_of k s1 case_sid] | _ => [] end in
  let '(t2, s2) := step_h t1 s1 in
  (* the late Joins, one after the other (each: enter, then AddAll) *)
  let '(t4, s4) := Nat.iter (2 * length (t_js t2) + 2)
                            (fun ts => step_joins (fun _ => true) (fst ts) (snd ts)) (t2, s2) in
  let '(resp, m) :=
    match packets case_sid (trace s4) with
    | [PktConnect x] => (if N.eqb x case_sid then 0 else 2, (0, 0, 0))
    | [PktConnectError (MText [i; c])] => (1, (1, i, c))
    | [PktConnectError (MData d)] => (1, (2, d / 10, d mod 10))
    | _ => (2, (0, 0, 0))
    end%N in
  (calls, hviews, resp, m, view_of k s4 case_sid).

Definition predict (chain : list (N * N)) := predict_rec chain false false.

Definition calls_eqb (a b : list (N * view)) : bool :=
  list_eqb (fun x y => N.eqb (fst x) (fst y) && view_eqb (snd x) (snd y)) a b.

Definition msg_eqb (a b : N * N * N) : bool :=
  let '(k1, i1, c1) := a in let '(k2, i2, c2) := b in N.eqb k1 k2 && N.eqb i1 i2 && N.eqb c1 c2.

(** Correspondence: the rig saw what the model predicts for this chain. *)
Definition agree (c : acase) : bool :=
  let '(chain, calls, hviews, resp, m, post, final, misc, (rec, usemw)) := c in
  let '(pcalls, phviews, presp, pm, ppost) := predict_rec chain rec usemw in
  calls_eqb pcalls calls
  && list_eqb view_eqb phviews hviews
  && N.eqb presp resp
  && msg_eqb pm m
  && view_eqb ppost post
  && view_eqb ppost final.

(** Property oracle, on the observation alone. *)
Definition nothing (v : view) : bool :=
  let '(l, f, c, h, r, ra, ro, via) := v in
  negb l && negb f && negb c && negb h
  && match r with [] => true | _ => false end
  && negb ra && negb ro && match via with [] => true | _ => false end.

(** not admitted (yet): not listed, not connected, not in its own room, not reachable *)
Definition not_admitted (v : view) : bool :=
  let '(l, f, c, h, r, ra, ro, via) := v in
  negb l && negb f && negb c && negb (mem N.eqb 0%N r)
  && negb ra && negb ro && match via with [] => true | _ => false end.

Definition admitted (v : view) : bool :=
  let '(l, f, c, h, r, ra, ro, via) := v in
  l && f && c && h && mem N.eqb 0%N r && ra && ro.

Fixpoint first_reject (i : N) (chain : list (N * N)) : option (N * N) :=
  match chain with
  | [] => None
  | (_, v) :: chain' => if N.eqb v 0 then first_reject (N.succ i) chain' else Some (i, v)
  end.

(** not admitted, for a restored session whose chain is running: it is in the rooms of its previous
    life (own room included), and nothing else *)
Definition not_admitted_core (v : view) : bool :=
  let '(l, f, c, h, r, ra, ro, via) := v in
  negb l && negb f && negb c && negb ra && negb ro && match via with [] => true | _ => false end.

Definition oracle (c : acase) : bool :=
  let '(chain, calls, hviews, resp, m, post, final, misc, (rec, usemw)) := c in
  let '(resp_sid, probe, trap, anyh, final_evt, hwaited) := misc in
  let k := length chain in
  let idx := map fst calls in
  let connected_ok :=
    N.eqb resp 0 && resp_sid
    && match hviews with [v] => admitted v | _ => false end
    && N.eqb anyh 1 && hwaited && probe
    && admitted post && admitted final in
  (* no middleware ever sees the socket admitted; the other namespace's chain never runs *)
  forallb (fun cv => if rec then not_admitted_core (snd cv) else not_admitted (snd cv)) calls
  && N.eqb trap 0
  && if rec && negb usemw then
       (* a session the adapter really restored, UseMiddlewares off: the only case without chain *)
       match calls with [] => true | _ => false end && connected_ok
     else
     match first_reject 0 chain with
     | None =>
         (* every middleware ran once, in registration order; then the socket is connected *)
         list_eqb N.eqb idx (map N.of_nat (seq 0 k)) && connected_ok
     | Some (j, v) =>
         (* the first rejection stops the chain, is carried by CONNECT_ERROR, nothing remains *)
         list_eqb N.eqb idx (map N.of_nat (seq 0 (S (N.to_nat j))))
         && N.eqb resp 1
         && msg_eqb m ((if N.eqb v 3 then 2 else 1)%N, j, v)
         && match hviews with [] => true | _ => false end
         && N.eqb anyh 0 && negb probe && N.eqb final_evt 0
         && nothing post && nothing final
     end.

(** ** Event middleware cases *)

(** handlers of the event (id, has ack parameter); chain (true = accepts); client asked for an ack;
    event name; arguments sent; whether they decode into the handlers' parameter types;
    observed: middleware calls (index, name, args), handler calls (id, args), error-handler runs,
    acknowledgements received by the client (count, payload as expected), waits completed. *)
Definition ecase :=
  (list (N * bool) * list bool * bool * bytes * list val * bool
   * list (N * bytes * list val) * list (N * list val) * N * (N * bool) * bool)%type.

Definition val_eqb (a b : val) : bool :=
  match a, b with
  | VStr x, VStr y => list_eqb N.eqb x y
  | VInt x, VInt y => Z.eqb x y
  | _, _ => false
  end.

Definition proj_mw (tr : list eobs) : list (N * bytes * list val) :=
  flat_map (fun o => match o with EMw i n a => [(N.of_nat i, n, a)] | _ => [] end) tr.
Definition proj_h (tr : list eobs) : list (N * list val) :=
  flat_map (fun o => match o with EHandler h a _ => [(h, a)] | _ => [] end) tr.
Definition proj_err (tr : list eobs) : N :=
  N.of_nat (length (filter (fun o => match o with EError => true | _ => false end) tr)).
Definition proj_ack (tr : list eobs) : bool :=
  existsb (fun o => match o with EHandler _ _ a => a | _ => false end) tr.

Definition mwcall_eqb (a b : N * bytes * list val) : bool :=
  let '(i1, n1, a1) := a in let '(i2, n2, a2) := b in
  N.eqb i1 i2 && list_eqb N.eqb n1 n2 && list_eqb val_eqb a1 a2.
Definition hcall_eqb (a b : N * list val) : bool :=
  N.eqb (fst a) (fst b) && list_eqb val_eqb (snd a) (snd b).

Definition epredict (c : ecase) : list eobs :=
  let '(hs, chain, with_ack, name, sent, dec_ok, _, _, _, _, _) := c in
  on_packet (map (fun b => fun (_ : bytes) (_ : list val) => b) chain) true name with_ack
            (fun _ => if dec_ok then Some sent else None)
            (map (fun h => mkHandler (fst h) (snd h)) hs).

Definition eagree (c : ecase) : bool :=
  let '(hs, chain, with_ack, name, sent, dec_ok, omw, oh, oerr, oack, done) := c in
  let tr := epredict c in
  done
  && list_eqb mwcall_eqb (proj_mw tr) omw
  && list_eqb hcall_eqb (proj_h tr) oh
  && N.eqb (proj_err tr) oerr
  && (if proj_ack tr then N.eqb (fst oack) 1 && snd oack else N.eqb (fst oack) 0).

Fixpoint chain_prefix (i : N) (chain : list bool) : list N :=
  match chain with
  | [] => []
  | b :: chain' => i :: (if b then chain_prefix (N.succ i) chain' else [])
  end.

Definition eoracle (c : ecase) : bool :=
  let '(hs, chain, with_ack, name, sent, dec_ok, omw, oh, oerr, oack, done) := c in
  let all_acc := forallb (fun b => b) chain in
  done
  (* every middleware call shows the event's name and its arguments *)
  && forallb (fun m => let '(_, n, a) := m in list_eqb N.eqb n name && list_eqb val_eqb a sent) omw
  && (if dec_ok then
        (* per handler: the chain in registration order, stopping at the first rejection *)
        list_eqb N.eqb (map (fun m => fst (fst m)) omw)
                 (flat_map (fun _ => chain_prefix 0 chain) hs)
        && (if all_acc then
              (* delivered: every handler once, with the arguments, acknowledged when asked *)
              list_eqb hcall_eqb oh (map (fun h => (fst h, sent)) hs)
              && N.eqb oerr 0
              && (if with_ack && existsb snd hs then N.eqb (fst oack) 1 && snd oack
                  else N.eqb (fst oack) 0)
            else
              (* a rejected event never reaches a handler, and is never acknowledged *)
              match oh with [] => true | _ => false end
              && N.eqb (fst oack) 0
              && N.eqb oerr (N.of_nat (length hs)))
      else
        match omw, oh with [], [] => N.eqb (fst oack) 0 | _, _ => false end).

(** ** Constructors used by the generated case files (typed, so that the literals elaborate fast) *)
Definition mkv (l f c h : bool) (r : list N) (ra ro : bool) (via : list N) : view :=
  (l, f, c, h, r, ra, ro, via).
Definition mkacase (chain : list (N * N)) (calls : list (N * view)) (hviews : list view) (resp : N)
  (mk mi mc : N) (post final : view) (resp_sid probe : bool) (trap anyh final_evt : N)
  (hwaited : bool) (rec usemw : bool) : acase :=
  (chain, calls, hviews, resp, (mk, mi, mc), post, final, (resp_sid, probe, trap, anyh, final_evt, hwaited),
   (rec, usemw)).
Definition mkecase (hs : list (N * bool)) (chain : list bool) (with_ack : bool) (name : bytes)
  (sent : list val) (dec_ok : bool) (omw : list (N * bytes * list val)) (oh : list (N * list val))
  (oerr : N) (nack : N) (ack_ok : bool) (done : bool) : ecase :=
  (hs, chain, with_ack, name, sent, dec_ok, omw, oh, oerr, (nack, ack_ok), done).

Definition oracle_and_agree (c : acase) : bool := oracle c && agree c.
Definition eoracle_and_eagree (c : ecase) : bool := eoracle c && eagree c.

(** ** Forced window: socket A parked at the entry of middleware g while socket B is admitted (or
       refused) and namespace-wide broadcasts (ticks 1, 2, 3) are sent before B, after B, after A. *)
Definition wcase :=
  (list (N * N) * list (N * N) * N * (N * N) * (list N * list N) * (view * view * view * view)
   * (list N * list N) * bool)%type.

Definition mkwcase (ca cb : list (N * N)) (g ra rb : N) (recva recvb : list N)
  (mida midb enda endb : view) (callsa callsb : list N) (parked : bool) : wcase :=
  (ca, cb, g, (ra, rb), (recva, recvb), (mida, midb, enda, endb), (callsa, callsb), parked).

Definition sid_a : sid := 7%N.
Definition sid_b : sid := 8%N.

Definition resp_code (x : sid) (s : server) : N :=
  match packets x (trace s) with
  | [PktConnect y] => if N.eqb x y then 0%N else 2%N
  | [PktConnectError _] => 1%N
  | _ => 2%N
  end.

Definition tick_hits (x : sid) (ticks : list (N * server)) : list N :=
  flat_map (fun t => if reach_all (snd t) x then [fst t] else []) ticks.

Definition wpredict (ca cb : list (N * N)) (g : N)
  : (N * N) * (list N * list N) * (view * view * view * view) * (list N * list N) :=
  let k := length ca in
  let ta := new_adm sid_a 9%N (mk_chain 0 ca) in
  let tb := new_adm sid_b 10%N (mk_chain 0 cb) in
  let st1 := run (repeat (0%nat, WMain) (S (N.to_nat g))) (background, [ta; tb]) in
  let st2 := run (repeat (1%nat, WMain) (k + 11) ++ [(1%nat, WHandler)]) st1 in
  let st3 := run (repeat (0%nat, WMain) (k + 11) ++ [(0%nat, WHandler)]) st2 in
  let ticks := [(1%N, fst st1); (2%N, fst st2); (3%N, fst st3)] in
  ((resp_code sid_a (fst st3), resp_code sid_b (fst st3)),
   (tick_hits sid_a ticks, tick_hits sid_b ticks),
   (view_of k (fst st2) sid_a, view_of k (fst st2) sid_b,
    view_of k (fst st3) sid_a, view_of k (fst st3) sid_b),
   (map N.of_nat (mw_calls sid_a (trace (fst st3))), map N.of_nat (mw_calls sid_b (trace (fst st3))))).

Definition wagree (c : wcase) : bool :=
  let '(ca, cb, g, (ra, rb), (recva, recvb), (mida, midb, enda, endb), (callsa, callsb), parked) := c in
  let '((pra, prb), (preca, precb), (pma, pmb, pea, peb), (pca, pcb)) := wpredict ca cb g in
  parked
  && N.eqb pra ra && N.eqb prb rb
  && list_eqb N.eqb preca recva && list_eqb N.eqb precb recvb
  && view_eqb pma mida && view_eqb pmb midb && view_eqb pea enda && view_eqb peb endb
  && list_eqb N.eqb pca callsa && list_eqb N.eqb pcb callsb.

Definition expected_calls (chain : list (N * N)) : list N :=
  match first_reject 0 chain with
  | None => map N.of_nat (seq 0 (length chain))
  | Some (j, _) => map N.of_nat (seq 0 (S (N.to_nat j)))
  end.

(** Property on the observation: a broadcast reaches a socket only once its whole chain accepted -
    never while it is parked in a middleware, never after a rejection - and does reach it then. *)
Definition woracle (c : wcase) : bool :=
  let '(ca, cb, g, (ra, rb), (recva, recvb), (mida, midb, enda, endb), (callsa, callsb), parked) := c in
  let acc_a := match first_reject 0 ca with None => true | Some _ => false end in
  let acc_b := match first_reject 0 cb with None => true | Some _ => false end in
  parked
  && not_admitted mida
  && list_eqb N.eqb callsa (expected_calls ca) && list_eqb N.eqb callsb (expected_calls cb)
  && (if acc_a then N.eqb ra 0 && list_eqb N.eqb recva [3%N] && admitted enda
      else N.eqb ra 1 && match recva with [] => true | _ => false end && nothing enda)
  && (if acc_b then N.eqb rb 0 && list_eqb N.eqb recvb [2%N; 3%N] && admitted midb && admitted endb
      else N.eqb rb 1 && match recvb with [] => true | _ => false end && nothing midb && nothing endb).

Definition woracle_and_wagree (c : wcase) : bool := woracle c && wagree c.
