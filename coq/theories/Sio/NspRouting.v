(** Namespace multiplexing: routing of decoded packets by namespace on one connection.

    Ports, as coded:
      - server_conn.go  [onParserFinish] (routing by header.Namespace, "" -> "/", CONNECT handling,
        invalid state -> close), [connect] (namespace lookup, nsp.add),
        [onClose] / [close], [remove];
      - namespace.go    [add] (middlewares, [doConnect]: nsp.sockets.set, c.sockets.set, join own room, CONNECT reply:
        repaired order),
        [nextAckID] (one counter per namespace);
      - server_socket.go [onPacket] (EVENT / ACK / DISCONNECT), [emit], [registerAckHandler] (ack table per
        socket), [Disconnect], [onClose];
      - adapter/adapter_memory.go [Broadcast]/[apply] (one adapter, hence one room table, per namespace);
      - client_manager.go [socket] (name normalisation, one socket per name), [onParserFinish] (dispatch
        to the socket registered for exactly the packet's namespace, silently dropped otherwise);
      - client_socket.go [Connect], [emit]/[_sendBuffers] (repaired code: packets are sent only once the CONNECT
        reply arrived, buffered before), [onPacket], [onConnect]/[emitBuffered], [Disconnect],
        [destroy] -> manager [destroy]/[Close].

    Namespaces are byte strings.  The per-namespace state is a function of the namespace name, so
    the product structure "one independent state per namespace" is explicit; a connection owns one
    table nsp -> socket id.  Handlers are the rig's: every socket records the entry and answers an
    event that carries an id with an ACK (same namespace, same id, same tag). *)
From SioV Require Import Base.GoSem.
Local Open Scope N_scope.

Definition nsname := list N.
Definition nseqb : nsname -> nsname -> bool := list_eqb N.eqb.

Inductive ptype := PConnect | PDisconnect | PEvent | PAck | PConnectError | PBinEvent | PBinAck.

Record packet := mkP { p_type : ptype; p_nsp : nsname; p_id : option N; p_tag : N }.

(** server_conn.go / client_manager.go: [if header.Namespace == "" { header.Namespace = "/" }] *)
Definition norm_hdr (n : nsname) : nsname := match n with [] => [47] | _ => n end.
(** server.go [Of], client_manager.go [socket]: "" -> "/", "a" -> "/a" *)
Definition norm_api (n : nsname) : nsname :=
  match n with [] => [47] | 47 :: _ => n | _ => 47 :: n end.

(** association lists keyed by namespace (Go maps keyed by string) *)
Fixpoint alookup {A} (n : nsname) (l : list (nsname * A)) : option A :=
  match l with
  | [] => None
  | (k, v) :: l' => if nseqb n k then Some v else alookup n l'
  end.
Definition aremove {A} (n : nsname) (l : list (nsname * A)) : list (nsname * A) :=
  filter (fun kv => negb (nseqb n (fst kv))) l.
Definition aset {A} (n : nsname) (v : A) (l : list (nsname * A)) : list (nsname * A) :=
  (n, v) :: aremove n l.

Definition upd {A} (f : nsname -> A) (n : nsname) (v : A) : nsname -> A :=
  fun m => if nseqb n m then v else f m.
Definition updN {A} (f : N -> A) (c : N) (v : A) : N -> A :=
  fun d => if c =? d then v else f d.

(** observable actions *)
Inductive out :=
| OSend (c : N) (p : packet)                      (* a packet handed to connection c *)
| OEv (srv : bool) (c : N) (n : nsname) (sid : N) (tag : N)   (* event handler entry on a socket of namespace n *)
| OAck (srv : bool) (c : N) (n : nsname) (tag : N)            (* ack callback of an emit made on a socket of n *)
| OLife (srv : bool) (c : N) (n : nsname) (k : N)             (* 0 connect, 1 connect_error, 2 disconnect *)
| OClosed (srv : bool) (c : N).                               (* the connection was closed by this side *)

(** * Server *)
Record ssock := mkSS { ss_sid : N; ss_conn : N; ss_acks : list (N * N); ss_rooms : list N }.

Record nstate := mkNS {
  ns_exists : bool;            (* created with Server.Of *)
  ns_socks : list ssock;       (* nsp.sockets + the namespace's adapter (rooms per socket) *)
  ns_ack : N;                  (* Namespace.ackID *)
  ns_held : list N;            (* connections whose CONNECT is inside nsp.add (middlewares running) *)
  ns_pre : list (N * N)        (* (conn, room): rooms a middleware joined the not-yet-accepted socket to.
                                  They live in the namespace's adapter, but the adapter delivers only to
                                  sockets that nsp.sockets knows (adapterSocketStore.Get), i.e. [ns_socks] *)
}.

Record sconn := mkSC { sc_closed : bool; sc_table : list (nsname * N) (* serverConn.sockets byNsp *) }.

Record server := mkSrv { sv_nsp : nsname -> nstate; sv_conn : N -> sconn }.

Definition find_sock (sid : N) (ns : nstate) : option ssock :=
  find (fun k => ss_sid k =? sid) (ns_socks ns).
Definition set_socks (ns : nstate) (l : list ssock) : nstate :=
  mkNS (ns_exists ns) l (ns_ack ns) (ns_held ns) (ns_pre ns).
Definition ns_remove (sid : N) (ns : nstate) : nstate :=
  set_socks ns (filter (fun k => negb (ss_sid k =? sid)) (ns_socks ns)).
Definition ns_update (k : ssock) (ns : nstate) : nstate :=
  (* the socket with k's id takes k's ack table and rooms (ids are unique; id and connection stay) *)
  set_socks ns (map (fun k' => if ss_sid k' =? ss_sid k then mkSS (ss_sid k') (ss_conn k') (ss_acks k) (ss_rooms k) else k')
                    (ns_socks ns)).

Definition set_nsp (s : server) (n : nsname) (ns : nstate) : server :=
  mkSrv (upd (sv_nsp s) n ns) (sv_conn s).
Definition set_table (s : server) (c : N) (t : list (nsname * N)) : server :=
  mkSrv (sv_nsp s) (updN (sv_conn s) c (mkSC (sc_closed (sv_conn s c)) t)).

Definition table (s : server) (c : N) := sc_table (sv_conn s c).
(** the socket of connection c in namespace n, through the connection's table *)
Definition sock_of (s : server) (c : N) (n : nsname) : option ssock :=
  match alookup n (table s c) with
  | Some sid => find_sock sid (sv_nsp s n)
  | None => None
  end.

(** serverConn.close / onClose: every socket of the table is closed (removed from its namespace),
    the table is emptied, the transport is closed. *)
Definition close_conn (c : N) (s : server) : server * list out :=
  let t := table s c in
  (mkSrv (fold_right (fun kv f => upd f (fst kv) (ns_remove (snd kv) (f (fst kv)))) (sv_nsp s) t)
         (updN (sv_conn s) c (mkSC true [])),
   OClosed true c :: map (fun kv => OLife true c (fst kv) 2) t).

(** serverSocket.onClose: leave the namespace, leave the connection's table. *)
Definition sock_close (c : N) (n : nsname) (sid : N) (s : server) : server * list out :=
  (set_table (set_nsp s n (ns_remove sid (sv_nsp s n))) c (aremove n (table s c)),
   [OLife true c n 2]).

Definition remove_one (c : N) (l : list N) : list N :=
  (fix go l := match l with [] => [] | x :: l' => if x =? c then l' else x :: go l' end) l.

(** serverConn.connect up to the call of nsp.add *)
Definition s_connect (c : N) (n : nsname) (s : server) : server * list out :=
  let ns := sv_nsp s n in
  if ns_exists ns
  then (set_nsp s n (mkNS true (ns_socks ns) (ns_ack ns) (c :: ns_held ns) (ns_pre ns)), [])
  else (s, [OSend c (mkP PConnectError n None 0)]).

Definition s_event (c : N) (n : nsname) (sid : N) (p : packet) (s : server) : server * list out :=
  match find_sock sid (sv_nsp s n) with
  | Some _ =>
      (s, OEv true c n sid (p_tag p) ::
          match p_id p with Some i => [OSend c (mkP PAck n (Some i) (p_tag p))] | None => [] end)
  | None => (s, [])
  end.

Fixpoint take_ack (i : N) (l : list (N * N)) : option (N * list (N * N)) :=
  match l with
  | [] => None
  | (j, t) :: l' =>
      if i =? j then Some (t, l')
      else match take_ack i l' with Some (t', r) => Some (t', (j, t) :: r) | None => None end
  end.

Definition s_ack (c : N) (n : nsname) (sid : N) (p : packet) (s : server) : server * list out :=
  match find_sock sid (sv_nsp s n), p_id p with
  | Some k, Some i =>
      match take_ack i (ss_acks k) with
      | Some (_, rest) =>
          (set_nsp s n (ns_update (mkSS sid (ss_conn k) rest (ss_rooms k)) (sv_nsp s n)),
           [OAck true c n (p_tag p)])
      | None => (s, [])
      end
  | _, _ => (s, [])
  end.

(** server_conn.go onParserFinish *)
Definition s_recv (c : N) (p : packet) (s : server) : server * list out :=
  let n := norm_hdr (p_nsp p) in
  match alookup n (table s c), p_type p with
  | None, PConnect => s_connect c n s
  | Some sid, PEvent | Some sid, PBinEvent => s_event c n sid p s
  | Some sid, PAck | Some sid, PBinAck => s_ack c n sid p s
  | Some sid, PDisconnect => sock_close c n sid s
  | _, _ => close_conn c s
  end.

Definition pre_rooms (c : N) (l : list (N * N)) : list N :=
  map snd (filter (fun x => fst x =? c) l).
Definition pre_drop (c : N) (l : list (N * N)) : list (N * N) :=
  filter (fun x => negb (fst x =? c)) l.

(** a namespace middleware calls socket.Join(room) on the socket whose CONNECT it is examining *)
Definition s_mwjoin (c : N) (n : nsname) (room : N) (s : server) : server * list out :=
  let ns := sv_nsp s n in
  if existsb (N.eqb c) (ns_held ns)
  then (set_nsp s n (mkNS (ns_exists ns) (ns_socks ns) (ns_ack ns) (ns_held ns) ((c, room) :: ns_pre ns)), [])
  else (s, []).

(** nsp.add returns: middleware verdict; on success doConnect: nsp.sockets.set, the connection's
    table gets the socket (repaired code: before the CONNECT reply is written), own room, CONNECT
    reply, connection handlers.  [sid] is the id the new socket drew (random in the code, so it
    is an input here). *)
Definition s_verdict (c : N) (n : nsname) (ok : bool) (sid : N) (s : server) : server * list out :=
  let ns := sv_nsp s n in
  if existsb (N.eqb c) (ns_held ns) then
    if ok then
      let s1 := set_table (set_nsp s n (mkNS (ns_exists ns) (ns_socks ns ++ [mkSS sid c [] (pre_rooms c (ns_pre ns))])
                                             (ns_ack ns) (remove_one c (ns_held ns)) (pre_drop c (ns_pre ns))))
                          c (aset n sid (table s c)) in
      let o1 := [OSend c (mkP PConnect n None 0); OLife true c n 0] in
      (* serverConn.connect re-checks after the admission: a socket admitted while or after its
         connection was closed is closed at once (c5b4563) *)
      if sc_closed (sv_conn s c)
      then (fst (sock_close c n sid s1), o1 ++ snd (sock_close c n sid s1))
      else (s1, o1)
    else
      (* refused: the rooms a middleware joined the socket to are left (serverSocket.cleanup) *)
      (set_nsp s n (mkNS (ns_exists ns) (ns_socks ns) (ns_ack ns) (remove_one c (ns_held ns)) (pre_drop c (ns_pre ns))),
       [OSend c (mkP PConnectError n None 0)])
  else (s, []).

(** ServerSocket.Emit (with or without an ack function) *)
Definition s_emit (c : N) (n : nsname) (tag : N) (ack : bool) (s : server) : server * list out :=
  match sock_of s c n with
  | Some k =>
      let ns := sv_nsp s n in
      if ack then
        let id := ns_ack ns in
        let ns1 := ns_update (mkSS (ss_sid k) (ss_conn k) ((id, tag) :: ss_acks k) (ss_rooms k)) ns in
        (set_nsp s n (mkNS (ns_exists ns1) (ns_socks ns1) (id + 1) (ns_held ns1) (ns_pre ns1)),
         [OSend c (mkP PEvent n (Some id) tag)])
      else (s, [OSend c (mkP PEvent n None tag)])
  | None => (s, [])
  end.

Definition in_room (room : option N) (k : ssock) : bool :=
  match room with None => true | Some r => existsb (N.eqb r) (ss_rooms k) end.
Definition not_except (ex : option N) (k : ssock) : bool :=
  match ex with None => true | Some sid => negb (ss_sid k =? sid) end.

(** Namespace.Emit / To(room).Emit / socket.Broadcast(): the namespace's own adapter *)
Definition s_bcast (n : nsname) (room ex : option N) (tag : N) (s : server) : server * list out :=
  (s, map (fun k => OSend (ss_conn k) (mkP PEvent n None tag))
          (filter (fun k => in_room room k && not_except ex k) (ns_socks (sv_nsp s n)))).

Definition s_join (c : N) (n : nsname) (room : N) (s : server) : server * list out :=
  match sock_of s c n with
  | Some k => (set_nsp s n (ns_update (mkSS (ss_sid k) (ss_conn k) (ss_acks k) (room :: ss_rooms k)) (sv_nsp s n)), [])
  | None => (s, [])
  end.

(** ServerSocket.Disconnect(false) *)
Definition s_disc (c : N) (n : nsname) (s : server) : server * list out :=
  match sock_of s c n with
  | Some k =>
      let '(s', o) := sock_close c n (ss_sid k) s in
      (s', OSend c (mkP PDisconnect n None 0) :: o)
  | None => (s, [])
  end.

Inductive sop :=
| SRecv (c : N) (p : packet)
| SVerdict (c : N) (n : nsname) (ok : bool) (sid : N)
| SMwJoin (c : N) (n : nsname) (room : N)
| SEmit (c : N) (n : nsname) (tag : N) (ack : bool)
| SBcast (n : nsname) (room ex : option N) (tag : N)
| SJoin (c : N) (n : nsname) (room : N)
| SDisc (c : N) (n : nsname)
| SConnClose (c : N).

Definition sstep (o : sop) (s : server) : server * list out :=
  match o with
  | SRecv c p => s_recv c p s
  | SVerdict c n ok sid => s_verdict c n ok sid s
  | SMwJoin c n room => s_mwjoin c n room s
  | SEmit c n tag ack => s_emit c n tag ack s
  | SBcast n room ex tag => s_bcast n room ex tag s
  | SJoin c n room => s_join c n room s
  | SDisc c n => s_disc c n s
  | SConnClose c => close_conn c s
  end.

Definition ns0 (ex : bool) : nstate := mkNS ex [] 0 [] [].
Definition server0 (names : list nsname) : server :=
  mkSrv (fun n => ns0 (existsb (nseqb n) names)) (fun _ => mkSC false []).

Fixpoint srun (l : list sop) (s : server) : server * list out :=
  match l with
  | [] => (s, [])
  | o :: l' => let '(s1, o1) := sstep o s in let '(s2, o2) := srun l' s1 in (s2, o1 ++ o2)
  end.

(** * Client (one Manager = one connection) *)
Inductive cst := CDisc | CPend | CConn.

Record csock := mkCS {
  cs_state : cst; cs_active : bool; cs_acks : list (N * N); cs_ack : N;
  cs_sbuf : list packet; cs_rbuf : list packet }.

Record manager := mkM { m_open : bool; m_socks : list (nsname * csock) }.

Definition cs0 : csock := mkCS CDisc false [] 0 [] [].
Definition manager0 : manager := mkM true [].

(** Manager.Socket: the socket registered for the (normalised) name, created on first use *)
Definition get_sock (m : manager) (n : nsname) : csock :=
  match alookup n (m_socks m) with Some k => k | None => cs0 end.
Definition put_sock (m : manager) (n : nsname) (k : csock) : manager :=
  mkM (m_open m) (aset n k (m_socks m)).

Definition any_active (m : manager) : bool := existsb (fun kv => cs_active (snd kv)) (m_socks m).

(** clientSocket.destroy -> Manager.destroy: the connection is closed when no socket is active *)
Definition c_destroy (c : N) (m : manager) (n : nsname) (k : csock) : manager * list out :=
  let m1 := put_sock m n (mkCS (cs_state k) false (cs_acks k) (cs_ack k) (cs_sbuf k) (cs_rbuf k)) in
  if any_active m1 then (m1, []) else (mkM false (m_socks m1), [OClosed false c]).

Definition c_connect (c : N) (n0 : nsname) (m : manager) : manager * list out :=
  let n := norm_api n0 in
  let k := get_sock m n in
  if negb (m_open m) then (m, []) else
  match cs_state k with
  | CConn => (put_sock m n k, [])
  | CPend => (put_sock m n (mkCS CPend true (cs_acks k) (cs_ack k) (cs_sbuf k) (cs_rbuf k)), [])
  | CDisc => (put_sock m n (mkCS CPend true (cs_acks k) (cs_ack k) (cs_sbuf k) (cs_rbuf k)),
              [OSend c (mkP PConnect n None 0)])
  end.

Definition c_emit (c : N) (n0 : nsname) (tag : N) (ack : bool) (m : manager) : manager * list out :=
  let n := norm_api n0 in
  let k := get_sock m n in
  let id := if ack then Some (cs_ack k) else None in
  let p := mkP PEvent n id tag in
  let acks := if ack then (cs_ack k, tag) :: cs_acks k else cs_acks k in
  let nxt := if ack then cs_ack k + 1 else cs_ack k in
  match cs_state k with
  | CConn => (put_sock m n (mkCS CConn (cs_active k) acks nxt (cs_sbuf k) (cs_rbuf k)),
              if m_open m then [OSend c p] else [])
  | st => (put_sock m n (mkCS st (cs_active k) acks nxt (cs_sbuf k ++ [p]) (cs_rbuf k)), [])
  end.

Definition c_disc (c : N) (n0 : nsname) (m : manager) : manager * list out :=
  let n := norm_api n0 in
  let k := get_sock m n in
  let snd_ := match cs_state k with
              | CDisc => []
              | _ => if m_open m then [OSend c (mkP PDisconnect n None 0)] else []
              end in
  let '(m1, o1) := c_destroy c m n k in
  match cs_state k with
  | CDisc => (m1, snd_ ++ o1)
  | _ =>
      let k1 := get_sock m1 n in
      (put_sock m1 n (mkCS CDisc false (cs_acks k1) (cs_ack k1) (cs_sbuf k1) (cs_rbuf k1)),
       snd_ ++ o1 ++ [OLife false c n 2])
  end.

Definition ev_outs (c : N) (n : nsname) (p : packet) : list out :=
  OEv false c n 0 (p_tag p) ::
  match p_id p with Some i => [OSend c (mkP PAck n (Some i) (p_tag p))] | None => [] end.

(** client_manager.go onParserFinish + clientSocket.onPacket *)
Definition c_recv (c : N) (p : packet) (m : manager) : manager * list out :=
  let n := norm_hdr (p_nsp p) in
  match alookup n (m_socks m) with
  | None => (m, [])
  | Some k =>
      match p_type p with
      | PConnect =>
          (put_sock m n (mkCS CConn (cs_active k) (cs_acks k) (cs_ack k) [] []),
           flat_map (ev_outs c n) (cs_rbuf k) ++ map (OSend c) (cs_sbuf k) ++ [OLife false c n 0])
      | PEvent | PBinEvent =>
          match cs_state k with
          | CConn => (m, ev_outs c n p)
          | _ => (put_sock m n (mkCS (cs_state k) (cs_active k) (cs_acks k) (cs_ack k) (cs_sbuf k) (cs_rbuf k ++ [p])), [])
          end
      | PAck | PBinAck =>
          match p_id p with
          | Some i =>
              match take_ack i (cs_acks k) with
              | Some (_, rest) =>
                  (put_sock m n (mkCS (cs_state k) (cs_active k) rest (cs_ack k) (cs_sbuf k) (cs_rbuf k)),
                   [OAck false c n (p_tag p)])
              | None => (m, [])
              end
          | None => (m, [])
          end
      | PConnectError =>
          let '(m1, o1) := c_destroy c m n k in (m1, o1 ++ [OLife false c n 1])
      | PDisconnect =>
          let '(m1, o1) := c_destroy c m n k in
          let k1 := get_sock m1 n in
          (put_sock m1 n (mkCS CDisc false (cs_acks k1) (cs_ack k1) (cs_sbuf k1) (cs_rbuf k1)),
           o1 ++ [OLife false c n 2])
      end
  end.

(** Manager.onClose (the transport was closed by the peer): every active socket is closed *)
Definition c_closed (c : N) (m : manager) : manager * list out :=
  if m_open m then
    (mkM false (map (fun kv => (fst kv, if cs_active (snd kv)
                      then mkCS CDisc (cs_active (snd kv)) (cs_acks (snd kv)) (cs_ack (snd kv)) (cs_sbuf (snd kv)) (cs_rbuf (snd kv))
                      else snd kv)) (m_socks m)),
     OClosed false c ::
     flat_map (fun kv => if cs_active (snd kv) then [OLife false c (fst kv) 2] else []) (m_socks m))
  else (m, []).

Inductive cop :=
| CConnect (n : nsname) | CEmit (n : nsname) (tag : N) (ack : bool) | CDisconnect (n : nsname)
| CRecv (p : packet) | CClosed.

Definition cstep (c : N) (o : cop) (m : manager) : manager * list out :=
  match o with
  | CConnect n => c_connect c n m
  | CEmit n tag ack => c_emit c n tag ack m
  | CDisconnect n => c_disc c n m
  | CRecv p => c_recv c p m
  | CClosed => c_closed c m
  end.

(** * The two composed: operations of the live rig, with the wire emptied after each of them *)
Inductive op :=
| OpConnect (c : N) (n : nsname)
| OpRelease (n : nsname) (ok : bool)
| OpCEmit (c : N) (n : nsname) (tag : N) (ack : bool)
| OpSEmit (c : N) (n : nsname) (tag : N) (ack : bool)
| OpBcast (n : nsname) (room : option N) (tag : N)
| OpSBcast (c : N) (n : nsname) (room : option N) (tag : N)
| OpJoin (c : N) (n : nsname) (room : N)
| OpCDisc (c : N) (n : nsname)
| OpSDisc (c : N) (n : nsname)
| OpRaw (c : N) (p : packet).          (* a raw peer writes this packet *)

Record sys := mkSys {
  y_srv : server;
  y_mgr : N -> manager;
  y_raw : N -> bool;            (* the connection is a raw protocol peer *)
  y_rawclosed : N -> bool;
  y_gated : nsname -> bool;
  y_next : N }.                 (* socket ids are drawn from a counter in the composed system *)

Inductive msg := MSrv (c : N) (p : packet) | MCli (c : N) (p : packet) | MSrvClose (c : N) | MCliClose (c : N).

(** what a raw peer reads *)
Inductive obs :=
| BOut (o : out)
| BRx (c : N) (p : packet)
| BRawClosed (c : N).

Definition route_srv_out (y : sys) (o : out) : list msg * list obs :=
  match o with
  | OSend c p => if y_raw y c then ([], [BRx c p]) else ([MCli c p], [])
  | OClosed _ c => if y_raw y c then ([], [BRawClosed c]) else ([MCliClose c], [])
  | _ => ([], [BOut o])
  end.
Definition route_cli_out (o : out) : list msg * list obs :=
  match o with
  | OSend c p => ([MSrv c p], [])
  | OClosed _ c => ([MSrvClose c], [BOut o])
  | _ => ([], [BOut o])
  end.

Definition route_all {A} (f : A -> list msg * list obs) (l : list A) : list msg * list obs :=
  (flat_map (fun o => fst (f o)) l, flat_map (fun o => snd (f o)) l).

Definition set_srv (y : sys) (s : server) : sys := mkSys s (y_mgr y) (y_raw y) (y_rawclosed y) (y_gated y) (y_next y).
Definition bump (y : sys) (k : N) : sys := mkSys (y_srv y) (y_mgr y) (y_raw y) (y_rawclosed y) (y_gated y) (y_next y + k).
Definition set_mgr (y : sys) (c : N) (m : manager) : sys :=
  mkSys (y_srv y) (updN (y_mgr y) c m) (y_raw y) (y_rawclosed y) (y_gated y) (y_next y).

(** server steps; a CONNECT for an ungated namespace runs through nsp.add at once *)
Definition srv_steps (y : sys) (l : list sop) : sys * list msg * list obs :=
  let '(s', o) := srun l (y_srv y) in
  (* nothing reaches the peer of a closed connection *)
  let o := filter (fun x => match x with OSend c _ => negb (sc_closed (sv_conn s' c)) | _ => true end) o in
  let '(ms, ob) := route_all (route_srv_out y) o in
  (set_srv y s', ms, ob).

Definition mark_rawclosed (y : sys) (ob : list obs) : sys :=
  mkSys (y_srv y) (y_mgr y) (y_raw y)
        (fun c => y_rawclosed y c || existsb (fun b => match b with BRawClosed d => c =? d | _ => false end) ob)
        (y_gated y) (y_next y).

Definition deliver (y : sys) (m : msg) : sys * list msg * list obs :=
  match m with
  | MSrv c p =>
      if sc_closed (sv_conn (y_srv y) c) then (y, [], []) else
      let n := norm_hdr (p_nsp p) in
      let auto := match p_type p, alookup n (table (y_srv y) c) with
                  | PConnect, None =>
                      if ns_exists (sv_nsp (y_srv y) n) then
                        if y_gated y n then [SMwJoin c n 1]   (* the rig's gate joins room r1, then blocks *)
                        else [SVerdict c n true (y_next y)]
                      else []
                  | _, _ => []
                  end in
      let '(y', ms, ob) := srv_steps (bump y 1) (SRecv c p :: auto) in (mark_rawclosed y' ob, ms, ob)
  | MSrvClose c =>
      if sc_closed (sv_conn (y_srv y) c) then (y, [], []) else
      let '(s', o) := close_conn c (y_srv y) in
      (* the peer is gone: nothing is routed back, only the server-side callbacks are observed *)
      (set_srv y s', [], flat_map (fun x => match x with OLife _ _ _ _ => [BOut x] | _ => [] end) o)
  | MCli c p =>
      if negb (m_open (y_mgr y c)) then (y, [], []) else
      let '(m', o) := cstep c (CRecv p) (y_mgr y c) in
      let '(ms, ob) := route_all route_cli_out o in (set_mgr y c m', ms, ob)
  | MCliClose c =>
      let '(m', o) := cstep c CClosed (y_mgr y c) in
      (set_mgr y c m', [], flat_map (fun x => match x with OSend _ _ => [] | _ => [BOut x] end) o)
  end.

Fixpoint pump (fuel : nat) (y : sys) (q : list msg) : sys * list obs :=
  match fuel, q with
  | _, [] => (y, [])
  | O, _ => (y, [])
  | S f, m :: q' =>
      let '(y1, ms, ob) := deliver y m in
      let '(y2, ob2) := pump f y1 (q' ++ ms) in (y2, ob ++ ob2)
  end.

Definition pump_fuel : nat := 64.

Definition cli_op (y : sys) (c : N) (o : cop) : sys * list obs :=
  let '(m', out) := cstep c o (y_mgr y c) in
  let '(ms, ob) := route_all route_cli_out out in
  let '(y', ob2) := pump pump_fuel (set_mgr y c m') ms in (y', ob ++ ob2).

Definition srv_op (y : sys) (l : list sop) : sys * list obs :=
  let '(y1, ms, ob) := srv_steps y l in
  let y1 := mark_rawclosed y1 ob in
  let '(y', ob2) := pump pump_fuel y1 ms in (y', ob ++ ob2).

Definition sid_of (y : sys) (c : N) (n : nsname) : option N :=
  option_map ss_sid (sock_of (y_srv y) c n).

Definition ystep (o : op) (y : sys) : sys * list obs :=
  match o with
  | OpConnect c n => cli_op y c (CConnect n)
  | OpCEmit c n tag ack => cli_op y c (CEmit n tag ack)
  | OpCDisc c n => cli_op y c (CDisconnect n)
  | OpRelease n0 ok =>
      let n := norm_api n0 in
      let held := rev (ns_held (sv_nsp (y_srv y) n)) in
      srv_op (bump y (N.of_nat (length held)))
             (map (fun ci => SVerdict (fst ci) n ok (y_next y + snd ci))
                       (combine held (map N.of_nat (seq 0 (length held)))))
  | OpSEmit c n0 tag ack => srv_op y [SEmit c (norm_api n0) tag ack]
  | OpBcast n0 room tag => srv_op y [SBcast (norm_api n0) room None tag]
  | OpSBcast c n0 room tag =>
      let n := norm_api n0 in
      match sid_of y c n with
      | Some sid => srv_op y [SBcast n room (Some sid) tag]
      | None => (y, [])
      end
  | OpJoin c n0 room => srv_op y [SJoin c (norm_api n0) room]
  | OpSDisc c n0 => srv_op y [SDisc c (norm_api n0)]
  | OpRaw c p =>
      if y_rawclosed y c then (y, []) else
      let '(y', ob) := pump pump_fuel y [MSrv c p] in (y', ob)
  end.

Fixpoint yrun (l : list op) (y : sys) : sys * list obs :=
  match l with
  | [] => (y, [])
  | o :: l' => let '(y1, o1) := ystep o y in let '(y2, o2) := yrun l' y1 in (y2, o1 ++ o2)
  end.

Definition sys0 (names gated : list nsname) (raws : list N) : sys :=
  mkSys (server0 names) (fun _ => manager0) (fun c => existsb (N.eqb c) raws) (fun _ => false)
        (fun n => existsb (nseqb n) gated) 1.
