(** The Socket.IO packet codec: ports of [Parser.Encode] / [encodeString] / [encodeBinary]
    (parser/json/encode.go), of [Parser.Add] and [reconstructor.decode] (parser/json/decode.go),
    and a specification printer [spec_frames] written from the protocol text alone
    (socket.io-protocol v5: <type>[<n>-][<nsp>,][<id>][<json>], then the attachments).
    The header comes from Sio/Header.v (C10); the JSON library is a parameter. *)
From SioV Require Import Base.GoSem Sio.Json Sio.Header Sio.Binary.
Local Open Scope N_scope.

Record enc_out := mkEnc {
  e_frames : list bytes;        (* what Encode returned *)
  e_header : header;            (* the caller's header after Encode *)
  e_value : option gv           (* the caller's value after Encode *)
}.

Record dstate := mkD { d_h : header; d_name : bytes; d_bufs : list bytes; d_rem : Z }.

Section WithJson.
  Variable marshal : jv -> bytes.
  Variable unmarshal : bytes -> option jv.
  Variable max_att : Z.                      (* maxAttachments; 0 = no limit *)

  (** ** Encode *)
  (** [v = None] is Encode(header, nil): the JSON part is omitted. *)
  Definition encode_string (h : header) (v : option gv) : res bytes :=
    match v with
    | None => Ok (encode_header h)
    | Some x => rbind (to_jv unmarshal x) (fun j => Ok (encode_header h ++ marshal j))
    end.

  (** The argument must be a non-nil pointer or a struct. *)
  Definition arg_ok (x : gv) : bool :=
    match x with
    | VPtr _ | VStruct _ => true
    | _ => false
    end.

  Definition encode (h : header) (v : option gv) : res enc_out :=
    match v with
    | None => rbind (encode_string h None) (fun s => Ok (mkEnc [s] h None))
    | Some x =>
      if negb (arg_ok x) then Err else
      let t := h_type h in
      if ((t =? 2) || (t =? 3) || is_binary t) && hb 2 x then
        let t' := if t =? 2 then 5 else if t =? 3 then 6 else t in
        match dv marshal false x 0 with
        | Ok (m, bufs, n) =>
          if (0 <? max_att)%Z && (max_att <? Z.of_N n)%Z then Err else
          let h' := mkHeader t' (h_nsp h) (h_id h) (Z.of_N n) in
          rbind (encode_string h' (Some (cur m)))
                (fun s => Ok (mkEnc (s :: bufs) h' (Some (undo m))))
        | Err => Err
        | Panic => Panic
        end
      else rbind (encode_string h v) (fun s => Ok (mkEnc [s] h v))
    end.

  (** ** Add *)
  (** json.Unmarshal(tmp, &v) with v []string *)
  Definition unm_names (tmp : bytes) : option (list bytes) :=
    match unmarshal tmp with
    | Some (JArr l) =>
      (fix go (l : list jv) : option (list bytes) :=
         match l with
         | [] => Some []
         | JStr s :: l' => match go l' with Some r => Some (s :: r) | None => None end
         | JNull :: l' => match go l' with Some r => Some ([] :: r) | None => None end
         | _ => None
         end) l
    | Some JNull => Some []
    | _ => None
    end.

  (** One frame in; the new decoder state and, when a packet is complete, what [finish] gets:
      header, event name, buffers (payload first). *)
  Definition add (st : option dstate) (data : bytes)
    : res (option dstate * option (header * bytes * list bytes)) :=
    match st with
    | None =>
      rbind (parse_header unm_names data) (fun '(h, buf, name) =>
        if negb (is_binary (h_type h)) || (h_att h =? 0)%Z
        then Ok (None, Some (h, name, [buf]))
        else Ok (Some (mkD h name [buf] (h_att h)), None))
    | Some r =>
      let bufs := d_bufs r ++ [data] in
      let rem := (d_rem r - 1)%Z in
      if (rem =? 0)%Z then Ok (None, Some (d_h r, d_name r, bufs))
      else Ok (Some (mkD (d_h r) (d_name r) bufs rem), None)
    end.

  (** Feed frames to a fresh decoder; the packets finished, each with the index of the frame that
      completed it. *)
  Fixpoint feed (st : option dstate) (i : nat) (fs : list bytes)
    : res (list (nat * (header * bytes * list bytes)) * option dstate) :=
    match fs with
    | [] => Ok ([], st)
    | f :: fs' =>
      rbind (add st f) (fun '(st', fin) =>
        rbind (feed st' (S i) fs') (fun '(r, stf) =>
          Ok (match fin with Some p => (i, p) :: r | None => r end, stf)))
    end.

  (** ** decode *)
  (** json.Unmarshal of an array into the []any of typed pointers: element-wise, a null or
      missing element leaves the zero value, extra elements are ignored. *)
  Fixpoint unm_args (rb : option (list bytes)) (tys : list ty) (js : list jv) : list (res jb) :=
    let rc := match rb with Some _ => true | None => false end in
    match tys with
    | [] => []
    | t :: ts =>
      match js with
      | [] => zero rc t :: unm_args rb ts []
      | j :: js' =>
        (match j with JNull => zero rc t | _ => recon marshal rb t j end) :: unm_args rb ts js'
      end
    end.

  (** The array with the event name in front. *)
  Definition ev_args (rb : option (list bytes)) (tys : list ty) (j : jv) : res (list jb) :=
    match j with
    | JArr [] | JNull => res_all (unm_args rb tys [])
    | JArr (JStr _ :: args) | JArr (JNull :: args) => res_all (unm_args rb tys args)
    | _ => Err
    end.

  Definition decode (h : header) (bufs : list bytes) (tys : list ty) : res (list jb) :=
    match bufs with
    | [] => Err
    | [payload] =>
      if is_event (h_type h) then
        match payload with
        | [] => Err
        | _ => match unmarshal payload with Some j => ev_args None tys j | None => Err end
        end
      else
        match tys with
        | [t] =>
          if is_ack (h_type h) then
            match unmarshal (match payload with [] => [91; 93] | _ => payload end) with
            | Some (JArr js) => res_all (unm_args None tys js)
            | Some JNull => res_all (unm_args None tys [])
            | _ => Err
            end
          else
            match unmarshal (match payload with [] => [123; 125] | _ => payload end) with
            | Some JNull => rbind (zero false t) (fun z => Ok [z])
            | Some j => rbind (recon marshal None t j) (fun r => Ok [r])
            | None => Err
            end
        | _ =>
          match unmarshal (match payload with [] => [91; 93] | _ => payload end) with
          | Some (JArr js) => res_all (unm_args None tys js)
          | Some JNull => res_all (unm_args None tys [])
          | _ => Err
          end
        end
    | payload :: atts =>
      match unmarshal payload with
      | Some j =>
        if is_event (h_type h) then ev_args (Some atts) tys j
        else match j with
             | JArr js => res_all (unm_args (Some atts) tys js)
             | JNull => res_all (unm_args (Some atts) tys [])
             | _ => Err
             end
      | None => Err
      end
    end.

  (** ** The protocol's own description of the frames *)
  (** Replace binary leaves by placeholders numbered left to right. *)
  Fixpoint extract (b : jb) (n : N) : jv * list bytes * N :=
    match b with
    | BNull => (JNull, [], n)
    | BBool x => (JBool x, [], n)
    | BInt z => (JInt z, [], n)
    | BStr s => (JStr s, [], n)
    | BBin x => (ph_jv n, [x], n + 1)
    | BArr l =>
      let '(js, bs, n') :=
        (fix go (l : list jb) (n : N) : list jv * list bytes * N :=
           match l with
           | [] => ([], [], n)
           | x :: l' =>
             let '(j, b1, n1) := extract x n in
             let '(t, b2, n2) := go l' n1 in
             (j :: t, b1 ++ b2, n2)
           end) l n in
      (JArr js, bs, n')
    | BObj kvs =>
      let '(m, bs, n') :=
        (fix go (l : list (bytes * jb)) (n : N) : list (bytes * jv) * list bytes * N :=
           match l with
           | [] => ([], [], n)
           | (k, x) :: l' =>
             let '(j, b1, n1) := extract x n in
             let '(t, b2, n2) := go l' n1 in
             ((k, j) :: t, b1 ++ b2, n2)
           end) kvs n in
      (JObj m, bs, n')
    end.

  (** <packet type>[<# of binary attachments>-][<namespace>,][<acknowledgment id>][JSON-stringified
      payload without binary], then the attachments.  [t] is EVENT(2) / ACK(3) / ...; a payload
      with binary makes it BINARY_EVENT(5) / BINARY_ACK(6). *)
  Definition spec_frames (t : N) (nsp : bytes) (id : option N) (data : option jb) : list bytes :=
    let '(js, atts) := match data with
                       | Some b => let '(j, a, _) := extract b 0 in (marshal j, a)
                       | None => ([], [])
                       end in
    let bin := match atts with [] => false | _ => true end in
    ([48 + (if bin then t + 3 else t)]
     ++ (if bin then fmt_uint (N.of_nat (length atts)) ++ [45] else [])
     ++ (if bytes_eqb nsp [47] then [] else nsp ++ [44])
     ++ (match id with Some n => fmt_uint n | None => [] end)
     ++ js) :: atts.
End WithJson.

(** * What a handler sees of a sent shape; the [any]-handler side condition *)
Fixpoint count_bin (b : jb) : nat :=
  match b with
  | BBin _ => 1
  | BArr l => fold_right (fun x a => count_bin x + a)%nat O l
  | BObj kvs => fold_right (fun kv a => count_bin (snd kv) + a)%nat O kvs
  | _ => O
  end.

(** Go maps have no order: objects decoded into [any] are compared with their keys sorted. *)
Fixpoint norm_b (b : jb) : jb :=
  match b with
  | BArr l => BArr (map norm_b l)
  | BObj kvs => BObj (sort_keys (map (fun '(k, x) => (k, norm_b x)) kvs))
  | _ => b
  end.

(** What a parameter of type [t] shows of the sent shape: [any] cells hold Go maps (no order). *)
Fixpoint view_ty (t : ty) (b : jb) : jb :=
  match t with
  | TAny | TMapAny => norm_b b
  | TPtr t' => view_ty t' b
  | TSlice t' => match b with BArr l => BArr (map (view_ty t') l) | _ => b end
  | TStruct fs =>
    match b with
    | BObj kvs => BObj (map (fun '(k, t') => (k, match lookup k kvs with Some x => view_ty t' x | None => BNull end)) fs)
    | _ => b
    end
  | _ => b
  end.

(** A binary leaf received into an [any] cell is substituted only when it is a map entry reached
    through arrays first and maps after (reconstructMap). *)
Fixpoint any_ok_map (b : jb) : bool :=
  match b with
  | BBin _ => true
  | BObj kvs => forallb (fun kv => any_ok_map (snd kv)) kvs
  | BArr _ => Nat.eqb (count_bin b) 0
  | _ => true
  end.
Fixpoint any_ok (b : jb) : bool :=
  match b with
  | BBin _ => false
  | BArr l => forallb any_ok l
  | BObj kvs => forallb (fun kv => any_ok_map (snd kv)) kvs
  | _ => true
  end.
(** The same for the [any] cells inside a typed parameter. *)
Fixpoint ty_ok (t : ty) (b : jb) : bool :=
  match t with
  | TAny => any_ok b
  | TMapAny => match b with BObj kvs => forallb (fun kv => any_ok_map (snd kv)) kvs | _ => true end
  | TPtr t' => ty_ok t' b
  | TSlice t' => match b with BArr l => forallb (ty_ok t') l | _ => true end
  | TStruct fs =>
    match b with
    | BObj kvs => forallb (fun '(k, t') => match lookup k kvs with Some x => ty_ok t' x | None => true end) fs
    | _ => true
    end
  | _ => true
  end.

(** The instance compared with the implementation: Go's encoding/json is [jprint] / [jparse]. *)
Definition encode_go := encode jprint jparse.
Definition add_go := add jparse.
Definition feed_go := feed jparse.
Definition decode_go := decode jprint jparse.
