(** Executable comparison and property oracle used by the C10 correspondence check (kernel
    evaluation on the observations emitted by `vh siodecode`). *)
From SioV Require Import Base.GoSem Sio.Header Sio.Decoder.
Local Open Scope Z_scope.

Inductive oclass := OPanic | OErr | OMore | OFin.

Definition oclass_eqb (a b : oclass) : bool :=
  match a, b with
  | OPanic, OPanic | OErr, OErr | OMore, OMore | OFin, OFin => true
  | _, _ => false
  end.

Definition bytes_eqb (a b : bytes) : bool := list_eqb N.eqb a b.

Definition opt_eqb {A} (eqb : A -> A -> bool) (a b : option A) : bool :=
  match a, b with
  | None, None => true
  | Some x, Some y => eqb x y
  | _, _ => false
  end.

(** A harness case.  Library answers as recorded on the real run:
    [c_names] the calls json.Unmarshal(tmp, &[]string) (input, answer);
    [c_um]    the one call json.Unmarshal(payload, target) made by decode:
              (single, payload, k, answer = shapes of the k target values or error). *)
Record dcase := mkCase {
  c_frames : list bytes;                       (* the frames that were fed *)
  c_maxatt : Z;
  c_nt     : nat;                              (* number of handler parameter types *)
  c_names  : list (bytes * option (list bytes));
  c_outs   : list oclass;                      (* per frame fed *)
  c_hdr    : option (N * bytes * option N * Z * bytes);   (* type, nsp, id, attachments, name *)
  c_um     : option (bool * bytes * nat * option (list shape));
  c_dec    : option oclass;                    (* OFin = values returned *)
  c_bins   : list bytes                        (* attachments found in the decoded values *)
}.

(** The recorded answers as oracles.  A call the real run did not make is answered with an
    error, so a model that asks a different question is seen to disagree. *)
Fixpoint names_oracle (t : list (bytes * option (list bytes))) (q : bytes) : option (list bytes) :=
  match t with
  | [] => None
  | (i, a) :: t' => if bytes_eqb i q then a else names_oracle t' q
  end.

Definition um_oracle (u : option (bool * bytes * nat * option (list shape)))
  (single : bool) (payload : bytes) (k : nat) : option (nat -> shape) :=
  match u with
  | Some (s, p, k', Some shapes) =>
    if Bool.eqb s single && bytes_eqb p payload && Nat.eqb k k'
    then Some (fun i => nth i shapes SOther) else None
  | _ => None
  end.

Definition class_of (o : outcome) : oclass :=
  match o with Failed => OErr | NeedMore => OMore | Finished _ => OFin end.

Fixpoint last_finished (os : list outcome) : option recon :=
  match os with
  | [] => None
  | [Finished r] => Some r
  | _ :: os' => last_finished os'
  end.

(** Attachments placed into a decoded value, in walk order. *)
Fixpoint bins_of (v : value) : list bytes :=
  match v with
  | VOther => []
  | VBin b => [b]
  | VSeq l => (fix go (l : list value) : list bytes :=
                 match l with [] => [] | x :: l' => bins_of x ++ go l' end) l
  end.

Definition model_run (c : dcase) : res (option recon * list outcome) :=
  run parse_uint_go (names_oracle (c_names c)) (c_maxatt c) None (c_frames c).

Definition hdr_eqb (r : recon) (h : N * bytes * option N * Z * bytes) : bool :=
  let '(t, nsp, id, att, name) := h in
  N.eqb (h_type (r_header r)) t && bytes_eqb (h_nsp (r_header r)) nsp
  && opt_eqb N.eqb (h_id (r_header r)) id && Z.eqb (h_att (r_header r)) att
  && bytes_eqb (r_name r) name.

(** Correspondence: the model, run on the same frames with the same library answers, shows the
    same per-frame outcomes, the same header, and the same decode result. *)
Definition agree (c : dcase) : bool :=
  match model_run c with
  | Panic => false
  | Err => false
  | Ok (_, os) =>
    list_eqb oclass_eqb (map class_of os) (c_outs c)
    && match last_finished os, c_hdr c with
       | None, None => match c_dec c with None => true | Some _ => false end
       | Some r, Some h =>
         hdr_eqb r h
         && match decode (um_oracle (c_um c)) r (c_nt c), c_dec c with
            | Ok vs, Some OFin =>
              list_eqb bytes_eqb (concat (map bins_of vs)) (c_bins c)
            | Err, Some OErr => true
            | _, _ => false
            end
       | _, _ => false
       end
  end.

(** The property evaluated on the implementation's observations alone:
    - no panic, neither in Add nor in decode;
    - outcomes are need-more* followed by at most one terminal outcome, and the run only stops
      early on a terminal outcome;
    - a finished packet announced a non-negative count and was finished by exactly that many
      further frames (none for a non-binary packet);
    - every attachment found in the decoded values is one of the attachment frames (never the
      JSON payload itself, never foreign data). *)
Fixpoint outs_wf (os : list oclass) : bool :=
  match os with
  | [] => true
  | [o] => negb (oclass_eqb o OPanic)
  | o :: os' => oclass_eqb o OMore && outs_wf os'
  end.

Definition oracle (c : dcase) : bool :=
  outs_wf (c_outs c)
  && Nat.eqb (length (c_outs c)) (length (c_frames c))
  && match c_dec c with Some OPanic => false | Some OMore => false | _ => true end
  && match c_hdr c with
     | None => true
     | Some (t, _, _, att, _) =>
       (0 <=? att) && Z.eqb (Z.of_nat (length (c_frames c))) (1 + att)
       && (is_binary t || Z.eqb att 0)
       && ((c_maxatt c <=? 0) || (att <=? c_maxatt c))
     end
  && forallb (fun b => existsb (bytes_eqb b) (tl (c_frames c))) (c_bins c).
