(** Executable comparison and property oracle used by the C10 correspondence check (kernel
    evaluation on the observations emitted by `vh siodecode`). *)
From SioV Require Import Base.GoSem Sio.Header Sio.Decoder Sio.DecoderDispatch.
Local Open Scope Z_scope.

Inductive oclass := OPanic | OErr | OMore | OFin.

Definition oclass_eqb (a b : oclass) : bool :=
  match a, b with
  | OPanic, OPanic | OErr, OErr | OMore, OMore | OFin, OFin => true
  | _, _ => false
  end.

Definition opt_eqb {A} (eqb : A -> A -> bool) (a b : option A) : bool :=
  match a, b with
  | None, None => true
  | Some x, Some y => eqb x y
  | _, _ => false
  end.

(** A harness case.  Library answers as recorded on the real run:
    [c_names] the calls json.Unmarshal(tmp, &[]string) (input, answer);
    [c_um]    the one call json.Unmarshal(payload, target) made by decode:
              (single, payload, k, answer = shapes of the k target values or error). *)
Record dcase := mkCase {
  c_frames : list bytes;                       (* the frames that were fed *)
  c_maxatt : Z;
  c_nt     : nat;                              (* number of handler parameter types *)
  c_names  : list (bytes * option (list bytes));
  c_outs   : list oclass;                      (* per frame fed *)
  c_hdr    : option (N * bytes * option N * Z * bytes);   (* type, nsp, id, attachments, name *)
  c_um     : option (bool * bytes * nat * option (list shape));
  c_dec    : option oclass;                    (* OFin = values returned *)
  c_bins   : list bytes                        (* attachments found in the decoded values *)
}.

(** The recorded answers as oracles.  A call the real run did not make is answered with an
    error, so a model that asks a different question is seen to disagree. *)
Fixpoint names_oracle (t : list (bytes * option (list bytes))) (q : bytes) : option (list bytes) :=
  match t with
  | [] => None
  | (i, a) :: t' => if bytes_eqb i q then a else names_oracle t' q
  end.

Definition um_oracle (u : option (bool * bytes * nat * option (list shape)))
  (single : bool) (payload : bytes) (k : nat) : option (nat -> shape) :=
  match u with
  | Some (s, p, k', Some shapes) =>
    if Bool.eqb s single && bytes_eqb p payload && Nat.eqb k k'
    then Some (fun i => nth i shapes SOther) else None
  | _ => None
  end.

Definition class_of (o : outcome) : oclass :=
  match o with Failed => OErr | NeedMore => OMore | Finished _ => OFin end.

Fixpoint last_finished (os : list outcome) : option recon :=
  match os with
  | [] => None
  | [Finished r] => Some r
  | _ :: os' => last_finished os'
  end.

Definition model_run (c : dcase) : res (option recon * list outcome) :=
  run parse_uint_go (names_oracle (c_names c)) (c_maxatt c) None (c_frames c).

Definition hdr_eqb (r : recon) (h : N * bytes * option N * Z * bytes) : bool :=
  let '(t, nsp, id, att, name) := h in
  N.eqb (h_type (r_header r)) t && bytes_eqb (h_nsp (r_header r)) nsp
  && opt_eqb N.eqb (h_id (r_header r)) id && Z.eqb (h_att (r_header r)) att
  && bytes_eqb (r_name r) name.

(** The question decode puts to the JSON library (single?, payload, number of targets), or [None]
    when it returns before asking.  Compared with the recorded call, so that a payload that differs
    from the model's is seen even when both sides end in an error. *)
Definition decode_call (r : recon) (nt : nat) : option (bool * bytes * nat) :=
  let ev := is_event (h_type (r_header r)) in
  match r_buffers r with
  | [] => None
  | [payload] =>
    if ev then match payload with [] => None | _ => Some (false, payload, S nt) end
    else if Nat.eqb nt 1 && negb (is_ack (h_type (r_header r)))
         then Some (true, match payload with [] => [123; 125]%N | _ => payload end, 1%nat)
         else Some (false, match payload with [] => [91; 93]%N | _ => payload end, nt)
  | payload :: _ => Some (false, payload, if ev then S nt else nt)
  end.

Definition call_eqb (a b : bool * bytes * nat) : bool :=
  let '(s1, p1, k1) := a in let '(s2, p2, k2) := b in
  Bool.eqb s1 s2 && bytes_eqb p1 p2 && Nat.eqb k1 k2.

(** Correspondence: the model, run on the same frames with the same library answers, shows the
    same per-frame outcomes, the same header, the same question to the JSON library and the same
    decode result. *)
Definition agree (c : dcase) : bool :=
  match model_run c with
  | Panic => false
  | Err => false
  | Ok (_, os) =>
    list_eqb oclass_eqb (map class_of os) (c_outs c)
    && match last_finished os, c_hdr c with
       | None, None => match c_dec c with None => true | Some _ => false end
       | Some r, Some h =>
         hdr_eqb r h
         && opt_eqb call_eqb (decode_call r (c_nt c))
                    (match c_um c with Some (s, p, k, _) => Some (s, p, k) | None => None end)
         && match decode (um_oracle (c_um c)) r (c_nt c), c_dec c with
            | Ok vs, Some OFin =>
              list_eqb bytes_eqb (concat (map bins_of vs)) (c_bins c)
            | Err, Some OErr => true
            | _, _ => false
            end
       | _, _ => false
       end
  end.

(** The property evaluated on the implementation's observations alone:
    - no panic, neither in Add nor in decode;
    - outcomes are need-more* followed by at most one terminal outcome, and the run only stops
      early on a terminal outcome;
    - a finished packet announced a non-negative count and was finished by exactly that many
      further frames (none for a non-binary packet);
    - every attachment found in the decoded values is one of the attachment frames (never the
      JSON payload itself, never foreign data). *)
Fixpoint outs_wf (os : list oclass) : bool :=
  match os with
  | [] => true
  | [o] => negb (oclass_eqb o OPanic)
  | o :: os' => oclass_eqb o OMore && outs_wf os'
  end.

(** The count a header announces, read off the wire without any machine arithmetic: the decimal
    number between the type byte and the first '-' (binary types only). *)
Definition announced (f : bytes) : option N :=
  match f with
  | c :: rest =>
    if is_binary (c - 48)%N then
      match index_byte 45 rest with
      | Some i => let d := firstn i rest in
                  match d with [] => None | _ => if forallb is_digit d then Some (dec_val 0 d) else None end
      | None => None
      end
    else None
  | [] => None
  end.

(** A packet still pending after the last frame fed is legitimate only if the announced count is
    one a Go int can count (below 2^63), exceeds the frames received so far, and respects the
    configured limit - otherwise the peer has wedged the decoder. *)
Definition pending_legit (c : dcase) : bool :=
  match last (c_outs c) OErr, c_frames c with
  | OMore, f :: fs =>
    match announced f with
    | Some n => (n <? two63)%N && (N.of_nat (length fs) <? n)%N
                && ((c_maxatt c <=? 0) || (Z.of_N n <=? c_maxatt c))
    | None => false
    end
  | _, _ => true
  end.

Definition oracle (c : dcase) : bool :=
  outs_wf (c_outs c) && pending_legit c
  && Nat.eqb (length (c_outs c)) (length (c_frames c))
  && match c_dec c with Some OPanic => false | Some OMore => false | _ => true end
  && match c_hdr c with
     | None => true
     | Some (t, _, _, att, _) =>
       (0 <=? att) && Z.eqb (Z.of_nat (length (c_frames c))) (1 + att)
       && (is_binary t || Z.eqb att 0)
       && ((c_maxatt c <=? 0) || (att <=? c_maxatt c))
     end
  && forallb (fun b => existsb (bytes_eqb b) (tl (c_frames c))) (c_bins c).

(** * Live rig rows: a raw peer joined "/" on a real server and sent the frames; the server's
      reaction is compared with the dispatch model run on the decoder-level observations of the
      same frames.  [lc_nt]: parameters of the one handler registered for the event name. *)
Record lcase := mkLive {
  lc_dec     : dcase;        (* same frames through Parser.Add + decode, recorded answers *)
  lc_name    : bytes;        (* event name the class addresses (handlers exist exactly for it) *)
  lc_handler : bool;         (* observed: handler entered *)
  lc_errh    : bool;         (* observed: socket error handler invoked *)
  lc_closed  : bool;         (* observed: server closed the connection *)
  lc_healthy : bool;         (* observed: another connection still completes an ack round trip *)
  lc_later   : bool          (* observed: a later connection can be opened and used *)
}.

Definition live_sock (c : lcase) : sock :=
  mkSock [47%N]
         (fun name => if bytes_eqb name (lc_name c) then [c_nt (lc_dec c)] else [])
         (fun _ => None).

Definition model_reports (c : lcase) : res (list report) :=
  on_messages parse_uint_go (names_oracle (c_names (lc_dec c))) (um_oracle (c_um (lc_dec c)))
              (c_maxatt (lc_dec c)) None [live_sock c] (c_frames (lc_dec c)).

Definition has_deliver (l : list report) : bool :=
  existsb (fun r => match r with RepDeliver _ _ _ | RepAck _ _ _ => true | _ => false end) l.
Definition has_error (l : list report) : bool :=
  existsb (fun r => match r with RepError _ => true | _ => false end) l.

(** Correspondence of the dispatch layer: the server reacted as the model says. *)
Definition live_agree (c : lcase) : bool :=
  agree (lc_dec c)
  && match model_reports c with
     | Ok reps =>
       Bool.eqb (has_deliver reps) (lc_handler c)
       && Bool.eqb (has_error reps) (lc_errh c)
       && Bool.eqb (closes reps) (lc_closed c)
     | _ => false
     end.

(** The property on the live observation alone: the process and its other / later connections
    keep working, and frames the decoder rejects (Add error, or decode error for the handler)
    are reported - connection closed or error handlers invoked - and never reach the handler. *)
Definition live_oracle (c : lcase) : bool :=
  oracle (lc_dec c)
  && lc_healthy c && lc_later c
  && (let d := lc_dec c in
      let rejected := match last (c_outs d) OErr, c_dec d with
                      | OErr, _ => true
                      | _, Some OErr => true
                      | _, _ => false
                      end in
      if rejected then (lc_closed c || lc_errh c) && negb (lc_handler c) else true).
