(** Proofs about Sio/DecoderDispatch.v: no frame makes the dispatch panic, and every decoding
    error is reported (connection closed with every socket's error handlers run, or the error
    handlers of the socket the packet was for), never dropped. *)
From SioV Require Import Base.GoSem Sio.Header Sio.HeaderProofs Sio.Decoder Sio.DecoderProofs
  Sio.DecoderDispatch.
From Coq Require Import Lia.
Local Open Scope Z_scope.

Section DispatchProofs.
  Variable puint : bytes -> option N.
  Variable unm_strs : bytes -> option (list bytes).
  Variable unmarshal : bool -> bytes -> nat -> option (nat -> shape).
  Variable max_att : Z.

  Notation on_event := (on_event unmarshal).
  Notation on_packet := (on_packet unmarshal).
  Notation on_finish := (on_finish unmarshal).
  Notation on_message := (on_message puint unm_strs unmarshal max_att).
  Notation on_messages := (on_messages puint unm_strs unmarshal max_att).

  (** What one handler sees: decode error -> error handlers, else the handler is called. *)
  Definition handler_report (nsp name : bytes) (r : recon) (nt : nat) (rep : report) : Prop :=
    match decode unmarshal r nt with
    | Err => rep = RepError nsp
    | Ok vals => rep = RepDeliver nsp name vals
    | Panic => False
    end.

  Lemma on_event_spec nsp name r hs :
    exists reps, on_event nsp name r hs = Ok reps /\ Forall2 (handler_report nsp name r) hs reps.
  Proof.
    induction hs as [|nt hs (reps & E & F)]; cbn [DecoderDispatch.on_event].
    - exists []. split; [reflexivity|constructor].
    - pose proof (decode_no_panic unmarshal r nt) as Hnp.
      destruct (decode unmarshal r nt) as [vals| |] eqn:Ed; [| |congruence]; cbn [rbind]; rewrite E; cbn [rbind].
      + eexists; split; [reflexivity|]. constructor; [|exact F]. unfold handler_report. now rewrite Ed.
      + eexists; split; [reflexivity|]. constructor; [|exact F]. unfold handler_report. now rewrite Ed.
  Qed.

  Lemma on_packet_no_panic s r : on_packet s r <> Panic.
  Proof.
    unfold DecoderDispatch.on_packet. destruct (is_event _).
    - destruct (on_event_spec (s_nsp s) (r_name r) r (s_handlers s (r_name r))) as (reps & E & _).
      rewrite E; discriminate.
    - destruct (is_ack _).
      + destruct (h_id _) as [id|]; [|discriminate]. destruct (s_acks s id) as [nt|]; [|discriminate].
        pose proof (decode_no_panic unmarshal r nt). destruct (decode unmarshal r nt); congruence.
      + destruct (_ =? 1)%N; discriminate.
  Qed.

  Lemma on_finish_no_panic socks r : on_finish socks r <> Panic.
  Proof.
    unfold DecoderDispatch.on_finish. destruct (find_sock _ _) as [s|].
    - destruct (_ || _); [discriminate|apply on_packet_no_panic].
    - destruct (_ =? 0)%N; [|discriminate].
      pose proof (decode_no_panic unmarshal r 1). destruct (decode unmarshal r 1); congruence.
  Qed.

  Lemma on_message_no_panic st socks data : on_message st socks data <> Panic.
  Proof.
    unfold DecoderDispatch.on_message. apply rbind_no_panic; [apply add_no_panic|].
    intros [st' o] _. destruct o; try discriminate.
    apply rbind_no_panic; [apply on_finish_no_panic|]. discriminate.
  Qed.

  Lemma on_messages_no_panic frames : forall st socks, on_messages st socks frames <> Panic.
  Proof.
    induction frames as [|f fs IH]; intros st socks; cbn [DecoderDispatch.on_messages]; [discriminate|].
    apply rbind_no_panic; [apply on_message_no_panic|]. intros [st' reps] _.
    destruct (closes reps); [discriminate|].
    apply rbind_no_panic; [apply IH|]. discriminate.
  Qed.

  (** Every frame is answered, and according to what the decoder said:
      - Add failed: every socket of the connection gets its error handlers run and the connection
        is closed;
      - more frames needed: nothing happens;
      - a packet finished: see [on_finish]; in particular for an event packet addressed to a
        joined namespace each registered handler either is called with the decoded values or,
        if decoding for its parameter types fails, the socket's error handlers run. *)
  Lemma on_message_spec st socks data :
    exists st' o reps,
      add puint unm_strs max_att st data = Ok (st', o) /\
      on_message st socks data = Ok (st', reps) /\
      match o with
      | Failed => reps = fatal socks
      | NeedMore => reps = []
      | Finished r => on_finish socks r = Ok reps
      end.
  Proof.
    destruct (add_total puint unm_strs max_att st data) as (st' & o & E).
    unfold DecoderDispatch.on_message. rewrite E. cbn [rbind].
    destruct o as [| |r].
    - do 3 eexists; repeat split; reflexivity.
    - do 3 eexists; repeat split; reflexivity.
    - pose proof (on_finish_no_panic socks r) as Hnp.
      destruct (on_finish socks r) as [reps| |] eqn:Ef; [| |congruence].
      + exists st', (Finished r), reps. repeat split; try reflexivity. exact Ef.
      + (* on_finish never returns Err *)
        exfalso. revert Ef. unfold DecoderDispatch.on_finish.
        destruct (find_sock _ _) as [s|].
        * destruct (_ || _); [discriminate|]. unfold DecoderDispatch.on_packet.
          destruct (is_event _).
          { destruct (on_event_spec (s_nsp s) (r_name r) r (s_handlers s (r_name r))) as (x & Ex & _).
            rewrite Ex; discriminate. }
          destruct (is_ack _).
          { destruct (h_id _) as [id|]; [|discriminate]. destruct (s_acks s id) as [nt|]; [|discriminate].
            destruct (decode unmarshal r nt); discriminate. }
          destruct (_ =? 1)%N; discriminate.
        * destruct (_ =? 0)%N; [|discriminate]. destruct (decode unmarshal r 1); discriminate.
  Qed.

  Lemma on_finish_event socks r s :
    find_sock socks (packet_nsp (r_header r)) = Some s ->
    is_event (h_type (r_header r)) = true ->
    exists reps, on_finish socks r = Ok reps /\
      Forall2 (handler_report (s_nsp s) (r_name r) r) (s_handlers s (r_name r)) reps.
  Proof.
    intros Hs He. unfold DecoderDispatch.on_finish. rewrite Hs.
    assert (Ht : ((h_type (r_header r) =? 0)%N || (h_type (r_header r) =? 4)%N) = false).
    { unfold is_event in He. destruct (N.eqb_spec (h_type (r_header r)) 2) as [->|];
        [reflexivity|]. destruct (N.eqb_spec (h_type (r_header r)) 5) as [->|]; [reflexivity|discriminate]. }
    rewrite Ht. unfold DecoderDispatch.on_packet. rewrite He. apply on_event_spec.
  Qed.

  (** A failed Add reaches every socket of this connection and closes it. *)
  Lemma fatal_spec socks :
    In RepClose (fatal socks) /\ forall s, In s socks -> In (RepError (s_nsp s)) (fatal socks).
  Proof.
    unfold fatal. split.
    - apply in_or_app. right. left. reflexivity.
    - intros s Hs. apply in_or_app. left. apply in_map_iff. eauto.
  Qed.
End DispatchProofs.
