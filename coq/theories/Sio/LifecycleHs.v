(** Sio/LifecycleHs.v - Server.Close racing the construction of a new connection (C06: the cell
    "server shutdown x during the handshake").

    Ported from engine.io/server.go: ServeHTTP (IsClosed test - passed at the start state),
    handleHandshake -> newSocket { newServerSocket; callbacks := onSocket(socket) [= sio
    newServerConn, which runs the user's ParserCreator]; setCallbacks; store.set;
    if IsClosed() { socket.Close(); return nil } } and Server.Close { close(closed);
    store.closeAll() over ONE snapshot }.  A session that survives can be used: a CONNECT packet is
    served as long as the Engine.IO socket is not closed.  What a close of the Engine.IO socket
    does to the namespace sockets is the subject of Sio/Lifecycle.v; here it is one step.
    [late = true] is the code (re-check after store.set); [false] re-checks before onSocket. *)
From SioV Require Import Base.GoSem Base.Conc Sio.Lifecycle Sio.LifecycleReach Sio.LifecycleInv.
Local Open Scope N_scope.

Record hst := mkHst {
  h_closed : bool;     (* Server.closed *)
  h_store : bool;      (* sid in the store *)
  h_eclosed : bool;    (* the Engine.IO socket's close ran *)
  h_hs : N;            (* handshake goroutine *)
  h_srv : N;           (* Server.Close goroutine *)
  h_snap : bool;       (* closeAll's snapshot holds the session *)
  h_conn : bool        (* a namespace socket of this session is connected *)
}.
Definition hinit : hst := mkHst false false false 0 0 false false.

Inductive hact := HHandshake | HServerClose | HConnect.

Definition eclose (s : hst) : hst :=   (* socket.close: OnClose -> sockets closed and reported; store.delete *)
  mkHst (h_closed s) false true (h_hs s) (h_srv s) (h_snap s) false.

Definition hstep (late : bool) (a : hact) (s : hst) : option hst :=
  match a with
  | HHandshake =>
      if h_hs s =? 0 then (* newServerSocket; [early variant: if IsClosed { socket.Close(); return nil }] *)
        if negb late && h_closed s
        then Some (mkHst (h_closed s) (h_store s) true 9 (h_srv s) (h_snap s) (h_conn s))
        else Some (mkHst (h_closed s) (h_store s) (h_eclosed s) 1 (h_srv s) (h_snap s) (h_conn s))
      else if h_hs s =? 1 then (* onSocket (user callbacks run here, arbitrarily long); setCallbacks *)
        Some (mkHst (h_closed s) (h_store s) (h_eclosed s) 2 (h_srv s) (h_snap s) (h_conn s))
      else if h_hs s =? 2 then (* store.set *)
        Some (mkHst (h_closed s) (negb (h_eclosed s)) (h_eclosed s) 3 (h_srv s) (h_snap s) (h_conn s))
      else if h_hs s =? 3 then (* code: if IsClosed { socket.Close(); return nil }; else serve the transport *)
        if late && h_closed s
        then let s1 := eclose s in Some (mkHst (h_closed s1) (h_store s1) (h_eclosed s1) 9 (h_srv s1) (h_snap s1) (h_conn s1))
        else Some (mkHst (h_closed s) (h_store s) (h_eclosed s) 4 (h_srv s) (h_snap s) (h_conn s))
      else None
  | HServerClose =>
      if h_srv s =? 0 then Some (mkHst true (h_store s) (h_eclosed s) (h_hs s) 1 (h_snap s) (h_conn s))
      else if h_srv s =? 1 then Some (mkHst (h_closed s) (h_store s) (h_eclosed s) (h_hs s) 2 (h_store s) (h_conn s))
      else if h_srv s =? 2 then
        let s1 := if h_snap s then eclose s else s in
        Some (mkHst (h_closed s1) (h_store s1) (h_eclosed s1) (h_hs s1) 3 (h_snap s1) (h_conn s1))
      else None
  | HConnect => (* CONNECT packet on the served transport *)
      if (h_hs s =? 4) && negb (h_eclosed s)
      then Some (mkHst (h_closed s) (h_store s) (h_eclosed s) (h_hs s) (h_srv s) (h_snap s) true)
      else None
  end.

Definition hacts : list hact := [HHandshake; HServerClose; HConnect].
Lemma hacts_complete : forall a, In a hacts.
Proof. intros []; simpl; tauto. Qed.

Definition hkey (s : hst) : list N :=
  [b2n (h_closed s); b2n (h_store s); b2n (h_eclosed s); h_hs s; h_srv s; b2n (h_snap s); b2n (h_conn s)].
Lemma hkey_inj' : forall x y, hkey x = hkey y -> x = y.
Proof.
  intros [] [] H. unfold hkey in H. simpl in H.
  repeat match type of H with
         | _ :: _ = _ :: _ =>
             let E := fresh "E" in
             assert (E := f_equal (@hd N 0) H); simpl in E;
             apply (f_equal (@tl N)) in H; simpl in H;
             try apply b2n_inj in E; subst
         end.
  reflexivity.
Qed.

(** both goroutines have finished *)
Definition hquiet (s : hst) : bool := ((h_hs s =? 4) || (h_hs s =? 9)) && (h_srv s =? 3).
(** on a closed server no session is left, none is usable, no socket is connected *)
Definition hprop (s : hst) : bool :=
  implb' (hquiet s) (h_eclosed s && negb (h_store s) && negb (h_conn s)).

Definition htree (late : bool) := bfs (hstep late) hacts hkey lcmp 50 [hinit] (tins hkey lcmp hinit Leaf).
Lemma hs_ok : closedb (hstep true) hacts hkey lcmp leqb (htree true) && tmem hkey lcmp hinit (htree true)
              && forallb hprop (telems (htree true)) = true.
Proof. vm_compute. reflexivity. Qed.

Lemma hs_all : forall sched, hprop (exec (hstep true) sched hinit) = true.
Proof.
  pose proof hs_ok as H. apply andb_true_iff in H as [H HP]. apply andb_true_iff in H as [HC H0].
  intros sched.
  exact (@all_exec hst hact (list N) (hstep true) hacts hkey lcmp lcmp_eq hkey_inj' hacts_complete
                   leqb leqb_eq (htree true) hinit hprop HC H0 HP sched).
Qed.

Lemma hs_no_session_survives : forall sched,
  let s := exec (hstep true) sched hinit in
  hquiet s = true -> h_eclosed s = true /\ h_store s = false /\ h_conn s = false.
Proof.
  intros sched s Q. pose proof (hs_all sched) as H. fold s in H. unfold hprop, implb' in H.
  rewrite Q in H. simpl in H. rewrite !andb_true_iff in H. destruct H as [[A B] C].
  repeat split; try assumption; now apply negb_true_iff.
Qed.

(** re-check before onSocket: Server.Close falls between the check and store.set *)
Lemma hs_early_check_witness :
  let s := exec (hstep false) [HHandshake; HServerClose; HServerClose; HServerClose;
                               HHandshake; HHandshake; HHandshake; HConnect] hinit in
  hquiet s = true /\ h_closed s = true /\ h_eclosed s = false /\ h_store s = true /\ h_conn s = true.
Proof. vm_compute. repeat split. Qed.
