(** C12 - proofs about Sio/Middleware.v: event middlewares and the chain as a function. *)
From SioV Require Import Base.GoSem Sio.Middleware.

(** * The chain as a function *)

Lemma run_chain_from_calls : forall c i,
  exists n, fst (run_chain_from i c) = seq i n /\ (n <= length c)%nat /\
            Forall (fun b => accepts b = true) (firstn (pred n) c) /\
            match snd (run_chain_from i c) with
            | None => n = length c /\ Forall (fun b => accepts b = true) c
            | Some r => exists b, nth_error c (pred n) = Some b /\ mb_verdict b = Reject r /\ (0 < n)%nat
            end.
Proof.
  induction c as [|b c IH]; intros i; simpl.
  - exists 0%nat. simpl. repeat split; auto.
  - destruct (mb_verdict b) eqn:V.
    + destruct (IH (S i)) as (n & E & L & F & R).
      destruct (run_chain_from (S i) c) as [calls r] eqn:RC. simpl in *.
      exists (S n). simpl. subst calls. repeat split; auto; try lia.
      * destruct n; simpl; [constructor|].
        constructor; [unfold accepts; now rewrite V | exact F].
      * destruct r as [r|].
        -- destruct R as (b' & N & V' & P). exists b'.
           destruct n; [lia|]. simpl in *. repeat split; auto; lia.
        -- destruct R as [-> R]. split; [reflexivity|].
           constructor; [unfold accepts; now rewrite V | exact R].
    + exists 1%nat. simpl. repeat split; auto; try lia.
      exists b. repeat split; auto.
Qed.

(** * Event middlewares *)

Definition all_accept (ms : list emw) (name : bytes) (args : list val) : Prop :=
  Forall (fun m => m name args = true) ms.

Lemma call_middlewares_spec : forall ms i name args,
  let '(tr, ok) := call_middlewares i ms name args in
  exists n, tr = map (fun j => EMw j name args) (seq i n) /\ (n <= length ms)%nat /\
    Forall (fun m => m name args = true) (firstn (pred n) ms) /\
    (if ok then n = length ms /\ all_accept ms name args
     else (0 < n)%nat /\ exists m, nth_error ms (pred n) = Some m /\ m name args = false).
Proof.
  induction ms as [|m ms IH]; intros i name args; simpl.
  - exists 0%nat; simpl; repeat split; auto. constructor.
  - destruct (m name args) eqn:M.
    + specialize (IH (S i) name args).
      destruct (call_middlewares (S i) ms name args) as [tr ok].
      destruct IH as (n & E & L & F & R). exists (S n). simpl. subst tr.
      repeat split; auto; try lia.
      * destruct n; simpl; [constructor|]. constructor; assumption.
      * destruct ok.
        -- destruct R as [-> R]. split; [reflexivity|]. constructor; assumption.
        -- destruct R as (P & m' & N & M'). split; [lia|]. exists m'.
           destruct n; [lia|]. simpl in *. auto.
    + exists 1%nat; simpl; repeat split; auto; try lia. exists m; auto.
Qed.

Lemma call_middlewares_ok_iff : forall ms i name args,
  snd (call_middlewares i ms name args) = true <-> all_accept ms name args.
Proof.
  induction ms as [|m ms IH]; intros; simpl.
  - split; auto. constructor.
  - destruct (m name args) eqn:M.
    + specialize (IH (S i) name args). destruct (call_middlewares (S i) ms name args); simpl in *.
      rewrite IH. split; intros H; [constructor; auto | now inversion H].
    + simpl. split; [discriminate|]. intros H; inversion H; congruence.
Qed.

Lemma call_middlewares_only_mw : forall ms i name args o,
  In o (fst (call_middlewares i ms name args)) -> exists j, o = EMw j name args.
Proof.
  intros ms i name args o H.
  pose proof (call_middlewares_spec ms i name args) as S.
  destruct (call_middlewares i ms name args) as [tr ok]. destruct S as (n & -> & _).
  simpl in H. apply in_map_iff in H as (j & <- & _). eauto.
Qed.

(** Every middleware call of one handler pass shows the event name and the arguments the handler
    is (or would be) called with. *)
Lemma on_event_mw_sees : forall ms connected name has_id decode h i n a,
  In (EMw i n a) (on_event ms connected name has_id decode h) ->
  n = name /\ decode h = Some a.
Proof.
  intros ms connected name has_id decode h i n a H. unfold on_event in H.
  destruct (decode h) as [args|] eqn:D.
  - pose proof (call_middlewares_only_mw ms 0 name args) as O.
    destruct (call_middlewares 0 ms name args) as [tr ok]. simpl in O.
    assert (In (EMw i n a) tr) as IN.
    { destruct ok; simpl in H.
      - destruct connected; simpl in H; [apply in_app_or in H as [H|H]; auto|auto].
        destruct H as [H|[]]; discriminate.
      - apply in_app_or in H as [H|H]; auto. destruct H as [H|[]]; discriminate. }
    destruct (O _ IN) as (j & E). inversion E; subst. auto.
  - destruct H as [H|[]]; discriminate.
Qed.

(** A handler runs only if every middleware accepted this very event, and it runs after them. *)
Lemma on_event_handler_needs_accept : forall ms connected name has_id decode h hid a ackable,
  In (EHandler hid a ackable) (on_event ms connected name has_id decode h) ->
  decode h = Some a /\ all_accept ms name a /\ connected = true /\ hid = h_id h /\
  on_event ms connected name has_id decode h =
    map (fun j => EMw j name a) (seq 0 (length ms)) ++ [EHandler hid a ackable].
Proof.
  intros ms connected name has_id decode h hid a ackable H. unfold on_event in *.
  destruct (decode h) as [args|] eqn:D.
  - pose proof (call_middlewares_spec ms 0 name args) as S.
    pose proof (call_middlewares_only_mw ms 0 name args) as O.
    destruct (call_middlewares 0 ms name args) as [tr ok]. simpl in O.
    destruct ok; simpl in *.
    + destruct S as (n & -> & _ & _ & -> & ACC).
      destruct connected; simpl in *.
      * apply in_app_or in H as [H|H].
        -- apply in_map_iff in H as (j & E & _). discriminate.
        -- destruct H as [H|[]]. inversion H; subst. repeat split; auto.
      * apply in_map_iff in H as (j & E & _). discriminate.
    + apply in_app_or in H as [H|H].
      * destruct (O _ H) as (j & E). discriminate.
      * destruct H as [H|[]]; discriminate.
  - destruct H as [H|[]]; discriminate.
Qed.

Lemma on_event_rejected : forall ms connected name has_id decode h a,
  decode h = Some a -> ~ all_accept ms name a ->
  forall hid a' ackable, ~ In (EHandler hid a' ackable) (on_event ms connected name has_id decode h).
Proof.
  intros ms connected name has_id decode h a D NA hid a' ackable H.
  apply on_event_handler_needs_accept in H as (D' & ACC & _). congruence.
Qed.

Lemma on_event_accepted : forall ms name has_id decode h a,
  decode h = Some a -> all_accept ms name a ->
  on_event ms true name has_id decode h =
    map (fun j => EMw j name a) (seq 0 (length ms)) ++ [EHandler (h_id h) a (has_id && h_ack h)].
Proof.
  intros ms name has_id decode h a D ACC. unfold on_event. rewrite D.
  pose proof (call_middlewares_spec ms 0 name a) as S.
  pose proof (call_middlewares_ok_iff ms 0 name a) as OK.
  destruct (call_middlewares 0 ms name a) as [tr ok]. simpl in OK.
  assert (ok = true) as -> by (apply OK; exact ACC).
  destruct S as (n & -> & _ & _ & -> & _). reflexivity.
Qed.

(** The chain stops at the first rejecting middleware: the calls of one handler pass are exactly
    middlewares 0..j where j is the first that rejects. *)
Lemma on_event_first_rejection_stops : forall ms connected name has_id decode h a,
  decode h = Some a -> ~ all_accept ms name a ->
  exists j m, nth_error ms j = Some m /\ m name a = false /\
    Forall (fun m => m name a = true) (firstn j ms) /\
    on_event ms connected name has_id decode h =
      map (fun i => EMw i name a) (seq 0 (S j)) ++ [EError].
Proof.
  intros ms connected name has_id decode h a D NA. unfold on_event. rewrite D.
  pose proof (call_middlewares_spec ms 0 name a) as S.
  pose proof (call_middlewares_ok_iff ms 0 name a) as OK.
  destruct (call_middlewares 0 ms name a) as [tr ok]. simpl in OK.
  destruct ok; [exfalso; apply NA, OK; reflexivity|].
  destruct S as (n & -> & _ & F & P & m & N & M).
  destruct n; [lia|]. simpl in *. exists n, m. repeat split; auto.
Qed.
