(** Model of the reconnection back-off calculator, /repo/backoff.go (as repaired: the final clamp
    compares integers instead of going through float64).

    Go code (time.Duration = int64 nanoseconds; the variable is called ms but holds the unit of min):
<<
      ms := int64(b.min) * int64(math.Pow(float64(b.factor), float64(b.numAttempts)))   // factor = 2
      b.numAttempts++                                                                    // uint32
      if b.jitter > 0 {
          r := rand.Float64()
          deviation := math.Floor(r * b.jitter * float64(ms))
          t := int64(math.Floor(r*10)) & 1
          if t == 0 { ms = ms - int64(deviation) } else { ms = ms + int64(deviation) }
      }
      if ms <= 0 || ms > int64(b.max) { return b.max }
      return time.Duration(ms)
>>
    What the model makes explicit:
    - [int64] products, sums and differences wrap (two's complement): [wrap64];
    - [math.Pow(2, n)] is exact for n < 1024 and +Inf above; its conversion to int64 is defined by
      Go only when the value fits, i.e. for n < 63.  For n >= 63 the result is whatever the platform
      gives (amd64: -2^63, arm64: 2^63-1): the parameter [conv], an ARBITRARY integer;
    - the random draw and the float pipeline of the jitter only produce a sign and an integer
      deviation: the parameter [jit] = [Some (plus, dev)], [dev] ARBITRARY (so no assumption on
      floating point arithmetic or on math/rand enters the theorems); [None] = jitter disabled
      ([newBackoff] turns a jitter outside (0,1] into 0). *)
From SioV Require Import Base.GoSem.
Local Open Scope Z_scope.

Definition two63 : Z := 9223372036854775808.
Definition two64 : Z := 18446744073709551616.
Definition two32 : Z := 4294967296.

(** two's complement wrap into [-2^63, 2^63) *)
Definition wrap64 (z : Z) : Z := (z + two63) mod two64 - two63.

Definition in_i64 (z : Z) : bool := (- two63 <=? z) && (z <? two63).

(** [int64(math.Pow(2, float64(n)))] *)
Definition pow2_i64 (conv : Z) (n : Z) : Z :=
  if n <? 63 then 2 ^ n else wrap64 conv.

(** One call of [duration] with the attempt counter at [attempts]: the delay. *)
Definition duration (bmin bmax : Z) (attempts : Z) (conv : Z) (jit : option (bool * Z)) : Z :=
  let ms := wrap64 (bmin * pow2_i64 conv attempts) in
  let ms := match jit with
            | None => ms
            | Some (plus, dev) => if plus : bool then wrap64 (ms + wrap64 dev) else wrap64 (ms - wrap64 dev)
            end in
  if (ms <=? 0) || (ms >? bmax) then bmax else ms.

(** The attempt counter after the call ([uint32] increment). *)
Definition next_attempts (attempts : Z) : Z := (attempts + 1) mod two32.

(** The calculator as a little state machine: [attempts] is the whole state. *)
Definition bo_reset : Z := 0.

(** Sequence of the first [n] delays of a fresh calculator without jitter. *)
Fixpoint delays_from (bmin bmax conv : Z) (attempts : Z) (n : nat) : list Z :=
  match n with
  | O => []
  | S n' => duration bmin bmax attempts conv None
            :: delays_from bmin bmax conv (next_attempts attempts) n'
  end.
