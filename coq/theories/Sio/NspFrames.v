(** Frames of several namespaces on one shared connection.

    A Socket.IO packet with binary attachments travels as one text frame (header: namespace, number
    of attachments, payload with placeholders) followed by its attachment frames.  The receiving
    parser (parser/json/decode.go [Add]) is a small state machine: with no packet in progress it
    parses the next frame as a header; with a packet in progress it takes the next frame -- WHATEVER
    it is -- as the next attachment ([addBuffer]).  Isolation of the namespaces that share the
    connection therefore rests on the sender handing all frames of one packet to the connection's
    queue in ONE call (server_conn.go [sendBuffers] -> [packet(packets...)] -> packet_queue.go [add],
    one critical section; client_socket.go [_sendBuffers] -> [manager.packet(packets...)]), because
    emitters of different namespaces (Emit, broadcast, ack, from any goroutine) share that queue.

    [wire_atomic] is the code as it is: an emitter step appends all frames of its next packet.
    [wire_split] is the variant in which every frame is queued by its own call (kept to show what
    the theorems exclude). *)
From SioV Require Import Base.GoSem Sio.NspRouting.
Local Open Scope N_scope.

(** a frame: the header frame of a packet, or raw attachment bytes identified by an id *)
Inductive frame :=
| FText (n : nsname) (tag : N) (natt : nat)
| FBin (id : N).

(** what an emitter hands to sendBuffers: namespace, tag, the ids of its attachments *)
Record fpacket := mkFP { fp_nsp : nsname; fp_tag : N; fp_atts : list N }.

Definition frames_of (p : fpacket) : list frame :=
  FText (fp_nsp p) (fp_tag p) (length (fp_atts p)) :: map FBin (fp_atts p).

(** what the receiver reconstructs: header fields and the frames it took as attachments *)
Record rpacket := mkRP { rp_nsp : nsname; rp_tag : N; rp_atts : list frame }.

Definition delivered_as (p : fpacket) : rpacket := mkRP (fp_nsp p) (fp_tag p) (map FBin (fp_atts p)).

(** parser.Add: [None] = no packet in progress *)
Definition pstate := option (nsname * N * nat * list frame)%type.

Definition feed (st : pstate) (f : frame) : res (pstate * list rpacket) :=
  match st with
  | None =>
      match f with
      | FText n t O => Ok (None, [mkRP n t []])
      | FText n t k => Ok (Some (n, t, k, []), [])
      | FBin _ => Err                      (* parseHeader on attachment bytes: invalid packet type *)
      end
  | Some (n, t, k, acc) =>
      match k with
      | S O => Ok (None, [mkRP n t (acc ++ [f])])
      | S k' => Ok (Some (n, t, k', acc ++ [f]), [])
      | O => Ok (None, [mkRP n t acc])     (* unreachable: a packet in progress has remaining > 0 *)
      end
  end.

(** the receiver over a whole wire: the packets it dispatched, and whether it hit a parse error
    (which closes the shared connection: Manager.onEIOPacket -> onClose(parse error),
    serverConn.onEIOPacket -> onFatalError) *)
Fixpoint receive (st : pstate) (w : list frame) : list rpacket * bool :=
  match w with
  | [] => ([], false)
  | f :: w' =>
      match feed st f with
      | Ok (st', out) => let '(r, e) := receive st' w' in (out ++ r, e)
      | _ => ([], true)
      end
  end.

(** * Emitters sharing the connection's queue *)
(** each emitter (goroutine) has the packets it will send, in its order; a schedule names which
    emitter performs its next queue operation *)
Definition emitters := list (list fpacket).

Fixpoint take_nth {A} (i : nat) (l : list (list A)) : option (A * list (list A)) :=
  match i, l with
  | O, (x :: q) :: l' => Some (x, q :: l')
  | O, _ => None
  | S i', q :: l' => match take_nth i' l' with Some (x, r) => Some (x, q :: r) | None => None end
  | S _, [] => None
  end.

(** as coded: one queue operation = all frames of the emitter's next packet *)
Fixpoint wire_atomic (sched : list nat) (ems : emitters) : list frame :=
  match sched with
  | [] => []
  | i :: s' =>
      match take_nth i ems with
      | Some (p, ems') => frames_of p ++ wire_atomic s' ems'
      | None => wire_atomic s' ems
      end
  end.

(** the packets in the order in which the schedule queued them *)
Fixpoint sent_order (sched : list nat) (ems : emitters) : list fpacket :=
  match sched with
  | [] => []
  | i :: s' =>
      match take_nth i ems with
      | Some (p, ems') => p :: sent_order s' ems'
      | None => sent_order s' ems
      end
  end.

(** the excluded variant: one queue operation = one frame *)
Definition wire_split (sched : list nat) (ems : emitters) : list frame :=
  (fix go (sched : list nat) (fs : list (list frame)) : list frame :=
     match sched with
     | [] => []
     | i :: s' =>
         match take_nth i fs with
         | Some (f, fs') => f :: go s' fs'
         | None => go s' fs
         end
     end) sched (map (flat_map frames_of) ems).
