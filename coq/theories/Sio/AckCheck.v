(** Executable comparison (agree) and property oracles used by the C03 correspondence check.
    Evaluated by vm_compute inside coqc on what the real sockets were observed to do. *)
From Coq Require Import List Arith Bool NArith.
From SioV Require Import Base.GoSem Sio.Ack.
Import ListNotations.

Definition cfg_client := mkConfig true false.
Definition cfg_server := mkConfig false false.

Definition nat_pair_eqb (a b : nat * nat) : bool := Nat.eqb (fst a) (fst b) && Nat.eqb (snd a) (snd b).
Definition opt_nat_eqb (a b : option nat) : bool :=
  match a, b with
  | Some x, Some y => Nat.eqb x y
  | None, None => true
  | _, _ => false
  end.
Definition frame_eqb (a b : frame) : bool := opt_nat_eqb (fst a) (fst b) && nat_pair_eqb (snd a) (snd b).
Definition outcomes_eqb := list_eqb outcome_eqb.

Definition intable (s : state) (id : nat) : bool :=
  match get_emit s id with Some e => e_intable e | None => false end.

Definition pending_ids (s : state) : list nat :=
  filter (intable s) (seq 0 (length (st_emits s))).

(** ** purge suite: a not-connected client, <= 3 packets, timeouts, then Connect *)

(** kind: 0 = T (ack, short timeout: fires), 1 = K (ack, long timeout: answered after Connect),
    2 = N (no ack) *)
Record pcase := mkPcase {
  pc_layout : list (nat * nat);            (* kind, attachments *)
  pc_mutex_ok : bool;                      (* sendBufferMu could be taken, a later Emit returned, Connect completed *)
  pc_buf : list frame;                     (* sendBuffer after the timeouts *)
  pc_inv_before : list (list outcome);     (* per packet, before Connect *)
  pc_wire : list (nat * nat);              (* frames received by the peer after Connect, wire order *)
  pc_inv_after : list (list outcome);      (* per packet, at the end *)
  pc_pending : list nat                    (* ack ids left in the table *)
}.

Definition reply_code (pk : nat) : args := [N.of_nat (1000 + pk)].

(** ids are handed out in emit order to the packets that have an ack *)
Fixpoint ids_of (layout : list (nat * nat)) (next : nat) : list (option nat) :=
  match layout with
  | [] => []
  | (k, _) :: l' => if Nat.eqb k 2 then None :: ids_of l' next else Some next :: ids_of l' (S next)
  end.

Definition emit_sched (layout : list (nat * nat)) : list label :=
  flat_map (fun x => let '((k, natt), oid) := x in
     match oid with
     | Some id => [LEmit true natt; LEmitStep id; LEmitStep id]
     | None => [LEmitNoAck natt]
     end) (combine layout (ids_of layout 0)).

Definition ids_of_kind (layout : list (nat * nat)) (kind : nat) : list (nat * nat) :=  (* (id, pk) *)
  flat_map (fun x => let '(pk, ((k, _), oid)) := x in
     match oid with Some id => if Nat.eqb k kind then [(id, pk)] else [] | None => [] end)
   (combine (seq 0 (length layout)) (combine layout (ids_of layout 0))).

Definition timer_sched (id : nat) : list label := repeat (LTimer id) 7.

Definition purge_state1 (layout : list (nat * nat)) : state :=
  run (emit_sched layout ++ flat_map (fun x => timer_sched (fst x)) (ids_of_kind layout 0))
      (init_state cfg_client false).

Definition answer_sched (s : state) (id pk : nat) : list label :=
  (* the reply goroutine this delivery creates is the next one in st_replies *)
  [LPeerAck id (reply_code pk); LDeliver 0].

Definition purge_state2 (layout : list (nat * nat)) : state :=
  let s1 := run [LEmitNoAck 0; LConnect] (purge_state1 layout) in
  fold_left (fun s x =>
     let k := length (st_replies s) in
     run (answer_sched s (fst x) (snd x) ++ [LReply k true; LReply k true; LReply k true; LReply k true]) s)
    (ids_of_kind layout 1) s1.

Definition per_packet_outcomes (s : state) (layout : list (nat * nat)) : list (list outcome) :=
  map (fun o => match o with Some id => outcomes s id | None => [] end) (ids_of layout 0).

Definition pagree (c : pcase) : bool :=
  let s1 := purge_state1 (pc_layout c) in
  let s2 := purge_state2 (pc_layout c) in
  pc_mutex_ok c
  && match st_bufmu s2 with None => true | Some _ => false end
  && list_eqb frame_eqb (st_buf s1) (pc_buf c)
  && list_eqb outcomes_eqb (per_packet_outcomes s1 (pc_layout c)) (pc_inv_before c)
  && list_eqb nat_pair_eqb (map snd (st_wire s2)) (pc_wire c)
  && list_eqb outcomes_eqb (per_packet_outcomes s2 (pc_layout c)) (pc_inv_after c)
  && list_eqb Nat.eqb (pending_ids s2) (pc_pending c).

(** the property itself on the observation: the timeout removed exactly the frames of its packet,
    kept the others in order, every T callback ran once with the timeout and never again, the
    socket still works (mutex free, later emit sent, K packets answered with their own reply). *)
Definition all_frames (layout : list (nat * nat)) : list frame :=
  flat_map (fun x => let '(pk, ((_, natt), oid)) := x in frames_of oid pk natt)
   (combine (seq 0 (length layout)) (combine layout (ids_of layout 0))).

Definition poracle (c : pcase) : bool :=
  let layout := pc_layout c in
  let timed := map fst (ids_of_kind layout 0) in
  let keep := filter (fun f => negb (existsb (fun id => tag_is id f) timed)) (all_frames layout) in
  let exp_before := map (fun x => if Nat.eqb (fst x) 0 then [OTimeout] else []) layout in
  let exp_after := map (fun x => let '(pk, (k, _)) := x in
                         if Nat.eqb k 0 then [OTimeout] else if Nat.eqb k 1 then [OReply (reply_code pk)] else [])
                       (combine (seq 0 (length layout)) layout) in
  pc_mutex_ok c
  && list_eqb frame_eqb keep (pc_buf c)
  && list_eqb outcomes_eqb exp_before (pc_inv_before c)
  && list_eqb nat_pair_eqb (map snd keep ++ [(length layout, 0)]) (pc_wire c)
  && list_eqb outcomes_eqb exp_after (pc_inv_after c)
  && match pc_pending c with [] => true | _ => false end.

(** ** live suites (race / forced / raw): one emitted packet with an ack callback *)

Record lcase := mkLcase {
  lc_client : bool;          (* the emitter is a client socket *)
  lc_timeout : bool;
  lc_natt : nat;
  lc_conn : nat;             (* 0 connected, 1 emitted before Connect, 2 connection cut mid-flight *)
  lc_compliant : bool;       (* the peer is the real implementation (one reply per event) *)
  lc_early : list args;      (* compliant: arguments of the calls of the ack function, in order;
                                raw peer: the ACK packets sent for this id before the timeout *)
  lc_late : list args;       (* ACK packets sent only after the timeout callback ran *)
  lc_class : nat;            (* 0: far from the boundary, reply side; 1: far, timer side (or no reply
                                can come); 2: near the boundary: either *)
  lc_obs : list outcome;     (* invocations of the callback *)
  lc_hold : bool;            (* the callback blocks (first invocation) until everything else - the timer
                                waking up, late or duplicated ACK packets - has happened *)
  lc_pending : bool;         (* the id still has a table entry at the end *)
  lc_usable : bool           (* a later emit/ack round trip on the same socket worked *)
}.

Definition lcfg (c : lcase) := if lc_client c then cfg_client else cfg_server.

Definition l_prefix (c : lcase) : list label :=
  [LEmit (lc_timeout c) (lc_natt c)] ++ (if lc_timeout c then [LEmitStep 0; LEmitStep 0] else [LEmitStep 0]).

(** an onAck goroutine: lookup, call, start of the callback [, return of the callback] *)
Definition reply_steps (c : lcase) (k : nat) : list label :=
  [LReply k true; LReply k true; LReply k true] ++ (if lc_hold c then [] else [LReply k true]).

Definition l_replies (c : lcase) (first : args) : list label :=
  (if lc_compliant c
   then map (LPeerAck 0) (lc_early c) ++ [LDeliver 0]
   else LPacketIn 0 first :: map (LPacketIn 0) (lc_early c))
  ++ flat_map (reply_steps c) (seq 0 (S (length (lc_early c)))).

Definition l_late (c : lcase) : list label :=
  map (LPacketIn 0) (lc_late c)
  ++ flat_map (reply_steps c) (seq 0 (S (length (lc_early c)) + length (lc_late c))).

(** held callbacks return at the very end *)
Definition l_ends (c : lcase) : list label :=
  LTimer 0 :: map (fun k => LReply k true) (seq 0 (S (length (lc_early c)) + length (lc_late c))).

(** the timer goroutine up to (hold) or through the timeout callback *)
Definition l_timer (c : lcase) : list label :=
  if lc_hold c then repeat (LTimer 0) (if lc_client c then 6 else 3) else timer_sched 0.

(** reply first, then the timer wakes up *)
Definition l_sched_reply (c : lcase) (first : args) : list label :=
  l_prefix c ++ [LConnect] ++ l_replies c first ++ l_timer c ++ l_late c ++ l_ends c.

(** timer first, the replies (if any) arrive afterwards *)
Definition l_sched_timer (c : lcase) : list label :=
  l_prefix c ++ (if Nat.eqb (lc_conn c) 2 then [LDisconnect] else [])
  ++ l_timer c ++ [LConnect]
  ++ (match lc_early c with a :: _ => l_replies c a | [] => [] end) ++ l_late c ++ l_ends c.

(** the reply is lost (connection cut, peer never answers): only the timer, if any, acts *)
Definition l_sched_lost (c : lcase) : list label :=
  l_prefix c ++ (if Nat.eqb (lc_conn c) 2 then [LDisconnect] else []) ++ l_timer c ++ [LConnect] ++ l_ends c.

Definition l_init (c : lcase) : state := init_state (lcfg c) (negb (Nat.eqb (lc_conn c) 1)).

Definition l_scheds (c : lcase) : list (list label) :=
  let firsts := if lc_compliant c then firstn 1 (lc_early c) else lc_early c in
  let rs := map (l_sched_reply c) firsts in
  match lc_class c with
  | 0 => match rs with [] => [l_sched_timer c] | _ => rs end
  | 1 => if lc_timeout c then [l_sched_timer c] else [l_sched_lost c]
  | _ => l_sched_timer c :: l_sched_lost c :: rs
  end.

Definition lagree (c : lcase) : bool :=
  lc_usable c
  && existsb (fun sched =>
       let s := run sched (l_init c) in
       outcomes_eqb (outcomes s 0) (lc_obs c) && Bool.eqb (intable s 0) (lc_pending c))
     (l_scheds c).

Definition is_timeout (o : outcome) : bool := match o with OTimeout => true | _ => false end.
Definition args_eqb := list_eqb N.eqb.

Definition loracle (c : lcase) : bool :=
  let obs := lc_obs c in
  (length obs <=? 1)
  && (if lc_timeout c then Nat.eqb (length obs) 1 else negb (existsb is_timeout obs))
  && forallb (fun o => match o with
                       | OTimeout => true
                       | OReply a => if lc_compliant c
                                     then match lc_early c with a0 :: _ => args_eqb a a0 | [] => false end
                                     else existsb (args_eqb a) (lc_early c)
                       end) obs
  && match lc_class c with
     | 0 => match lc_early c with [] => true | _ => existsb (fun o => negb (is_timeout o)) obs end
     | 1 => outcomes_eqb obs (if lc_timeout c then [OTimeout] else [])
     | _ => true
     end
  && (if lc_timeout c then negb (lc_pending c) else true)
  && (match obs with [OReply _] => negb (lc_pending c) | _ => true end)
  && lc_usable c.

(** both at once (the common, green case needs one evaluation only) *)
Definition pboth (c : pcase) : bool := poracle c && pagree c.
Definition lboth (c : lcase) : bool := loracle c && lagree c.

(** ** rawpeer suite: the real socket is the answering side; a raw peer counts the ACK packets *)
Record kcase := mkKcase {
  kc_cands : list args;     (* the arguments of all calls of the event's ack function (all handlers) *)
  kc_strict : bool;         (* the calls are sequential in one handler: the first is the head *)
  kc_seen : list args       (* first argument of every ACK packet received for the id *)
}.

Definition k_run (first : args) (c : kcase) : state :=
  run ([LEmit false 0; LEmitStep 0; LPeerAck 0 first] ++ map (LPeerAck 0) (kc_cands c))
      (init_state cfg_server true).

Definition kagree (c : kcase) : bool :=
  existsb (fun a => list_eqb args_eqb (map snd (st_psent (k_run a c))) (kc_seen c))
          (if kc_strict c then firstn 1 (kc_cands c) else kc_cands c).

Definition koracle (c : kcase) : bool :=
  match kc_seen c with
  | [a] => if kc_strict c then match kc_cands c with a0 :: _ => args_eqb a a0 | [] => false end
           else existsb (args_eqb a) (kc_cands c)
  | _ => false
  end.

Definition kboth (c : kcase) : bool := koracle c && kagree c.

(** ** retry-queue suite: a second Emit lands at a chosen point of the reply / timeout path of the first *)
From SioV Require Import Sio.AckQueue.

Record qcase := mkQcase {
  qc_kind : nat;      (* 0: the server answers at once; 1: it ignores the first attempt of packet 0;
                         2: it never answers packet 0 (Retries = 1 in all of them) *)
  qc_pos : nat;       (* index in the canonical schedule of packet 0 before which the second emitter runs
                         (addToQueue + its drainQueue(false)); beyond the end = afterwards *)
  qc_obs0 : list outcome; qc_obs1 : list outcome;   (* invocations of the two callbacks *)
  qc_sent0 : nat; qc_sent1 : nat                    (* how often the server received each packet *)
}.

Definition q_reply (p : nat) : outcome := OReply [N.of_nat (100 * (p + 1))].

Definition q_policy (kind p tr : nat) : outcome :=
  match kind with
  | 0 => q_reply p
  | 1 => if Nat.eqb p 0 && Nat.eqb tr 1 then OTimeout else q_reply p
  | _ => if Nat.eqb p 0 then OTimeout else q_reply p
  end.

Definition ra5 (k : nat) : list qlabel := repeat (QRA k) 5.

Definition q_base (kind : nat) : list qlabel :=
  match kind with
  | 0 => [QAdd; QDrain; QOutcome 0 (q_reply 0)] ++ ra5 0
  | 1 => [QAdd; QDrain; QOutcome 0 OTimeout; QRA 0; QRA 0; QRA 0; QOutcome 1 (q_reply 0)] ++ ra5 1
  | _ => [QAdd; QDrain; QOutcome 0 OTimeout; QRA 0; QRA 0; QRA 0; QOutcome 1 OTimeout] ++ ra5 1
  end.

Definition q_inject (pos : nat) (l : list qlabel) : list qlabel :=
  firstn pos l ++ [QAdd; QDrain] ++ skipn pos l.

(** let everything that is still going on finish: outcomes by the server's policy, all goroutines *)
Fixpoint q_settle (fuel kind : nat) (s : qstate) : qstate :=
  match fuel with
  | O => s
  | S f =>
    let outs := flat_map (fun ia : nat * (nat * nat * bool) => let '(i, (p, t, live)) := ia in
                   if live then [QOutcome i (q_policy kind p t)] else [])
                 (combine (seq 0 (length (qs_attempts s))) (qs_attempts s)) in
    let s1 := qrun outs s in
    let s2 := qrun (flat_map ra5 (seq 0 (length (qs_threads s1))) ++ repeat QDrain (qs_drains s1)) s1 in
    q_settle f kind s2
  end.

Definition q_model (c : qcase) : qstate :=
  q_settle 6 (qc_kind c) (qrun (q_inject (qc_pos c) (q_base (qc_kind c))) (q_init 1 true)).

Definition qagree (c : qcase) : bool :=
  let s := q_model c in
  outcomes_eqb (q_outcomes s 0) (qc_obs0 c) && outcomes_eqb (q_outcomes s 1) (qc_obs1 c)
  && Nat.eqb (q_sent s 0) (qc_sent0 c) && Nat.eqb (q_sent s 1) (qc_sent1 c).

Definition qoracle (c : qcase) : bool :=
  outcomes_eqb (qc_obs0 c) [if Nat.eqb (qc_kind c) 2 then OTimeout else q_reply 0]
  && outcomes_eqb (qc_obs1 c) [q_reply 1].

Definition qboth (c : qcase) : bool := qoracle c && qagree c.
