(** Executable correspondence and oracle for the forced-schedule runs of the REAL packetQueue
    (harness engine `queues -queue packet`), evaluated by vm_compute in coqc.  Same scheme as
    Eio/PollQueueCheck.v: a set of candidate model states is driven by the harness ops and
    filtered by every observation (statuses of the consumers, queue length, tokens pending in
    ready/_close/_reset, closer parked or not). *)
From Coq Require Import List NArith Bool Arith.
From SioV Require Import Base.Conc Base.ConcSim Sio.PacketQueue.
Import ListNotations.

Inductive kop :=
| KS (c : nat)            (* consumer c calls poll *)
| KR (c : nat)            (* release consumer c from the yield point *)
| KA (pkts : list N)      (* add: append, then signal *)
| KX                      (* close() *)
| KZ                      (* reset() *)
| KW.                     (* a closer goroutine: waitForDrain; close() *)

Inductive kst :=
| KIdle | KHeld | KBlk
| KRet (pkts : list N) (ok : bool)
| KClosed.

(** statuses, consumers that returned during the op, queue length, len(ready), len(_close),
    len(_reset), closer parked (1) or not (0) *)
Definition kobs := (list kst * list nat * N * N * N * N * N)%type.
Definition qcase := (nat * list (kop * kobs))%type.

Definition kstate := (qstate * list nat)%type.

Definition held (h : kstate) (c : nat) : bool := existsb (Nat.eqb c) (snd h).
Definition hold (h : kstate) (c : nat) : kstate := (fst h, c :: snd h).
Definition unhold (h : kstate) (c : nat) : kstate :=
  (fst h, filter (fun x => negb (Nat.eqb c x)) (snd h)).

Definition is_win (p : qpc) : bool := match p with QWin => true | _ => false end.

Definition apply_op (o : kop) (h : kstate) : kstate :=
  let s := fst h in
  match o with
  | KS c =>
      match qstep (QStart c) s with
      | Some s' => if is_win (q_pc s' c) then hold (s', snd h) c else (s', snd h)
      | None => h
      end
  | KR c => if held h c then unhold h c else h
  | KA pkts => (exec qstep [QAppend pkts; QSignal] s, snd h)
  | KX => (step_skip qstep s QClose, snd h)
  | KZ => (step_skip qstep s QReset, snd h)
  | KW => if Nat.eqb (q_wwin s + q_wpark s + q_wclose s) 0
          then (step_skip qstep s WStart, snd h) else h
  end.

Definition succ_of (n : nat) (h : kstate) : list kstate :=
  let run l := match qstep l (fst h) with Some s' => [(s', snd h)] | None => [] end in
  flat_map (fun c =>
    if held h c then []
    else flat_map run [QSelClose c; QSelReady c; QGet c; QDrain c]) (seq 0 n)
  ++ flat_map run [WEnter; WReset; WClose].

Definition b2n (b : bool) : N := if b then 1%N else 0%N.

Definition pc_key (p : qpc) : list N :=
  match p with
  | QIdle => [0%N] | QWin => [1%N] | QWoke => [2%N]
  | QDrn r => 3%N :: N.of_nat (length r) :: r
  | QDone (RPk r) => 4%N :: N.of_nat (length r) :: r
  | QDone RNotOk => [5%N]
  | QDone RClosed => [6%N]
  end.

Definition kkey (n : nat) (h : kstate) : list N :=
  let s := fst h in
  N.of_nat (length (q_q s)) :: q_q s ++
  [b2n (q_tok s); b2n (q_clo s); b2n (q_rst s); N.of_nat (q_nsig s);
   N.of_nat (q_wwin s); N.of_nat (q_wpark s); N.of_nat (q_wclose s)] ++
  flat_map (fun c => pc_key (q_pc s c) ++ [b2n (held h c)]) (seq 0 n).

Definition status (h : kstate) (c : nat) : kst :=
  match q_pc (fst h) c with
  | QIdle => KIdle
  | QDone (RPk r) => KRet r true
  | QDone RNotOk => KRet [] false
  | QDone RClosed => KClosed
  | QWin => if held h c then KHeld else KBlk
  | QWoke | QDrn _ => KBlk
  end.

Definition kst_eqb (a b : kst) : bool :=
  match a, b with
  | KIdle, KIdle | KHeld, KHeld | KBlk, KBlk | KClosed, KClosed => true
  | KRet x ox, KRet y oy => key_eqb x y && Bool.eqb ox oy
  | _, _ => false
  end.

Fixpoint sts_eqb (a b : list kst) : bool :=
  match a, b with
  | [], [] => true
  | x :: a', y :: b' => if kst_eqb x y then sts_eqb a' b' else false
  | _, _ => false
  end.

Definition matches (n : nat) (o : kobs) (h : kstate) : bool :=
  let '(sts, _, ql, rl, xl, zl, wl) := o in
  let s := fst h in
  sts_eqb (map (status h) (seq 0 n)) sts
  && N.eqb (N.of_nat (length (q_q s))) ql
  && N.eqb (b2n (q_tok s)) rl && N.eqb (b2n (q_clo s)) xl && N.eqb (b2n (q_rst s)) zl
  && N.eqb (N.of_nat (q_wwin s + q_wpark s + q_wclose s)) wl.

Fixpoint replay (n : nat) (steps : list (kop * kobs)) (cands : list kstate) : bool :=
  match steps with
  | [] => negb (is_nil cands)
  | (o, ob) :: rest =>
      let after := quiesce (kkey n) (succ_of n) 16 (dedupe (kkey n) (map (apply_op o) cands)) [] in
      match filter (matches n ob) after with
      | [] => false
      | cands' => replay n rest cands'
      end
  end.

Definition agree (c : qcase) : bool :=
  let '(n, steps) := c in replay n steps [(qinit, [])].

(** * The property on the observations alone *)

Definition is_blk (s : kst) : bool := match s with KBlk => true | _ => false end.

(** a is a subsequence of b (order kept, nothing twice) *)
Fixpoint subseq_eqb (a b : list N) : bool :=
  match b with
  | [] => is_nil a
  | y :: b' => match a with
               | [] => true
               | x :: a' => if N.eqb x y then subseq_eqb a' b' else subseq_eqb a b'
               end
  end.

Fixpoint prefix_eqb (a b : list N) : bool :=
  match a, b with
  | [] , _ => true
  | x :: a', y :: b' => if N.eqb x y then prefix_eqb a' b' else false
  | _, _ => false
  end.

Definition ret_of (sts : list kst) (c : nat) : list N :=
  match nth c sts KIdle with KRet r _ => r | _ => [] end.

Definition ret_wf (s : kst) : bool :=
  match s with KRet r ok => Bool.eqb ok (negb (is_nil r)) | _ => true end.

Definition is_closed_st (s : kst) : bool := match s with KClosed => true | _ => false end.

(** [drops]: a close/reset/closer op has happened (packets may legitimately be discarded). *)
Fixpoint oracle_steps (steps : list (kop * kobs)) (prev : list kst) (drops : bool) (added deliv : list N) : bool :=
  match steps with
  | [] => true
  | (o, (sts, ev, ql, rl, xl, zl, wl)) :: rest =>
      let drops' := match o with KX | KZ | KW => true | _ => drops end in
      let added' := match o with KA p => added ++ p | _ => added end in
      let deliv' := deliv ++ flat_map (ret_of sts) ev in
      (* no sender is blocked in its wait while packets are queued, or while a close is pending *)
      (N.eqb ql 0 || negb (existsb is_blk sts))
      && (N.eqb xl 0 || negb (existsb is_blk sts))
      (* close() with a sender blocked in its wait: a poll returns closed *)
      && match o with
         | KX => negb (existsb is_blk prev) || existsb (fun c => is_closed_st (nth c sts KIdle)) ev
         | _ => true
         end
      (* ok <-> packets; closed only after a close *)
      && forallb ret_wf sts
      && (drops' || negb (existsb is_closed_st sts))
      (* FIFO, nothing duplicated; nothing lost unless close/reset discarded it *)
      && subseq_eqb deliv' added'
      && (drops' || (prefix_eqb deliv' added'
                     && N.eqb (N.of_nat (length deliv') + ql) (N.of_nat (length added'))))
      && oracle_steps rest sts drops' added' deliv'
  end.

Definition oracle (c : qcase) : bool := oracle_steps (snd c) [] false [] [].

(** * Stress runs (real preemption, no hooks; both queues): np producers add k packets each
    (ids p*1000+i, p = 1..np), consumers poll in a loop; [got] = per consumer, the ids in the order
    its polls returned them; [stuck] = not everything had been returned 3 s after the last add
    (poll timeout 60 s: only the queue's own signalling can deliver). *)
Definition ids_of (p : N) (l : list N) : list N := filter (fun x => N.eqb (x / 1000) p) l.

Fixpoint increasing (l : list N) : bool :=
  match l with
  | x :: (y :: _) as t => (x <? y)%N && increasing t
  | _ => true
  end.

Fixpoint nodupb (l : list N) : bool :=
  match l with
  | [] => true
  | x :: l' => negb (existsb (N.eqb x) l') && nodupb l'
  end.

Definition stress_oracle (c : nat * nat * list (list N) * bool) : bool :=
  let '(np, k, got, stuck) := c in
  let all := concat got in
  negb stuck
  && Nat.eqb (length all) (np * k)
  && nodupb all
  && forallb (fun p =>
       let p := N.of_nat p in
       forallb (fun g => increasing (ids_of p g)) got          (* per-producer order, per consumer *)
       && Nat.eqb (length (ids_of p all)) k
       && forallb (fun x => (x <? p * 1000 + N.of_nat k)%N) (ids_of p all)) (seq 1 np).

(** Constructor-style builders for the generated case literals (much faster to elaborate than
    nested tuple notations). *)
Definition KO (sts : list kst) (ev : list nat) (q r x z w : N) : kobs := (sts, ev, q, r, x, z, w).
Definition KSt (o : kop) (ob : kobs) : kop * kobs := (o, ob).
Definition KC (n : nat) (l : list (kop * kobs)) : qcase := (n, l).
Arguments KO sts ev (q r x z w)%N.
