(** Encode as the library uses it: ONE Parser object is shared by every goroutine that emits on
    a socket and by every Broadcast of an adapter, without a lock around Encode (parserMu only
    guards Add).  This file models a Parser as an object with state ([pstate]: the decoder's
    pending packet and the configuration), an Encode call as a sequence of phases working on the
    caller's own header and value, and proves the frame property: a phase of Encode neither writes
    the Parser nor reads anything of it but the (immutable) configuration.  Hence, whatever the
    interleaving of any number of Encode calls and of other operations on the same Parser (Add,
    Reset), every call ends as if it had run alone: with the result and the caller-visible effects
    the function [encode] of Sio/Codec.v describes.  This is what entitles the correspondence
    check to compare every call observed under real concurrency with [encode] of its arguments. *)
From Coq Require Import Lia.
From SioV Require Import Base.GoSem Sio.Json Sio.Header Sio.Binary Sio.BinaryProofs Sio.Codec.
Local Open Scope N_scope.

(** * Frame property, generically *)
Section Frame.
  Variables (Sh L E C : Type).
  Variable step : Sh -> L -> Sh * L.        (* one step of a call: shared object, the call's own state *)
  Variable env : E -> Sh -> Sh.             (* any other operation on the shared object *)
  Variable cfg : Sh -> C.                  (* the part of the shared object a call may read *)
  Hypothesis frame : forall s l, fst (step s l) = s.
  Hypothesis indep : forall s s' l, cfg s = cfg s' -> snd (step s l) = snd (step s' l).
  Hypothesis env_cfg : forall e s, cfg (env e s) = cfg s.

  Inductive act := Run (i : nat) | Env (e : E).

  Fixpoint update (i : nat) (x : L) (l : list L) : list L :=
    match l, i with
    | [], _ => []
    | _ :: l', O => x :: l'
    | y :: l', S i' => y :: update i' x l'
    end.

  Definition sys_step (st : Sh * list L) (a : act) : Sh * list L :=
    match a with
    | Run i =>
      match nth_error (snd st) i with
      | Some l => let '(s', l') := step (fst st) l in (s', update i l' (snd st))
      | None => st
      end
    | Env e => (env e (fst st), snd st)
    end.
  Definition exec (sched : list act) (st : Sh * list L) : Sh * list L := fold_left sys_step sched st.

  (** The call run alone, [k] steps, on a shared object that nobody else touches. *)
  Fixpoint alone (k : nat) (s : Sh) (l : L) : L :=
    match k with O => l | S k' => alone k' s (snd (step s l)) end.

  Fixpoint runs (i : nat) (sched : list act) : nat :=
    match sched with
    | [] => O
    | Run j :: r => if Nat.eqb j i then S (runs i r) else runs i r
    | Env _ :: r => runs i r
    end.

  Lemma nth_update_same i x l y : nth_error l i = Some y -> nth_error (update i x l) i = Some x.
  Proof. revert i; induction l as [|z l IH]; intros [|i] H; simpl in *; try discriminate; auto. Qed.
  Lemma nth_update_other i j x l : i <> j -> nth_error (update i x l) j = nth_error l j.
  Proof.
    revert i j; induction l as [|z l IH]; intros [|i] [|j] H; simpl; auto; try contradiction; try (apply IH; congruence).
  Qed.

  Lemma alone_cfg k : forall s s' l, cfg s = cfg s' -> alone k s l = alone k s' l.
  Proof. induction k; intros s s' l H; simpl; [reflexivity|]. rewrite (indep s s' l H). now apply IHk. Qed.

  (** Whatever the schedule: call [i] is where it would be after as many steps alone, and the
      part of the shared object calls may read is what it was. *)
  Theorem interleaving : forall sched s ls i l,
    nth_error ls i = Some l ->
    nth_error (snd (exec sched (s, ls))) i = Some (alone (runs i sched) s l) /\
    cfg (fst (exec sched (s, ls))) = cfg s.
  Proof.
    induction sched as [|a sched IH]; intros s ls i l H; [simpl; auto|].
    destruct a as [j|e]; cbn [exec fold_left sys_step fst snd runs].
    - destruct (nth_error ls j) as [lj|] eqn:Nj.
      + pose proof (frame s lj) as F. destruct (step s lj) as [s' lj'] eqn:St. simpl in F. subst s'.
        destruct (Nat.eqb_spec j i) as [->|Ne].
        * rewrite H in Nj. inversion Nj; subst lj.
          destruct (IH s (update i lj' ls) i lj' (nth_update_same i lj' ls l H)) as [A B].
          split; [|exact B]. unfold exec in A. rewrite A. simpl. now rewrite St.
        * apply IH. now rewrite nth_update_other.
      + destruct (Nat.eqb_spec j i) as [->|Ne]; [congruence|]. now apply IH.
    - destruct (IH (env e s) ls i l H) as [A B]. unfold exec in A, B. rewrite A, B.
      split; [|apply env_cfg]. f_equal. apply alone_cfg. apply env_cfg.
  Qed.
End Frame.
Arguments alone {Sh L} step k s l.
Arguments exec {Sh L E} step env sched st.
Arguments runs {E} i sched.
Arguments Run {E} i.
Arguments Env {E} e.
Arguments interleaving {Sh L E C} step env cfg frame indep env_cfg sched s ls i l _.

(** * The Parser object and the phases of an Encode call *)
Record pstate := mkP {
  p_r : option dstate;          (* Parser.r: the packet Add is assembling *)
  p_max : Z                     (* Parser.maxAttachments *)
}.

Inductive ephase :=
| EStart                                            (* checks, hasBinary, header type, deconstruct *)
| EDecon (m : gv) (bufs : list bytes) (n : N)       (* placeholders are in the caller's values *)
| EMarsh (m : gv) (frames : list bytes)             (* payload written; values not yet put back *)
| EDone (r : res (list bytes)).                     (* returned (the deferred restore has run) *)

(** What the caller can see while its call is in flight: its header, its value, the phase. *)
Record call := mkCall { k_h : header; k_v : option gv; k_ph : ephase }.

Section Phases.
  Variable marshal : jv -> bytes.
  Variable unmarshal : bytes -> option jv.

  Definition frames1 (r : res bytes) : res (list bytes) := rbind r (fun s => Ok [s]).

  Definition call_step (ps : pstate) (c : call) : pstate * call :=
    (ps,
     match k_ph c with
     | EStart =>
       match k_v c with
       | None => mkCall (k_h c) None (EDone (frames1 (encode_string marshal unmarshal (k_h c) None)))
       | Some x =>
         if negb (arg_ok x) then mkCall (k_h c) (k_v c) (EDone Err) else
         let t := h_type (k_h c) in
         if ((t =? 2) || (t =? 3) || is_binary t) && hb 2 x then
           let t' := if t =? 2 then 5 else if t =? 3 then 6 else t in
           let h' := mkHeader t' (h_nsp (k_h c)) (h_id (k_h c)) (h_att (k_h c)) in
           match dv marshal false x 0 with
           | Ok (m, bufs, n) => mkCall h' (Some (cur m)) (EDecon m bufs n)
           | Err => mkCall h' (k_v c) (EDone Err)
           | Panic => mkCall h' (k_v c) (EDone Panic)
           end
         else mkCall (k_h c) (k_v c)
                     (EDone (frames1 (encode_string marshal unmarshal (k_h c) (k_v c))))
       end
     | EDecon m bufs n =>
       if (0 <? p_max ps)%Z && (p_max ps <? Z.of_N n)%Z
       then mkCall (k_h c) (Some (undo m)) (EDone Err)
       else
         let h'' := mkHeader (h_type (k_h c)) (h_nsp (k_h c)) (h_id (k_h c)) (Z.of_N n) in
         match encode_string marshal unmarshal h'' (Some (cur m)) with
         | Ok s => mkCall h'' (k_v c) (EMarsh m (s :: bufs))
         | Err => mkCall h'' (Some (undo m)) (EDone Err)
         | Panic => mkCall h'' (Some (undo m)) (EDone Panic)
         end
     | EMarsh m frames => mkCall (k_h c) (Some (undo m)) (EDone (Ok frames))
     | EDone _ => c
     end).

  (** ** The frame property of Encode *)
  Lemma call_frame ps c : fst (call_step ps c) = ps.
  Proof. reflexivity. Qed.

  Lemma call_indep ps ps' c : p_max ps = p_max ps' -> snd (call_step ps c) = snd (call_step ps' c).
  Proof. intros H. unfold call_step. cbn [snd]. now rewrite H. Qed.

  (** ** Run alone, a call is [encode] *)
  Definition start (h : header) (v : option gv) : call := mkCall h v EStart.

  Lemma alone_is_encode ps h v :
    let c := alone call_step 3 ps (start h v) in
    match encode marshal unmarshal (p_max ps) h v with
    | Ok e => c = mkCall (e_header e) (e_value e) (EDone (Ok (e_frames e)))
    | Err => k_ph c = EDone Err
    | Panic => k_ph c = EDone Panic
    end.
  Proof.
    unfold encode, start. cbn [alone call_step snd k_ph k_v k_h].
    destruct v as [x|].
    - destruct (negb (arg_ok x)); [reflexivity|].
      destruct (((h_type h =? 2) || (h_type h =? 3) || is_binary (h_type h)) && hb 2 x).
      + destruct (dv marshal false x 0) as [[[m bufs] n]| |]; try reflexivity.
        cbn [k_ph k_v k_h h_type h_nsp h_id h_att].
        destruct ((0 <? p_max ps)%Z && (p_max ps <? Z.of_N n)%Z); [reflexivity|].
        destruct (encode_string marshal unmarshal _ (Some (cur m))) eqn:S; cbn [rbind k_ph k_v k_h]; reflexivity.
      + destruct (encode_string marshal unmarshal h (Some x)); reflexivity.
    - reflexivity.
  Qed.

  Lemma done_stays ps c r : k_ph c = EDone r -> snd (call_step ps c) = c.
  Proof. intros H. unfold call_step. cbn [snd]. now rewrite H. Qed.

  Lemma alone_more k : forall ps h v, (3 <= k)%nat ->
    alone call_step k ps (start h v) = alone call_step 3 ps (start h v).
  Proof.
    intros ps h v Hk.
    assert (D : exists r, k_ph (alone call_step 3 ps (start h v)) = EDone r).
    { pose proof (alone_is_encode ps h v) as A. cbv zeta in A.
      destruct (encode marshal unmarshal (p_max ps) h v); rewrite A; eexists; reflexivity. }
    destruct D as (r & D).
    replace k with (3 + (k - 3))%nat by lia. generalize (k - 3)%nat as j. clear Hk.
    assert (G : forall j c, k_ph c = EDone r -> alone call_step j ps c = c).
    { induction j; intros c Hc; cbn [alone]; [reflexivity|]. rewrite (done_stays ps c r Hc). auto. }
    intros j.
    assert (Sp : forall a b c, alone call_step (a + b) ps c = alone call_step b ps (alone call_step a ps c)).
    { induction a; intros b c; cbn [alone Nat.add]; [reflexivity|]. apply IHa. }
    rewrite Sp. now apply G.
  Qed.

  (** ** Concurrent use of one Parser *)
  (** Other operations on the Parser (Add of a frame, Reset) change [p_r] only. *)
  Definition other_op (f : option dstate -> option dstate) (ps : pstate) : pstate :=
    mkP (f (p_r ps)) (p_max ps).

  (** Any number of Encode calls (each on its caller's own header and value) and any other
      operations on ONE Parser, interleaved in any way: every call that got its three steps has
      returned exactly what [encode] says for its own arguments - frames, header and value as the
      caller sees them afterwards - and the Parser's configuration is untouched. *)
  Theorem concurrent_encode sched ps (calls : list (header * option gv)) i h v :
    nth_error calls i = Some (h, v) ->
    (3 <= runs i sched)%nat ->
    let final := exec call_step other_op sched (ps, map (fun hv => start (fst hv) (snd hv)) calls) in
    p_max (fst final) = p_max ps /\
    exists c, nth_error (snd final) i = Some c /\
      match encode marshal unmarshal (p_max ps) h v with
      | Ok e => c = mkCall (e_header e) (e_value e) (EDone (Ok (e_frames e)))
      | Err => k_ph c = EDone Err
      | Panic => k_ph c = EDone Panic
      end.
  Proof.
    intros Hn Hr final.
    assert (N0 : nth_error (map (fun hv => start (fst hv) (snd hv)) calls) i = Some (start h v)).
    { rewrite nth_error_map, Hn. reflexivity. }
    destruct (interleaving call_step other_op p_max call_frame call_indep (fun _ _ => eq_refl)
                sched ps _ i _ N0) as [A B].
    split; [exact B|]. eexists. split; [exact A|].
    rewrite alone_more by exact Hr. apply alone_is_encode.
  Qed.
End Phases.
