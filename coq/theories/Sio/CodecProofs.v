(** Proofs about Sio/Codec.v. *)
From SioV Require Import Base.GoSem Sio.Json Sio.Header Sio.Binary Sio.BinaryProofs Sio.Codec.
Local Open Scope N_scope.

Definition clean_opt (v : option gv) : bool := match v with Some x => cleanb x | None => true end.

Section WithJson.
  Variable marshal : jv -> bytes.
  Variable unmarshal : bytes -> option jv.
  Variable max_att : Z.

  (** Encode hands the caller's value back exactly as it was. *)
  Theorem encode_leaves_value h v e :
    clean_opt v = true -> encode marshal unmarshal max_att h v = Ok e -> e_value e = v.
  Proof.
    unfold encode. intros C E. destruct v as [x|].
    - destruct (negb (arg_ok x)); [discriminate|].
      match type of E with (if ?c then _ else _) = _ => destruct c end.
      + destruct (dv marshal false x 0) as [[[m bufs] n]| |] eqn:D; try discriminate.
        match type of E with (if ?c then _ else _) = _ => destruct c end; [discriminate|].
        destruct (encode_string _ _ _ _) eqn:S; simpl in E; try discriminate.
        inversion E; subst; simpl. f_equal. eapply dv_undo; eauto.
      + destruct (encode_string _ _ _ _) eqn:S; simpl in E; try discriminate.
        inversion E; subst; reflexivity.
    - simpl in E. inversion E; reflexivity.
  Qed.
End WithJson.
