(** Proofs about Sio/Codec.v. *)
From SioV Require Import Base.GoSem Sio.Json Sio.Header Sio.Binary Sio.BinaryProofs Sio.Codec.
Local Open Scope N_scope.

Definition clean_opt (v : option gv) : bool := match v with Some x => cleanb x | None => true end.

Section WithJson.
  Variable marshal : jv -> bytes.
  Variable unmarshal : bytes -> option jv.
  Variable max_att : Z.

  (** Encode hands the caller's value back exactly as it was. *)
  Theorem encode_leaves_value h v e :
    clean_opt v = true -> encode marshal unmarshal max_att h v = Ok e -> e_value e = v.
  Proof.
    unfold encode. intros C E. destruct v as [x|].
    - destruct (negb (arg_ok x)); [discriminate|].
      match type of E with (if ?c then _ else _) = _ => destruct c end.
      + destruct (dv marshal false x 0) as [[[m bufs] n]| |] eqn:D; try discriminate.
        match type of E with (if ?c then _ else _) = _ => destruct c end; [discriminate|].
        destruct (encode_string _ _ _ _) eqn:S; simpl in E; try discriminate.
        inversion E; subst; simpl. f_equal. eapply dv_undo; eauto.
      + destruct (encode_string _ _ _ _) eqn:S; simpl in E; try discriminate.
        inversion E; subst; reflexivity.
    - simpl in E. inversion E; reflexivity.
  Qed.
End WithJson.

Section Reencode.
  Variable marshal : jv -> bytes.
  Variable unmarshal : bytes -> option jv.
  Variable max_att : Z.
  Local Notation enc := (encode marshal unmarshal max_att).

  (** Encoding again - with a fresh copy of the header, or with the very header object the first
      Encode rewrote - yields the same frames (and the same everything). *)
  Theorem reencode_same h v e :
    clean_opt v = true -> enc h v = Ok e ->
    enc h (e_value e) = Ok e /\ enc (e_header e) (e_value e) = Ok e.
  Proof.
    intros C E. pose proof (encode_leaves_value marshal unmarshal max_att h v e C E) as EV.
    rewrite EV. split; [exact E|].
    unfold encode in *. destruct v as [x|].
    - destruct (negb (arg_ok x)); [discriminate|].
      destruct (((h_type h =? 2) || (h_type h =? 3) || is_binary (h_type h)) && hb 2 x) eqn:B.
      + destruct (dv marshal false x 0) as [[[m bufs] n]| |] eqn:D; try discriminate.
        destruct ((0 <? max_att)%Z && (max_att <? Z.of_N n)%Z) eqn:M; [discriminate|].
        destruct (encode_string _ _ _ _) eqn:S; simpl in E; try discriminate.
        inversion E; subst; clear E. cbn [e_header h_type h_nsp h_id h_att].
        apply andb_true_iff in B as [B1 B2].
        set (t' := if h_type h =? 2 then 5 else if h_type h =? 3 then 6 else h_type h) in *.
        assert (T : ((t' =? 2) || (t' =? 3) || is_binary t') = true /\
                    (if t' =? 2 then 5 else if t' =? 3 then 6 else t') = t').
        { unfold t', is_binary in *.
          destruct (h_type h =? 2) eqn:A2; [split; reflexivity|].
          destruct (h_type h =? 3) eqn:A3; [split; reflexivity|].
          simpl in B1. rewrite A2, A3. simpl. split; [exact B1|reflexivity]. }
        destruct T as [T1 T2]. rewrite T1, B2. cbn [andb]. rewrite T2, S. reflexivity.
      + destruct (encode_string _ _ _ _) eqn:S; simpl in E; try discriminate.
        inversion E; subst; clear E. cbn [e_header]. rewrite B, S. reflexivity.
    - simpl in *. inversion E; subst. reflexivity.
  Qed.
End Reencode.

(** The header is handed back unchanged unless the value goes through the binary path. *)
Definition header_kept (h : header) (v : option gv) : bool :=
  negb (((h_type h =? 2) || (h_type h =? 3) || is_binary (h_type h))
        && match v with Some x => hb 2 x | None => false end).

Lemma encode_leaves_header marshal unmarshal max_att h v e :
  header_kept h v = true -> encode marshal unmarshal max_att h v = Ok e -> e_header e = h.
Proof.
  unfold header_kept, encode. intros K E. destruct v as [x|].
  - destruct (negb (arg_ok x)); [discriminate|].
    apply negb_true_iff in K. rewrite K in E.
    destruct (encode_string _ _ _ _); simpl in E; try discriminate. inversion E; reflexivity.
  - simpl in E. inversion E; reflexivity.
Qed.

(** * The protocol document's examples (socket.io-protocol v5), on the instance jprint / jparse *)
Definition ev (name : bytes) (args : list gv) : option gv :=
  Some (VPtr (VSlice (VAny (VStr name) :: map VAny args))).
Definition frames_of (r : res enc_out) : list bytes := match r with Ok e => e_frames e | _ => [] end.

Definition protocol_examples_stmt : Prop :=
  (* 0                         CONNECT, main namespace *)
  frames_of (encode_go 0 (mkHeader 0 [47] None 0) None) = [[48]] /\
  (* 0/admin,{"sid":"x"} *)
  frames_of (encode_go 0 (mkHeader 0 [47;97;100;109;105;110] None 0)
                       (Some (VPtr (VStruct [([115;105;100], VStr [120])]))))
    = [[48;47;97;100;109;105;110;44;123;34;115;105;100;34;58;34;120;34;125]] /\
  (* 1/admin, *)
  frames_of (encode_go 0 (mkHeader 1 [47;97;100;109;105;110] None 0) None)
    = [[49;47;97;100;109;105;110;44]] /\
  (* 2["foo"] *)
  frames_of (encode_go 0 (mkHeader 2 [47] None 0) (ev [102;111;111] []))
    = [[50;91;34;102;111;111;34;93]] /\
  (* 2/admin,12["foo"] *)
  frames_of (encode_go 0 (mkHeader 2 [47;97;100;109;105;110] (Some 12) 0) (ev [102;111;111] []))
    = [[50;47;97;100;109;105;110;44;49;50;91;34;102;111;111;34;93]] /\
  (* 3/admin,13["bar"] *)
  frames_of (encode_go 0 (mkHeader 3 [47;97;100;109;105;110] (Some 13) 0)
                       (Some (VPtr (VSlice [VAny (VStr [98;97;114])]))))
    = [[51;47;97;100;109;105;110;44;49;51;91;34;98;97;114;34;93]] /\
  (* 51-["baz",{"_placeholder":true,"num":0}] + <Buffer 01 02 03 04> *)
  frames_of (encode_go 0 (mkHeader 2 [47] None 0) (ev [98;97;122] [VBin [1;2;3;4]]))
    = [[53;49;45;91;34;98;97;122;34;44;123;34;95;112;108;97;99;101;104;111;108;100;101;114;34;58;
        116;114;117;101;44;34;110;117;109;34;58;48;125;93]; [1;2;3;4]] /\
  (* 61-/admin,456[{"_placeholder":true,"num":0}] + <Buffer 03 02 01> *)
  frames_of (encode_go 0 (mkHeader 3 [47;97;100;109;105;110] (Some 456) 0)
                       (Some (VPtr (VSlice [VAny (VBin [3;2;1])]))))
    = [[54;49;45;47;97;100;109;105;110;44;52;53;54;91;123;34;95;112;108;97;99;101;104;111;108;100;
        101;114;34;58;116;114;117;101;44;34;110;117;109;34;58;48;125;93]; [3;2;1]] /\
  (* the specification printer gives the same frames *)
  frames_of (encode_go 0 (mkHeader 2 [47] None 0) (ev [98;97;122] [VBin [1;2;3;4]]))
    = spec_frames jprint 2 [47] None (Some (BArr [BStr [98;97;122]; BBin [1;2;3;4]])) /\
  (* and the decoder gives the packet back, finishing exactly at the last frame *)
  (match feed_go None 0 (frames_of (encode_go 0 (mkHeader 2 [47;97] (Some 7) 0)
                                              (ev [97;92] [VBin [1;2]; VInt 5]))) with
   | Ok ([(1%nat, (h, name, bufs))], None) =>
     h = mkHeader 5 [47;97] (Some 7) 1 /\ name = [97;92] /\
     decode_go h bufs [TBin; TInt] = Ok [BBin [1;2]; BInt 5]
   | _ => False
   end).

Lemma protocol_examples : protocol_examples_stmt.
Proof. vm_compute. repeat split; reflexivity. Qed.
