(** C12 - executable model of the admission path (namespace middlewares) and of the per-socket
    event middlewares of the Socket.IO server.

    Ported from /repo (as it is after the two `fix:` commits of this property):
      middleware.go      Namespace.runMiddlewares, serverSocket.callMiddlewares, middlewareError.data
      namespace.go       Namespace.add, Namespace.doConnect
      server_conn.go     serverConn.connect, serverConn.connectError
      server_socket.go   serverSocket.onConnect, cleanup, Join (holds joinMu for the whole call), onPacket / onEvent
    (doConnect: store, then the connection's tables, then onConnect, then the handler goroutine)
      adapter/adapter_memory.go  AddAll, delete, DeleteAll, SocketRooms, apply (Sockets/Broadcast)

    One namespace is modelled (every namespace is its own object with its own socket store,
    adapter and chain; the live rig checks that the chain of another namespace never runs).
    Admissions are threads over the shared namespace state; one step is one critical section of
    the code (one adapter call, one store update, one packet handed to the connection's queue,
    one middleware call).  Middlewares may also start Join calls on goroutines of their own; these
    race with the rest of the admission (in particular with the clean-up after a rejection) under
    the socket's joinMu.  Schedules are arbitrary. *)
From SioV Require Import Base.GoSem.

(** * Association lists as Go maps *)
Section AMap.
  Context {K V : Type} (keqb : K -> K -> bool).

  Fixpoint mget (k : K) (m : list (K * V)) : option V :=
    match m with
    | [] => None
    | (k', v) :: m' => if keqb k k' then Some v else mget k m'
    end.

  Fixpoint mset (k : K) (v : V) (m : list (K * V)) : list (K * V) :=
    match m with
    | [] => [(k, v)]
    | (k', v') :: m' => if keqb k k' then (k, v) :: m' else (k', v') :: mset k v m'
    end.

  Fixpoint mdel (k : K) (m : list (K * V)) : list (K * V) :=
    match m with
    | [] => []
    | (k', v') :: m' => if keqb k k' then mdel k m' else (k', v') :: mdel k m'
    end.
End AMap.

(** * Identifiers *)
Definition sid := N.

(** A room is a string in Go; a socket's own room is the string of its id.  The model keeps the two
    kinds apart: middlewares join named rooms only (a middleware that joins the socket to a room
    named like a socket id is outside the model, see docs/C12.md). *)
Inductive room := ROwn (s : sid) | RNamed (n : N).

Definition room_eqb (a b : room) : bool :=
  match a, b with
  | ROwn x, ROwn y => N.eqb x y
  | RNamed x, RNamed y => N.eqb x y
  | _, _ => false
  end.

Definition mem {A} (eqb : A -> A -> bool) (x : A) (l : list A) : bool := existsb (eqb x) l.
Definition set_add {A} (eqb : A -> A -> bool) (x : A) (l : list A) : list A :=
  if mem eqb x l then l else l ++ [x].
Definition set_remove {A} (eqb : A -> A -> bool) (x : A) (l : list A) : list A :=
  filter (fun y => negb (eqb x y)) l.

(** * In-memory adapter (adapter_memory.go): two maps kept in step *)
Record adapter := mkAdapter {
  a_sids  : list (sid * list room);     (* sids  map[SocketID]set[Room] *)
  a_rooms : list (room * list sid)      (* rooms map[Room]set[SocketID] *)
}.

Definition adapter0 : adapter := mkAdapter [] [].

Definition rooms_of (a : adapter) (s : sid) : list room :=
  match mget N.eqb s (a_sids a) with Some l => l | None => [] end.
Definition members (a : adapter) (r : room) : list sid :=
  match mget room_eqb r (a_rooms a) with Some l => l | None => [] end.

(** SocketRooms(sid): (rooms, ok) *)
Definition socket_rooms (a : adapter) (s : sid) : option (list room) := mget N.eqb s (a_sids a).

(** body of the loop of AddAll for one room *)
Definition add_one (s : sid) (a : adapter) (r : room) : adapter :=
  mkAdapter (mset N.eqb s (set_add room_eqb r (rooms_of a s)) (a_sids a))
            (mset room_eqb r (set_add N.eqb s (members a r)) (a_rooms a)).

(** AddAll(sid, rooms): the entry of sid is created even when no room is given *)
Definition add_all (s : sid) (rs : list room) (a : adapter) : adapter :=
  let a1 := match mget N.eqb s (a_sids a) with
            | Some _ => a
            | None => mkAdapter (mset N.eqb s [] (a_sids a)) (a_rooms a)
            end in
  fold_left (add_one s) rs a1.

(** inMemoryAdapter.delete(sid, room) *)
Definition del_one (s : sid) (a : adapter) (r : room) : adapter :=
  match mget room_eqb r (a_rooms a) with
  | Some l =>
      match set_remove N.eqb s l with
      | [] => mkAdapter (a_sids a) (mdel room_eqb r (a_rooms a))
      | l' => mkAdapter (a_sids a) (mset room_eqb r l' (a_rooms a))
      end
  | None => a
  end.

(** DeleteAll(sid) *)
Definition delete_all (s : sid) (a : adapter) : adapter :=
  match mget N.eqb s (a_sids a) with
  | None => a
  | Some rs =>
      let a' := fold_left (del_one s) rs a in
      mkAdapter (mdel N.eqb s (a_sids a')) (a_rooms a')
  end.

(** apply(opts, callback): the sockets a broadcast with (rooms, except) reaches.  Only sockets that
    are in the namespace's socket store are handed to the callback. *)
Definition except_sids (a : adapter) (ex : list room) : list sid := flat_map (members a) ex.

Fixpoint dedup (l : list sid) (seen : list sid) : list sid :=
  match l with
  | [] => []
  | x :: l' => if mem N.eqb x seen then dedup l' seen else x :: dedup l' (x :: seen)
  end.

Definition targets (store : list sid) (a : adapter) (rooms ex : list room) : list sid :=
  let exs := except_sids a ex in
  let ok := fun s => negb (mem N.eqb s exs) && mem N.eqb s store in
  match rooms with
  | [] => filter ok (map fst (a_sids a))
  | _ => dedup (filter ok (flat_map (members a) rooms)) []
  end.

(** * Namespace middlewares *)
Inductive rej :=
| RErr (text : bytes)      (* the middleware returned an error value *)
| RStr (text : bytes)      (* ... a string *)
| RData (d : N).           (* ... any other non-nil value (struct, map, number): opaque JSON *)

Inductive verdict := Accept | Reject (r : rej).

(** What one registered middleware does for one given (socket, handshake): the Join calls it makes
    on the socket (each a list of named rooms), its return value, and the Join calls it starts on
    goroutines of its own (`go socket.Join(...)`), which race with the rest of the admission. *)
Record mwb := mkMwb { mb_joins : list (list N); mb_verdict : verdict; mb_async : list (list N) }.

(** "message" of the CONNECT_ERROR packet: middlewareError.data + serverConn.connectError *)
Inductive msg := MText (t : bytes) | MData (d : N).
Definition rej_message (r : rej) : msg :=
  match r with RErr t => MText t | RStr t => MText t | RData d => MData d end.

Definition accepts (b : mwb) : bool := match mb_verdict b with Accept => true | Reject _ => false end.

(** The chain as a pure function (runMiddlewares): indexes of the middlewares called, in order, and
    the first rejection. *)
Fixpoint run_chain_from (i : nat) (c : list mwb) : list nat * option rej :=
  match c with
  | [] => ([], None)
  | b :: c' =>
      match mb_verdict b with
      | Accept => let '(calls, r) := run_chain_from (S i) c' in (i :: calls, r)
      | Reject r => ([i], Some r)
      end
  end.
Definition run_chain (c : list mwb) : list nat * option rej := run_chain_from 0 c.

(** * Namespace state and admission threads *)
Inductive pkt := PktConnect (s : sid) | PktConnectError (m : msg).

Inductive obs :=
| OMw (s : sid) (i : nat)       (* middleware i entered for socket s *)
| OHandler (s : sid)            (* the connection handlers run for socket s *)
| OPkt (s : sid) (p : pkt).     (* packet queued to the client in answer to the CONNECT of s *)

Record server := mkServer {
  store     : list sid;          (* Namespace.sockets *)
  adp       : adapter;
  conn_flag : list sid;          (* sockets whose `connected` is true *)
  c_socks   : list (N * sid);    (* serverConn.sockets of every connection: (conn, sid) *)
  c_nsps    : list N;            (* connections whose nsps table holds this namespace *)
  trace     : list obs           (* chronological *)
}.

Definition server0 : server := mkServer [] adapter0 [] [] [] [].

Inductive pc :=
| PNew                   (* add: RestoreSession / newServerSocket (a restored session joins its rooms here) *)
| PMw (i : nat)          (* runMiddlewares: about to call middleware i (i = length: chain passed) *)
| PDisable (r : rej)     (* add: chain returned an error -> socket.cleanup(): joinMu; s.join = no-op *)
| PLeave (r : rej)       (* cleanup: s.leaveAll() *)
| PSendError (r : rej)   (* connect: connectError(mErr.data()) *)
| PRejected (r : rej)
| PStore                 (* doConnect: n.sockets.set(socket) *)
| PConnTables            (* doConnect: socket.conn.sockets.set(socket); socket.conn.nsps.set(n) *)
| PJoinOwn               (* onConnect: s.Join(Room(s.ID())) *)
| PSendConnect           (* onConnect: sendControlPacket(CONNECT, {sid}) *)
| PSetConnected          (* onConnect: s.connected = true *)
| PSpawn                 (* doConnect: go func() { connection handlers } *)
| PAdmitted.

Inductive hstate := HNone | HPending | HRan.

(** A goroutine executing `socket.Join(rooms...)`.  ServerSocket.Join holds joinMu for the whole
    call: [JNew] = not yet in Join; [JHold] = inside Join with the real join function, joinMu held,
    adapter.AddAll not done yet; [JDone] = returned. *)
Inductive jstate := JNew | JHold | JDone.
Definition jthread := (list N * jstate)%type.

Record adm := mkAdm {
  t_sid   : sid;
  t_conn  : N;
  t_chain : list mwb;
  t_pc    : pc;
  t_h     : hstate;        (* the goroutine started by doConnect *)
  t_jen   : bool;          (* s.join is the real function (false: replaced by the no-op) *)
  t_js    : list jthread;  (* Join goroutines started by middlewares *)
  t_rec   : option (list N); (* Some rooms: connection state recovery is enabled and the adapter restored
                                the session named by the CONNECT's pid/offset (same socket id, its own
                                room and these named rooms); None: recovery off, no pid, or not restored *)
  t_usemw : bool           (* ServerConnectionStateRecovery.UseMiddlewares *)
}.

Definition new_adm_rec (s : sid) (c : N) (chain : list mwb) (rec : option (list N)) (usemw : bool) : adm :=
  mkAdm s c chain PNew HNone true [] rec usemw.
Definition new_adm (s : sid) (c : N) (chain : list mwb) : adm := new_adm_rec s c chain None false.

Definition restored (t : adm) : bool := match t_rec t with Some _ => true | None => false end.
(** Namespace.add: the chain is skipped exactly for a restored session when UseMiddlewares is off *)
Definition skipped (t : adm) : bool := restored t && negb (t_usemw t).

Definition with_pc (t : adm) (p : pc) : adm :=
  mkAdm (t_sid t) (t_conn t) (t_chain t) p (t_h t) (t_jen t) (t_js t) (t_rec t) (t_usemw t).
Definition with_h (t : adm) (h : hstate) : adm :=
  mkAdm (t_sid t) (t_conn t) (t_chain t) (t_pc t) h (t_jen t) (t_js t) (t_rec t) (t_usemw t).
Definition with_jen (t : adm) (b : bool) : adm :=
  mkAdm (t_sid t) (t_conn t) (t_chain t) (t_pc t) (t_h t) b (t_js t) (t_rec t) (t_usemw t).
Definition with_js (t : adm) (js : list jthread) : adm :=
  mkAdm (t_sid t) (t_conn t) (t_chain t) (t_pc t) (t_h t) (t_jen t) js (t_rec t) (t_usemw t).

Definition is_hold (j : jthread) : bool := match snd j with JHold => true | _ => false end.
(** joinMu of the socket is held by a Join goroutine *)
Definition held (t : adm) : bool := existsb is_hold (t_js t).

Definition log (o : obs) (s : server) : server :=
  mkServer (store s) (adp s) (conn_flag s) (c_socks s) (c_nsps s) (trace s ++ [o]).
Definition with_adp (a : adapter) (s : server) : server :=
  mkServer (store s) a (conn_flag s) (c_socks s) (c_nsps s) (trace s).

Definition join_calls (sd : sid) (calls : list (list N)) (a : adapter) : adapter :=
  fold_left (fun a rs => add_all sd (map RNamed rs) a) calls a.

Definition nonempty {A} (l : list A) : bool := match l with [] => false | _ => true end.

(** One step of the main line of an admission.  A step that needs joinMu while a Join goroutine
    holds it does not move (the goroutine is blocked on the mutex). *)
Definition step_main (t : adm) (s : server) : adm * server :=
  let sd := t_sid t in
  match t_pc t with
  | PNew =>
      match t_rec t with
      | Some rooms =>
          (* newServerSocket(previousSession): s.Join(previousSession.Rooms...) *)
          (with_pc t (if t_usemw t then PMw 0 else PStore),
           if t_jen t then with_adp (add_all sd (ROwn sd :: map RNamed rooms) (adp s)) s else s)
      | None => (with_pc t (PMw 0), s)
      end
  | PMw i =>
      match nth_error (t_chain t) i with
      | None => (with_pc t PStore, s)
      | Some b =>
          if held t && nonempty (mb_joins b) then (t, s) else
          let s1 := log (OMw sd i) s in
          let s2 := if t_jen t then with_adp (join_calls sd (mb_joins b) (adp s1)) s1 else s1 in
          let t1 := with_js t (t_js t ++ map (fun rs => (rs, JNew)) (mb_async b)) in
          match mb_verdict b with
          | Accept => (with_pc t1 (PMw (S i)), s2)
          | Reject r => (with_pc t1 (PDisable r), s2)
          end
      end
  | PDisable r => if held t then (t, s) else (with_jen (with_pc t (PLeave r)) false, s)
  | PLeave r => (with_pc t (PSendError r), with_adp (delete_all sd (adp s)) s)
  | PSendError r => (with_pc t (PRejected r), log (OPkt sd (PktConnectError (rej_message r))) s)
  | PRejected _ => (t, s)
  | PStore =>
      (with_pc t PConnTables,
       mkServer (set_add N.eqb sd (store s)) (adp s) (conn_flag s) (c_socks s) (c_nsps s) (trace s))
  | PConnTables =>
      (with_pc t PJoinOwn,
       mkServer (store s) (adp s) (conn_flag s) (c_socks s ++ [(t_conn t, sd)])
                (set_add N.eqb (t_conn t) (c_nsps s)) (trace s))
  | PJoinOwn =>
      if held t then (t, s) else
      (with_pc t PSendConnect, if t_jen t then with_adp (add_all sd [ROwn sd] (adp s)) s else s)
  | PSendConnect => (with_pc t PSetConnected, log (OPkt sd (PktConnect sd)) s)
  | PSetConnected =>
      (with_pc t PSpawn,
       mkServer (store s) (adp s) (set_add N.eqb sd (conn_flag s)) (c_socks s) (c_nsps s) (trace s))
  | PSpawn => (with_h (with_pc t PAdmitted) HPending, s)
  | PAdmitted => (t, s)
  end.

(** One step of the handler goroutine. *)
Definition step_h (t : adm) (s : server) : adm * server :=
  match t_h t with
  | HPending => (with_h t HRan, log (OHandler (t_sid t)) s)
  | _ => (t, s)
  end.

Fixpoint upd_nth {A} (n : nat) (x : A) (l : list A) : list A :=
  match l, n with
  | [], _ => []
  | _ :: l', O => x :: l'
  | y :: l', S n' => y :: upd_nth n' x l'
  end.

(** One step of Join goroutine j of the socket: enter Join (take joinMu if it is free; with the
    no-op installed the call returns at once), then adapter.AddAll and return (release joinMu). *)
Definition step_join (j : nat) (t : adm) (s : server) : adm * server :=
  match nth_error (t_js t) j with
  | Some (rs, JNew) =>
      if held t then (t, s)
      else if t_jen t then (with_js t (upd_nth j (rs, JHold) (t_js t)), s)
      else (with_js t (upd_nth j (rs, JDone) (t_js t)), s)
  | Some (rs, JHold) =>
      (with_js t (upd_nth j (rs, JDone) (t_js t)),
       with_adp (add_all (t_sid t) (map RNamed rs) (adp s)) s)
  | _ => (t, s)
  end.

(** The system: shared namespace state + admission threads; a schedule names, per step, a thread and
    which of its goroutines moves: the admission itself, the handler goroutine, a Join goroutine. *)
Inductive who := WMain | WHandler | WJoin (j : nat).

Definition sys := (server * list adm)%type.

Definition sys_step (st : sys) (mv : nat * who) : sys :=
  let '(s, ts) := st in
  match nth_error ts (fst mv) with
  | None => st
  | Some t =>
      let '(t', s') := match snd mv with
                       | WMain => step_main t s
                       | WHandler => step_h t s
                       | WJoin j => step_join j t s
                       end in
      (s', upd_nth (fst mv) t' ts)
  end.

Definition run (sched : list (nat * who)) (st : sys) : sys := fold_left sys_step sched st.

Definition init (ts : list adm) : sys := (server0, ts).

(** A thread run alone to completion (used to predict what the rig observes for one connection). *)
Definition solo_sched (k : nat) : list (nat * who) :=
  repeat (0%nat, WMain) (k + 11) ++ [(0%nat, WHandler)].

(** * What the public API shows about one socket id *)
Definition listed (s : server) (x : sid) : bool := mem N.eqb x (store s).
Definition is_connected (s : server) (x : sid) : bool := mem N.eqb x (conn_flag s).
Definition in_own_room (s : server) (x : sid) : bool := mem N.eqb x (members (adp s) (ROwn x)).
Definition reach_all (s : server) (x : sid) : bool := mem N.eqb x (targets (store s) (adp s) [] []).
Definition reach_room (s : server) (r : room) (x : sid) : bool :=
  mem N.eqb x (targets (store s) (adp s) [r] []).
Definition in_conn_tables (s : server) (x : sid) : bool := existsb (fun p => N.eqb (snd p) x) (c_socks s).

Definition mw_calls (x : sid) (tr : list obs) : list nat :=
  flat_map (fun o => match o with OMw y i => if N.eqb x y then [i] else [] | _ => [] end) tr.
Definition handler_runs (x : sid) (tr : list obs) : nat :=
  length (filter (fun o => match o with OHandler y => N.eqb x y | _ => false end) tr).
Definition packets (x : sid) (tr : list obs) : list pkt :=
  flat_map (fun o => match o with OPkt y p => if N.eqb x y then [p] else [] | _ => [] end) tr.

(** * Per-socket event middlewares (server_socket.go onPacket/onEvent, middleware.go) *)
Inductive val := VStr (b : bytes) | VInt (z : Z).

Record handler := mkHandler {
  h_id  : N;
  h_ack : bool            (* last parameter is an acknowledgement function *)
}.

Inductive eobs :=
| EMw (i : nat) (name : bytes) (args : list val)   (* event middleware i called with (name, args) *)
| EHandler (h : N) (args : list val) (ackable : bool)
| EError.                                           (* ServerSocket error handlers ran *)

(** An event middleware decides on what it is given. *)
Definition emw := bytes -> list val -> bool.

Fixpoint call_middlewares (i : nat) (ms : list emw) (name : bytes) (args : list val)
  : list eobs * bool :=
  match ms with
  | [] => ([], true)
  | m :: ms' =>
      if m name args
      then let '(tr, ok) := call_middlewares (S i) ms' name args in (EMw i name args :: tr, ok)
      else ([EMw i name args], false)
  end.

(** onEvent for one handler.  [decode h] is what parser.Decode yields for the handler's parameter
    types on this packet (None: decode error or wrong number of values); the ack placeholder is
    not part of it. *)
Definition on_event (ms : list emw) (connected : bool) (name : bytes) (has_id : bool)
           (decode : handler -> option (list val)) (h : handler) : list eobs :=
  match decode h with
  | None => [EError]
  | Some args =>
      let '(tr, ok) := call_middlewares 0 ms name args in
      if negb ok then tr ++ [EError]
      else if negb connected then tr
      else tr ++ [EHandler (h_id h) args (has_id && h_ack h)]
  end.

(** onPacket for an EVENT: every handler registered for the event, in order. *)
Definition on_packet (ms : list emw) (connected : bool) (name : bytes) (has_id : bool)
           (decode : handler -> option (list val)) (hs : list handler) : list eobs :=
  flat_map (on_event ms connected name has_id decode) hs.
