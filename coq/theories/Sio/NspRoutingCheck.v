(** Executable comparison (agree) and property oracle of the C05 live rig (kernel evaluation). *)
From SioV Require Import Base.GoSem Sio.NspRouting.
Local Open Scope N_scope.

(** A recorded observation, as projected by checks/C05.py:
    (kind, server-side?, conn, namespace of the observing socket, a, b, sid index)
      kind 0 ev       a = tag
      kind 1 ack      a = tag
      kind 2 life     a = 0 connect | 1 connect_error | 2 disconnect
      kind 3 closed   (client side: the manager / raw peer saw its connection close)
      kind 10+t rx    raw peer read a packet of type t; a = tag (events/acks) ; b = id+1 or 0
    sid: index of the server socket id string (0 = none / not applicable). *)
Definition orow := (N * bool * N * nsname * N * N * N)%type.

Definition ptype_num (t : ptype) : N :=
  match t with PConnect => 0 | PDisconnect => 1 | PEvent => 2 | PAck => 3 | PConnectError => 4
             | PBinEvent => 5 | PBinAck => 6 end.
Definition ptype_of (t : N) : ptype :=
  match t with 0 => PConnect | 1 => PDisconnect | 2 => PEvent | 3 => PAck | 4 => PConnectError
             | 5 => PBinEvent | _ => PBinAck end.

Definition carries_tag (t : ptype) : bool :=
  match t with PEvent | PAck | PBinEvent | PBinAck => true | _ => false end.

(** model observation -> row (sid dropped: socket identity is checked by the oracle) *)
Definition row_of (b : obs) : list orow :=
  match b with
  | BOut (OEv srv c n _ tag) => [(0, srv, c, n, tag, 0, 0)]
  | BOut (OAck srv c n tag) => [(1, srv, c, n, tag, 0, 0)]
  | BOut (OLife srv c n k) => [(2, srv, c, n, k, 0, 0)]
  | BOut (OClosed false c) => [(3, false, c, [], 0, 0, 0)]
  | BOut _ => []
  | BRx c p => [(10 + ptype_num (p_type p), false, c, norm_hdr (p_nsp p),
                 (if carries_tag (p_type p) then p_tag p else 0),
                 (match p_id p with Some i => i + 1 | None => 0 end), 0)]
  | BRawClosed c => [(3, false, c, [], 0, 0, 0)]
  end.

Definition row_eqb (x y : orow) : bool :=
  let '(k1, s1, c1, n1, a1, b1, _) := x in
  let '(k2, s2, c2, n2, a2, b2, _) := y in
  (k1 =? k2) && Bool.eqb s1 s2 && (c1 =? c2) && nseqb n1 n2 && (a1 =? a2) && (b1 =? b2).

(** lifecycle rows get the number of earlier lifecycle rows of the same (side, conn, namespace) in
    field b, so that comparing multisets also compares the per-socket lifecycle sequences *)
(** Server side: the connection handlers of a socket run on their own goroutine (namespace.go
    doConnect), its disconnect handlers on the closing goroutine, so their relative order is not
    fixed by the code (a socket admitted on a closed connection is closed at once): server rows are
    numbered per kind (k-th connect, k-th disconnect of that socket).  Client callbacks are
    sequential: numbered over all kinds. *)
Definition same_sock (x y : orow) : bool :=
  let '(k1, s1, c1, n1, a1, _, _) := x in
  let '(k2, s2, c2, n2, a2, _, _) := y in
  (k1 =? 2) && (k2 =? 2) && Bool.eqb s1 s2 && (c1 =? c2) && nseqb n1 n2 && (negb s1 || (a1 =? a2)).

Fixpoint index_life (seen l : list orow) : list orow :=
  match l with
  | [] => []
  | x :: l' =>
      let '(k, s, c, n, a, b, sid) := x in
      (if k =? 2 then (k, s, c, n, a, N.of_nat (length (filter (same_sock x) seen)), sid) else x)
      :: index_life (x :: seen) l'
  end.

Fixpoint remove_row (x : orow) (l : list orow) : option (list orow) :=
  match l with
  | [] => None
  | y :: l' => if row_eqb x y then Some l'
               else match remove_row x l' with Some r => Some (y :: r) | None => None end
  end.
Fixpoint perm_eqb (a b : list orow) : bool :=
  match a with
  | [] => match b with [] => true | _ => false end
  | x :: a' => match remove_row x b with Some b' => perm_eqb a' b' | None => false end
  end.

(** operations as written by checks/C05.py *)
Definition case := (list nsname * list nsname * list N * list op * list orow)%type.

Definition model_rows (c : case) : list orow :=
  let '(names, gated, raws, ops, _) := c in
  flat_map row_of (snd (yrun ops (sys0 names gated raws))).

(** mw rows (kind 4) are informational and not compared *)
Definition compared (x : orow) : bool := let '(k, _, _, _, _, _, _) := x in negb (k =? 4).

Definition agree (c : case) : bool :=
  let '(_, _, _, _, rows) := c in
  perm_eqb (index_life [] (model_rows c)) (index_life [] (filter compared rows)).

(** * The property evaluated on the implementation's observations alone *)
Definition op_tag_nsp (o : op) : list (N * nsname * option N * bool) :=
  (* tag, namespace of the emit, connection bound (None = broadcast), emitted by the server? *)
  match o with
  | OpCEmit c n tag _ => [(tag, norm_api n, Some c, false)]
  | OpSEmit c n tag _ => [(tag, norm_api n, Some c, true)]
  | OpBcast n _ tag => [(tag, norm_api n, None, true)]
  | OpSBcast _ n _ tag => [(tag, norm_api n, None, true)]
  | OpRaw c p => if carries_tag (p_type p) then [(p_tag p, norm_hdr (p_nsp p), Some c, false)] else []
  | _ => []
  end.

Definition emits (ops : list op) := flat_map op_tag_nsp ops.

(** an event / ack / received packet is attributable: some emit with this tag was made in exactly
    the namespace of the socket that observed it, on this connection unless it was a broadcast *)
Definition attributable (ops : list op) (x : orow) : bool :=
  let '(k, srv, c, n, a, _, _) := x in
  if (k =? 0) || (k =? 12) || (k =? 15) then
    (* handler entry on the server: emitted by that client; on a client: emitted by the server *)
    existsb (fun e => let '(tag, en, ec, esrv) := e in
                      (tag =? a) && nseqb en n && Bool.eqb esrv (negb srv)
                      && match ec with Some d => d =? c | None => true end) (emits ops)
  else if (k =? 1) || (k =? 13) || (k =? 16) then
    (* ack callback / ack packet: answers an emit of this side's peer... made on this socket *)
    existsb (fun e => let '(tag, en, ec, esrv) := e in
                      (tag =? a) && nseqb en n
                      && match ec with Some d => d =? c | None => false end) (emits ops)
  else true.

(** socket identity: a server-side row names the socket most recently created for a CONNECT of its
    (connection, namespace) (kind 4: the namespace middleware saw that socket) *)
Fixpoint sid_ok (seen l : list orow) : bool :=
  match l with
  | [] => true
  | x :: l' =>
      let '(k, srv, c, n, a, _, sid) := x in
      (if srv && ((k =? 0) || (k =? 1) || ((k =? 2) && (a =? 2))) then
         match find (fun y => let '(k2, s2, c2, n2, a2, _, _) := y in
                              (k2 =? 4) && s2 && (c2 =? c) && nseqb n2 n) seen with
         | Some (_, _, _, _, _, _, sid2) => sid =? sid2
         | None => false
         end
       else true) && sid_ok (x :: seen) l'
  end.

(** a client "connect" of (conn, n) needs a Connect of that namespace on that connection and, when
    the namespace is gated, an accepting release after it; a namespace not created on the server is
    never connected *)
Fixpoint accepted_before (gated : list nsname) (names : list nsname) (c : N) (n : nsname) (ops : list op) (connected : bool) : bool :=
  match ops with
  | [] => false
  | OpConnect d m :: l =>
      if (d =? c) && nseqb (norm_api m) n
      then (if existsb (nseqb n) gated then accepted_before gated names c n l true
            else existsb (nseqb n) names || accepted_before gated names c n l connected)
      else accepted_before gated names c n l connected
  | OpRaw d p :: l =>
      if (d =? c) && nseqb (norm_hdr (p_nsp p)) n && (ptype_num (p_type p) =? 0)
      then (if existsb (nseqb n) gated then accepted_before gated names c n l true
            else existsb (nseqb n) names || accepted_before gated names c n l connected)
      else accepted_before gated names c n l connected
  | OpRelease m true :: l =>
      (connected && nseqb (norm_api m) n) || accepted_before gated names c n l connected
  | _ :: l => accepted_before gated names c n l connected
  end.

Definition connect_ok (names gated : list nsname) (ops : list op) (x : orow) : bool :=
  let '(k, srv, c, n, a, _, _) := x in
  if ((k =? 2) && (a =? 0)) || (k =? 10)
  then existsb (nseqb n) names && accepted_before gated names c n ops false
  else true.

(** a namespace-level disconnect (or a closed connection) must have a cause on that connection:
    a disconnect of that very namespace, or something that legitimately closes the connection *)
Definition closes_legit (names : list nsname) (o : op) (c : N) : bool :=
  match o with
  | OpRaw d _ => d =? c          (* raw peers send invalid packets on purpose; judged by agree *)
  | OpCDisc d _ => d =? c        (* the last active socket closes the manager *)
  | OpConnect d m =>             (* connect_error destroys the socket: may close an otherwise idle manager *)
      (d =? c) && negb (existsb (nseqb (norm_api m)) names)
  | OpRelease _ false => true
  | _ => false
  end.

Definition disconnect_ok (names : list nsname) (ops : list op) (x : orow) : bool :=
  let '(k, srv, c, n, a, _, _) := x in
  if ((k =? 2) && (a =? 2)) || (k =? 11) then
    existsb (fun o => match o with
                      | OpCDisc d m | OpSDisc d m => ((d =? c) && nseqb (norm_api m) n) || closes_legit names o c
                      | _ => closes_legit names o c
                      end) ops
  else if k =? 3 then existsb (fun o => closes_legit names o c) ops
  else true.

(** nothing of namespace n reaches a client before the server accepted its CONNECT for n: an event
    (handler entry on a Go client -- which parks early frames and hands them over at the CONNECT reply --
    or an EVENT frame read by a raw peer) that stems from a server-side emit / broadcast made by
    operation i requires (conn, n) to have been accepted by the operations before i; a refused
    CONNECT never gets anything.  Operations are executed one after the other, each to completion. *)
Fixpoint emit_index (tag : N) (i : nat) (ops : list op) : option nat :=
  match ops with
  | [] => None
  | o :: l =>
      match o with
      | OpSEmit _ _ t _ | OpBcast _ _ t | OpSBcast _ _ _ t => if t =? tag then Some i else emit_index tag (S i) l
      | _ => emit_index tag (S i) l
      end
  end.

Definition not_before_accept (names gated : list nsname) (ops : list op) (x : orow) : bool :=
  let '(k, srv, c, n, a, _, _) := x in
  if negb srv && ((k =? 0) || (k =? 12) || (k =? 15)) then
    match emit_index a O ops with
    | Some i => accepted_before gated names c n (firstn i ops) false
    | None => true   (* judged by [attributable] *)
    end
  else true.

Definition pair_is (c : N) (n : nsname) (x : N * nsname) : bool := (fst x =? c) && nseqb (snd x) n.

(** a raw packet other than CONNECT for a namespace that this connection never even tried to join
    must close the connection (a "closed" row of that connection exists) *)
Fixpoint probes_closed (tried : list (N * nsname)) (ops : list op) (rows : list orow) : bool :=
  match ops with
  | [] => true
  | OpRaw c p :: l =>
      let n := norm_hdr (p_nsp p) in
      if ptype_num (p_type p) =? 0 then probes_closed ((c, n) :: tried) l rows
      else (existsb (pair_is c n) tried
            || existsb (fun x => let '(k, _, d, _, _, _, _) := x in (k =? 3) && (d =? c)) rows)
           && probes_closed tried l rows
  | _ :: l => probes_closed tried l rows
  end.

Definition oracle (c : case) : bool :=
  let '(names, gated, raws, ops, rows) := c in
  forallb (attributable ops) rows
  && sid_ok [] rows
  && forallb (connect_ok names gated ops) rows
  && forallb (disconnect_ok names ops) rows
  && probes_closed [] ops rows
  && forallb (not_before_accept names gated ops) rows.

(** * Finding class emit-while-connect-pending (known_findings.txt): some client emit on (c, n) is
    made while the CONNECT of (c, n) sits in the middleware chain of a gated namespace.  The Go
    client sends such a packet at once and the server closes the whole connection. *)

Fixpoint pending_emit (gated : list nsname) (pend conn : list (N * nsname)) (ops : list op) : bool :=
  match ops with
  | [] => false
  | OpConnect c m :: l =>
      let n := norm_api m in
      if existsb (nseqb n) gated && negb (existsb (pair_is c n) conn) && negb (existsb (pair_is c n) pend)
      then pending_emit gated ((c, n) :: pend) conn l else pending_emit gated pend conn l
  | OpRelease m ok :: l =>
      let n := norm_api m in
      let here := filter (fun x => nseqb (snd x) n) pend in
      pending_emit gated (filter (fun x => negb (nseqb (snd x) n)) pend) (if ok then here ++ conn else conn) l
  | OpCEmit c m _ _ :: l => existsb (pair_is c (norm_api m)) pend || pending_emit gated pend conn l
  | OpCDisc c m :: l | OpSDisc c m :: l =>
      let n := norm_api m in
      pending_emit gated (filter (fun x => negb (pair_is c n x)) pend) (filter (fun x => negb (pair_is c n x)) conn) l
  | _ :: l => pending_emit gated pend conn l
  end.

Definition known_pending_emit (c : case) : bool :=
  let '(names, gated, _, ops, rows) := c in
  pending_emit gated [] [] ops && forallb (not_before_accept names gated ops) rows.
