(** decode after encode for packets WITHOUT attachments (the plain path of [decode]). *)
From Coq Require Import ZifyN ZifyNat ZifyBool.
From SioV Require Import Base.GoSem Sio.Json Sio.Header Sio.HeaderProofs Sio.Binary Sio.BinaryProofs
  Sio.Codec Sio.RoundtripProofs Sio.ReconProofs Sio.DecodeProofs.
Local Open Scope N_scope.

(** The JSON of a shape without binary leaves. *)
Fixpoint jof (b : jb) : jv :=
  match b with
  | BNull => JNull
  | BBool x => JBool x
  | BInt z => JInt z
  | BStr s => JStr s
  | BBin _ => JNull
  | BArr l => JArr (map jof l)
  | BObj kvs => JObj (map (fun '(k, x) => (k, jof x)) kvs)
  end.

Lemma plus_zero' a b : (a + b = 0 -> a = 0 /\ b = 0)%nat.
Proof. lia. Qed.

Lemma nb_extract : forall b, count_bin b = 0%nat -> forall n, extract b n = (jof b, [], n).
Proof.
  induction b using jb_ind'; intros C n; try reflexivity; try discriminate.
  - rewrite extract_arr. cbn [jof].
    assert (G : ex_list l n = (map jof l, [], n)).
    { revert n. induction H as [|x l Hx Hl IH]; intros n; simpl in *; [reflexivity|].
      apply plus_zero' in C as [C1 C2]. rewrite (Hx C1 n), (IH C2 n). reflexivity. }
    now rewrite G.
  - rewrite extract_obj. cbn [jof].
    assert (G : ex_obj kvs n = (map (fun '(k, x) => (k, jof x)) kvs, [], n)).
    { revert n. induction H as [|[k x] l Hx Hl IH]; intros n; simpl in *; [reflexivity|].
      apply plus_zero' in C as [C1 C2]. rewrite (Hx C1 n), (IH C2 n). reflexivity. }
    now rewrite G.
Qed.

Lemma plain_jof b : count_bin b = 0%nat -> plain (jof b) = norm_b b.
Proof.
  intros C. destruct (proj1 (any_all b) C 0) as (j & E & P).
  rewrite (nb_extract b C 0) in E. inversion E; subst. exact P.
Qed.

Lemma jof_null b : count_bin b = 0%nat -> jof b = JNull -> b = BNull.
Proof. destruct b; simpl; intros; try discriminate; auto. Qed.

Lemma count_leaves : forall b, count_bin b = length (leaves b).
Proof.
  induction b using jb_ind'; try reflexivity.
  - cbn [count_bin leaves]. induction H as [|x l Hx Hl IH]; simpl; [reflexivity|].
    rewrite app_length, Hx, IH. reflexivity.
  - cbn [count_bin leaves]. induction H as [|[k x] l Hx Hl IH]; simpl in *; [reflexivity|].
    rewrite app_length, Hx, IH. reflexivity.
Qed.

Lemma res_all_map_ok {A B} (f : A -> res B) (g : A -> B) l :
  (forall a, In a l -> f a = Ok (g a)) -> res_all (map f l) = Ok (map g l).
Proof.
  induction l as [|a l IH]; intros H; simpl; [reflexivity|].
  rewrite (H a (or_introl eq_refl)). simpl. rewrite IH by (intros; apply H; now right). reflexivity.
Qed.

Lemma lookup_map {A B} (f : A -> B) k (l : list (bytes * A)) :
  lookup k (map (fun '(k, x) => (k, f x)) l) = option_map f (lookup k l).
Proof.
  induction l as [|[k1 v1] l IH]; [reflexivity|]. simpl map. rewrite !lookup_cons.
  destruct (bytes_eqb k1 k); [reflexivity|exact IH].
Qed.

Lemma count_in (k : bytes) (x : jb) (kvs : list (bytes * jb)) :
  In (k, x) kvs -> count_bin (BObj kvs) = 0%nat -> count_bin x = 0%nat.
Proof.
  induction kvs as [|[k1 x1] l IH]; simpl; intros I C; [contradiction|].
  apply plus_zero' in C as [C1 C2]. destruct I as [I|I]; [inversion I; now subst|auto].
Qed.

Section Plain.
  Variable marshal : jv -> bytes.

  Lemma wtgo_in : forall fs kvs, wtgo fs kvs = true ->
    forall k t', In (k, t') fs -> exists x, In (k, x) kvs /\ wtb t' x = true.
  Proof.
    induction fs as [|[k0 t0] fs IH]; intros [|[k2 x2] kvs] W k t' I; simpl in *; try discriminate; try contradiction.
    apply andb_true_iff in W as [W W3]. apply andb_true_iff in W as [W1 W2].
    apply bytes_eqb_eq in W1. subst k2. destruct I as [I|I].
    - inversion I; subst. eauto.
    - destruct (IH kvs W3 k t' I) as (x & I2 & Wx). eauto.
  Qed.

  Definition fieldf0 (m : list (bytes * jv)) (kt : bytes * ty) : res (bytes * jb) :=
    let '(k, t') := kt in
    match lookup k m with
    | Some x => rbind (recon marshal None t' x) (fun r => Ok (k, r))
    | None => rbind (zero false t') (fun z => Ok (k, z))
    end.
  Lemma recon_struct0 fs m :
    recon marshal None (TStruct fs) (JObj m) = rbind (res_all (map (fieldf0 m) fs)) (fun r => Ok (BObj r)).
  Proof. reflexivity. Qed.

  Definition PTP (t : ty) : Prop :=
    forall b, wtb t b = true -> count_bin b = 0%nat -> recon marshal None t (jof b) = Ok (view_ty t b).

  Lemma recon_plain : forall t, PTP t.
  Proof.
    induction t using ty_ind'; intros b Wt C.
    - cbn [recon view_ty]. now rewrite plain_jof.
    - destruct b; try discriminate. reflexivity.
    - destruct b; try discriminate. reflexivity.
    - destruct b; try discriminate. reflexivity.
    - destruct b; try discriminate.
    - (* TPtr *)
      cbn [recon view_ty]. destruct b; try (now rewrite view_null); cbn [wtb] in Wt;
        try (exact (IHt _ Wt C)). discriminate.
    - (* TSlice *)
      destruct b; try discriminate; [reflexivity|]. cbn [recon view_ty jof wtb] in *.
      rewrite map_map. erewrite res_all_map_ok; [reflexivity|].
      intros x I. apply IHt.
      + rewrite forallb_forall in Wt. auto.
      + cbn [count_bin] in C. clear Wt. induction l as [|y l IH]; simpl in *; [contradiction|].
        apply plus_zero' in C as [C1 C2]. destruct I as [->|I]; auto.
    - (* TStruct *)
      destruct b; try discriminate. rewrite wtb_struct in Wt. apply andb_true_iff in Wt as [ND WG].
      cbn [jof]. rewrite recon_struct0, view_struct.
      pose proof (wtgo_keys _ _ WG) as KE.
      assert (NDk : nodupb (map fst kvs) = true) by now rewrite <- KE.
      erewrite res_all_map_ok; [reflexivity|].
      intros [k t'] I. unfold fieldf0, viewf. rewrite lookup_map.
      destruct (wtgo_in _ _ WG k t' I) as (x & Ix & Wx).
      rewrite (lookup_in kvs k x NDk Ix). cbn [option_map].
      rewrite Forall_forall in H. pose proof (H (k, t') I) as HP. simpl in HP.
      rewrite (HP x Wx (count_in k x kvs Ix C)). reflexivity.
    - (* TMapAny *)
      destruct b; try discriminate; [reflexivity|].
      cbn [recon view_ty]. change (JObj (map (fun '(k, x) => (k, jof x)) kvs)) with (jof (BObj kvs)).
      cbn [jof]. cbn [recon]. change (JObj (map (fun '(k, x) => (k, jof x)) kvs)) with (jof (BObj kvs)).
      now rewrite plain_jof.
  Qed.

  (** Arguments of a packet without binary. *)
  Fixpoint args_plain (tys : list ty) (bs : list jb) : bool :=
    match tys, bs with
    | [], [] => true
    | t :: ts, b :: bs' => wtb t b && Nat.eqb (count_bin b) 0 && args_plain ts bs'
    | _, _ => false
    end.

  Lemma args_recon_plain : forall tys sargs, args_plain tys sargs = true ->
    res_all (unm_args marshal None tys (map jof sargs)) = Ok (views tys sargs).
  Proof.
    induction tys as [|t ts IH]; intros [|b sargs] A; simpl in A; try discriminate; [reflexivity|].
    apply andb_true_iff in A as [A A3]. apply andb_true_iff in A as [A1 A2]. apply Nat.eqb_eq in A2.
    cbn [map unm_args views].
    assert (HD : (match jof b with JNull => zero false t | _ => recon marshal None t (jof b) end)
                 = Ok (view_ty t b)).
    { pose proof (recon_plain t b A1 A2) as R. destruct (jof b) eqn:J; try exact R.
      apply jof_null in J; [|exact A2]. subst b. rewrite view_null. now apply zero_null. }
    rewrite HD. cbn [res_all rbind]. rewrite IH by exact A3. reflexivity.
  Qed.
End Plain.

Section PlainPackets.
  Local Opaque encode_header.
  Variable marshal : jv -> bytes.
  Variable unmarshal : bytes -> option jv.
  Variable max_att : Z.
  Hypothesis H1 : forall j, unmarshal (marshal j) = Some j.
  Hypothesis H2 : forall name rest,
    exists tmp, prescan (marshal (JArr (JStr name :: rest))) = Ok tmp /\
                unmarshal tmp = Some (JArr [JStr name]).
  Hypothesis H3 : forall l, exists r, marshal (JArr l) = 91 :: r.
  Hypothesis H3o : forall m, exists r, marshal (JObj m) = 123 :: r.

  (** Encode of a value without binary: one frame, header untouched. *)
  Lemma encode_plain h x e :
    cleanb x = true -> msorted x = true -> nobin x = true ->
    encode marshal unmarshal max_att h (Some x) = Ok e ->
    e = mkEnc [encode_header h ++ marshal (jof (shape x))] h (Some x) /\ count_bin (shape x) = 0%nat.
  Proof.
    intros C S NB E.
    destruct (nobin_rel unmarshal x C NB S 0) as (j & J1 & J2).
    assert (CB : count_bin (shape x) = 0%nat).
    { rewrite count_leaves. pose proof (extract_leaves (shape x) 0) as [L _]. rewrite J2 in L. simpl in L.
      now rewrite <- L. }
    assert (HB : hb 2 x = false).
    { destruct (hb 2 x) eqn:B; [|reflexivity]. apply hb_leaves in B.
      rewrite count_leaves in CB. destruct (leaves (shape x)); [contradiction|discriminate]. }
    rewrite (nb_extract _ CB 0) in J2. inversion J2; subst j.
    unfold encode in E. destruct (negb (arg_ok x)); [discriminate|].
    rewrite HB, andb_false_r in E. unfold encode_string in E. rewrite J1 in E. cbn [rbind] in E.
    inversion E. auto.
  Qed.

  Theorem decode_encode_event_plain h x e tys name sargs :
    cleanb x = true -> msorted x = true -> nobin x = true -> h_type h = 2 ->
    shape x = BArr (BStr name :: sargs) -> args_plain tys sargs = true ->
    header_ok h ->
    encode marshal unmarshal max_att h (Some x) = Ok e ->
    exists p,
      e_frames e = [encode_header h ++ p] /\ e_header e = h /\
      feed unmarshal None 0 (e_frames e) = Ok ([(0%nat, (h, name, [p]))], None) /\
      decode marshal unmarshal h [p] tys = Ok (views tys sargs).
  Proof.
    intros C S NB T2 SH AP HO E.
    destruct (encode_plain h x e C S NB E) as [-> CB]. rewrite SH. cbn [jof map e_frames e_header].
    remember (marshal (JArr (JStr name :: map jof sargs))) as p eqn:Ep.
    exists p. split; [reflexivity|]. split; [reflexivity|].
    assert (PH : parse_header (unm_names unmarshal) (encode_header h ++ p) = Ok (h, p, name)).
    { rewrite parse_encode_header_full; [|exact HO|].
      - rewrite T2. cbn [is_event N.eqb Pos.eqb orb]. rewrite Ep.
        destruct (H2 name (map jof sargs)) as (tmp & P1 & P2). rewrite P1. cbn [rbind].
        now rewrite (unm_names_one _ _ _ P2).
      - rewrite Ep. destruct (H3 (JStr name :: map jof sargs)) as (r & ->).
        split; [left; reflexivity|intros; discriminate]. }
    split.
    - cbn [feed add]. rewrite PH. cbn [rbind]. rewrite T2. reflexivity.
    - unfold decode. rewrite T2. cbn [is_event N.eqb Pos.eqb orb].
      assert (PN : match p with [] => None (A:=jv) | _ :: _ => unmarshal p end = unmarshal p).
      { rewrite Ep. destruct (H3 (JStr name :: map jof sargs)) as (r & ->). reflexivity. }
      destruct p as [|c0 p0]; [rewrite Ep in PN; destruct (H3 (JStr name :: map jof sargs)) as (r & HR); rewrite HR in Ep; discriminate|].
      rewrite Ep, H1. cbn [ev_args]. now apply args_recon_plain.
  Qed.

  Theorem decode_encode_ack_plain h x e tys sargs :
    cleanb x = true -> msorted x = true -> nobin x = true -> h_type h = 3 ->
    shape x = BArr sargs -> args_plain tys sargs = true ->
    header_ok h ->
    encode marshal unmarshal max_att h (Some x) = Ok e ->
    exists p,
      e_frames e = [encode_header h ++ p] /\ e_header e = h /\
      feed unmarshal None 0 (e_frames e) = Ok ([(0%nat, (h, [], [p]))], None) /\
      decode marshal unmarshal h [p] tys = Ok (views tys sargs).
  Proof.
    intros C S NB T3 SH AP HO E.
    destruct (encode_plain h x e C S NB E) as [-> CB]. rewrite SH. cbn [jof e_frames e_header].
    remember (marshal (JArr (map jof sargs))) as p eqn:Ep.
    exists p. split; [reflexivity|]. split; [reflexivity|].
    assert (PH : parse_header (unm_names unmarshal) (encode_header h ++ p) = Ok (h, p, [])).
    { rewrite parse_encode_header_full; [|exact HO|].
      - rewrite T3. reflexivity.
      - rewrite Ep. destruct (H3 (map jof sargs)) as (r & ->).
        split; [left; reflexivity|intros; discriminate]. }
    split.
    - cbn [feed add]. rewrite PH. cbn [rbind]. rewrite T3. reflexivity.
    - unfold decode. rewrite T3. cbn [is_event is_ack N.eqb Pos.eqb orb].
      assert (PN : match p with [] => [91; 93] | _ => p end = p).
      { rewrite Ep. destruct (H3 (map jof sargs)) as (r & ->). reflexivity. }
      clear PN. destruct p as [|c0 p0];
        [exfalso; destruct (H3 (map jof sargs)) as (r & HR); rewrite HR in Ep; discriminate|].
      destruct tys as [|t [|t2 ts]]; cbv iota; rewrite Ep, H1; now apply args_recon_plain.
  Qed.

  (** CONNECT / CONNECT_ERROR (and DISCONNECT) with an object payload, one handler parameter. *)
  Theorem decode_encode_payload h x e t kvs :
    cleanb x = true -> msorted x = true -> nobin x = true ->
    carries_binary (h_type h) = false ->
    shape x = BObj kvs -> wtb t (BObj kvs) = true ->
    header_ok h ->
    encode marshal unmarshal max_att h (Some x) = Ok e ->
    exists p,
      e_frames e = [encode_header h ++ p] /\ e_header e = h /\
      feed unmarshal None 0 (e_frames e) = Ok ([(0%nat, (h, [], [p]))], None) /\
      decode marshal unmarshal h [p] [t] = Ok [view_ty t (BObj kvs)].
  Proof.
    intros C S NB CBf SH WT HO E.
    destruct (encode_plain h x e C S NB E) as [-> CB]. rewrite SH in *. cbn [e_frames e_header].
    remember (marshal (jof (BObj kvs))) as p eqn:Ep.
    exists p. split; [reflexivity|]. split; [reflexivity|].
    unfold carries_binary in CBf. apply orb_false_iff in CBf as [CBf IB]. apply orb_false_iff in CBf as [N2 N3].
    assert (NE : is_event (h_type h) = false).
    { unfold is_event, is_binary in *. rewrite N2. apply orb_false_iff in IB as [I5 _]. now rewrite I5. }
    assert (NA : is_ack (h_type h) = false).
    { unfold is_ack, is_binary in *. rewrite N3. apply orb_false_iff in IB as [_ I6]. now rewrite I6. }
    assert (PH : parse_header (unm_names unmarshal) (encode_header h ++ p) = Ok (h, p, [])).
    { rewrite parse_encode_header_full; [|exact HO|].
      - now rewrite NE.
      - rewrite Ep. cbn [jof]. destruct (H3o (map (fun '(k, x0) => (k, jof x0)) kvs)) as (r & ->).
        split; [right; left; reflexivity|intros; discriminate]. }
    split.
    - cbn [feed add]. rewrite PH. cbn [rbind]. rewrite IB. reflexivity.
    - unfold decode. rewrite NE, NA.
      assert (PN : match p with [] => [123; 125] | _ => p end = p).
      { rewrite Ep. cbn [jof]. destruct (H3o (map (fun '(k, x0) => (k, jof x0)) kvs)) as (r & ->). reflexivity. }
      clear PN. destruct p as [|c0 p0];
        [exfalso; cbn [jof] in Ep; destruct (H3o (map (fun '(k, x0) => (k, jof x0)) kvs)) as (r & HR); rewrite HR in Ep; discriminate|].
      cbv iota. rewrite Ep, H1. cbn [jof].
      change (JObj (map (fun '(k, x0) => (k, jof x0)) kvs)) with (jof (BObj kvs)).
      rewrite (recon_plain marshal t (BObj kvs) WT CB). reflexivity.
  Qed.
End PlainPackets.
