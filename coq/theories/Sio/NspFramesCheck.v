(** Executable comparison and oracle for the C05 burst rig: concurrent emitters of several
    namespaces on one connection, both directions, text and binary events mixed. *)
From Coq Require Import Sorting.Mergesort Structures.Orders.
From SioV Require Import Base.GoSem Sio.NspRouting Sio.NspFrames.
Local Open Scope N_scope.

Module NLe <: TotalLeBool.
  Definition t := N.
  Definition leb := N.leb.
  Theorem leb_total : forall a b, leb a b = true \/ leb b a = true.
  Proof. intros a b. unfold leb. destruct (N.leb_spec a b); [now left|right]. apply N.leb_le. lia. Qed.
End NLe.
Module NSort := Sort NLe.

(** one delivery as recorded by the rig:
    [srv; handler namespace; kind (0 text, 1 binary); ns; em; seq] ++ 5 numbers per decoded argument
    [dir; ns; em; seq; k]  (dir 9 = bytes that belong to no emit: foreign content) *)
Definition brow := list N.
(** (number of namespaces, emitters per (direction, namespace), rounds per emitter, connection closed?, rows) *)
Definition bcase := (N * N * N * bool * list brow)%type.

Definition is_bin (ns em seq : N) : bool := ((seq + em + ns) mod 2 =? 0).

Fixpoint args_ok (dir ns em seq : N) (k : N) (kind : N) (l : list N) : bool :=
  match l with
  | d :: n :: e :: s :: kk :: l' =>
      (d =? dir) && (n =? ns) && (e =? em) && (s =? seq) && (kk =? (if kind =? 0 then 8 else k))
      && args_ok dir ns em seq (k + 1) kind l'
  | [] => k =? (if kind =? 0 then 1 else 3)
  | _ => false
  end.

(** the property on one delivery: the event and EVERY argument it carries (attachment bytes
    included) come from one emit made in the handler's own namespace, by the peer *)
Definition row_ok (nn ne nr : N) (r : brow) : bool :=
  match r with
  | srv :: hns :: kind :: ns :: em :: seq :: args =>
      (ns =? hns) && (hns <? nn) && (em <? ne) && (seq <? nr)
      && Bool.eqb (is_bin ns em seq) (kind =? 1)
      && args_ok (1 - srv) hns em seq 0 kind args
  | _ => false
  end.

Definition oracle (c : bcase) : bool :=
  let '(nn, ne, nr, closed, rows) := c in
  negb closed && forallb (row_ok nn ne nr) rows.

(** model: the emitters of one direction share the connection's queue ([wire_atomic]); the
    receiver reconstructs ([receive]).  Namespaces are [[ns]], tags em*65536+seq. *)
Definition mk_packets (ns em nr : N) : list fpacket :=
  map (fun i => let seq := N.of_nat i in
                mkFP [ns] (em * 65536 + seq) (if is_bin ns em seq then [0; 1; 2] else []))
      (seq 0 (N.to_nat nr)).

Definition mk_emitters (nn ne nr : N) : emitters :=
  flat_map (fun n => map (fun e => mk_packets (N.of_nat n) (N.of_nat e) nr) (seq 0 (N.to_nat ne)))
           (seq 0 (N.to_nat nn)).

Definition round_robin (k : nat) (rounds : nat) : list nat := concat (repeat (seq 0 k) rounds).

Definition key_of (srv : N) (ns tag natt : N) : N := (((srv * 16 + ns) * 4 + natt) * 16777216) + tag.

Definition model_keys (nn ne nr : N) : list N :=
  let ems := mk_emitters nn ne nr in
  let '(rs, err) := receive None (wire_atomic (round_robin (length ems) (N.to_nat nr)) ems) in
  if err then [] else
  flat_map (fun srv => map (fun r => key_of srv (hd 0 (rp_nsp r)) (rp_tag r) (N.of_nat (length (rp_atts r)))) rs) [0; 1].

Definition row_key (r : brow) : N :=
  match r with
  | srv :: hns :: kind :: ns :: em :: seq :: args =>
      key_of srv hns (em * 65536 + seq) (if kind =? 0 then 0 else N.of_nat (length args) / 5)
  | _ => 0
  end.

(** correspondence: the implementation delivered exactly what the model delivers (each emitted
    packet once, to its namespace, with its number of attachments), up to order: equal as multisets
    (both key lists sorted) *)
Definition agree (c : bcase) : bool :=
  let '(nn, ne, nr, closed, rows) := c in
  negb closed && list_eqb N.eqb (NSort.sort (model_keys nn ne nr)) (NSort.sort (map row_key rows)).

(** * Packed rows: checks/C05.py writes all deliveries of a scenario as ONE string literal, rows
    separated by ';', each row the decimal digits
      srv hns kind ns em seq(3 digits) then per argument dir ns em seq(3 digits) k
    (tens of thousands of numerals are slow to read, a string literal is not). *)
From Coq Require Import Strings.String Strings.Ascii.

Fixpoint split_rows (s : string) (cur : list N) (acc : list (list N)) : list (list N) :=
  match s with
  | EmptyString => rev (match cur with [] => acc | _ => rev cur :: acc end)
  | String c s' =>
      if Ascii.eqb c ";"%char then split_rows s' [] (rev cur :: acc)
      else split_rows s' ((N_of_ascii c - 48) :: cur) acc
  end.

Fixpoint unpack_args (fuel : nat) (l : list N) : list N :=
  match fuel, l with
  | S f, d :: n :: e :: s1 :: s2 :: s3 :: k :: l' => d :: n :: e :: (s1 * 100 + s2 * 10 + s3) :: k :: unpack_args f l'
  | _, _ => []
  end.

Definition unpack (digits : list N) : brow :=
  match digits with
  | srv :: hns :: kind :: ns :: em :: s1 :: s2 :: s3 :: l =>
      srv :: hns :: kind :: ns :: em :: (s1 * 100 + s2 * 10 + s3) :: unpack_args 8 l
  | _ => []
  end.

Definition pcase := (N * N * N * bool * string)%type.
Definition unpack_case (c : pcase) : bcase :=
  let '(nn, ne, nr, closed, rows) := c in (nn, ne, nr, closed, map unpack (split_rows rows [] [])).
Definition poracle (c : pcase) : bool := oracle (unpack_case c).
Definition pagree (c : pcase) : bool := agree (unpack_case c).
