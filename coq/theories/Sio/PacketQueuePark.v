(** Sio/PacketQueuePark.v - C19 over the client socket's park/flush stage, the part of a
    connection's send path that sits IN FRONT of the packet queue (client_socket.go: _sendBuffers,
    onConnect, emitBuffered).  The stage itself is modelled by b-C02's Sio/PipelineConn.v
    ([cstep_fix] = the code as it is: the send-or-park decision reads the state UNDER sendBufferMu
    and excludes the flush); it is imported unchanged.  Two things are added here:

    - the flush of [onConnect] happens ONCE per CONNECT reply, whether or not anything is parked
      ([KFlush], ghost [k_flushed]); PipelineConn's [CFlush] may fire whenever something is parked,
      which is fine for ordering (C02) but would hide a packet parked after the flush.  [kstep]
      restricts the base system to the real single flush;
    - the variant in which the decision uses a state sampled BEFORE taking sendBufferMu
      ([cstep_stale] = the repaired decision plus PipelineConn's [CParkStale] step), kept for the
      refutation. *)
From Coq Require Import List Bool Arith.
From SioV Require Import Base.Conc Sio.Pipeline Sio.PipelineConn.
Import ListNotations.

Section Park.
  Context {data : Type}.
  Variable declared : data -> option nat.
  Variable max_atts : nat.
  Variable split : list (frame data) -> list (list (frame data)).
  Variable tr : transport.

  Definition cfix := cstep_fix declared max_atts split tr.
  Definition cstale (a : caction) (c : cstate data) : option (cstate data) :=
    match a with
    | CParkStale _ => cstep declared max_atts split tr a c
    | _ => cfix a c
    end.

  Record kstate := mkK { k_c : cstate data; k_flushed : bool }.

  Inductive kaction :=
  | KAct (a : caction)
  | KFlush.        (* emitBuffered's flush, called once by onConnect *)

  Definition kstep (base : caction -> cstate data -> option (cstate data)) (a : kaction) (k : kstate) : option kstate :=
    match a with
    | KAct CFlush => None
    | KAct a => match base a (k_c k) with Some c => Some (mkK c (k_flushed k)) | None => None end
    | KFlush =>
        if c_connected (k_c k) && negb (k_flushed k)
        then Some (mkK (match base CFlush (k_c k) with Some c => c | None => k_c k end) true)
        else None
    end.

  Definition kinit (progs : list (list (spacket data))) : kstate := mkK (cinit progs) false.

  Definition kreachable base progs : kstate -> Prop :=
    reachable (kstep base) (fun k => k = kinit progs).
End Park.
