(** Deconstruct / reconstruct round trip, wire format, decode after encode (proofs). *)
From Coq Require Import ZifyN ZifyBool.
From SioV Require Import Base.GoSem Sio.Json Sio.Header Sio.Binary Sio.BinaryProofs Sio.Codec.
Local Open Scope N_scope.

(** * Sorted keys *)
Fixpoint ksorted (ks : list bytes) : bool :=
  match ks with
  | k1 :: ((k2 :: _) as t) => bytes_ltb k1 k2 && ksorted t
  | _ => true
  end.

Lemma bytes_ltb_asym : forall a b, bytes_ltb a b = true -> bytes_ltb b a = false.
Proof.
  induction a as [|x a IH]; destruct b as [|y b]; simpl; intros H; try reflexivity; try discriminate.
  destruct (x <? y) eqn:L1.
  - apply N.ltb_lt in L1. assert (y <? x = false) by (apply N.ltb_ge; lia). now rewrite H0.
  - destruct (y <? x) eqn:L2; [discriminate|]. now apply IH.
Qed.

Lemma ins_key_sorted {A} k (x : A) l :
  ksorted (k :: map fst l) = true -> ins_key k x l = (k, x) :: l.
Proof.
  destruct l as [|[k2 y] t]; simpl; [reflexivity|]. intros H.
  apply andb_true_iff in H as [H _]. now rewrite (bytes_ltb_asym _ _ H).
Qed.

Lemma sort_keys_sorted {A} (l : list (bytes * A)) :
  ksorted (map fst l) = true -> sort_keys l = l.
Proof.
  induction l as [|[k x] t IH]; simpl; [reflexivity|]. intros H.
  assert (Ht : ksorted (map fst t) = true).
  { destruct t as [|[k2 y] t']; [reflexivity|]. simpl in H. now apply andb_true_iff in H as [_ H]. }
  rewrite IH by exact Ht. now apply ins_key_sorted.
Qed.

(** * Named loops of [extract] *)
Fixpoint ex_list (l : list jb) (n : N) : list jv * list bytes * N :=
  match l with
  | [] => ([], [], n)
  | x :: l' =>
    let '(j, b1, n1) := extract x n in
    let '(t, b2, n2) := ex_list l' n1 in
    (j :: t, b1 ++ b2, n2)
  end.
Fixpoint ex_obj (l : list (bytes * jb)) (n : N) : list (bytes * jv) * list bytes * N :=
  match l with
  | [] => ([], [], n)
  | (k, x) :: l' =>
    let '(j, b1, n1) := extract x n in
    let '(t, b2, n2) := ex_obj l' n1 in
    ((k, j) :: t, b1 ++ b2, n2)
  end.

Lemma extract_arr l n :
  extract (BArr l) n = let '(js, bs, n') := ex_list l n in (JArr js, bs, n').
Proof.
  cbn [extract].
  match goal with |- (let '(_, _) := ?F l n in _) = _ =>
    assert (E : forall l n, F l n = ex_list l n) end.
  { clear. induction l as [|x l IH]; intros n; simpl; [reflexivity|].
    destruct (extract x n) as [[j b1] n1]. now rewrite IH. }
  now rewrite E.
Qed.

Lemma extract_obj l n :
  extract (BObj l) n = let '(m, bs, n') := ex_obj l n in (JObj m, bs, n').
Proof.
  cbn [extract].
  match goal with |- (let '(_, _) := ?F l n in _) = _ =>
    assert (E : forall l n, F l n = ex_obj l n) end.
  { clear. induction l as [|[k x] l IH]; intros n; simpl; [reflexivity|].
    destruct (extract x n) as [[j b1] n1]. now rewrite IH. }
  now rewrite E.
Qed.

(** * Side conditions on the value handed to Encode *)
(** No Binary cell at all. *)
Fixpoint nobin (v : gv) : bool :=
  match v with
  | VBin _ => false
  | VAny x | VPtr x => nobin x
  | VSlice l => forallb nobin l
  | VStruct fs | VMap fs => forallb (fun kv => nobin (snd kv)) fs
  | _ => true
  end.

(** Maps are listed in key order, keys distinct (how a Go map is written as a tree). *)
Fixpoint msorted (v : gv) : bool :=
  match v with
  | VAny x | VPtr x => msorted x
  | VSlice l => forallb msorted l
  | VStruct fs => forallb (fun kv => msorted (snd kv)) fs
  | VMap fs => ksorted (map fst fs) && forallb (fun kv => msorted (snd kv)) fs
  | _ => true
  end.

(** Every Binary cell is within the reach of deconstructValue's two unwrapping steps (a Binary
    behind three or more pointers / interfaces is not looked at). [u]: steps left;
    [pre]: the value is a struct field / map entry (those are unwrapped once more by
    deconstructStruct / deconstructMap themselves). *)
Fixpoint wokp (pre : bool) (u : nat) (v : gv) : bool :=
  match v with
  | VAny x | VPtr x =>
    if pre then wokp false 2 x
    else match u with S u' => wokp false u' x | O => nobin x end
  | VSlice l => forallb (wokp false 2) l
  | VStruct fs | VMap fs => forallb (fun kv => wokp true 2 (snd kv)) fs
  | _ => true
  end.
Definition wok := wokp false.

Lemma cur_clean : forall v, cleanb v = true -> cur v = v.
Proof.
  induction v using gv_ind'; simpl; intros C; try reflexivity; try discriminate.
  - now rewrite IHv.
  - now rewrite IHv.
  - f_equal. induction H as [|x l Hx Hl IH]; simpl in *; [reflexivity|].
    apply andb_true_iff in C as [C1 C2]. now rewrite Hx, IH.
  - f_equal. induction H as [|[k x] l Hx Hl IH]; simpl in *; [reflexivity|].
    apply andb_true_iff in C as [C1 C2]. now rewrite Hx, IH.
  - f_equal. induction H as [|[k x] l Hx Hl IH]; simpl in *; [reflexivity|].
    apply andb_true_iff in C as [C1 C2]. now rewrite Hx, IH.
Qed.

Section WithJson.
  Variable marshal : jv -> bytes.
  Variable unmarshal : bytes -> option jv.
  (** H1: the library reads back what it wrote. *)
  Hypothesis H1 : forall j, unmarshal (marshal j) = Some j.

  Local Notation tj := (to_jv unmarshal).
  Definition tj_fields (fs : list (bytes * gv)) : res (list (bytes * jv)) :=
    res_all (map (fun '(k, x) => rbind (tj x) (fun j => Ok (k, j))) fs).
  Definition sh_fields (fs : list (bytes * gv)) : list (bytes * jb) :=
    map (fun '(k, x) => (k, shape x)) fs.

  Lemma tj_slice l : tj (VSlice l) = rbind (res_all (map tj l)) (fun js => Ok (JArr js)).
  Proof. reflexivity. Qed.
  Lemma tj_struct fs : tj (VStruct fs) = rbind (tj_fields fs) (fun m => Ok (JObj m)).
  Proof. reflexivity. Qed.
  Lemma tj_map fs : tj (VMap fs) = rbind (tj_fields fs) (fun m => Ok (JObj (sort_keys m))).
  Proof. reflexivity. Qed.

  (** What we want to know about a (deconstructed) value [m] standing for [v]: the JSON encoder
      sees [j], which is what the protocol prescribes for the shape of [v] numbered from [n]. *)
  Definition rel (m : gv) (v : gv) (n : N) (bs : list bytes) (n' : N) : Prop :=
    exists j, tj m = Ok j /\ extract (shape v) n = (j, bs, n').

  Lemma ksorted_tail k ks : ksorted (k :: ks) = true -> ksorted ks = true.
  Proof. destruct ks; simpl; [reflexivity|]. intros H. now apply andb_true_iff in H as [_ H]. Qed.

  (** ** Values without binary *)
  Lemma nobin_rel : forall v,
    cleanb v = true -> nobin v = true -> msorted v = true -> forall n, rel v v n [] n.
  Proof.
    unfold rel.
    induction v using gv_ind'; intros C B S n; cbn [cleanb nobin msorted] in C, B, S; try discriminate;
      try (simpl; eexists; split; reflexivity); cbn [shape].
    - destruct (IHv C B S n) as (j & E1 & E2). exists j. auto.
    - destruct (IHv C B S n) as (j & E1 & E2). exists j. auto.
    - (* slice *)
      assert (G : forall n, exists js, res_all (map tj l) = Ok js /\ ex_list (map shape l) n = (js, [], n)).
      { clear n. induction H as [|x l Hx Hl IH]; intros n; simpl in *.
        - exists []. auto.
        - apply andb_true_iff in C as [C1 C2]. apply andb_true_iff in B as [B1 B2].
          apply andb_true_iff in S as [S1 S2].
          destruct (Hx C1 B1 S1 n) as (j & E1 & E2). destruct (IH C2 B2 S2 n) as (js & F1 & F2).
          exists (j :: js). rewrite E1, E2, F2. simpl. rewrite F1. simpl. auto. }
      destruct (G n) as (js & F1 & F2). exists (JArr js).
      rewrite tj_slice, extract_arr, F2, F1. simpl. auto.
    - (* struct *)
      assert (G : forall n, exists m, tj_fields fs = Ok m /\ ex_obj (sh_fields fs) n = (m, [], n)).
      { clear n. unfold tj_fields, sh_fields. induction H as [|[k x] l Hx Hl IH]; intros n; simpl in *.
        - exists []. auto.
        - apply andb_true_iff in C as [C1 C2]. apply andb_true_iff in B as [B1 B2].
          apply andb_true_iff in S as [S1 S2].
          destruct (Hx C1 B1 S1 n) as (j & E1 & E2). destruct (IH C2 B2 S2 n) as (js & F1 & F2).
          exists ((k, j) :: js). rewrite E1, E2, F2. simpl. rewrite F1. simpl. auto. }
      destruct (G n) as (m & F1 & F2). exists (JObj m).
      fold (sh_fields fs). rewrite tj_struct, extract_obj, F2, F1. simpl. auto.
    - (* map *)
      apply andb_true_iff in S as [S0 S].
      assert (G : forall n, exists m, tj_fields kvs = Ok m /\ map fst m = map fst kvs /\
                                      ex_obj (sh_fields kvs) n = (m, [], n)).
      { clear n S0. unfold tj_fields, sh_fields. induction H as [|[k x] l Hx Hl IH]; intros n; simpl in *.
        - exists []. auto.
        - apply andb_true_iff in C as [C1 C2]. apply andb_true_iff in B as [B1 B2].
          apply andb_true_iff in S as [S1 S2].
          destruct (Hx C1 B1 S1 n) as (j & E1 & E2). destruct (IH C2 B2 S2 n) as (js & F1 & F0 & F2).
          exists ((k, j) :: js). rewrite E1, E2, F2. simpl. rewrite F1, F0. simpl. auto. }
      destruct (G n) as (m & F1 & F0 & F2). exists (JObj m).
      fold (sh_fields kvs). rewrite tj_map.
      assert (K : map fst (sh_fields kvs) = map fst kvs).
      { unfold sh_fields. rewrite map_map. apply map_ext. now intros [k x]. }
      rewrite (sort_keys_sorted (sh_fields kvs)) by now rewrite K.
      rewrite extract_obj, F2, F1. simpl. rewrite sort_keys_sorted by now rewrite F0. auto.
  Qed.

  (** ** deconstruct writes exactly the placeholders the protocol prescribes *)
  Definition outv (o : dout) : gv := match o with InPlace v' => v' | Repl c => c end.

  Definition Q (v : gv) : Prop :=
    cleanb v = true -> msorted v = true -> forall u, wokp false u v = true ->
    forall ok ost st n o bs n',
    dvw marshal u ok ost st v n = Ok (o, bs, n') -> rel (cur (outv o)) v n bs n'.
  Definition Qsub (v : gv) : Prop := match v with VAny x | VPtr x => Q x | _ => True end.

  Ltac dres r E1 := destruct r as [[[? ?] ?]| |] eqn:E1; try discriminate.

  Lemma fin_rel x s1 s2 n x' bs n' :
    Q x -> cleanb x = true -> msorted x = true -> wokp false 2 x = true ->
    fin x (dvw marshal 2 OSelf s1 s2 x n) = Ok (x', bs, n') -> rel (cur x') x n bs n'.
  Proof.
    intros HQ C S W E. dres (dvw marshal 2 OSelf s1 s2 x n) D. simpl in E.
    specialize (HQ C S 2%nat W _ _ _ _ _ _ _ D).
    destruct d; inversion E; subst; exact HQ.
  Qed.

  Lemma wokp_pre_nowrap pre u v :
    match v with VAny _ | VPtr _ => False | _ => True end -> wokp pre u v = wokp false 2 v.
  Proof. destruct v; simpl; intros; try reflexivity; contradiction. Qed.

  Lemma rel_bin b n : rel (VBin (ph_bytes marshal n)) (VBin b) n [b] (n + 1).
  Proof. exists (ph_jv n). simpl. unfold ph_bytes. rewrite H1. auto. Qed.

  Lemma dvw_rel_all : forall v, Q v /\ Qsub v.
  Proof.
    induction v using gv_ind'; (split; [|first [exact I | apply IHv]]);
      intros C S u W ok ost st n o bs n' E; cbn [cleanb msorted] in C, S; try discriminate;
      try (simpl in E; inversion E; subst; simpl; eexists; split; reflexivity).
    - (* VBin *)
      simpl in E. destruct ok; try discriminate;
        (destruct st; [inversion E; subst; apply rel_bin|
                       destruct ost; inversion E; subst; apply rel_bin]).
    - (* VAny *)
      destruct IHv as [IH _]. cbn [dvw] in E. destruct u as [|u'].
      + inversion E; subst. cbn [outv]. rewrite cur_clean by exact C.
        apply (nobin_rel (VAny v)); auto.
      + match type of E with inplace _ ?r = _ => dres r E1 end. simpl in E.
        specialize (IH C S u' W _ _ _ _ _ _ _ E1).
        destruct d; inversion E; subst; exact IH.
    - (* VPtr *)
      destruct IHv as [IH _]. cbn [dvw] in E. destruct u as [|u'].
      + inversion E; subst. cbn [outv]. rewrite cur_clean by exact C.
        apply (nobin_rel (VPtr v)); auto.
      + match type of E with inplace _ ?r = _ => dres r E1 end. simpl in E.
        specialize (IH C S u' W _ _ _ _ _ _ _ E1).
        destruct d; inversion E; subst; exact IH.
    - (* VSlice *)
      cbn [dvw] in E. cbn [wokp] in W.
      match type of E with match ?r with _ => _ end = _ => dres r E1 end.
      inversion E; subst; clear E. cbn [outv cur]. unfold rel. cbn [shape].
      rewrite tj_slice, extract_arr.
      assert (G : exists js, res_all (map tj (map cur l0)) = Ok js /\
                             ex_list (map shape l) n = (js, bs, n')).
      { revert n l0 bs n' E1. induction H as [|x l Hx Hl IH]; intros n l' bs n' E1.
        - inversion E1; subst. exists []. auto.
        - simpl in C, S, W. apply andb_true_iff in C as [C1 C2]. apply andb_true_iff in S as [S1 S2].
          apply andb_true_iff in W as [W1 W2].
          dres (fin x (dvw marshal 2 OSelf true true x n)) Ex.
          match type of E1 with match ?r with _ => _ end = _ => dres r Et end.
          inversion E1; subst; clear E1.
          destruct (fin_rel _ _ _ _ _ _ _ (proj1 Hx) C1 S1 W1 Ex) as (j & J1 & J2).
          destruct (IH C2 S2 W2 _ _ _ _ Et) as (js & F1 & F2).
          exists (j :: js). simpl. rewrite J1, J2, F2. simpl. rewrite F1. auto. }
      destruct G as (js & F1 & F2). rewrite F1, F2. exists (JArr js). auto.
    - (* VStruct *)
      cbn [dvw] in E. cbn [wokp] in W.
      match type of E with match ?r with _ => _ end = _ =>
        destruct r as [[[l bs1] n1]| |] eqn:E1; try discriminate end.
      assert (EB : bs1 = bs /\ n1 = n').
      { match type of E with (if ?c then _ else _) = _ => destruct c end; inversion E; auto. }
      destruct EB; subst bs1 n1.
      assert (G : exists m, tj_fields (map (fun '(k, x) => (k, cur x)) l) = Ok m /\
                            ex_obj (sh_fields fs) n = (m, bs, n')).
      { clear E.
        match type of E1 with context [fin _ (dvw _ _ _ ?a ?b _ _)] => generalize dependent a end.
        intros a. revert n l bs n'. unfold tj_fields, sh_fields.
        induction H as [|[k x] l Hx Hl IH]; intros n l' bs n' E1.
        - inversion E1; subst. exists []. auto.
        - simpl in Hx, C, S, W. apply andb_true_iff in C as [C1 C2]. apply andb_true_iff in S as [S1 S2].
          apply andb_true_iff in W as [W1 W2]. destruct Hx as [Hq Hs].
          match type of E1 with match ?r with _ => _ end = _ => dres r Ex end.
          match type of E1 with match ?r with _ => _ end = _ => dres r Et end.
          inversion E1; subst; clear E1.
          destruct (IH C2 S2 W2 _ _ _ _ Et) as (m & F1 & F2).
          assert (J : rel (cur g) x n l0 n0).
          { destruct x; try (rewrite wokp_pre_nowrap in W1 by exact I; eapply fin_rel; eauto; fail).
            - dres (fin x (dvw marshal 2 OSelf false false x n)) Ey; simpl in Ex.
              inversion Ex; subst. exact (fin_rel _ _ _ _ _ _ _ Hs C1 S1 W1 Ey).
            - dres (fin x (dvw marshal 2 OSelf true true x n)) Ey; simpl in Ex.
              inversion Ex; subst. exact (fin_rel _ _ _ _ _ _ _ Hs C1 S1 W1 Ey). }
          destruct J as (j & J1 & J2).
          exists ((k, j) :: m). simpl. rewrite J1, J2, F2. simpl. rewrite F1. auto. }
      destruct G as (m & F1 & F2).
      assert (R : rel (VStruct (map (fun '(k, x) => (k, cur x)) l)) (VStruct fs) n bs n').
      { exists (JObj m). cbn [shape]. fold (sh_fields fs). rewrite tj_struct, extract_obj, F1, F2. auto. }
      match type of E with (if ?c then _ else _) = _ => destruct c end; inversion E; subst; exact R.
    - (* VMap *)
      cbn [dvw] in E. cbn [wokp] in W. apply andb_true_iff in S as [S0 S].
      match type of E with match ?r with _ => _ end = _ => dres r E1 end.
      inversion E; subst; clear E.
      assert (G : exists m, tj_fields (map (fun '(k, x) => (k, cur x)) l) = Ok m /\
                            map fst m = map fst kvs /\
                            ex_obj (sh_fields kvs) n = (m, bs, n')).
      { clear S0. revert n l bs n' E1. unfold tj_fields, sh_fields.
        induction H as [|[k x] l Hx Hl IH]; intros n l' bs n' E1.
        - inversion E1; subst. exists []. auto.
        - simpl in Hx, C, S, W. apply andb_true_iff in C as [C1 C2]. apply andb_true_iff in S as [S1 S2].
          apply andb_true_iff in W as [W1 W2]. destruct Hx as [Hq Hs].
          match type of E1 with match ?r with _ => _ end = _ => dres r Ex end.
          match type of E1 with match ?r with _ => _ end = _ => dres r Et end.
          inversion E1; subst; clear E1.
          destruct (IH C2 S2 W2 _ _ _ _ Et) as (m & F1 & F0 & F2).
          assert (J : rel (cur g) x n l0 n0).
          { destruct x; try (rewrite wokp_pre_nowrap in W1 by exact I; eapply fin_rel; eauto; fail).
            - inversion Ex; subst. apply rel_bin.
            - destruct x; try (inversion Ex; subst; apply rel_bin);
                (match type of Ex with wrap _ (fin ?y ?r) = _ => dres (fin y r) Ey end; simpl in Ex;
                 inversion Ex; subst; exact (fin_rel _ _ _ _ _ _ _ Hs C1 S1 W1 Ey)).
            - destruct x; try (inversion Ex; subst; apply rel_bin);
                (match type of Ex with wrap _ (fin ?y ?r) = _ => dres (fin y r) Ey end; simpl in Ex;
                 inversion Ex; subst; exact (fin_rel _ _ _ _ _ _ _ Hs C1 S1 W1 Ey)). }
          destruct J as (j & J1 & J2).
          exists ((k, j) :: m). simpl. rewrite J1, J2, F2. simpl. rewrite F1, F0. auto. }
      destruct G as (m & F1 & F0 & F2).
      exists (JObj m). cbn [outv cur shape]. fold (sh_fields kvs). rewrite tj_map.
      assert (K : map fst (sh_fields kvs) = map fst kvs).
      { unfold sh_fields. rewrite map_map. apply map_ext. now intros [k x]. }
      rewrite (sort_keys_sorted (sh_fields kvs)) by now rewrite K.
      rewrite extract_obj, F1, F2. simpl. rewrite sort_keys_sorted by now rewrite F0. auto.
  Qed.
End WithJson.

(** * Leaves, numbering *)
Section JbInd.
  Variable P : jb -> Prop.
  Hypothesis Hnull : P BNull.
  Hypothesis Hbool : forall b, P (BBool b).
  Hypothesis Hint : forall z, P (BInt z).
  Hypothesis Hstr : forall s, P (BStr s).
  Hypothesis Hbin : forall b, P (BBin b).
  Hypothesis Harr : forall l, Forall P l -> P (BArr l).
  Hypothesis Hobj : forall kvs, Forall (fun kv => P (snd kv)) kvs -> P (BObj kvs).
  Fixpoint jb_ind' (b : jb) : P b :=
    match b with
    | BNull => Hnull
    | BBool x => Hbool x
    | BInt z => Hint z
    | BStr s => Hstr s
    | BBin x => Hbin x
    | BArr l =>
      Harr l ((fix go (l : list jb) : Forall P l :=
                 match l with [] => Forall_nil _ | x :: l' => Forall_cons _ (jb_ind' x) (go l') end) l)
    | BObj kvs =>
      Hobj kvs ((fix go (l : list (bytes * jb)) : Forall (fun kv => P (snd kv)) l :=
                   match l with [] => Forall_nil _ | kv :: l' => Forall_cons _ (jb_ind' (snd kv)) (go l') end) kvs)
    end.
End JbInd.

(** The binary leaves of a shape, left to right. *)
Fixpoint leaves (b : jb) : list bytes :=
  match b with
  | BBin x => [x]
  | BArr l => flat_map leaves l
  | BObj kvs => flat_map (fun kv => leaves (snd kv)) kvs
  | _ => []
  end.

(** The numbers of the placeholders of a JSON value, left to right. *)
Fixpoint phs (j : jv) : list N :=
  match j with
  | JObj [(k1, JBool true); (k2, JInt z)] =>
    if bytes_eqb k1 k_ph && bytes_eqb k2 k_num then [Z.to_N z] else []
  | JArr l => flat_map phs l
  | JObj kvs => flat_map (fun kv => phs (snd kv)) kvs
  | _ => []
  end.

Fixpoint nseq (n : N) (k : nat) : list N :=
  match k with O => [] | S k' => n :: nseq (n + 1) k' end.

(** [extract] hands out the attachments of a shape in left-to-right order and counts them. *)
Lemma extract_leaves : forall b n,
  snd (fst (extract b n)) = leaves b /\ snd (extract b n) = n + N.of_nat (length (leaves b)).
Proof.
  induction b using jb_ind'; intros n; try (simpl; split; [reflexivity|lia]).
  - rewrite extract_arr. cbn [leaves].
    assert (G : forall n, snd (fst (ex_list l n)) = flat_map leaves l /\
                          snd (ex_list l n) = n + N.of_nat (length (flat_map leaves l))).
    { clear n. induction H as [|x l Hx Hl IH]; intros n; simpl; [split; [reflexivity|lia]|].
      destruct (Hx n) as [A1 A2]. destruct (extract x n) as [[j b1] n1]. simpl in A1, A2. subst.
      destruct (IH (n + N.of_nat (length (leaves x)))) as [B1 B2].
      destruct (ex_list l _) as [[t b2] n2]. simpl in *. subst. rewrite app_length. split; [reflexivity|lia]. }
    destruct (G n) as [A1 A2]. destruct (ex_list l n) as [[js bs] n']. exact (conj A1 A2).
  - rewrite extract_obj. cbn [leaves].
    assert (G : forall n, snd (fst (ex_obj kvs n)) = flat_map (fun kv => leaves (snd kv)) kvs /\
                          snd (ex_obj kvs n) = n + N.of_nat (length (flat_map (fun kv => leaves (snd kv)) kvs))).
    { clear n. induction H as [|[k x] l Hx Hl IH]; intros n; simpl; [split; [reflexivity|lia]|].
      simpl in Hx. destruct (Hx n) as [A1 A2]. destruct (extract x n) as [[j b1] n1]. simpl in A1, A2. subst.
      destruct (IH (n + N.of_nat (length (leaves x)))) as [B1 B2].
      destruct (ex_obj l _) as [[t b2] n2]. simpl in *. subst. rewrite app_length. split; [reflexivity|lia]. }
    destruct (G n) as [A1 A2]. destruct (ex_obj kvs n) as [[js bs] n']. exact (conj A1 A2).
Qed.

(** hasBinary answers yes only if the shape has a binary leaf. *)
Lemma hb_leaves : forall v u, hb u v = true -> leaves (shape v) <> [].
Proof.
  induction v using gv_ind'; intros u Hb; simpl in Hb; try discriminate.
  - destruct u; [discriminate|]. simpl. eauto.
  - destruct u; [discriminate|]. simpl. eauto.
  - simpl. induction H as [|x l Hx Hl IH]; simpl in *; [discriminate|].
    apply orb_true_iff in Hb as [Hb|Hb].
    + specialize (Hx _ Hb). destruct (leaves (shape x)); [contradiction|intro E; discriminate E].
    + specialize (IH Hb). intro E. apply app_eq_nil in E as [_ E]. contradiction.
  - simpl. induction H as [|[k x] l Hx Hl IH]; simpl in *; [discriminate|].
    apply orb_true_iff in Hb as [Hb|Hb].
    + specialize (Hx _ Hb). destruct (leaves (shape x)); [contradiction|intro E; discriminate E].
    + specialize (IH Hb). intro E. apply app_eq_nil in E as [_ E]. contradiction.
  - cbn [shape leaves].
    assert (G : flat_map (fun kv => leaves (snd kv)) (map (fun '(k, x) => (k, shape x)) kvs) <> []).
    { induction H as [|[k x] l Hx Hl IH]; simpl in *; [discriminate|].
      apply orb_true_iff in Hb as [Hb|Hb].
      + specialize (Hx _ Hb). destruct (leaves (shape x)); [contradiction|intro E; discriminate E].
      + specialize (IH Hb). intro E. apply app_eq_nil in E as [_ E]. contradiction. }
    (* sorting permutes the entries; it keeps the set of leaves non-empty *)
    intro E. apply G. clear G H Hb.
    assert (P : forall (l : list (bytes * jb)),
              flat_map (fun kv => leaves (snd kv)) (sort_keys l) = [] ->
              flat_map (fun kv => leaves (snd kv)) l = []).
    { clear. induction l as [|[k x] l IH]; simpl; [auto|]. intros E.
      assert (I : forall (t : list (bytes * jb)),
                flat_map (fun kv => leaves (snd kv)) (ins_key k x t) = [] ->
                leaves x = [] /\ flat_map (fun kv => leaves (snd kv)) t = []).
      { induction t as [|[k2 y] t IHt]; simpl.
        - intros F. apply app_eq_nil in F. exact F.
        - destruct (bytes_ltb k2 k); simpl; intros F; apply app_eq_nil in F as [F1 F2].
          + destruct (IHt F2) as [G1 G2]. rewrite F1, G2. auto.
          + apply app_eq_nil in F2 as [F2 F3]. rewrite F2, F3. auto. }
      destruct (I _ E) as [E1 E2]. rewrite E1, (IH E2). reflexivity. }
    apply P. exact E.
Qed.

(** * The frames are the ones the v5 protocol prescribes *)
(** Side condition on the value: a tree ([cleanb]), maps in key order, every Binary within reach
    of deconstruct's unwrapping and seen by hasBinary. *)
Definition wfv (x : gv) : bool :=
  cleanb x && msorted x && wokp false 2 x && (hb 2 x || nobin x).
(** Packet types: only EVENT / ACK (and their binary forms) carry binary; a header that already
    has the binary type comes with a value that has binary. *)
Definition carries_binary (t : N) : bool := (t =? 2) || (t =? 3) || is_binary t.
Definition pkt_ok (h : header) (x : gv) : bool :=
  (carries_binary (h_type h) || nobin x) && (negb (is_binary (h_type h)) || hb 2 x).
Definition base_type (t : N) : N := if is_binary t then t - 3 else t.

Lemma nsp_part nsp : nsp <> [] ->
  match nsp with
  | [] => []
  | [c] => if c =? 47 then [] else [c; 44]
  | _ => nsp ++ [44]
  end = if bytes_eqb nsp [47] then [] else nsp ++ [44].
Proof.
  destruct nsp as [|c [|d r]]; intros H; [contradiction| |].
  - unfold bytes_eqb. simpl. destruct (c =? 47); reflexivity.
  - unfold bytes_eqb. simpl. destruct (c =? 47); reflexivity.
Qed.

Section Wire.
  Local Opaque N.add N.sub.
  Variable marshal : jv -> bytes.
  Variable unmarshal : bytes -> option jv.
  Hypothesis H1 : forall j, unmarshal (marshal j) = Some j.
  Variable max_att : Z.

  (** deconstruct, seen from the wire: the JSON encoder is shown exactly [extract (shape v)]:
      placeholders numbered from [n] left to right, the buffers are the leaves in that order. *)
  Theorem dv_spec st v n m bs n' :
    cleanb v = true -> msorted v = true -> wokp false 2 v = true ->
    dv marshal st v n = Ok (m, bs, n') ->
    exists j, to_jv unmarshal (cur m) = Ok j /\ extract (shape v) n = (j, bs, n') /\
              bs = leaves (shape v) /\ n' = n + N.of_nat (length bs).
  Proof.
    intros C S W E. unfold dv in E.
    assert (R : rel unmarshal (cur m) v n bs n').
    { eapply fin_rel; eauto. apply dvw_rel_all; auto. }
    destruct R as (j & J1 & J2).
    exists j. pose proof (extract_leaves (shape v) n) as [L1 L2]. rewrite J2 in L1, L2. simpl in L1, L2.
    subst bs. auto.
  Qed.

  Theorem wire_is_v5 h x e :
    wfv x = true -> pkt_ok h x = true -> h_nsp h <> [] ->
    encode marshal unmarshal max_att h (Some x) = Ok e ->
    e_frames e = spec_frames marshal (base_type (h_type h)) (h_nsp h) (h_id h) (Some (shape x)).
  Proof.
    unfold wfv, pkt_ok. intros Wf Pk Hn E.
    apply andb_true_iff in Wf as [Wf HX]. apply andb_true_iff in Wf as [Wf W].
    apply andb_true_iff in Wf as [C S]. apply andb_true_iff in Pk as [P1 P2].
    unfold encode in E. destruct (negb (arg_ok x)); [discriminate|].
    fold (carries_binary (h_type h)) in E.
    destruct (carries_binary (h_type h) && hb 2 x) eqn:B.
    - apply andb_true_iff in B as [B1 B2].
      destruct (dv marshal false x 0) as [[[m bufs] n]| |] eqn:D; try discriminate.
      destruct ((0 <? max_att)%Z && (max_att <? Z.of_N n)%Z); [discriminate|].
      destruct (dv_spec false x 0 m bufs n C S W D) as (j & J1 & J2 & J3 & J4).
      unfold encode_string in E. rewrite J1 in E. cbn [rbind] in E. inversion E; subst e; clear E. cbn [e_frames].
      unfold spec_frames. rewrite J2.
      assert (NE : bufs <> []) by (rewrite J3; eapply hb_leaves; eauto).
      destruct bufs as [|b0 bufs']; [contradiction|]. f_equal.
      unfold encode_header. cbn [h_type h_nsp h_id h_att].
      set (t' := if h_type h =? 2 then 5 else if h_type h =? 3 then 6 else h_type h).
      assert (T : is_binary t' = true /\ t' = base_type (h_type h) + 3).
      { unfold t', base_type, carries_binary, is_binary in *.
        destruct (h_type h =? 2) eqn:A2; [apply N.eqb_eq in A2; rewrite A2; split; [reflexivity|cbn; lia]|].
        destruct (h_type h =? 3) eqn:A3; [apply N.eqb_eq in A3; rewrite A3; split; [reflexivity|cbn; lia]|].
        simpl in B1. rewrite B1. split; [reflexivity|].
        apply orb_true_iff in B1 as [B1|B1]; apply N.eqb_eq in B1; rewrite B1; lia. }
      destruct T as [T1 T2]. rewrite T1, <- T2.
      assert (F : fmt_int (Z.of_N n) = fmt_uint (N.of_nat (length (b0 :: bufs')))).
      { unfold fmt_int. assert ((Z.of_N n <? 0)%Z = false) by lia. rewrite H. rewrite N2Z.id. f_equal. lia. }
      rewrite F.
      destruct (h_nsp h) as [|c [|d r]]; [contradiction| |]; unfold bytes_eqb; cbn [list_eqb];
        destruct (c =? 47); cbn [andb app]; repeat (rewrite <- ?app_assoc; cbn [app]); reflexivity.
    - assert (NB : nobin x = true).
      { apply andb_false_iff in B as [B|B].
        - rewrite B in P1. exact P1.
        - rewrite B in HX. exact HX. }
      assert (NBin : is_binary (h_type h) = false).
      { destruct (is_binary (h_type h)) eqn:IB; [|reflexivity].
        simpl in P2. unfold carries_binary in B. rewrite IB, P2 in B.
        rewrite !orb_true_r in B. discriminate. }
      destruct (nobin_rel unmarshal x C NB S 0) as (j & J1 & J2).
      unfold encode_string in E. rewrite J1 in E. cbn [rbind] in E. inversion E; subst e; clear E. cbn [e_frames].
      unfold spec_frames. rewrite J2. f_equal.
      unfold encode_header, base_type. rewrite NBin.
      destruct (h_nsp h) as [|c [|d r]]; [contradiction| |]; unfold bytes_eqb; cbn [list_eqb];
        destruct (c =? 47); cbn [andb app]; repeat (rewrite <- ?app_assoc; cbn [app]); reflexivity.
  Qed.
End Wire.
