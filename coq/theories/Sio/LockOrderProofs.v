(** C16 - proofs: rank-respecting lock use cannot deadlock, for any number of threads and locks
    and any grant policy that grants free locks; finished threads hold nothing; programs whose
    nested acquisitions are edges of a ranked graph are rank-respecting. *)
From Coq Require Import List NArith Bool Lia.
Import ListNotations.
From SioV Require Import Sio.LockOrder.
Local Open Scope N_scope.

Section Proofs.
  Variable lock : Type.
  Variable lock_eqb : lock -> lock -> bool.
  Hypothesis lock_eqb_spec : forall a b, lock_eqb a b = true <-> a = b.
  Variable grant : state lock -> lock -> mode -> bool.
  Variable rank : lock -> N.

  Notation step := (step lock lock_eqb grant).
  Notation reachable := (reachable lock lock_eqb grant).
  Notation can_step := (can_step lock lock_eqb grant).
  Notation ranked := (ranked lock lock_eqb rank).
  Notation inv := (inv lock lock_eqb rank).
  Notation mem := (mem lock lock_eqb).
  Notation remove1 := (remove1 lock lock_eqb).

  (** the only assumption on the lock implementation *)
  Definition grants_free : Prop :=
    forall s l m, nobody_holds lock lock_eqb s l = true -> grant s l m = true.

  Lemma mem_In l h : mem l h = true <-> In l h.
  Proof.
    unfold LockOrder.mem. rewrite existsb_exists. split.
    - intros [x [Hin E]]. apply lock_eqb_spec in E. now subst.
    - intros Hin. exists l. split; auto. now apply lock_eqb_spec.
  Qed.

  Lemma inv_step s s' : inv s -> step s s' -> inv s'.
  Proof.
    intros I St. destruct St as [s1 t s2 C]. intros u Hu.
    apply in_app_or in Hu. destruct Hu as [Hu|[Hu|Hu]].
    - apply I. apply in_or_app. now left.
    - subst u. assert (R : ranked (held t) (prog t) = true) by (apply I; apply in_or_app; right; now left).
      unfold next. unfold LockOrder.can_step in C.
      destruct (prog t) as [|[l m|l|] p] eqn:E; simpl in *; try discriminate.
      + apply andb_prop in R. tauto.
      + apply andb_prop in R. tauto.
      + exact R.
    - apply I. apply in_or_app. right. now right.
  Qed.

  Lemma inv_reachable s0 s : initial lock lock_eqb rank s0 -> reachable s0 s -> inv s.
  Proof.
    intros I R. induction R.
    - intros t Ht. destruct (I t Ht) as [H1 H2]. now rewrite H1.
    - eapply inv_step; eauto.
  Qed.

  (** A finished thread holds nothing: no mutex is left held. *)
  Lemma finished_holds_nothing s t :
    inv s -> In t s -> prog t = [] -> held t = [].
  Proof.
    intros I Ht E. specialize (I t Ht). rewrite E in I. simpl in I.
    destruct (held t); auto; discriminate.
  Qed.

  (** rank of the lock a thread is about to request (0 if its next step is not a request) *)
  Definition wants_rank (t : thread lock) : N :=
    match prog t with Acquire l _ :: _ => rank l | _ => 0 end.

  Lemma max_exists {A} (f : A -> N) (l : list A) :
    l <> [] -> exists m, In m l /\ forall x, In x l -> f x <= f m.
  Proof.
    induction l as [|a l IH]; [congruence|]. intros _.
    destruct l as [|b l'].
    - exists a. split; [now left|]. intros x [->|[]]. lia.
    - destruct IH as [m [Hm Hmax]]; [congruence|].
      destruct (N.leb_spec (f a) (f m)).
      + exists m. split; [now right|]. intros x [->|Hx]; auto.
      + exists a. split; [now left|]. intros x [->|Hx]; [lia|]. specialize (Hmax x Hx). lia.
  Qed.

  Lemma nobody_holds_false s l :
    nobody_holds lock lock_eqb s l = false -> exists u, In u s /\ In l (held u).
  Proof.
    unfold nobody_holds. intros H.
    assert (E : existsb (fun t => mem l (held t)) s = true).
    { clear -H. induction s as [|a s IH]; simpl in *; [discriminate|].
      destruct (mem l (held a)); simpl in *; auto. }
    apply existsb_exists in E. destruct E as [u [Hu Hm]]. exists u. split; auto. now apply mem_In.
  Qed.

  (** Core: in a state satisfying the invariant, if nobody can step then everybody is done. *)
  Lemma stuck_all_done s :
    grants_free -> inv s ->
    (forall t, In t s -> can_step s t = false) -> all_done lock s = true.
  Proof.
    intros GF I Stuck.
    destruct (all_done lock s) eqn:AD; auto. exfalso.
    (* the unfinished threads *)
    set (W := filter (fun t => negb (finished lock t)) s).
    assert (WN : W <> []).
    { unfold all_done in AD. intro E.
      assert (forallb (finished lock) s = true); [|congruence].
      apply forallb_forall. intros t Ht.
      destruct (finished lock t) eqn:F; auto.
      assert (In t W) by (apply filter_In; split; auto; now rewrite F).
      rewrite E in H. destruct H. }
    destruct (max_exists wants_rank W WN) as [t [Ht Hmax]].
    apply filter_In in Ht. destruct Ht as [Hts Hunf].
    pose proof (Stuck t Hts) as C. pose proof (I t Hts) as R.
    unfold LockOrder.can_step in C. unfold finished in Hunf.
    destruct (prog t) as [|[l m|l|] p] eqn:E; simpl in *; try discriminate.
    2:{ apply andb_prop in R. destruct R as [R _]. congruence. }
    (* t requests l and is refused: somebody holds l *)
    assert (NH : nobody_holds lock lock_eqb s l = false).
    { destruct (nobody_holds lock lock_eqb s l) eqn:NH; auto. rewrite (GF s l m NH) in C. discriminate. }
    destruct (nobody_holds_false s l NH) as [u [Hus Hlu]].
    pose proof (Stuck u Hus) as Cu. pose proof (I u Hus) as Ru.
    unfold LockOrder.can_step in Cu.
    destruct (prog u) as [|[l' m'|l'|] p'] eqn:Eu; simpl in *; try discriminate.
    - (* u finished but holds l *) destruct (held u); [destruct Hlu|discriminate].
    - (* u requests l', ranked above everything it holds, in particular above l *)
      apply andb_prop in Ru. destruct Ru as [Ru _].
      rewrite forallb_forall in Ru. specialize (Ru l Hlu). apply N.ltb_lt in Ru.
      assert (Hu : In u W) by (apply filter_In; split; auto; unfold finished; now rewrite Eu).
      specialize (Hmax u Hu). unfold wants_rank in Hmax. rewrite E, Eu in Hmax. lia.
    - apply andb_prop in Ru. destruct Ru as [Ru _]. congruence.
  Qed.

  Lemma can_step_step s t : In t s -> can_step s t = true -> exists s', step s s'.
  Proof.
    intros Ht C. apply in_split in Ht. destruct Ht as [s1 [s2 ->]].
    eexists. now constructor.
  Qed.

  (** Progress: from every reachable state either all threads are done or some thread can step. *)
  Theorem progress :
    grants_free -> forall s0, initial lock lock_eqb rank s0 -> forall s, reachable s0 s ->
    all_done lock s = true \/ exists s', step s s'.
  Proof.
    intros GF s0 I0 s R. pose proof (inv_reachable s0 s I0 R) as I.
    destruct (existsb (can_step s) s) eqn:EX.
    - right. apply existsb_exists in EX. destruct EX as [t [Ht C]]. eapply can_step_step; eauto.
    - left. apply stuck_all_done; auto. intros t Ht.
      destruct (can_step s t) eqn:C; auto.
      assert (existsb (can_step s) s = true) by (apply existsb_exists; eauto). congruence.
  Qed.

  Theorem no_deadlock :
    grants_free -> forall s0, initial lock lock_eqb rank s0 -> forall s, reachable s0 s ->
    ~ deadlocked lock lock_eqb grant s.
  Proof.
    intros GF s0 I0 s R [ND NS]. destruct (progress GF s0 I0 s R) as [D|[s' St]].
    - congruence.
    - exact (NS s' St).
  Qed.

  Theorem no_lock_leak :
    forall s0, initial lock lock_eqb rank s0 ->
    forall s t, reachable s0 s -> In t s -> prog t = [] -> held t = [].
  Proof.
    intros s0 I0 s t R. apply finished_holds_nothing. eapply inv_reachable; eauto.
  Qed.

  (** running a rank-respecting program alone ends with nothing held *)
  Lemma ranked_run_held h p : ranked h p = true -> run_held lock lock_eqb h p = [].
  Proof.
    revert h. induction p as [|[l m|l|] p IH]; intros h R; simpl in *.
    - destruct h; auto; discriminate.
    - apply andb_prop in R. apply IH. tauto.
    - apply andb_prop in R. apply IH. tauto.
    - now apply IH.
  Qed.

  (** Sequencing: operations issued one after the other (or from a handler that was entered with
      nothing held) compose. *)
  Lemma ranked_app h p q :
    ranked h p = true -> ranked [] q = true -> ranked h (p ++ q) = true.
  Proof.
    revert h. induction p as [|[l m|l|] p IH]; intros h R Q; simpl in *.
    - destruct h; [exact Q|discriminate].
    - apply andb_prop in R. destruct R as [R1 R2]. rewrite R1. simpl. now apply IH.
    - apply andb_prop in R. destruct R as [R1 R2]. rewrite R1. simpl. now apply IH.
    - now apply IH.
  Qed.

  (** Splicing the operations a handler issues into the caller at a [CallUser] step entered with
      nothing held keeps the discipline. *)
  Lemma ranked_splice p1 p2 q :
    ranked [] (p1 ++ CallUser :: p2) = true ->
    user_outside lock lock_eqb [] (p1 ++ CallUser :: p2) = true ->
    run_held lock lock_eqb [] p1 = [] ->
    ranked [] q = true ->
    ranked [] (p1 ++ CallUser :: q ++ p2) = true.
  Proof.
    intros R _ H Q.
    assert (G : forall h p, ranked h (p ++ CallUser :: p2) = true -> run_held lock lock_eqb h p = [] ->
                            ranked h (p ++ CallUser :: q ++ p2) = true).
    { clear R H. intros h p. revert h. induction p as [|[l m|l|] p IH]; intros h R H; simpl in *.
      - subst h. apply ranked_app; auto.
      - apply andb_prop in R. destruct R as [R1 R2]. rewrite R1. simpl. now apply IH.
      - apply andb_prop in R. destruct R as [R1 R2]. rewrite R1. simpl. now apply IH.
      - now apply IH. }
    now apply G.
  Qed.
End Proofs.

(** ** From the regenerated graph to the discipline *)
Lemma ilock_eqb_spec a b : ilock_eqb a b = true <-> a = b.
Proof.
  destruct a as [a1 a2], b as [b1 b2]. unfold ilock_eqb. simpl.
  rewrite andb_true_iff, !N.eqb_eq. split; [intros [-> ->]|intros [= -> ->]]; auto.
Qed.

Lemma conforms_ranked rk es :
  edges_ranked rk es = true ->
  forall p h, conforms es h p = true -> ranked ilock ilock_eqb (irank rk) h p = true.
Proof.
  intros ER p. induction p as [|[l m|l|] p IH]; intros h C; simpl in *.
  - destruct h; auto.
  - apply andb_prop in C. destruct C as [C1 C2]. rewrite (IH _ C2), andb_true_r.
    apply forallb_forall. intros x Hx. rewrite forallb_forall in C1. specialize (C1 x Hx).
    apply existsb_exists in C1. destruct C1 as [e [He Ee]].
    apply andb_prop in Ee. destruct Ee as [E1 E2]. apply N.eqb_eq in E1, E2.
    unfold edges_ranked in ER. rewrite forallb_forall in ER. specialize (ER e He).
    unfold irank. now rewrite <- E1, <- E2.
  - apply andb_prop in C. destruct C as [C1 C2]. now rewrite C1, (IH _ C2).
  - now apply IH.
Qed.

Lemma grant_excl_grants_free (lock : Type) (eqb : lock -> lock -> bool) :
  grants_free lock eqb (grant_excl lock eqb).
Proof. intros s l m H. exact H. Qed.

(** Any set of threads whose nested acquisitions all lie in a graph that [check_ranked] accepts
    is deadlock free, under every grant policy that grants free locks. *)
Theorem graph_no_deadlock (f : facts) grant :
  check_ranked f = true ->
  grants_free ilock ilock_eqb grant ->
  forall s0, (forall t, In t s0 -> held t = [] /\ conforms (f_edges f) [] (prog t) = true) ->
  forall s, reachable ilock ilock_eqb grant s0 s ->
  all_done ilock s = true \/ exists s', step ilock ilock_eqb grant s s'.
Proof.
  intros CR GF s0 I0 s R. unfold check_ranked in CR.
  apply andb_prop in CR. destruct CR as [_ ER].
  eapply (progress ilock ilock_eqb ilock_eqb_spec grant (irank (f_rank f))); eauto.
  intros t Ht. destruct (I0 t Ht) as [H1 H2]. split; auto.
  eapply conforms_ranked; eauto.
Qed.
