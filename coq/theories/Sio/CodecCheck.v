(** Executable comparison ([agree]) and property oracle ([oracle]) of the C09 correspondence
    check, evaluated in the kernel on what the implementation did. *)
From Coq Require Import Ascii String.
From SioV Require Import Base.GoSem Sio.Json Sio.Header Sio.Binary Sio.Codec Sio.RoundtripProofs.
Local Open Scope N_scope.

(** Byte strings of the generated case files are written as hex strings (one token for Coq's
    parser instead of one numeral per byte). *)
Definition hexval (a : ascii) : N := let n := N_of_ascii a in if n <? 58 then n - 48 else n - 87.
Fixpoint hx (s : string) : bytes :=
  match s with
  | String a (String b r) => (16 * hexval a + hexval b) :: hx r
  | _ => []
  end.

(** * Equality tests *)
Fixpoint gv_eqb (a b : gv) : bool :=
  let fix l_eqb (x y : list gv) : bool :=
    match x, y with
    | [], [] => true
    | p :: x', q :: y' => gv_eqb p q && l_eqb x' y'
    | _, _ => false
    end in
  let fix m_eqb (x y : list (bytes * gv)) : bool :=
    match x, y with
    | [], [] => true
    | (k, p) :: x', (k', q) :: y' => bytes_eqb k k' && gv_eqb p q && m_eqb x' y'
    | _, _ => false
    end in
  match a, b with
  | VNil, VNil => true
  | VBool x, VBool y => Bool.eqb x y
  | VInt x, VInt y => (x =? y)%Z
  | VStr x, VStr y => bytes_eqb x y
  | VBin x, VBin y => bytes_eqb x y
  | VAny x, VAny y => gv_eqb x y
  | VPtr x, VPtr y => gv_eqb x y
  | VSlice x, VSlice y => l_eqb x y
  | VStruct x, VStruct y => m_eqb x y
  | VMap x, VMap y => m_eqb x y
  | VSubst x1 x2, VSubst y1 y2 => gv_eqb x1 y1 && gv_eqb x2 y2
  | _, _ => false
  end.

Fixpoint jb_eqb (a b : jb) : bool :=
  let fix l_eqb (x y : list jb) : bool :=
    match x, y with
    | [], [] => true
    | p :: x', q :: y' => jb_eqb p q && l_eqb x' y'
    | _, _ => false
    end in
  let fix m_eqb (x y : list (bytes * jb)) : bool :=
    match x, y with
    | [], [] => true
    | (k, p) :: x', (k', q) :: y' => bytes_eqb k k' && jb_eqb p q && m_eqb x' y'
    | _, _ => false
    end in
  match a, b with
  | BNull, BNull => true
  | BBool x, BBool y => Bool.eqb x y
  | BInt x, BInt y => (x =? y)%Z
  | BStr x, BStr y => bytes_eqb x y
  | BBin x, BBin y => bytes_eqb x y
  | BArr x, BArr y => l_eqb x y
  | BObj x, BObj y => m_eqb x y
  | _, _ => false
  end.

Definition opt_eqb {A} (e : A -> A -> bool) (a b : option A) : bool :=
  match a, b with
  | None, None => true
  | Some x, Some y => e x y
  | _, _ => false
  end.

Definition header_eqb (a b : header) : bool :=
  (h_type a =? h_type b) && bytes_eqb (h_nsp a) (h_nsp b)
  && opt_eqb N.eqb (h_id a) (h_id b) && (h_att a =? h_att b)%Z.

Definition frames_eqb : list bytes -> list bytes -> bool := list_eqb bytes_eqb.

(** * A harness case *)
(** Outcome of a call: 0 = returned values, 1 = returned an error, 2 = panicked. *)
Definition outcome := N.
Definition out_of {A} (r : res A) : outcome := match r with Ok _ => 0 | Err => 1 | Panic => 2 end.

Record ccase := mkCase {
  c_h : header;                         (* header given to Encode *)
  c_v : option gv;                      (* value given (None = nil) *)
  c_tys : list ty;                      (* handler types used for the typed decode *)
  c_out : outcome;                      (* first Encode *)
  c_frames : list bytes;
  c_hafter : header;                    (* caller's header after the first Encode *)
  c_vafter : option gv;                 (* caller's value after the first Encode *)
  c_out2 : outcome;                     (* second Encode: same value, a fresh copy of the header *)
  c_frames2 : list bytes;
  c_out3 : outcome;                     (* third Encode: same value, the header object used first *)
  c_frames3 : list bytes;
  c_fin : list nat;                     (* indexes of the frames at which Add called finish *)
  c_dh : option (header * bytes);       (* header and event name handed to finish (last call) *)
  c_typed : option (list jb);           (* decode(types...): None = error *)
  c_anyd : option (list jb);            (* decode(nil...) i.e. every parameter of type any *)
  c_skip_any : bool                     (* the any-decode holds a number beyond 2^53 / a fraction: not compared *)
}.

Definition any_tys (c : ccase) : list ty := map (fun _ => TAny) (c_tys c).

Definition res_opt {A} (r : res A) : option A := match r with Ok a => Some a | _ => None end.

(** * Correspondence: the model computes what the implementation did *)
Definition agree_encode (c : ccase) : bool :=
  match encode_go 0 (c_h c) (c_v c) with
  | Ok e =>
    (c_out c =? 0) && frames_eqb (e_frames e) (c_frames c)
    && header_eqb (e_header e) (c_hafter c) && opt_eqb gv_eqb (e_value e) (c_vafter c)
    && (match encode_go 0 (c_h c) (e_value e) with
        | Ok e2 => (c_out2 c =? 0) && frames_eqb (e_frames e2) (c_frames2 c)
        | r => c_out2 c =? out_of r
        end)
    && (match encode_go 0 (e_header e) (e_value e) with
        | Ok e3 => (c_out3 c =? 0) && frames_eqb (e_frames e3) (c_frames3 c)
        | r => c_out3 c =? out_of r
        end)
  | r => c_out c =? out_of r
  end.

Definition agree_decode (c : ccase) : bool :=
  if negb (c_out c =? 0) then true else
  match feed_go None 0 (c_frames c) with
  | Ok (fins, st) =>
    list_eqb Nat.eqb (map fst fins) (c_fin c)
    && match last (map snd fins) (mkHeader 9 [] None 0, [], []), c_dh c with
       | (h, name, bufs), Some (h', name') =>
         header_eqb h h' && bytes_eqb name name'
         && opt_eqb (list_eqb jb_eqb) (res_opt (decode_go h bufs (c_tys c))) (c_typed c)
         && (c_skip_any c || opt_eqb (list_eqb jb_eqb) (res_opt (decode_go h bufs (any_tys c))) (c_anyd c))
       | _, None => match fins with [] => true | _ => false end
       end
  | _ => match c_fin c with [] => true | _ => false end
  end.

Definition agree (c : ccase) : bool := agree_encode c && agree_decode c.

(** * The property, evaluated on the implementation's observation alone *)
(** Arguments of the packet as the receiver should see them. *)
Definition sent_args (c : ccase) : option (bytes * list jb) :=
  match c_v c with
  | Some (VPtr (VSlice l)) =>
    if is_event (h_type (c_h c)) then
      match l with
      | VAny (VStr name) :: args => Some (name, map shape args)
      | _ => None
      end
    else Some ([], map shape l)
  | Some x => Some ([], [shape x])
  | None => Some ([], [])
  end.

Definition expected_header (c : ccase) (n : nat) : header :=
  let h := c_h c in
  let t := h_type h in
  let bin := ((t =? 2) || (t =? 3)) && negb (Nat.eqb n 0) in
  mkHeader (if bin then t + 3 else t)
           (match h_nsp h with [] => [47] | s => s end) (h_id h)
           (if is_binary (if bin then t + 3 else t) then Z.of_nat n else 0%Z).

(** The frames are the ones the v5 protocol prescribes for this packet: exactly the
    specification printer's output (placeholders numbered left to right, attachments in that
    order - equal, empty or nil binary leaves included). *)
Definition wire_ok (c : ccase) : bool :=
  let h := c_h c in
  let t := h_type h in
  let nsp := match h_nsp h with [] => [47] | s => s end in
  let data := match c_v c with Some x => Some (shape x) | None => None end in
  let n := match data with Some b => count_bin b | None => O end in
  if ((t =? 2) || (t =? 3) || is_binary t) || Nat.eqb n 0
  then frames_eqb (c_frames c) (spec_frames jprint (if is_binary t then t - 3 else t) nsp (h_id h) data)
  else (* a packet type that is never deconstructed: the JSON encoder writes the Binary cells as they are *)
    match c_frames c, c_v c with
    | [f0], Some x =>
      match to_jv jparse x with
      | Ok j => bytes_eqb f0 (encode_header (expected_header c n) ++ jprint j)
      | _ => false
      end
    | _, _ => false
    end.

(** Decoding the frames gives the packet back. *)
Definition roundtrip_header_ok (c : ccase) : bool :=
  let n := match c_v c with Some x => count_bin (shape x) | None => O end in
  let last_i := (length (c_frames c) - 1)%nat in
  list_eqb Nat.eqb (c_fin c) [last_i]
  && match c_dh c, sent_args c with
     | Some (h, name), Some (name0, _) =>
       header_eqb h (expected_header c n) && bytes_eqb name name0
     | _, _ => false
     end.

Definition roundtrip_any_ok (c : ccase) : bool :=
  if c_skip_any c then true else
  match sent_args c, c_anyd c with
  | Some (_, args), Some vals => list_eqb jb_eqb (map norm_b args) vals
  | _, _ => false
  end.

Definition roundtrip_typed_ok (c : ccase) : bool :=
  match sent_args c, c_typed c with
  | Some (_, args), Some vals =>
    list_eqb jb_eqb
      ((fix go (ts : list ty) (l : list jb) : list jb :=
          match ts, l with
          | t :: ts', x :: l' => view_ty t x :: go ts' l'
          | _, _ => l
          end) (c_tys c) args) vals
  | _, _ => false
  end.

(** Encode left its input as it was, and encoding again gives the same frames. *)
Definition value_intact (c : ccase) : bool := opt_eqb gv_eqb (c_v c) (c_vafter c).
Definition header_intact (c : ccase) : bool := header_eqb (c_h c) (c_hafter c).
Definition reencode_ok (c : ccase) : bool :=
  (c_out2 c =? 0) && frames_eqb (c_frames c) (c_frames2 c)
  && (c_out3 c =? 0) && frames_eqb (c_frames c) (c_frames3 c).

(** ** Finding classes (decidable side conditions shared with the theorems) *)
(** Every binary leaf is reachable for writing: Encode does not refuse the value. *)
Definition encodable (c : ccase) : bool :=
  match encode_go 0 (c_h c) (c_v c) with Ok _ => true | _ => false end.

Definition any_family_ok (c : ccase) : bool :=
  match sent_args c with Some (_, args) => forallb any_ok args | None => true end.

Definition typed_family_ok (c : ccase) : bool :=
  match sent_args c with
  | Some (_, args) =>
    (fix go (ts : list ty) (l : list jb) : bool :=
       match ts, l with
       | t :: ts', x :: l' => ty_ok t x && go ts' l'
       | _, _ => true
       end) (c_tys c) args
  | None => true
  end.

(** The header is rewritten exactly when a plain EVENT / ACK header meets a value with binary. *)
Definition header_rewritten (c : ccase) : bool :=
  let t := h_type (c_h c) in
  ((t =? 2) || (t =? 3)) && match c_v c with Some x => hb 2 x | None => false end.

(** Result: a bit mask of the failed parts (0 = the property holds on this observation).
    1 encode refused / panicked; 2 wire; 4 round trip header+name; 8 typed decode; 16 any decode;
    32 value changed; 64 header changed; 128 re-encode differs. *)
Definition oracle_mask (c : ccase) : N :=
  if negb (c_out c =? 0) then 1 else
  (if wire_ok c then 0 else 2)
  + (if roundtrip_header_ok c then 0 else 4)
  + (if roundtrip_typed_ok c then 0 else 8)
  + (if roundtrip_any_ok c then 0 else 16)
  + (if value_intact c then 0 else 32)
  + (if header_intact c then 0 else 64)
  + (if reencode_ok c then 0 else 128).

(** Known finding classes excluded: what remains must be 0. *)
(** Finding binary-behind-deep-wrappers: some Binary of the value is out of reach of the two
    unwrapping steps of deconstructValue / hasBinary (e.g. behind a pointer to an interface held in
    an interface), so it is not made an attachment and the JSON encoder writes its bytes as they
    are.  This is exactly the negation of the theorems' side condition on the reach ([wokp] and
    "hasBinary sees it", the two last conjuncts of [wfv]). *)
Definition deep_wrapped (c : ccase) : bool :=
  match c_v c with
  | Some x => negb (wokp false 2 x && (hb 2 x || nobin x))
  | None => false
  end.

Definition known_mask (c : ccase) : N :=
  if negb (c_out c =? 0) then (if (c_out c =? 1) && negb (encodable c) then 1 else 0) else
  if deep_wrapped c then 2 + 4 + 8 + 16 + (if header_rewritten c then 64 else 0) else
  (if typed_family_ok c then 0 else 8) + (if any_family_ok c then 0 else 16)
  + (if header_rewritten c then 64 else 0).

(** 1 = the case is in the class binary-behind-deep-wrappers (its known bits carry that key). *)
Definition known_class (c : ccase) : N := if deep_wrapped c then 1 else 0.

Definition oracle (c : ccase) : bool := oracle_mask c =? 0.
(** No failure outside the known classes. *)
Definition oracle_modulo_known (c : ccase) : bool := N.land (oracle_mask c) (N.lnot (known_mask c) 8) =? 0.
