(** Proofs about the handler-registry model (C18). *)
From SioV Require Import Base.GoSem Sio.HandlerStore.

Section StoreProofs.
  Variable A : Type.
  Variable same : A -> A -> bool.

  Notation store := (store A).
  Notation op := (op A).
  Notation step := (step A same).
  Notation run := (run A same).
  Notation outs := (outs A same).
  Notation remove := (remove A same).
  Notation named := (named A same).
  Notation kills := (kills A same).
  Notation survives := (survives A same).
  Notation live := (live A same).
  Notation registers := (registers A).
  Notation spec_fire := (spec_fire A same).
  Notation spec_outs_from := (spec_outs_from A same).
  Notation spec_outs := (spec_outs A same).

  Lemma remove_filter : forall hs l, remove hs l = filter (fun a => negb (named hs a)) l.
  Proof.
    intros hs l; induction l as [|a l IH]; simpl; [reflexivity|].
    destruct (named hs a); simpl; now rewrite IH.
  Qed.

  Lemma survives_snoc : forall k a later o,
    survives k a (later ++ [o]) = survives k a later && negb (kills k a o).
  Proof.
    intros; unfold HandlerStore.survives. rewrite forallb_app. simpl. now rewrite andb_true_r.
  Qed.

  Lemma live_snoc : forall k past o,
    live k (past ++ [o]) =
    filter (fun a => negb (kills k a o)) (live k past)
    ++ match registers k o with Some a => [a] | None => [] end.
  Proof.
    intros k past o; induction past as [|o0 later IH]; simpl.
    - destruct (registers k o); reflexivity.
    - destruct (registers k o0) as [a|]; [|exact IH].
      rewrite survives_snoc.
      destruct (survives k a later); simpl; [|exact IH].
      destruct (kills k a o); simpl; now rewrite IH.
  Qed.

  (** The registry's three slices are exactly the live registrations of the history so far. *)
  Definition Inv (s : store) (past : list op) : Prop :=
    subs s = live KSub past /\ funcs s = live KOn past /\ once s = live KOnce past.

  Lemma inv_empty : Inv empty [].
  Proof. repeat split. Qed.

  Lemma filter_true : forall (l : list A), filter (fun _ => true) l = l.
  Proof. induction l; simpl; congruence. Qed.
  Lemma filter_false : forall (l : list A), filter (fun _ => false) l = [].
  Proof. induction l; simpl; congruence. Qed.

  Lemma named_single : forall h a, named [h] a = same h a.
  Proof. intros; unfold HandlerStore.named; simpl. now rewrite orb_false_r. Qed.

  Lemma step_inv : forall s past o, Inv s past -> Inv (fst (step s o)) (past ++ [o]).
  Proof.
    intros s past o (Hs & Hf & Ho).
    unfold Inv. rewrite !live_snoc.
    destruct o as [a|a|a|h| |hs| | ]; simpl.
    - rewrite !filter_true, !app_nil_r. now rewrite Hs, Hf, Ho.
    - rewrite !filter_true, !app_nil_r. now rewrite Hs, Hf, Ho.
    - rewrite !filter_true, !app_nil_r. now rewrite Hs, Hf, Ho.
    - rewrite !filter_true, !app_nil_r. rewrite remove_filter, Hs, Hf, Ho.
      repeat split. apply filter_ext. intros a. now rewrite named_single.
    - rewrite !filter_true, filter_false, !app_nil_r. now rewrite Hf, Ho.
    - destruct hs as [|h hs]; simpl.
      + rewrite !filter_true, !filter_false, !app_nil_r. now rewrite Hs.
      + rewrite !filter_true, !app_nil_r, !remove_filter. now rewrite Hs, Hf, Ho.
    - rewrite !filter_true, !filter_false, !app_nil_r. now rewrite Hs.
    - rewrite !filter_true, !filter_false, !app_nil_r. now rewrite Hs, Hf.
  Qed.

  Lemma step_out : forall s past o, Inv s past ->
    snd (step s o) = match o with Fire => Some (spec_fire past) | _ => None end.
  Proof.
    intros s past o (Hs & Hf & Ho). destruct o as [a|a|a|h| |hs| | ]; simpl; try reflexivity.
    - destruct hs; reflexivity.
    - unfold HandlerStore.spec_fire. now rewrite Hs, Hf, Ho.
  Qed.

  Lemma run_spec : forall ops s past, Inv s past -> snd (run s ops) = spec_outs_from past ops.
  Proof.
    induction ops as [|o ops IH]; intros s past HI; simpl; [reflexivity|].
    pose proof (step_inv s past o HI) as HI'.
    pose proof (step_out s past o HI) as HO.
    destruct (step s o) as [s1 out] eqn:E. simpl in HI', HO.
    specialize (IH s1 (past ++ [o]) HI').
    destruct (run s1 ops) as [s2 os] eqn:E2. simpl in IH. simpl. subst out.
    destruct o; simpl; now rewrite IH.
  Qed.

  (** Refinement: for every op sequence the occurrences return exactly what the history-based
      specification says. *)
  Theorem refines_spec : forall ops, outs ops = spec_outs ops.
  Proof. intros ops. unfold HandlerStore.outs, HandlerStore.spec_outs. apply run_spec, inv_empty. Qed.

  Lemma run_inv : forall ops s past, Inv s past -> Inv (fst (run s ops)) (past ++ ops).
  Proof.
    induction ops as [|o ops IH]; intros s past HI; simpl.
    - now rewrite app_nil_r.
    - pose proof (step_inv s past o HI) as HI'.
      destruct (step s o) as [s1 out]. simpl in HI'.
      specialize (IH s1 _ HI'). destruct (run s1 ops) as [s2 os]. simpl in *.
      now rewrite <- app_assoc in IH.
  Qed.

  (** *** Consequences of the specification, in the words of the property. *)

  (** Position-wise reading of [spec_outs]: the occurrence after [past] runs [spec_fire past]. *)
  Lemma spec_outs_from_app : forall ops1 past ops2,
    spec_outs_from past (ops1 ++ ops2) =
    spec_outs_from past ops1 ++ spec_outs_from (past ++ ops1) ops2.
  Proof.
    induction ops1 as [|o ops1 IH]; intros; simpl.
    - now rewrite app_nil_r.
    - destruct o; simpl; rewrite IH, <- app_assoc; reflexivity.
  Qed.

  Lemma occurrence_runs : forall past rest,
    exists before after,
      outs (past ++ Fire :: rest) = before ++ spec_fire past :: after
      /\ length before = length (outs past).
  Proof.
    intros. rewrite !refines_spec. unfold HandlerStore.spec_outs.
    rewrite spec_outs_from_app. simpl.
    eexists _, _. split; reflexivity.
  Qed.

  (** On fires every time: a handler registered with On is run by every later occurrence as long
      as no Off/OffAll in between removed it, however many occurrences there were. *)
  Lemma live_app_survivor : forall k pre o a later,
    registers k o = Some a -> survives k a later = true ->
    exists l1 l2, live k (pre ++ o :: later) = l1 ++ a :: l2.
  Proof.
    intros k pre o a later HR HS. induction pre as [|o0 pre IH]; simpl.
    - rewrite HR, HS. now exists [], (live k later).
    - destruct IH as (l1 & l2 & E). rewrite E.
      destruct (registers k o0) as [b|].
      + destruct (survives k b (pre ++ o :: later)).
        * now exists (b :: l1), l2.
        * now exists l1, l2.
      + now exists l1, l2.
  Qed.

  Theorem on_fires_every_time : forall pre a between,
    forallb (fun o => negb (kills KOn a o)) between = true ->
    In a (spec_fire (pre ++ On a :: between)).
  Proof.
    intros pre a between H. unfold HandlerStore.spec_fire.
    destruct (live_app_survivor KOn pre (On a) a between eq_refl H) as (l1 & l2 & E).
    rewrite E. apply in_or_app; right. apply in_or_app; left. apply in_or_app; right. now left.
  Qed.

  Theorem sub_fires_every_time : forall pre a between,
    forallb (fun o => negb (kills KSub a o)) between = true ->
    In a (spec_fire (pre ++ OnSub a :: between)).
  Proof.
    intros pre a between H. unfold HandlerStore.spec_fire.
    destruct (live_app_survivor KSub pre (OnSub a) a between eq_refl H) as (l1 & l2 & E).
    rewrite E. apply in_or_app; left. apply in_or_app; right. now left.
  Qed.

  Theorem once_fires_first_time : forall pre a between,
    forallb (fun o => negb (kills KOnce a o)) between = true ->
    In a (spec_fire (pre ++ Once a :: between)).
  Proof.
    intros pre a between H. unfold HandlerStore.spec_fire.
    destruct (live_app_survivor KOnce pre (Once a) a between eq_refl H) as (l1 & l2 & E).
    rewrite E. apply in_or_app; right. apply in_or_app; right. apply in_or_app; right. now left.
  Qed.

  (** Off is exact: right after [Off hs] (hs non-empty) the On/Once handlers are those that were
      there before minus the named ones, order kept; sub-event handlers are untouched. *)
  Theorem off_exact : forall past h hs,
    live KSub (past ++ [Off (h :: hs)]) = live KSub past
    /\ live KOn (past ++ [Off (h :: hs)]) = filter (fun a => negb (named (h :: hs) a)) (live KOn past)
    /\ live KOnce (past ++ [Off (h :: hs)]) = filter (fun a => negb (named (h :: hs) a)) (live KOnce past).
  Proof.
    intros. rewrite !live_snoc. simpl. rewrite filter_true, !app_nil_r. repeat split.
  Qed.

  (** Off with no handler and OffAll remove every On/Once handler (and no sub-event handler). *)
  Theorem off_none_removes_all : forall past o, o = Off [] \/ o = OffAll ->
    live KSub (past ++ [o]) = live KSub past
    /\ live KOn (past ++ [o]) = [] /\ live KOnce (past ++ [o]) = [].
  Proof.
    intros past o [-> | ->]; rewrite !live_snoc; simpl;
      rewrite filter_true, !filter_false, !app_nil_r; repeat split.
  Qed.

  Theorem offsub_exact : forall past h,
    live KSub (past ++ [OffSub h]) = filter (fun a => negb (same h a)) (live KSub past)
    /\ live KOn (past ++ [OffSub h]) = live KOn past
    /\ live KOnce (past ++ [OffSub h]) = live KOnce past.
  Proof.
    intros. rewrite !live_snoc. simpl. rewrite !filter_true, !app_nil_r. repeat split.
  Qed.

  (** An occurrence leaves On and sub-event handlers alone and uses up every Once handler. *)
  Theorem fire_clears_once : forall past,
    live KSub (past ++ [Fire]) = live KSub past
    /\ live KOn (past ++ [Fire]) = live KOn past
    /\ live KOnce (past ++ [Fire]) = [].
  Proof.
    intros. rewrite !live_snoc. simpl. rewrite !filter_true, filter_false, !app_nil_r. repeat split.
  Qed.

  (** *** At most once, as a count over whole executions.
      For any class [P] of handlers that are registered only through Once: the total number of
      times handlers of the class are returned, over all occurrences, never exceeds the number of
      Once registrations of the class.  (Class = one handler registered once: at most one run.) *)
  Definition cnt (P : A -> bool) (l : list A) : nat := length (filter P l).

  Lemma cnt_app : forall P l1 l2, cnt P (l1 ++ l2) = cnt P l1 + cnt P l2.
  Proof. intros; unfold cnt. now rewrite filter_app, app_length. Qed.

  Lemma cnt_single : forall P a, cnt P [a] = if P a then 1 else 0.
  Proof. intros; unfold cnt; simpl. now destruct (P a). Qed.
  Lemma cnt_nil : forall P, cnt P [] = 0.
  Proof. reflexivity. Qed.

  Lemma cnt_remove_le : forall P hs l, cnt P (remove hs l) <= cnt P l.
  Proof.
    intros P hs l; induction l as [|a l IH]; simpl; [lia|].
    unfold cnt in *. destruct (named hs a); simpl; destruct (P a); simpl; lia.
  Qed.

  Lemma cnt_remove_zero : forall P hs l, cnt P l = 0 -> cnt P (remove hs l) = 0.
  Proof. intros. pose proof (cnt_remove_le P hs l). lia. Qed.

  Lemma once_count_gen : forall P ops s,
    forallb (fun o => negb (is_on_or_sub_of P o)) ops = true ->
    cnt P (subs s) = 0 -> cnt P (funcs s) = 0 ->
    cnt P (concat (snd (run s ops))) + cnt P (once (fst (run s ops)))
    <= cnt P (once s) + length (filter (is_once_of P) ops).
  Proof.
    intros P; induction ops as [|o ops IH]; intros s Hno Hs Hf; simpl.
    - lia.
    - simpl in Hno. apply andb_true_iff in Hno as [Hno1 Hno].
      destruct (step s o) as [s1 out] eqn:E.
      assert (H1 : cnt P (subs s1) = 0 /\ cnt P (funcs s1) = 0 /\
                   match out with Some l => cnt P l | None => 0 end + cnt P (once s1)
                   <= cnt P (once s) + (if is_once_of P o then 1 else 0)).
      { destruct o as [a|a|a|h| |hs| | ]; simpl in E; inversion E; subst; clear E; simpl in *;
          rewrite ?cnt_app, ?cnt_single, ?cnt_nil.
        - destruct (P a); simpl in *; [discriminate|]. repeat split; lia.
        - destruct (P a); simpl; repeat split; lia.
        - destruct (P a); simpl in *; [discriminate|]. repeat split; lia.
        - repeat split; try lia. now apply cnt_remove_zero.
        - repeat split; try lia.
        - destruct hs; inversion H0; subst; simpl; rewrite ?cnt_nil.
          + repeat split; lia.
          + repeat split; try lia. now apply cnt_remove_zero.
            pose proof (cnt_remove_le P (a :: hs) (once s)). lia.
        - repeat split; lia.
        - repeat split; lia. }
      destruct H1 as (Hs1 & Hf1 & Hstep).
      specialize (IH s1 Hno Hs1 Hf1).
      destruct (run s1 ops) as [s2 os] eqn:E2. simpl in *.
      destruct out as [l|]; simpl; [rewrite cnt_app|]; destruct (is_once_of P o); simpl; lia.
  Qed.

  Theorem once_at_most_once : forall P ops,
    forallb (fun o => negb (is_on_or_sub_of P o)) ops = true ->
    cnt P (concat (outs ops)) <= length (filter (is_once_of P) ops).
  Proof.
    intros P ops H. pose proof (once_count_gen P ops empty H eq_refl eq_refl) as G.
    unfold HandlerStore.outs. change (cnt P (once empty)) with 0 in G. lia.
  Qed.

  (** The same for any number of goroutines: whatever the interleaving of their atomic calls. *)
  Lemma concat_all_nil : forall X (progs : list (list X)),
    Forall (fun p => p = []) progs -> concat progs = [].
  Proof. intros X progs H; induction H as [|p progs Hp _ IH]; simpl; [reflexivity|]. now rewrite Hp, IH. Qed.

  Theorem once_at_most_once_concurrent : forall P (progs : list (list op)) merged,
    interleaving progs merged ->
    Forall (fun p => forallb (fun o => negb (is_on_or_sub_of P o)) p = true) progs ->
    cnt P (concat (outs merged)) <= length (filter (is_once_of P) (concat progs)).
  Proof.
    intros P progs merged HI HF.
    assert (Hm : forallb (fun o => negb (is_on_or_sub_of P o)) merged = true
                 /\ length (filter (is_once_of P) merged) = length (filter (is_once_of P) (concat progs))).
    { clear -HI HF. induction HI as [progs Hall | pre x p post merged HI IH].
      - split; [reflexivity|]. simpl.
        now rewrite (concat_all_nil _ progs Hall).
      - apply Forall_app in HF as [HFpre HFp]. inversion HFp as [|? ? Hxp HFpost]; subst.
        simpl in Hxp. apply andb_true_iff in Hxp as [Hx Hp].
        destruct IH as [IH1 IH2].
        { apply Forall_app; split; [assumption|]. constructor; assumption. }
        split.
        + simpl. now rewrite Hx, IH1.
        + rewrite !concat_app in *. simpl in *. rewrite !filter_app, !app_length in *.
          simpl. destruct (is_once_of P x); simpl; rewrite !filter_app, !app_length in *; lia. }
    destruct Hm as [Hm1 Hm2]. rewrite <- Hm2. now apply once_at_most_once.
  Qed.

  (** No call panics: the repaired code has no slicing or indexing left, and the model is a total
      function whose every branch is one of the code's; stated as: every op has a successor
      state (trivially true in Gallina, listed for completeness of the property text). *)
  Theorem step_total : forall s o, exists s' out, step s o = (s', out).
  Proof. intros. destruct (step s o) as [s' out]. eauto. Qed.
End StoreProofs.

(** Two identity tests that agree on every (named handler, registered handler) pair of a
    history yield the same specification: used to pass from the code's test to true identity. *)
Section Congruence.
  Variable A : Type.
  Variables same1 same2 : A -> A -> bool.

  Definition op_handlers (o : op A) : list A :=
    match o with
    | On a | Once a | OnSub a | OffSub a => [a]
    | Off hs => hs
    | _ => []
    end.
  Definition handlers_of (ops : list (op A)) : list A := flat_map op_handlers ops.

  Definition agree_on (l : list A) : Prop :=
    forall h a, In h l -> In a l -> same1 h a = same2 h a.

  Lemma named_congr : forall hs a,
    (forall h, In h hs -> same1 h a = same2 h a) ->
    named A same1 hs a = named A same2 hs a.
  Proof.
    intros hs a H; induction hs as [|h hs IH]; simpl; [reflexivity|].
    rewrite H by now left. rewrite IH; [reflexivity|]. intros; apply H; now right.
  Qed.

  Lemma remove_congr : forall hs l,
    (forall h a, In h hs -> In a l -> same1 h a = same2 h a) ->
    remove A same1 hs l = remove A same2 hs l.
  Proof.
    intros hs l H; induction l as [|a l IH]; simpl; [reflexivity|].
    rewrite named_congr by (intros; apply H; [assumption|now left]).
    rewrite IH by (intros; apply H; [assumption|now right]). reflexivity.
  Qed.

  (** Everything stored in the registry came from an earlier On/Once/OnSub of the history. *)
  Definition stored_in (s : store A) (l : list A) : Prop :=
    incl (subs s) l /\ incl (funcs s) l /\ incl (once s) l.

  Lemma incl_remove : forall same hs (l l' : list A), incl l l' -> incl (remove A same hs l) l'.
  Proof.
    intros same hs l l' H; induction l as [|a l IH]; simpl; [easy|].
    destruct (named A same hs a).
    - apply IH. intros x Hx; apply H; now right.
    - intros x [->|Hx]; [apply H; now left|]. apply IH; [|assumption].
      intros y Hy; apply H; now right.
  Qed.

  Lemma step_congr : forall s o l,
    agree_on l -> stored_in s l -> incl (op_handlers o) l ->
    step A same1 s o = step A same2 s o /\ stored_in (fst (step A same1 s o)) l.
  Proof.
    intros s o l HA (Hs & Hf & Ho) Hop.
    assert (Hnil : incl (@nil A) l) by (intros x []).
    destruct o as [a|a|a|h| |hs| | ]; simpl in *.
    - split; [reflexivity|]. unfold stored_in; simpl. auto using incl_app.
    - split; [reflexivity|]. unfold stored_in; simpl. auto using incl_app.
    - split; [reflexivity|]. unfold stored_in; simpl. auto using incl_app.
    - split.
      + f_equal. f_equal. apply remove_congr. intros h' a [<-|[]] Ha.
        apply HA; [apply Hop; now left | now apply Hs].
      + unfold stored_in; simpl. auto using incl_remove.
    - split; [reflexivity|]. unfold stored_in; simpl. auto.
    - destruct hs as [|h hs]; simpl.
      + split; [reflexivity|]. unfold stored_in; simpl. auto.
      + split.
        * f_equal. f_equal; apply remove_congr; intros h' a Hh Ha.
          -- apply HA; [now apply Hop | now apply Hf].
          -- apply HA; [now apply Hop | now apply Ho].
        * unfold stored_in; simpl. auto using incl_remove.
    - split; [reflexivity|]. unfold stored_in; simpl. auto.
    - split; [reflexivity|]. unfold stored_in; simpl. auto.
  Qed.

  Lemma run_congr : forall ops s l,
    agree_on l -> stored_in s l -> incl (handlers_of ops) l ->
    run A same1 s ops = run A same2 s ops.
  Proof.
    induction ops as [|o ops IH]; intros s l HA HS HI; simpl; [reflexivity|].
    unfold handlers_of in HI; simpl in HI. apply incl_app_inv in HI as [HI1 HI2].
    destruct (step_congr s o l HA HS HI1) as [E HS'].
    rewrite <- E. destruct (step A same1 s o) as [s1 out]. simpl in HS'.
    now rewrite (IH s1 l HA HS' HI2).
  Qed.

  Theorem outs_congr : forall ops,
    agree_on (handlers_of ops) -> outs A same1 ops = outs A same2 ops.
  Proof.
    intros ops HA. unfold outs. f_equal. apply run_congr with (l := handlers_of ops); try assumption.
    - repeat split; simpl; easy.
    - apply incl_refl.
  Qed.
End Congruence.

(** ** eventHandlerStore: seen from one event it is a handlerStore (without sub-events); calls
    about other events do not disturb it. *)
Section EStoreProofs.
  Variable A : Type.
  Variable same : A -> A -> bool.

  Lemma efind_edel_same : forall e (m : emap A), efind A e (edel A e m) = None.
  Proof.
    intros e m; induction m as [|[k v] m IH]; simpl; [reflexivity|].
    destruct (N.eqb k e) eqn:E; simpl; [exact IH|]. now rewrite E.
  Qed.

  Lemma efind_edel_other : forall e e' (m : emap A), N.eqb e' e = false ->
    efind A e (edel A e' m) = efind A e m.
  Proof.
    intros e e' m H; induction m as [|[k v] m IH]; simpl; [reflexivity|].
    destruct (N.eqb k e') eqn:E; simpl.
    - apply N.eqb_eq in E; subst k. now rewrite H.
    - destruct (N.eqb k e); [reflexivity|exact IH].
  Qed.

  Lemma eget_edel_same : forall e (m : emap A), eget A e (edel A e m) = [].
  Proof. intros; unfold eget. now rewrite efind_edel_same. Qed.
  Lemma eget_edel_other : forall e e' (m : emap A), N.eqb e' e = false ->
    eget A e (edel A e' m) = eget A e m.
  Proof. intros; unfold eget. now rewrite efind_edel_other. Qed.
  Lemma eget_eset_same : forall e v (m : emap A), eget A e (eset A e v m) = v.
  Proof. intros; unfold eget, eset; simpl. now rewrite N.eqb_refl. Qed.
  Lemma eget_eset_other : forall e e' v (m : emap A), N.eqb e' e = false ->
    eget A e (eset A e' v m) = eget A e m.
  Proof. intros; unfold eget, eset; simpl. rewrite H. now rewrite efind_edel_other. Qed.

  Lemma eget_eoff_in_same : forall e hs (m : emap A),
    eget A e (eoff_in A same e hs m) = remove A same hs (eget A e m).
  Proof.
    intros; unfold eoff_in. unfold eget at 2. destruct (efind A e m) as [l|] eqn:E.
    - destruct (remove A same hs l) eqn:R.
      + apply eget_edel_same.
      + apply eget_eset_same.
    - unfold eget. now rewrite E.
  Qed.

  Lemma eget_eoff_in_other : forall e e' hs (m : emap A), N.eqb e' e = false ->
    eget A e (eoff_in A same e' hs m) = eget A e m.
  Proof.
    intros; unfold eoff_in. destruct (efind A e' m) as [l|]; [|reflexivity].
    destruct (remove A same hs l); [now apply eget_edel_other | now apply eget_eset_other].
  Qed.

  Definition view (e : N) (es : estore A) : store A :=
    mkStore [] (eget A e (events es)) (eget A e (eventsOnce es)).

  Lemma estep_view : forall es o e,
    view e (fst (estep A same es o)) =
    match tr A e o with
    | Some o' => fst (step A same (view e es) o')
    | None => view e es
    end.
  Proof.
    intros es o e. destruct o as [e' a|e' a|e' hs| |e']; simpl.
    - destruct (N.eqb e' e) eqn:E; unfold view; simpl.
      + apply N.eqb_eq in E; subst. now rewrite eget_eset_same.
      + now rewrite eget_eset_other.
    - destruct (N.eqb e' e) eqn:E; unfold view; simpl.
      + apply N.eqb_eq in E; subst. now rewrite eget_eset_same.
      + now rewrite eget_eset_other.
    - destruct hs as [|h hs]; destruct (N.eqb e' e) eqn:E; unfold view; simpl.
      + apply N.eqb_eq in E; subst. now rewrite !eget_edel_same.
      + now rewrite !eget_edel_other.
      + apply N.eqb_eq in E; subst. now rewrite !eget_eoff_in_same.
      + now rewrite !eget_eoff_in_other.
    - reflexivity.
    - destruct (N.eqb e' e) eqn:E; unfold view; simpl.
      + apply N.eqb_eq in E; subst. now rewrite eget_edel_same.
      + now rewrite eget_edel_other.
  Qed.

  Lemma estep_out : forall es o,
    snd (estep A same es o) =
    match o with
    | EFire e => Some (e, eget A e (events es) ++ eget A e (eventsOnce es))
    | _ => None
    end.
  Proof. intros es o; destruct o as [e' a|e' a|e' hs| |e']; simpl; try reflexivity. now destruct hs. Qed.

  Lemma estep_sim : forall es o e,
    match tr A e o with
    | Some o' =>
        step A same (view e es) o' =
        (view e (fst (estep A same es o)),
         match snd (estep A same es o) with Some (_, l) => Some l | None => None end)
    | None =>
        view e (fst (estep A same es o)) = view e es /\
        match snd (estep A same es o) with Some (e', _) => N.eqb e' e = false | None => True end
    end.
  Proof.
    intros es o e. pose proof (estep_view es o e) as HV. pose proof (estep_out es o) as HO.
    destruct (tr A e o) as [o'|] eqn:T.
    - rewrite HV, HO. destruct o as [e' a|e' a|e' hs| |e']; simpl in T;
        try (destruct (N.eqb e' e) eqn:EE; [|discriminate]); inversion T; subst; simpl;
        try reflexivity.
      + now destruct hs.
      + apply N.eqb_eq in EE; subst. reflexivity.
    - split; [exact HV|]. rewrite HO.
      destruct o as [e' a|e' a|e' hs| |e']; simpl in T; try exact I; try discriminate.
      destruct (N.eqb e' e); [discriminate|reflexivity].
  Qed.

  Lemma erun_view : forall ops es e,
    only A e (snd (erun A same es ops)) = snd (run A same (view e es) (omap (tr A e) ops)).
  Proof.
    induction ops as [|o ops IH]; intros es e; simpl; [reflexivity|].
    pose proof (estep_sim es o e) as HS.
    destruct (estep A same es o) as [es1 out] eqn:E. simpl in HS.
    specialize (IH es1 e). destruct (erun A same es1 ops) as [es2 os] eqn:E2. simpl in IH.
    destruct (tr A e o) as [o'|] eqn:T; simpl.
    - rewrite HS. destruct (run A same (view e es1) (omap (tr A e) ops)) as [t2 os2] eqn:E3.
      simpl in *. subst os2.
      destruct out as [[e' l]|]; simpl; [|reflexivity].
      assert (N.eqb e' e = true) as EE.
      { destruct o as [x a|x a|x hs| |x]; simpl in E; try (inversion E; fail).
        - destruct hs; inversion E.
        - inversion E; subst. simpl in T. destruct (N.eqb e' e); [reflexivity|discriminate]. }
      unfold only; simpl. now rewrite EE.
    - destruct HS as [HV Hout]. rewrite <- HV, <- IH.
      destruct out as [[e' l]|]; simpl; [|reflexivity].
      unfold only; simpl. now rewrite Hout.
  Qed.

  Theorem event_as_store : forall ops e,
    eouts_e A same e ops = outs A same (omap (tr A e) ops).
  Proof. intros. unfold eouts_e, eouts, outs. now rewrite erun_view. Qed.

  Theorem event_refines_spec : forall ops e,
    eouts_e A same e ops = spec_outs A same (omap (tr A e) ops).
  Proof. intros. rewrite event_as_store. apply refines_spec. Qed.
End EStoreProofs.

(** ** The public lifecycle layer: an Off that names handlers never removes anything. *)
Section ApiProofs.
  Definition erase (s : store pslot) : store N :=
    mkStore (map snd (subs s)) (map snd (funcs s)) (map snd (once s)).

  Definition below (n : N) (l : list pslot) : Prop := Forall (fun a => (fst a < n)%N) l.
  Definition bounded (s : api) : Prop :=
    below (anext s) (subs (ast s)) /\ below (anext s) (funcs (ast s)) /\ below (anext s) (once (ast s)).

  Lemma named_fresh : forall fs next a, (fst a < next)%N ->
    named pslot psame (fresh_slots next fs) a = false.
  Proof.
    induction fs as [|f fs IH]; intros next a H; simpl; [reflexivity|].
    unfold psame at 1; simpl.
    destruct (N.eqb next (fst a)) eqn:E; [apply N.eqb_eq in E; lia|]. simpl.
    apply IH. lia.
  Qed.

  Lemma remove_fresh : forall fs next l, below next l ->
    remove pslot psame (fresh_slots next fs) l = l.
  Proof.
    intros fs next l H; induction H as [|a l Ha _ IH]; simpl; [reflexivity|].
    now rewrite named_fresh, IH.
  Qed.

  Lemma below_mono : forall n m l, (n <= m)%N -> below n l -> below m l.
  Proof. intros n m l H B. eapply Forall_impl; [|exact B]. simpl; intros; lia. Qed.

  Lemma below_snoc : forall n l f, below n l -> below (N.succ n) (l ++ [(n, f)]).
  Proof.
    intros. apply Forall_app; split.
    - eapply below_mono; [|eassumption]. lia.
    - constructor; [simpl; lia|constructor].
  Qed.

  Lemma astep_sim : forall s o, bounded s ->
    bounded (fst (astep s o)) /\
    erase (ast (fst (astep s o))) =
      match weaken o with
      | Some o' => fst (step N N.eqb (erase (ast s)) o')
      | None => erase (ast s)
      end /\
    snd (astep s o) =
      match weaken o with
      | Some o' => snd (step N N.eqb (erase (ast s)) o')
      | None => None
      end.
  Proof.
    intros [st next] o (Bs & Bf & Bo). simpl in *.
    destruct o as [f|f|fs| | ]; unfold weaken; simpl.
    - split; [|split; [|reflexivity]].
      + repeat split; simpl; try (eapply below_mono; [|eassumption]; lia). now apply below_snoc.
      + unfold erase; simpl. now rewrite map_app.
    - split; [|split; [|reflexivity]].
      + repeat split; simpl; try (eapply below_mono; [|eassumption]; lia). now apply below_snoc.
      + unfold erase; simpl. now rewrite map_app.
    - destruct fs as [|f fs]; simpl.
      + split; [|split; reflexivity]. repeat split; simpl; try constructor.
        eapply below_mono; [|eassumption]. lia.
      + change ((next, f) :: fresh_slots (N.succ next) fs) with (fresh_slots next (f :: fs)).
        rewrite !remove_fresh by assumption.
        split; [|split; [|reflexivity]].
        * repeat split; simpl; (eapply below_mono; [|eassumption]); lia.
        * now destruct st.
    - split; [|split; reflexivity]. repeat split; simpl; try constructor. assumption.
    - split; [|split].
      + repeat split; simpl; try constructor; assumption.
      + reflexivity.
      + unfold erase; simpl. now rewrite !map_app.
  Qed.

  Lemma arun_sim : forall ops s, bounded s ->
    snd (arun s ops) = snd (run N N.eqb (erase (ast s)) (omap weaken ops)).
  Proof.
    induction ops as [|o ops IH]; intros s B; simpl; [reflexivity|].
    destruct (astep_sim s o B) as (B' & HE & HO).
    destruct (astep s o) as [s1 out] eqn:E. simpl in *.
    specialize (IH s1 B'). destruct (arun s1 ops) as [s2 os] eqn:E2. simpl in *.
    destruct (weaken o) as [o'|]; simpl.
    - rewrite IH, HE, HO. destruct (step N N.eqb (erase (ast s)) o') as [t1 out']. simpl.
      now destruct (run N N.eqb t1 (omap weaken ops)).
    - now rewrite IH, HE, HO.
  Qed.

  (** For every call sequence the lifecycle layer behaves like the specification applied to the
      history with the handler-naming Off calls deleted. *)
  Theorem api_characterised : forall ops,
    aouts ops = spec_outs N N.eqb (omap weaken ops).
  Proof.
    intros. unfold aouts. rewrite arun_sim.
    - rewrite <- refines_spec. reflexivity.
    - repeat split; constructor.
  Qed.

  Lemma omap_weaken_clean : forall ops,
    forallb (fun o => negb (names_handler o)) ops = true -> omap weaken ops = map aop_spec ops.
  Proof.
    induction ops as [|o ops IH]; simpl; intros H; [reflexivity|].
    apply andb_true_iff in H as [H1 H2]. unfold weaken at 1.
    destruct (names_handler o); [discriminate|]. now rewrite IH.
  Qed.

  Theorem api_refines_spec_partial : forall ops,
    forallb (fun o => negb (names_handler o)) ops = true ->
    aouts ops = spec_outs N N.eqb (map aop_spec ops).
  Proof. intros. rewrite api_characterised. now rewrite omap_weaken_clean. Qed.
End ApiProofs.

(** ** Event handlers given as function values: where the code pointer identifies the function
    value, comparing code pointers is comparing function values. *)
Section FvalProofs.
  Lemma code_identifies_agree : forall l, code_identifies l = true ->
    agree_on fval same_code same_fval l.
  Proof.
    intros l H h a Hh Ha. unfold code_identifies in H.
    rewrite forallb_forall in H. specialize (H h Hh). rewrite forallb_forall in H.
    specialize (H a Ha). unfold same_code, same_fval.
    destruct (N.eqb (fst h) (fst a)); simpl in *; [now rewrite H|reflexivity].
  Qed.

  Lemma handlers_tr_incl : forall e ops,
    incl (handlers_of fval (omap (tr fval e) ops)) (ehandlers_of ops).
  Proof.
    intros e ops x; induction ops as [|o ops IH]; simpl; [easy|].
    unfold ehandlers_of; simpl. fold (ehandlers_of ops). rewrite in_app_iff.
    destruct (tr fval e o) as [o'|] eqn:T; [|now right; apply IH].
    unfold handlers_of; simpl. fold (handlers_of fval (omap (tr fval e) ops)).
    rewrite in_app_iff. intros [H|H]; [left|now right; apply IH].
    destruct o as [e' a|e' a|e' hs| |e']; simpl in T;
      try (destruct (N.eqb e' e); [|discriminate]); inversion T; subst; exact H.
  Qed.

  Theorem event_fval_refines_spec_partial : forall ops e,
    code_identifies (ehandlers_of ops) = true ->
    eouts_e fval same_code e ops = spec_outs fval same_fval (omap (tr fval e) ops).
  Proof.
    intros ops e H. rewrite event_as_store.
    rewrite (outs_congr fval same_code same_fval).
    - apply refines_spec.
    - intros h a Hh Ha. apply (code_identifies_agree _ H); now apply (handlers_tr_incl e ops).
  Qed.
End FvalProofs.

(** The event registry against its whole-history specification (all events at once). *)
Section ESpecProofs.
  Variable A : Type.
  Variable same : A -> A -> bool.

  Lemma omap_app : forall X Y (f : X -> option Y) l1 l2, omap f (l1 ++ l2) = omap f l1 ++ omap f l2.
  Proof.
    intros X Y f l1 l2; induction l1 as [|x l1 IH]; simpl; [reflexivity|].
    destruct (f x); simpl; now rewrite IH.
  Qed.

  Definition EInv (es : estore A) (past : list (eop A)) : Prop :=
    forall e, Inv A same (view A e es) (omap (tr A e) past).

  Lemma einv_step : forall es past o, EInv es past -> EInv (fst (estep A same es o)) (past ++ [o]).
  Proof.
    intros es past o H e. rewrite omap_app. simpl. rewrite estep_view.
    destruct (tr A e o) as [o'|]; simpl.
    - apply step_inv, H.
    - rewrite app_nil_r. apply H.
  Qed.

  Lemma erun_spec : forall ops es past, EInv es past ->
    snd (erun A same es ops) = espec_outs_from A same past ops.
  Proof.
    induction ops as [|o ops IH]; intros es past HI; simpl; [reflexivity|].
    pose proof (einv_step es past o HI) as HI'. pose proof (estep_out A same es o) as HO.
    destruct (estep A same es o) as [es1 out]. simpl in HI', HO. subst out.
    specialize (IH es1 _ HI'). destruct (erun A same es1 ops) as [es2 os]. simpl in IH. subst os.
    destruct o as [e' a|e' a|e' hs| |e']; simpl; try reflexivity.
    f_equal. f_equal. destruct (HI e') as (Hs & Hf & Ho). simpl in Hs, Hf, Ho.
    unfold spec_fire. now rewrite <- Hs, <- Hf, <- Ho.
  Qed.

  Theorem event_refines_spec_all : forall ops, eouts A same ops = espec_outs A same ops.
  Proof.
    intros. apply erun_spec. intros e. repeat split.
  Qed.
End ESpecProofs.

(** ** At most once for the event registry (OnceEvent), any number of goroutines. *)
Section EOnce.
  Variable A : Type.
  Variable same : A -> A -> bool.

  Lemma interleaving_filter_length : forall X (f : X -> bool) (progs : list (list X)) merged,
    interleaving progs merged ->
    length (filter f merged) = length (filter f (concat progs)).
  Proof.
    intros X f progs merged HI. induction HI as [progs Hall | pre x p post merged HI IH].
    - now rewrite (concat_all_nil _ progs Hall).
    - rewrite !concat_app in *. simpl in *. rewrite !filter_app, !app_length in *. simpl.
      destruct (f x); simpl; rewrite !filter_app, !app_length in *; lia.
  Qed.

  Lemma interleaving_forallb : forall X (g : X -> bool) (progs : list (list X)) merged,
    interleaving progs merged ->
    Forall (fun p => forallb g p = true) progs -> forallb g merged = true.
  Proof.
    intros X g progs merged HI. induction HI as [progs Hall | pre x p post merged HI IH]; intros HF.
    - reflexivity.
    - apply Forall_app in HF as [HFpre HFp]. inversion HFp as [|? ? Hxp HFpost]; subst.
      simpl in Hxp. apply andb_true_iff in Hxp as [Hx Hp]. simpl. rewrite Hx. apply IH.
      apply Forall_app; split; [assumption|]. constructor; assumption.
  Qed.

  Definition is_eonce_of (e : N) (P : A -> bool) (o : eop A) : bool :=
    match o with EOnce e' a => N.eqb e' e && P a | _ => false end.
  Definition is_eon_of (e : N) (P : A -> bool) (o : eop A) : bool :=
    match o with EOn e' a => N.eqb e' e && P a | _ => false end.

  Lemma omap_tr_once_count : forall e P (ops : list (eop A)),
    length (filter (is_once_of P) (omap (tr A e) ops)) = length (filter (is_eonce_of e P) ops).
  Proof.
    intros e P ops; induction ops as [|o ops IH]; simpl; [reflexivity|].
    destruct o as [e' a|e' a|e' hs| |e']; simpl; try (destruct (N.eqb e' e); simpl);
      try exact IH; try (destruct (P a); simpl; now rewrite IH).
  Qed.

  Lemma omap_tr_no_on : forall e P (ops : list (eop A)),
    forallb (fun o => negb (is_eon_of e P o)) ops = true ->
    forallb (fun o => negb (is_on_or_sub_of P o)) (omap (tr A e) ops) = true.
  Proof.
    intros e P ops; induction ops as [|o ops IH]; simpl; [reflexivity|]. intros H.
    apply andb_true_iff in H as [H1 H2]. specialize (IH H2).
    destruct o as [e' a|e' a|e' hs| |e']; simpl in *; try (destruct (N.eqb e' e); simpl in * );
      try exact IH; try (rewrite IH; now rewrite ?H1).
  Qed.

  Theorem event_once_at_most_once : forall e P (progs : list (list (eop A))) merged,
    interleaving progs merged ->
    Forall (fun p => forallb (fun o => negb (is_eon_of e P o)) p = true) progs ->
    length (filter P (concat (eouts_e A same e merged)))
    <= length (filter (is_eonce_of e P) (concat progs)).
  Proof.
    intros e P progs merged HI HF.
    rewrite event_as_store.
    rewrite <- (interleaving_filter_length _ (is_eonce_of e P) progs merged HI).
    rewrite <- omap_tr_once_count.
    apply (once_at_most_once A same P).
    apply omap_tr_no_on. eapply interleaving_forallb; eassumption.
  Qed.
End EOnce.
