(** The registry hypothesis of the C01 composition ([get_all_spec]) discharged with C18's model of
    store.go's event registry (Sio/HandlerStore.v): after registering a handler table with
    OnEvent, one call each, an occurrence of event [n] runs exactly the handlers registered for
    [n], once each, in registration order - i.e. [filter (name = n) table].  Event names are [N]
    here (the registry model's key type). *)
From Coq Require Import List Bool Arith Lia Permutation NArith.
Import ListNotations.
From SioV Require Import Base.GoSem Sio.HandlerStore Sio.HandlerStoreProofs.
From SioV Require Import Sio.EndToEnd.

Section Registry.
  Variable same : handler N -> handler N -> bool.   (* the identity test Off uses; irrelevant here *)

  Definition register_all (hs : list (handler N)) : list (eop (handler N)) :=
    map (fun h => EOn (hname N h) h) hs.

  (** the store after the registrations *)
  Definition store_of (hs : list (handler N)) : estore (handler N) :=
    fst (erun (handler N) same (@eempty (handler N)) (register_all hs)).

  (** what an occurrence of [n] runs (eventHandlerStore.getAll) *)
  Definition store_get_all (hs : list (handler N)) (n : N) : list (handler N) :=
    match snd (estep (handler N) same (store_of hs) (EFire n)) with
    | Some (_, l) => l
    | None => []
    end.

  Lemma erun_register : forall hs s n,
    let s' := fst (erun (handler N) same s (register_all hs)) in
    eget (handler N) n (events s') =
      eget (handler N) n (events s) ++ filter (fun h => N.eqb (hname N h) n) hs
    /\ eventsOnce s' = eventsOnce s.
  Proof.
    induction hs as [|h hs IH]; intros s n; simpl.
    - now rewrite app_nil_r.
    - destruct (erun (handler N) same
                  (@mkEStore (handler N)
                     (eset (handler N) (hname N h) (eget (handler N) (hname N h) (events s) ++ [h]) (events s))
                     (eventsOnce s)) (register_all hs)) as [s2 outs] eqn:E.
      simpl. specialize (IH (@mkEStore (handler N)
                     (eset (handler N) (hname N h) (eget (handler N) (hname N h) (events s) ++ [h]) (events s))
                     (eventsOnce s)) n). rewrite E in IH. simpl in IH. destruct IH as [IH1 IH2].
      split; [|exact IH2]. rewrite IH1.
      destruct (N.eqb (hname N h) n) eqn:En.
      + apply N.eqb_eq in En. subst n. rewrite eget_eset_same, <- app_assoc. reflexivity.
      + rewrite eget_eset_other by exact En. reflexivity.
  Qed.

  Theorem store_get_all_spec : forall hs n,
    store_get_all hs n = filter (fun h => N.eqb (hname N h) n) hs.
  Proof.
    intros hs n. unfold store_get_all, store_of. simpl.
    destruct (erun_register hs (@eempty (handler N)) n) as [H1 H2]. simpl in H1, H2.
    rewrite H1, H2. simpl. apply app_nil_r.
  Qed.
End Registry.
