(** The heap-level event registry (HandlerStoreHeap.v) refines the value-level one
    (HandlerStore.v): read through [vals], its two maps are the model's two association lists,
    step by step - so the snapshot an occurrence takes is exactly what the specification by
    history says the occurrence must run. *)
From SioV Require Import Base.GoSem Sio.HandlerStore Sio.HandlerStoreProofs Sio.HandlerStoreHeap
  Sio.HandlerStoreHeapProofs.

Section Sim.
  Variable A : Type.
  Variable same : A -> A -> bool.
  Notation mem := (mem A).
  Notation arr := (arr A).
  Notation vals := (vals A).
  Notation contents := (contents A).
  Notation hstate := (hstate A).

  Definition abs_map (m : mem) (h : hmap) : emap A := map (fun kv => (fst kv, vals m (snd kv))) h.
  Definition abs (st : hstate) : estore A :=
    mkEStore (abs_map (hmem A st) (hev A st)) (abs_map (hmem A st) (hon A st)).

  (** a stored slice is well formed: inside memory, within capacity, no nil cell in view *)
  Definition wf_slice (m : mem) (s : slice) : Prop :=
    sid s < length m /\ slen s <= cap A m s /\ contents m s = map Some (vals m s).
  Definition sids (h : hmap) : list nat := map (fun kv => sid (snd kv)) h.
  Definition WF (st : hstate) : Prop :=
    (forall kv, In kv (hev A st ++ hon A st) -> wf_slice (hmem A st) (snd kv))
    /\ NoDup (sids (hev A st) ++ sids (hon A st)).

  Lemma somes_map_Some : forall l : list A, somes A (map Some l) = l.
  Proof. induction l; simpl; congruence. Qed.
  Lemma somes_app : forall l1 l2 : list (cell A), somes A (l1 ++ l2) = somes A l1 ++ somes A l2.
  Proof. induction l1 as [|[a|] l1 IH]; intros; simpl; auto. now rewrite IH. Qed.

  Lemma efind_abs : forall m e h,
    efind A e (abs_map m h) = match hfind e h with Some s => Some (vals m s) | None => None end.
  Proof.
    intros m e h; induction h as [|[k v] h IH]; simpl; [reflexivity|].
    destruct (N.eqb k e); [reflexivity|exact IH].
  Qed.
  Lemma abs_hdel : forall m e h, abs_map m (hdel e h) = edel A e (abs_map m h).
  Proof.
    intros m e h; induction h as [|[k v] h IH]; simpl; [reflexivity|].
    destruct (N.eqb k e); simpl; [exact IH|now rewrite IH].
  Qed.
  Lemma abs_hset : forall m e s h, abs_map m (hset e s h) = eset A e (vals m s) (abs_map m h).
  Proof. intros. unfold hset, eset. simpl. now rewrite abs_hdel. Qed.

  Lemma vals_frame : forall (m m' : mem) s, arr m' (sid s) = arr m (sid s) -> vals m' s = vals m s.
  Proof. intros m m' s H. unfold HandlerStoreHeap.vals, HandlerStoreHeap.contents. now rewrite H. Qed.

  Lemma abs_frame : forall (m m' : mem) h,
    (forall kv, In kv h -> arr m' (sid (snd kv)) = arr m (sid (snd kv))) -> abs_map m' h = abs_map m h.
  Proof.
    intros m m' h H. unfold abs_map. apply map_ext_in. intros kv Hin. f_equal. apply vals_frame. now apply H.
  Qed.

  Lemma wf_frame : forall (m m' : mem) s, length m <= length m' ->
    arr m' (sid s) = arr m (sid s) -> wf_slice m s -> wf_slice m' s.
  Proof.
    intros m m' s L H (W1 & W2 & W3). unfold wf_slice, HandlerStoreHeap.cap, HandlerStoreHeap.contents, HandlerStoreHeap.vals, HandlerStoreHeap.contents in *.
    rewrite H. repeat split; auto; lia.
  Qed.

  (** what go_append does to a well-formed slice *)
  Lemma go_append_wf : forall (m : mem) s a m' s',
    go_append A m s a = (m', s') -> wf_slice m s ->
    wf_slice m' s' /\ vals m' s' = vals m s ++ [a].
  Proof.
    intros m s a m' s' H (W1 & W2 & W3).
    destruct (go_append_contents A _ _ _ _ _ H W1 W2) as (C & K & I).
    assert (V : vals m' s' = vals m s ++ [a]).
    { unfold HandlerStoreHeap.vals. rewrite C, somes_app. reflexivity. }
    split; [|assumption]. repeat split; try assumption.
    rewrite C, V, W3, map_app. unfold HandlerStoreHeap.vals. rewrite W3, somes_map_Some. reflexivity.
  Qed.

  Lemma append_all_wf : forall l (m : mem) s m' s',
    append_all A m s l = (m', s') -> wf_slice m s ->
    wf_slice m' s' /\ vals m' s' = vals m s ++ l.
  Proof.
    induction l as [|a l IH]; intros m s m' s' H W; simpl in H.
    - inversion H; subst. now rewrite app_nil_r.
    - destruct (go_append A m s a) as [m1 s1] eqn:E.
      destruct (go_append_wf _ _ _ _ _ E W) as (W1 & V1).
      destruct (IH _ _ _ _ H W1) as (W2 & V2). split; [assumption|].
      now rewrite V2, V1, <- app_assoc.
  Qed.

  (** make + append_all: a new well-formed slice showing [l]; old arrays untouched *)
  Lemma build_wf : forall (m : mem) n l m1 v0 m2 v,
    go_make A m n = (m1, v0) -> append_all A m1 v0 l = (m2, v) ->
    wf_slice m2 v /\ vals m2 v = l /\ length m <= sid v /\ length m <= length m2
    /\ (forall i, i < length m -> arr m2 i = arr m i).
  Proof.
    intros m n l m1 v0 m2 v HM HA.
    destruct (go_make_spec A _ _ _ _ HM) as (L1 & I0 & N0 & C0 & F0).
    assert (W0 : wf_slice m1 v0).
    { unfold wf_slice, HandlerStoreHeap.contents, HandlerStoreHeap.vals, HandlerStoreHeap.contents.
      rewrite N0. simpl. repeat split; lia. }
    destruct (append_all_wf _ _ _ _ _ HA W0) as (W2 & V2).
    destruct (append_all_frame A _ _ _ _ _ (length m) HA ltac:(lia)) as (L2 & F2 & S2 & _).
    split; [assumption|]. split.
    - rewrite V2. unfold HandlerStoreHeap.vals, HandlerStoreHeap.contents. now rewrite N0.
    - split; [destruct S2 as [E | ?]; [rewrite E|]; lia|]. split; [lia|].
      intros i Hi. rewrite F2; [now apply F0|assumption|lia].
  Qed.

  Lemma hfind_in_kv : forall e (h : hmap) s, hfind e h = Some s -> In (e, s) h.
  Proof.
    intros e h s; induction h as [|[k v] h IH]; simpl; [discriminate|].
    destruct (N.eqb k e) eqn:E; intros H.
    - inversion H; subst. apply N.eqb_eq in E; subst. now left.
    - right; auto.
  Qed.

  Lemma in_hdel_in : forall e (h : hmap) kv, In kv (hdel e h) -> In kv h.
  Proof. intros e h kv H. unfold hdel in H. now apply filter_In in H as [H _]. Qed.

  Lemma in_sids : forall (h : hmap) kv, In kv h -> In (sid (snd kv)) (sids h).
  Proof. intros h kv H. unfold sids. apply in_map_iff. now exists kv. Qed.

  Lemma nodup_hdel_other : forall e (h : hmap) s, NoDup (sids h) -> hfind e h = Some s ->
    forall kv, In kv (hdel e h) -> sid (snd kv) <> sid s.
  Proof.
    intros e h s; induction h as [|[k v] h IH]; simpl; intros ND HF kv Hin; [discriminate|].
    inversion ND as [|? ? Hnotin ND']; subst.
    destruct (N.eqb k e) eqn:E; simpl in Hin.
    - inversion HF; subst. intros Heq. apply Hnotin. rewrite <- Heq.
      apply in_sids. now apply in_hdel_in in Hin.
    - destruct Hin as [<- | Hin]; simpl.
      + intros Heq. apply Hnotin. rewrite Heq. apply (in_sids h (e, s)). now apply hfind_in_kv.
      + now apply IH.
  Qed.

  Lemma nodup_sub : forall e (h : hmap) (o : list nat), NoDup (sids h ++ o) -> NoDup (sids (hdel e h) ++ o).
  Proof.
    intros e h o; induction h as [|[k v] h IH]; simpl; intros ND; [assumption|].
    inversion ND as [|? ? Hnotin ND']; subst.
    destruct (N.eqb k e); simpl; [auto|]. constructor; [|auto].
    intros Hin. apply Hnotin. apply in_app_or in Hin as [Hin|Hin]; apply in_or_app; [left|now right].
    unfold sids in *. apply in_map_iff in Hin as (kv & E & Hkv). apply in_map_iff. exists kv. split; [assumption|].
    now apply in_hdel_in in Hkv.
  Qed.

  Lemma nodup_app_l : forall (l o : list nat), NoDup (l ++ o) -> NoDup l.
  Proof.
    induction l as [|x l IH]; simpl; intros o ND; [constructor|].
    inversion ND; subst. constructor; [|eauto]. intros Hc. apply H1. apply in_or_app. now left.
  Qed.
  Lemma nodup_app_disj : forall (l o : list nat) x, NoDup (l ++ o) -> In x l -> In x o -> False.
  Proof.
    induction l as [|y l IH]; simpl; intros o x ND Hl Ho; [contradiction|].
    inversion ND; subst. destruct Hl as [-> | Hl]; [apply H1; apply in_or_app; now right|eauto].
  Qed.

  (** the facts one map update has to deliver; [o] are the array ids of the other map *)
  Definition upd_ok (m m' : mem) (h h' : hmap) (o : list nat) : Prop :=
    (forall kv, In kv h' -> wf_slice m' (snd kv))
    /\ NoDup (sids h' ++ o)
    /\ length m <= length m'
    /\ (forall i, In i o -> arr m' i = arr m i).

  Lemma h_on_sim : forall (m : mem) h e a m' h' o,
    h_on A m h e a = (m', h') ->
    (forall kv, In kv h -> wf_slice m (snd kv)) -> NoDup (sids h ++ o) ->
    (forall i, In i o -> i < length m) ->
    abs_map m' h' = eset A e (eget A e (abs_map m h) ++ [a]) (abs_map m h)
    /\ upd_ok m m' h h' o.
  Proof.
    intros m h e a m' h' o H Hwf ND Ho. unfold h_on in H.
    unfold eget. rewrite efind_abs. destruct (hfind e h) as [s|] eqn:F.
    - destruct (go_append A m s a) as [m1 s1] eqn:E. inversion H; subst; clear H.
      pose proof (hfind_in_kv _ _ _ F) as Hin. pose proof (Hwf _ Hin) as Ws. simpl in Ws.
      destruct (go_append_wf _ _ _ _ _ E Ws) as (W1 & V1).
      destruct (go_append_frame A _ _ _ _ _ E) as (L & Fr & S & _ & _).
      assert (NDh : NoDup (sids h)) by (now apply nodup_app_l in ND).
      pose proof (nodup_hdel_other _ _ _ NDh F) as Hother.
      assert (Hunch : forall kv, In kv (hdel e h) -> arr m' (sid (snd kv)) = arr m (sid (snd kv))).
      { intros kv Hkv. apply Fr; [|now apply Hother]. destruct (Hwf _ (in_hdel_in _ _ _ Hkv)) as (W & _). exact W. }
      split.
      + rewrite abs_hset, V1. unfold eset. f_equal. rewrite <- !abs_hdel. now apply abs_frame.
      + split; [|split; [|split]].
        * intros kv [<- | Hkv]; [exact W1|]. apply (wf_frame m); [assumption|now apply Hunch|].
          apply Hwf. now apply in_hdel_in in Hkv.
        * simpl. constructor; [|now apply nodup_sub].
          intros Hc. destruct S as [S | S]; rewrite S in Hc.
          -- apply in_app_or in Hc as [Hc | Hc].
             ++ unfold sids in Hc. apply in_map_iff in Hc as (kv & Ekv & Hkv). now apply (Hother kv Hkv).
             ++ apply (nodup_app_disj _ _ _ ND (in_sids h (e, s) Hin) Hc).
          -- apply in_app_or in Hc as [Hc | Hc].
             ++ unfold sids in Hc. apply in_map_iff in Hc as (kv & Ekv & Hkv).
                destruct (Hwf _ (in_hdel_in _ _ _ Hkv)) as (W & _). lia.
             ++ specialize (Ho _ Hc). lia.
        * assumption.
        * intros i Hi. apply Fr; [now apply Ho|]. intros ->.
          apply (nodup_app_disj _ _ _ ND (in_sids h (e, s) Hin) Hi).
    - unfold alloc in H. inversion H; subst; clear H.
      assert (Hunch : forall i, i < length m -> arr (m ++ [[Some a]]) i = arr m i).
      { intros i Hi. unfold HandlerStoreHeap.arr. now rewrite app_nth1. }
      assert (Wn : wf_slice (m ++ [[Some a]]) (mkS (length m) 1)).
      { unfold wf_slice, HandlerStoreHeap.cap, HandlerStoreHeap.contents, HandlerStoreHeap.vals, HandlerStoreHeap.contents, HandlerStoreHeap.arr.
        simpl. rewrite app_nth2 by lia. rewrite Nat.sub_diag. simpl. rewrite app_length. simpl. repeat split; lia. }
      split.
      + rewrite abs_hset. unfold eset. f_equal.
        * f_equal. unfold HandlerStoreHeap.vals, HandlerStoreHeap.contents, HandlerStoreHeap.arr. simpl.
          rewrite app_nth2 by lia. now rewrite Nat.sub_diag.
        * rewrite <- !abs_hdel. apply abs_frame. intros kv Hkv. apply Hunch.
          destruct (Hwf _ (in_hdel_in _ _ _ Hkv)) as (W & _). exact W.
      + split; [|split; [|split]].
        * intros kv [<- | Hkv]; [exact Wn|]. apply (wf_frame m); [rewrite app_length; lia| |].
          -- apply Hunch. destruct (Hwf _ (in_hdel_in _ _ _ Hkv)) as (W & _). exact W.
          -- apply Hwf. now apply in_hdel_in in Hkv.
        * simpl. constructor; [|now apply nodup_sub].
          intros Hc. apply in_app_or in Hc as [Hc | Hc].
          -- unfold sids in Hc. apply in_map_iff in Hc as (kv & Ekv & Hkv).
             destruct (Hwf _ (in_hdel_in _ _ _ Hkv)) as (W & _). lia.
          -- specialize (Ho _ Hc). lia.
        * rewrite app_length; lia.
        * intros i Hi. apply Hunch. now apply Ho.
  Qed.

  Lemma upd_ok_frame_all : forall (m m' : mem) (h : hmap) e (o : list nat),
    length m <= length m' -> (forall i, i < length m -> arr m' i = arr m i) ->
    (forall kv, In kv h -> wf_slice m (snd kv)) -> NoDup (sids h ++ o) ->
    (forall i, In i o -> i < length m) ->
    abs_map m' (hdel e h) = edel A e (abs_map m h) /\ upd_ok m m' h (hdel e h) o.
  Proof.
    intros m m' h e o L F Hwf ND Ho. split.
    - rewrite <- abs_hdel. apply abs_frame. intros kv Hkv. apply F.
      destruct (Hwf _ (in_hdel_in _ _ _ Hkv)) as (W & _). exact W.
    - split; [|split; [|split]].
      + intros kv Hkv. apply in_hdel_in in Hkv. apply (wf_frame m); [assumption| |now apply Hwf].
        apply F. destruct (Hwf _ Hkv) as (W & _). exact W.
      + now apply nodup_sub.
      + assumption.
      + intros i Hi. apply F. now apply Ho.
  Qed.

  Lemma h_off_in_sim : forall (m : mem) h e hs m' h' o,
    h_off_in A same m h e hs = (m', h') ->
    (forall kv, In kv h -> wf_slice m (snd kv)) -> NoDup (sids h ++ o) ->
    (forall i, In i o -> i < length m) ->
    abs_map m' h' = eoff_in A same e hs (abs_map m h)
    /\ upd_ok m m' h h' o
    /\ (forall i, i < length m -> arr m' i = arr m i).
  Proof.
    intros m h e hs m' h' o H Hwf ND Ho. unfold h_off_in in H. unfold eoff_in. rewrite efind_abs.
    destruct (hfind e h) as [s|] eqn:F.
    - unfold h_remove in H.
      destruct (go_make A m (slen s)) as [m1 k0] eqn:EM.
      destruct (append_all A m1 k0 (remove A same hs (vals m s))) as [m2 k] eqn:EA.
      inversion H; subst; clear H.
      destruct (build_wf _ _ _ _ _ _ _ EM EA) as (Wk & Vk & Ik & L & Fr).
      destruct (go_make_spec A _ _ _ _ EM) as (L1 & I0 & N0 & _ & _).
      destruct (append_all_frame A _ _ _ _ _ (length m) EA ltac:(lia)) as (_ & _ & _ & Nk).
      rewrite N0 in Nk. simpl in Nk.
      destruct (upd_ok_frame_all m m' h e o L Fr Hwf ND Ho) as (Adel & (U1 & U2 & U3 & U4)).
      destruct (remove A same hs (vals m s)) as [|x keep] eqn:ER.
      + rewrite Nk. simpl. split; [assumption|]. split; [|assumption]. exact (conj U1 (conj U2 (conj U3 U4))).
      + rewrite Nk. cbn [length Nat.eqb]. split; [|split; [|assumption]].
        * rewrite abs_hset, Vk. unfold eset. now rewrite <- Adel, abs_hdel.
        * split; [|split; [|split]]; try assumption.
          -- intros kv [<- | Hkv]; [exact Wk|now apply U1].
          -- simpl. constructor; [|assumption].
             intros Hc. apply in_app_or in Hc as [Hc | Hc].
             ++ unfold sids in Hc. apply in_map_iff in Hc as (kv & Ekv & Hkv).
                destruct (Hwf _ (in_hdel_in _ _ _ Hkv)) as (W & _). lia.
             ++ specialize (Ho _ Hc). lia.
    - inversion H; subst; clear H. split; [reflexivity|]. split; [|auto].
      split; [assumption|]. split; [assumption|]. split; [lia|auto].
  Qed.

  (** *** the simulation, step by step *)
  Lemma wf_parts : forall st, WF st ->
    (forall kv, In kv (hev A st) -> wf_slice (hmem A st) (snd kv))
    /\ (forall kv, In kv (hon A st) -> wf_slice (hmem A st) (snd kv))
    /\ NoDup (sids (hev A st) ++ sids (hon A st)) /\ NoDup (sids (hon A st) ++ sids (hev A st))
    /\ (forall i, In i (sids (hev A st)) -> i < length (hmem A st))
    /\ (forall i, In i (sids (hon A st)) -> i < length (hmem A st)).
  Proof.
    intros st (W & ND).
    assert (NDs : NoDup (sids (hon A st) ++ sids (hev A st))).
    { revert ND. generalize (sids (hev A st)) (sids (hon A st)). intros l1 l2 ND.
      induction l2 as [|x l2 IH]; simpl; [now rewrite app_nil_r in ND|].
      apply NoDup_remove in ND as (ND1 & ND2). constructor; [|auto].
      intros Hc. apply ND2. apply in_app_or in Hc as [Hc|Hc]; apply in_or_app; [now right|now left]. }
    split; [|split; [|split; [|split; [|split]]]]; try assumption.
    - intros kv0 H. apply W. apply in_or_app. now left.
    - intros kv0 H. apply W. apply in_or_app. now right.
    - intros i H. unfold sids in H. apply in_map_iff in H as (kv0 & <- & Hkv).
      assert (H : In kv0 (hev A st ++ hon A st)) by (apply in_or_app; now left). destruct (W _ H) as (X & _). exact X.
    - intros i H. unfold sids in H. apply in_map_iff in H as (kv0 & <- & Hkv).
      assert (H : In kv0 (hev A st ++ hon A st)) by (apply in_or_app; now right). destruct (W _ H) as (X & _). exact X.
  Qed.

  Lemma nodup_swap : forall (l1 l2 : list nat), NoDup (l1 ++ l2) -> NoDup (l2 ++ l1).
  Proof.
    intros l1 l2 ND. induction l2 as [|x l2 IH]; simpl; [now rewrite app_nil_r in ND|].
    apply NoDup_remove in ND as (ND1 & ND2). constructor; [|auto].
    intros Hc. apply ND2. apply in_app_or in Hc as [Hc|Hc]; apply in_or_app; [now right|now left].
  Qed.

  Lemma other_map_frame : forall (m m' : mem) (h : hmap),
    length m <= length m' -> (forall i, In i (sids h) -> arr m' i = arr m i) ->
    (forall kv, In kv h -> wf_slice m (snd kv)) ->
    (forall kv, In kv h -> wf_slice m' (snd kv)) /\ abs_map m' h = abs_map m h.
  Proof.
    intros m m' h L F W. split.
    - intros kv Hkv. apply (wf_frame m); [assumption| |now apply W]. apply F. now apply in_sids.
    - apply abs_frame. intros kv Hkv. apply F. now apply in_sids.
  Qed.

  Lemma wf_of_parts : forall m ev on d,
    (forall kv, In kv ev -> wf_slice m (snd kv)) -> (forall kv, In kv on -> wf_slice m (snd kv)) ->
    NoDup (sids ev ++ sids on) -> WF (mkH A m ev on d).
  Proof.
    intros m ev on d W1 W2 ND. split; simpl; [|assumption].
    intros kv H. apply in_app_or in H as [H|H]; auto.
  Qed.

  (** a registry call (or the getAll of an occurrence) on the heap is the same call on the values *)
  Theorem sim_op : forall st o, WF st ->
    WF (fst (hstep A same st (SOp o)))
    /\ abs (fst (hstep A same st (SOp o))) = fst (estep A same (abs st) o).
  Proof.
    intros st o HW. destruct (wf_parts st HW) as (Wev & Won & ND & NDs & Bev & Bon).
    destruct o as [e a|e a|e hs| |e]; cbn [hstep estep].
    - destruct (h_on A (hmem A st) (hev A st) e a) as [m' ev'] eqn:E. simpl.
      destruct (h_on_sim _ _ _ _ _ _ _ E Wev ND Bon) as (Ab & (U1 & U2 & U3 & U4)).
      destruct (other_map_frame _ _ _ U3 U4 Won) as (Won' & Aon).
      split; [now apply wf_of_parts|]. unfold abs; simpl. now rewrite Ab, Aon.
    - destruct (h_on A (hmem A st) (hon A st) e a) as [m' on'] eqn:E. simpl.
      destruct (h_on_sim _ _ _ _ _ _ _ E Won NDs Bev) as (Ab & (U1 & U2 & U3 & U4)).
      destruct (other_map_frame _ _ _ U3 U4 Wev) as (Wev' & Aev).
      split; [apply wf_of_parts; try assumption; now apply nodup_swap|]. unfold abs; simpl. now rewrite Ab, Aev.
    - destruct hs as [|h hs].
      + simpl. split.
        * apply wf_of_parts.
          -- intros kv H. apply Wev. now apply in_hdel_in in H.
          -- intros kv H. apply Won. now apply in_hdel_in in H.
          -- apply nodup_swap, nodup_sub, nodup_swap, nodup_sub. assumption.
        * unfold abs; simpl. now rewrite !abs_hdel.
      + destruct (h_off_in A same (hmem A st) (hev A st) e (h :: hs)) as [m1 ev'] eqn:E1.
        destruct (h_off_in A same m1 (hon A st) e (h :: hs)) as [m2 on'] eqn:E2. simpl.
        destruct (h_off_in_sim _ _ _ _ _ _ _ E1 Wev ND Bon) as (Ab1 & (U1 & U2 & U3 & U4) & F1).
        destruct (other_map_frame _ _ _ U3 U4 Won) as (Won1 & Aon1).
        assert (Bev1 : forall i, In i (sids ev') -> i < length m1).
        { intros i H. unfold sids in H. apply in_map_iff in H as (kv & <- & Hkv). destruct (U1 _ Hkv) as (X & _). exact X. }
        destruct (h_off_in_sim _ _ _ _ _ _ _ E2 Won1 (nodup_swap _ _ U2) Bev1) as (Ab2 & (V1 & V2 & V3 & V4) & F2).
        destruct (other_map_frame _ _ _ V3 V4 U1) as (Wev2 & Aev2).
        split; [apply wf_of_parts; try assumption; now apply nodup_swap|].
        unfold abs; simpl. now rewrite Ab2, Aon1, Aev2, Ab1.
    - simpl. split; [apply wf_of_parts; simpl; try (intros ? []); constructor|reflexivity].
    - cbv zeta.
      set (snap := hget_vals A (hmem A st) (hev A st) e ++ hget_vals A (hmem A st) (hon A st) e).
      destruct (go_make A (hmem A st) (length snap)) as [m1 v0] eqn:EM.
      destruct (append_all A m1 v0 snap) as [m2 v] eqn:EA. simpl.
      destruct (build_wf _ _ _ _ _ _ _ EM EA) as (_ & _ & _ & L & Fr).
      assert (Fev : forall i, In i (sids (hev A st)) -> arr m2 i = arr (hmem A st) i) by (intros; apply Fr; auto).
      assert (Fon : forall i, In i (sids (hon A st)) -> arr m2 i = arr (hmem A st) i) by (intros; apply Fr; auto).
      destruct (other_map_frame _ _ _ L Fev Wev) as (Wev' & Aev).
      destruct (other_map_frame _ _ _ L Fon Won) as (Won' & Aon).
      split.
      + apply wf_of_parts; [assumption| |].
        * intros kv H. apply Won'. now apply in_hdel_in in H.
        * apply nodup_swap, nodup_sub, nodup_swap. assumption.
      + unfold abs; simpl. rewrite abs_hdel. now rewrite Aev, Aon.
  Qed.

  (** the snapshot an occurrence takes is what the value-level registry returns for it *)
  Theorem snapshot_is_model_output : forall st e,
    hget_vals A (hmem A st) (hev A st) e ++ hget_vals A (hmem A st) (hon A st) e
    = eget A e (events (abs st)) ++ eget A e (eventsOnce (abs st)).
  Proof.
    intros st e. unfold hget_vals, eget, abs; simpl. rewrite !efind_abs.
    destruct (hfind e (hev A st)); destruct (hfind e (hon A st)); reflexivity.
  Qed.

  (** *** whole executions *)
  Definition ehist (xs : list (hstepk A)) : list (eop A) :=
    flat_map (fun x => match x with SOp o => [o] | SBegin e => [EFire e] | SNext _ => [] end) xs.
  Definition snaps (st : hstate) : list (list A) := map (dsnap A) (hdisp A st).
  Definition eout_list (o : option (N * list A)) : list (list A) :=
    match o with Some x => [snd x] | None => [] end.

  Lemma map_dsnap_set_nth : forall (l : list (disp A)) k d d',
    nth_error l k = Some d -> dsnap A d' = dsnap A d ->
    map (dsnap A) (set_nth l k d') = map (dsnap A) l.
  Proof.
    induction l as [|y l IH]; intros [|k] d d' H E; simpl in *; try discriminate.
    - inversion H; subst. now rewrite E.
    - f_equal. eapply IH; eassumption.
  Qed.

  Lemma sim_step_snaps : forall st o, WF st ->
    snaps (fst (hstep A same st (SOp o))) = snaps st ++ eout_list (snd (estep A same (abs st) o)).
  Proof.
    intros st o HW. destruct o as [e a|e a|e hs| |e]; cbn [hstep estep].
    - destruct (h_on A (hmem A st) (hev A st) e a). simpl. now rewrite app_nil_r.
    - destruct (h_on A (hmem A st) (hon A st) e a). simpl. now rewrite app_nil_r.
    - destruct hs as [|h hs]; [simpl; now rewrite app_nil_r|].
      destruct (h_off_in A same (hmem A st) (hev A st) e (h :: hs)) as [m1 ev'].
      destruct (h_off_in A same m1 (hon A st) e (h :: hs)). simpl. now rewrite app_nil_r.
    - simpl. now rewrite app_nil_r.
    - cbv zeta. destruct (go_make A _ _) as [m1 v0]. destruct (append_all A m1 v0 _) as [m2 v].
      unfold snaps. simpl. rewrite map_app. simpl. now rewrite snapshot_is_model_output.
  Qed.

  Theorem sim_run : forall xs st, WF st ->
    WF (fst (hrun A same st xs))
    /\ abs (fst (hrun A same st xs)) = fst (erun A same (abs st) (ehist xs))
    /\ snaps (fst (hrun A same st xs)) = snaps st ++ map snd (snd (erun A same (abs st) (ehist xs))).
  Proof.
    induction xs as [|x xs IH]; intros st HW; simpl.
    - rewrite app_nil_r. auto.
    - assert (Hop : forall o, x = SOp o \/ (exists e, x = SBegin e /\ o = EFire e) ->
                WF (fst (hstep A same st x)) /\ abs (fst (hstep A same st x)) = fst (estep A same (abs st) o)
                /\ snaps (fst (hstep A same st x)) = snaps st ++ eout_list (snd (estep A same (abs st) o))).
      { intros o [-> | (e & -> & ->)].
        - destruct (sim_op st o HW). split; [assumption|]. split; [assumption|]. now apply sim_step_snaps.
        - change (hstep A same st (SBegin e)) with (hstep A same st (SOp (EFire e))).
          destruct (sim_op st (EFire e) HW). split; [assumption|]. split; [assumption|]. now apply sim_step_snaps. }
      destruct x as [o | e | k].
      + destruct (Hop o (or_introl eq_refl)) as (W1 & A1 & S1).
        destruct (hstep A same st (SOp o)) as [st1 out1] eqn:E1. simpl in W1, A1, S1.
        destruct (IH st1 W1) as (W2 & A2 & S2).
        destruct (hrun A same st1 xs) as [st2 outs2] eqn:E2. simpl in *.
        rewrite A1 in A2, S2. destruct (estep A same (abs st) o) as [es1 eo] eqn:EE. simpl in *.
        destruct (erun A same es1 (ehist xs)) as [es2 eos] eqn:E3. simpl in *.
        split; [assumption|]. split; [assumption|].
        rewrite S2, S1. destruct eo as [[e' l]|]; simpl; now rewrite <- app_assoc.
      + destruct (Hop (EFire e) (or_intror (ex_intro _ e (conj eq_refl eq_refl)))) as (W1 & A1 & S1).
        destruct (hstep A same st (SBegin e)) as [st1 out1] eqn:E1. simpl in W1, A1, S1.
        destruct (IH st1 W1) as (W2 & A2 & S2).
        destruct (hrun A same st1 xs) as [st2 outs2] eqn:E2. simpl in *.
        rewrite A1 in A2, S2. destruct (erun A same _ (ehist xs)) as [es2 eos] eqn:E3. simpl in *.
        split; [assumption|]. split; [assumption|]. rewrite S2, S1. simpl. now rewrite <- app_assoc.
      + (* a loop iteration touches neither memory nor the maps nor any snapshot *)
        assert (Hn : WF (fst (hstep A same st (SNext k))) /\ abs (fst (hstep A same st (SNext k))) = abs st
                     /\ snaps (fst (hstep A same st (SNext k))) = snaps st).
        { cbn [hstep]. destruct (nth_error (hdisp A st) k) as [d|] eqn:E; [|auto].
          destruct (Nat.ltb (didx A d) (slen (dview A d))); [|auto]. simpl.
          split; [destruct HW as (W & ND); split; assumption|]. split; [reflexivity|].
          unfold snaps; simpl. now apply (map_dsnap_set_nth _ _ d). }
        destruct Hn as (W1 & A1 & S1).
        destruct (hstep A same st (SNext k)) as [st1 out1] eqn:E1. simpl in W1, A1, S1.
        destruct (IH st1 W1) as (W2 & A2 & S2).
        destruct (hrun A same st1 xs) as [st2 outs2] eqn:E2. simpl in *.
        rewrite A1 in A2, S2. rewrite S1 in S2. auto.
  Qed.

  Lemma wf_empty : WF (hempty A).
  Proof. split; simpl; [intros ? []|constructor]. Qed.

  (** For every interleaving: the snapshots of the occurrences, in the order their getAll ran, are
      exactly what the specification by history prescribes for those occurrences. *)
  Theorem snapshots_are_spec : forall xs,
    snaps (fst (hrun A same (hempty A) xs)) = map snd (espec_outs A same (ehist xs)).
  Proof.
    intros xs. destruct (sim_run xs (hempty A) wf_empty) as (_ & _ & S). rewrite S. simpl.
    change (abs (hempty A)) with (@eempty A). fold (eouts A same (ehist xs)).
    now rewrite event_refines_spec_all.
  Qed.
End Sim.
