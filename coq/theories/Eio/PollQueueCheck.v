(** Executable correspondence and oracle for the forced-schedule runs of the REAL pollQueue
    (harness engine `queues -queue poll`), evaluated by vm_compute in coqc.

    A case is the number of consumers and, per harness op, the observation taken at quiescence:
    status of every consumer, the consumers whose poll returned during the op (in order), the
    queue length and the number of tokens pending in `ready`.

    [agree]: the model (Eio/PollQueue.v), driven by the same ops, can produce exactly these
    observations.  The model is non-deterministic (which consumer receives the token; token vs
    expired timer in a select), so a set of candidate model states is carried along and filtered
    by every observation; the case agrees iff the set never becomes empty.
    [oracle]: the property itself on the observations alone. *)
From Coq Require Import List NArith ZArith Bool Arith.
From SioV Require Import Base.Conc Base.ConcSim Eio.PollQueue.
Import ListNotations.

Inductive hop :=
| HS (c : nat) (short : bool)      (* consumer c calls poll (short: 1 ms poll timeout) *)
| HR (c : nat)                     (* release consumer c from the yield point *)
| HA (pkts : list N).              (* a producer calls add *)

Inductive hst := HIdle | HHeld | HBlk | HRet (pkts : list N).

(** statuses, consumers that returned during the op, queue length, len(ready) *)
Definition hobs := (list hst * list nat * N * N)%type.
Definition pcase := (nat * list (hop * hobs))%type.

(** Model state + the consumers the harness holds at the yield point. *)
Definition hstate := (pstate * list nat)%type.

Definition held (h : hstate) (c : nat) : bool := existsb (Nat.eqb c) (snd h).
Definition hold (h : hstate) (c : nat) : hstate := (fst h, c :: snd h).
Definition unhold (h : hstate) (c : nat) : hstate :=
  (fst h, filter (fun x => negb (Nat.eqb c x)) (snd h)).

Definition is_win (p : cpc) : bool := match p with CWin => true | _ => false end.

Definition apply_op (o : hop) (h : hstate) : hstate :=
  let s := fst h in
  match o with
  | HS c short =>
      match pstep (PStart c) s with
      | Some s' =>
          if is_win (p_pc s' c)
          then let s'' := if short then step_skip pstep s' (PTimerFire c) else s' in
               hold (s'', snd h) c
          else (s', snd h)
      | None => h
      end
  | HR c => if held h c then unhold h c else h
  | HA pkts => (step_skip pstep s (PAdd pkts), snd h)
  end.

(** One step of a consumer that is not held; a consumer that loops back to the yield point
    (woken, queue empty) is held again. *)
Definition succ_of (n : nat) (h : hstate) : list hstate :=
  flat_map (fun c =>
    if held h c then []
    else flat_map (fun l =>
           match pstep l (fst h) with
           | Some s' =>
               match l with
               | PGet _ => if is_win (p_pc s' c) then [hold (s', snd h) c] else [(s', snd h)]
               | _ => [(s', snd h)]
               end
           | None => []
           end) [PSelTok c; PSelTimeout c; PGet c]) (seq 0 n).

Definition b2n (b : bool) : N := if b then 1%N else 0%N.

Definition pc_key (p : cpc) : list N :=
  match p with
  | CIdle => [0%N] | CWin => [1%N] | CWoke => [2%N]
  | CDone r => 3%N :: N.of_nat (length r) :: r
  end.

Definition hkey (n : nat) (h : hstate) : list N :=
  let s := fst h in
  N.of_nat (length (p_q s)) :: p_q s ++ b2n (p_tok s) ::
  flat_map (fun c => pc_key (p_pc s c) ++ [b2n (p_fired s c); b2n (held h c)]) (seq 0 n).

Definition status (h : hstate) (c : nat) : hst :=
  match p_pc (fst h) c with
  | CIdle => HIdle
  | CDone r => HRet r
  | CWin => if held h c then HHeld else HBlk
  | CWoke => HBlk
  end.

Definition hst_eqb (a b : hst) : bool :=
  match a, b with
  | HIdle, HIdle | HHeld, HHeld | HBlk, HBlk => true
  | HRet x, HRet y => key_eqb x y
  | _, _ => false
  end.

Fixpoint sts_eqb (a b : list hst) : bool :=
  match a, b with
  | [], [] => true
  | x :: a', y :: b' => if hst_eqb x y then sts_eqb a' b' else false
  | _, _ => false
  end.

Definition matches (n : nat) (o : hobs) (h : hstate) : bool :=
  let '(sts, _, ql, rl) := o in
  sts_eqb (map (status h) (seq 0 n)) sts
  && N.eqb (N.of_nat (length (p_q (fst h)))) ql
  && N.eqb (b2n (p_tok (fst h))) rl.

Fixpoint replay (n : nat) (steps : list (hop * hobs)) (cands : list hstate) : bool :=
  match steps with
  | [] => negb (is_nil cands)
  | (o, ob) :: rest =>
      let after := quiesce (hkey n) (succ_of n) 12 (dedupe (hkey n) (map (apply_op o) cands)) [] in
      match filter (matches n ob) after with
      | [] => false
      | cands' => replay n rest cands'
      end
  end.

Definition agree (c : pcase) : bool :=
  let '(n, steps) := c in replay n steps [(pinit, [])].

(** * The property on the observations alone *)

Definition is_blk (s : hst) : bool := match s with HBlk => true | _ => false end.

Fixpoint prefix_eqb (a b : list N) : bool :=   (* a is a prefix of b *)
  match a, b with
  | [], _ => true
  | x :: a', y :: b' => if N.eqb x y then prefix_eqb a' b' else false
  | _, _ => false
  end.

Definition ret_of (sts : list hst) (c : nat) : list N :=
  match nth c sts HIdle with HRet r => r | _ => [] end.

(** Walk the steps: [shorts] = consumers whose current poll has the short timeout, [added] and
    [deliv] = packets added / returned so far, in order. *)
Fixpoint oracle_steps (steps : list (hop * hobs)) (shorts : list nat) (added deliv : list N) : bool :=
  match steps with
  | [] => true
  | (o, (sts, ev, ql, rl)) :: rest =>
      let shorts' := match o with
                     | HS c true => c :: shorts
                     | HS c false => filter (fun x => negb (Nat.eqb c x)) shorts
                     | _ => shorts end in
      let added' := match o with HA p => added ++ p | _ => added end in
      let deliv' := deliv ++ flat_map (ret_of sts) ev in
      (* no poll is blocked in its wait while packets are queued *)
      (N.eqb ql 0 || negb (existsb is_blk sts))
      (* a poll that answered empty: only by its (short) timeout, and the queue is empty *)
      && forallb (fun c => negb (is_nil (ret_of sts c))
                           || (N.eqb ql 0 && existsb (Nat.eqb c) shorts')) ev
      (* FIFO, nothing lost or duplicated *)
      && prefix_eqb deliv' added'
      && N.eqb (N.of_nat (length deliv') + ql) (N.of_nat (length added'))
      && oracle_steps rest shorts' added' deliv'
  end.

Definition oracle (c : pcase) : bool := oracle_steps (snd c) [] [] [].

(** Live rig: (answer delay in ms, bound in ms, HTTP status is 200, the body contains the packet). *)
Definition live_oracle (c : Z * Z * bool * bool) : bool :=
  let '(delay, bound, st200, has) := c in st200 && has && (delay <? bound)%Z.

(** Constructor-style builders for the generated case literals (much faster to elaborate than
    nested tuple notations). *)
Definition PO (sts : list hst) (ev : list nat) (q r : N) : hobs := (sts, ev, q, r).
Definition PS (o : hop) (ob : hobs) : hop * hobs := (o, ob).
Definition PC (n : nat) (l : list (hop * hobs)) : pcase := (n, l).
Arguments PO sts ev (q r)%N.
