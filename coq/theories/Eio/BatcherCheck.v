(** Executable comparison and oracle used by the C13 correspondence check (kernel evaluation). *)
From SioV Require Import Eio.Batcher.

(** A harness case: maxPayload, transport-is-polling, packets as (isBinary, dataLen), and what the
    implementation handed to transport.Send: per call, the indexes of the packets. *)
Definition bcase := (Z * bool * list (bool * N) * list (list N))%type.

Fixpoint mk_packets (i : N) (pk : list (bool * N)) : list packet :=
  match pk with
  | [] => []
  | (b, l) :: pk' => mkPacket b i (repeat 0%N (N.to_nat l)) :: mk_packets (N.succ i) pk'
  end.

Definition model_ids (c : bcase) : list (list N) :=
  let '(max, polling, pk, _) := c in
  map (map p_type) (write_writable max polling (mk_packets 0 pk)).

(** Correspondence: the model makes the same Send calls as the implementation. *)
Definition agree (c : bcase) : bool :=
  let '(_, _, _, ids) := c in
  list_eqb (list_eqb N.eqb) (model_ids c) ids.

(** Property oracle, evaluated on the implementation's observation alone. *)
Definition nth_packet (ps : list packet) (i : N) : option packet := nth_error ps (N.to_nat i).

Fixpoint opt_all {A} (l : list (option A)) : option (list A) :=
  match l with
  | [] => Some []
  | None :: _ => None
  | Some a :: l' => match opt_all l' with Some r => Some (a :: r) | None => None end
  end.

Definition oracle (c : bcase) : bool :=
  let '(max, polling, pk, ids) := c in
  let ps := mk_packets 0 pk in
  (* nothing dropped, duplicated, reordered *)
  list_eqb N.eqb (concat ids) (map p_type ps)
  && forallb (fun b => negb (Nat.eqb (length b) 0)) ids
  && (if (max >? 0)%Z && polling then
        forallb (fun b =>
          match opt_all (map (nth_packet ps) b) with
          | Some bp => (payload_len bp <=? max)%Z || Nat.eqb (length b) 1
          | None => false
          end) ids
      else true).
