(** Preservation of the upgrade invariant, label group A (see Eio/UpgradeInv.v). *)
From SioV Require Import Base.GoSem Base.Conc Eio.Upgrade Eio.UpgradeInv.
From Coq Require Import Lia.

Lemma inv_SSend n st st' : inv n st -> step SSend st = Some st' -> inv n st'.
Proof. intros I H. label_case. Qed.

Lemma inv_CSend n st st' : inv n st -> step CSend st = Some st' -> inv n st'.
Proof. intros I H. label_case. Qed.

Lemma inv_RespDeliver n st st' : inv n st -> step RespDeliver st = Some st' -> inv n st'.
Proof. intros I H. label_case. Qed.

Lemma inv_PostDeliver n i st st' : inv n st -> step (PostDeliver i) st = Some st' -> inv n st'.
Proof. intros I H. label_case. Qed.
