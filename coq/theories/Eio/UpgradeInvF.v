(** Preservation of the upgrade invariant, label group F (see Eio/UpgradeInv.v). *)
From SioV Require Import Base.GoSem Base.Conc Eio.Upgrade Eio.UpgradeInv.
From Coq Require Import Lia.

Lemma inv_Refuse n st st' : inv n st -> step Refuse st = Some st' -> inv n st'.
Proof. intros I H. label_case. Qed.

Lemma inv_SSeeCut n st st' : inv n st -> step SSeeCut st = Some st' -> inv n st'.
Proof. intros I H. label_case. Qed.

Lemma inv_CDial n st st' : inv n st -> step CDial st = Some st' -> inv n st'.
Proof. intros I H. label_case. Qed.

Lemma inv_SAccept n st st' : inv n st -> step SAccept st = Some st' -> inv n st'.
Proof. intros I H. label_case. Qed.

Lemma inv_CDialOk n st st' : inv n st -> step CDialOk st = Some st' -> inv n st'.
Proof. intros I H. label_case. Qed.

Lemma inv_CDialFail n st st' : inv n st -> step CDialFail st = Some st' -> inv n st'.
Proof. intros I H. label_case. Qed.

