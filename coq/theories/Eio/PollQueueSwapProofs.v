(** Proofs about Eio/PollQueueSwap.v: for the code as it is (Send holds the read lock across the
    transport write) no packet is ever left in a discarded transport's queue, over ALL schedules
    (any number of senders, any number of upgrades); the variant that releases the lock before
    the write is refuted. *)
From Coq Require Import List NArith Bool Arith Lia.
From SioV Require Import Base.Conc Eio.PollQueueSwap.
Import ListNotations.

Ltac wstep_inv H :=
  match type of H with
  | wstep ?b ?l ?s = Some ?s' =>
      destruct l; simpl in H;
      repeat match type of H with
             | context [match w_spc ?s ?c with _ => _ end] => destruct (w_spc s c) eqn:?
             | context [match w_upc ?s with _ => _ end] => destruct (w_upc s) eqn:?
             | context [if ?b then _ else _] => destruct b eqn:?
             end;
      try discriminate; inversion H; subst; clear H; simpl in *
  end.

Definition holds_lock (p : spc) : Prop := match p with SIdle => False | _ => True end.

Record swap_inv (s : wstate) : Prop := {
  i_excl : w_wr s = true -> w_holders s = [];
  i_up : w_upc s <> UIdle -> w_wr s = true;
  i_hold : forall i, holds_lock (w_spc s i) -> In i (w_holders s);
  i_cur : forall i t p, w_spc s i = SHave t p -> t = w_cur s;
  i_sw : forall old, w_upc s = USwapped old -> S old = w_cur s;
  i_q : forall t, w_queue s t <> [] -> t = w_cur s \/ w_upc s = USwapped t
}.

Lemma drop_holder_other i j l : In j l -> j <> i -> In j (drop_holder i l).
Proof.
  intros H N. unfold drop_holder. apply filter_In. split; [exact H|].
  apply negb_true_iff, Nat.eqb_neq. congruence.
Qed.

Lemma is_nil_true {A} (l : list A) : is_nil l = true -> l = [].
Proof. destruct l; simpl; congruence. Qed.

Lemma swap_inv_inductive : inductive (wstep true) (fun s => s = winit) swap_inv.
Proof.
  split.
  - intros s ->. constructor; simpl; try congruence; try contradiction.
  - intros s l s' [E U H C W Q] St.
    assert (NoHold : w_wr s = true -> forall i, w_spc s i = SIdle).
    { intros Wr i. destruct (w_spc s i) eqn:P; [reflexivity| |];
        (assert (HL : holds_lock (w_spc s i)) by (rewrite P; exact I));
        apply H in HL; rewrite (E Wr) in HL; contradiction. }
    wstep_inv St; constructor; simpl.
    (* WAcquire *)
    + congruence.
    + intros N. apply U in N. congruence.
    + intros j HL. destruct (Nat.eq_dec j i) as [->|D]; [now left|].
      rewrite upd_other in HL by exact D. right. now apply H.
    + intros j t p0 P. destruct (Nat.eq_dec j i) as [->|D].
      * rewrite upd_same in P. congruence.
      * rewrite upd_other in P by exact D. eapply C; eauto.
    + exact W.
    + exact Q.
    (* WAdd *)
    + exact E.
    + exact U.
    + intros j HL. destruct (Nat.eq_dec j i) as [->|D].
      * apply H. match goal with X : w_spc s i = SHave _ _ |- _ => rewrite X end. exact I.
      * rewrite upd_other in HL by exact D. now apply H.
    + intros j t0 p0 P. destruct (Nat.eq_dec j i) as [->|D].
      * rewrite upd_same in P. discriminate.
      * rewrite upd_other in P by exact D. eapply C; eauto.
    + exact W.
    + intros t0 NE. destruct (Nat.eq_dec t0 t) as [->|D]; [left; eapply C; eauto|].
      rewrite upd_other in NE by exact D. now apply Q.
    (* WRelease *)
    + intros Wr. specialize (NoHold Wr i). congruence.
    + exact U.
    + intros j HL. destruct (Nat.eq_dec j i) as [->|D].
      * rewrite upd_same in HL. contradiction.
      * rewrite upd_other in HL by exact D. apply drop_holder_other; [now apply H | exact D].
    + intros j t0 p0 P. destruct (Nat.eq_dec j i) as [->|D].
      * rewrite upd_same in P. discriminate.
      * rewrite upd_other in P by exact D. eapply C; eauto.
    + exact W.
    + exact Q.
    (* UAcquire *)
    + reflexivity.
    + reflexivity.
    + intros j HL. apply H in HL.
      match goal with HH : is_nil _ = true |- _ => apply is_nil_true in HH; rewrite HH in HL end. contradiction.
    + exact C.
    + discriminate.
    + intros t NE. destruct (Q t NE) as [->|X]; [now left | congruence].
    (* USwap *)
    + exact E.
    + intros _. apply U. congruence.
    + exact H.
    + intros j t p P. rewrite (NoHold (U ltac:(congruence)) j) in P. discriminate.
    + intros old X. inversion X. reflexivity.
    + intros t NE. destruct (Q t NE) as [->|X]; [now right | congruence].
    (* UDrain *)
    + exact E.
    + intros _. apply U. congruence.
    + exact H.
    + exact C.
    + discriminate.
    + intros t NE. destruct (Nat.eq_dec t old) as [->|D].
      * rewrite upd_same in NE. now elim NE.
      * rewrite upd_other in NE by exact D.
        destruct (Nat.eq_dec t (w_cur s)) as [->|D2]; [now left|].
        rewrite upd_other in NE by exact D2.
        destruct (Q t NE) as [->|X]; [now left | congruence].
    (* URelease *)
    + discriminate.
    + congruence.
    + intros j HL. apply H in HL. rewrite (E (U ltac:(congruence))) in HL. contradiction.
    + exact C.
    + discriminate.
    + intros t NE. destruct (Q t NE) as [->|X]; [now left | congruence].
    (* WTake *)
    + exact E.
    + exact U.
    + exact H.
    + exact C.
    + exact W.
    + intros t0 NE. destruct (Nat.eq_dec t0 t) as [->|D].
      * rewrite upd_same in NE. now elim NE.
      * rewrite upd_other in NE by exact D. now apply Q.
Qed.

Theorem swap_invariant : forall s, wreachable true s -> swap_inv s.
Proof. apply invariant_reachable, swap_inv_inductive. Qed.

(** No packet is stranded: whatever the interleaving of senders, upgrades and peers, a transport
    that has been discarded (no longer current, its drain over) holds nothing. *)
Theorem no_stranded : forall s t, wreachable true s -> discarded s t -> w_queue s t = [].
Proof.
  intros s t R [N1 N2]. destruct (w_queue s t) eqn:Q; [reflexivity|].
  destruct (i_q _ (swap_invariant _ R) t) as [X|X]; [rewrite Q; discriminate | |]; contradiction.
Qed.

(** The mechanism: a sender that has picked a transport still has the current one, no swap is in
    progress, and the upgrade cannot take the lock before the packet is in the queue and the
    sender has released. *)
Theorem send_targets_current : forall s i t p,
  wreachable true s -> w_spc s i = SHave t p ->
  t = w_cur s /\ w_upc s = UIdle /\ wstep true UAcquire s = None.
Proof.
  intros s i t p R P. pose proof (swap_invariant _ R) as [E U H C W Q].
  assert (In i (w_holders s)) as HI by (apply H; rewrite P; exact I).
  assert (w_wr s = false) as Wr.
  { destruct (w_wr s) eqn:X; [|reflexivity]. rewrite (E eq_refl) in HI. contradiction. }
  split; [eapply C; eauto|]. split.
  - destruct (w_upc s) eqn:X; [reflexivity| | |]; exfalso;
      (assert (w_wr s = true) as WT by (apply U; discriminate)); congruence.
  - simpl. destruct (w_upc s); auto. rewrite Wr. destruct (w_holders s); [contradiction | reflexivity].
Qed.

(** Senders never wait for each other, and a sender holding the lock can always go on: the read
    lock only ever waits for an upgrade in progress, which itself needs no one. *)
Theorem swap_no_deadlock : forall s,
  (forall i t p, w_spc s i = SHave t p -> wstep true (WAdd i) s <> None) /\
  (forall i, w_spc s i = SAdded -> wstep true (WRelease i) s <> None) /\
  (w_upc s = ULocked -> wstep true USwap s <> None) /\
  (forall o, w_upc s = USwapped o -> wstep true UDrain s <> None) /\
  (w_upc s = UDrained -> wstep true URelease s <> None) /\
  (forall i p, w_spc s i = SIdle -> w_wr s = false -> wstep true (WAcquire i p) s <> None).
Proof.
  intros s. simpl. repeat split; intros; repeat match goal with H : _ = _ |- _ => rewrite H end; discriminate.
Qed.

(** The variant `s.Transport().Send(p)` (read lock released before the write): a sender that
    picked the long-polling transport 0 is overtaken by a complete upgrade; its packet 7 then
    lands in the discarded transport's queue, which no poll request, heartbeat or later packet
    will ever flush (the peer of the current transport only takes from the current one). *)
Definition stranding_schedule : list wlabel :=
  [WAcquire 0 7%N; UAcquire; USwap; UDrain; URelease; WAdd 0].

Theorem unlocked_send_strands_packet :
  exists s, exec_opt (wstep false) stranding_schedule winit = Some s /\
            discarded s 0 /\ w_queue s 0 = [7%N] /\ w_queue s (w_cur s) = [] /\
            forall s', wstep false (WTake (w_cur s)) s = Some s' -> w_queue s' 0 = [7%N].
Proof.
  eexists. split; [vm_compute; reflexivity|]. split; [split; simpl; discriminate|].
  split; [reflexivity|]. split; [reflexivity|]. intros s' H. inversion H. reflexivity.
Qed.

(** The same schedule is not a run of the code as it is: the upgrade cannot take the lock. *)
Theorem locked_send_blocks_that_schedule :
  exec_opt (wstep true) stranding_schedule winit = None /\
  exists s, exec_opt (wstep true) [WAcquire 0 7%N] winit = Some s /\ wstep true UAcquire s = None.
Proof. split; [vm_compute; reflexivity|]. eexists. split; vm_compute; reflexivity. Qed.
