(** Proofs about the Gallina base64 codec: round trip for every byte string, exact encoded
    length, output alphabet, decoded-length bound. *)
From SioV Require Import Eio.Base64.
From Coq Require Import ZifyN ZifyNat ZifyBool Lia.
Local Open Scope N_scope.
Ltac Zify.zify_post_hook ::= Z.to_euclidean_division_equations.

(** ** The 64-entry table (finite sweep, lifted to a statement for all v < 64) *)
Definition range64 : list N := map N.of_nat (seq 0 64).

Lemma in_range64 v : v < 64 -> In v range64.
Proof.
  intros H. unfold range64. apply in_map_iff. exists (N.to_nat v). split; [lia|].
  apply in_seq. lia.
Qed.

Definition table_ok (v : N) : bool :=
  match b64_val (b64_char v) with Some w => (w =? v) | None => false end
  && negb (b64_char v =? 30) && (b64_char v <? 256).

Lemma table_sweep : forallb table_ok range64 = true.
Proof. vm_compute. reflexivity. Qed.

Lemma table_ok_all v : v < 64 -> table_ok v = true.
Proof. intros H. exact (proj1 (forallb_forall _ _) table_sweep v (in_range64 v H)). Qed.

Lemma b64_val_char v : v < 64 -> b64_val (b64_char v) = Some v.
Proof.
  intros H. pose proof (table_ok_all v H) as T. unfold table_ok in T.
  apply andb_true_iff in T as [T _]. apply andb_true_iff in T as [T _].
  destruct (b64_val (b64_char v)); [|discriminate]. apply N.eqb_eq in T. now subst.
Qed.

Lemma b64_char_not_sep v : v < 64 -> b64_char v <> 30.
Proof.
  intros H. pose proof (table_ok_all v H) as T. unfold table_ok in T.
  apply andb_true_iff in T as [T _]. apply andb_true_iff in T as [_ T].
  apply negb_true_iff in T. now apply N.eqb_neq in T.
Qed.

Lemma b64_char_byte v : v < 64 -> b64_char v < 256.
Proof.
  intros H. pose proof (table_ok_all v H) as T. unfold table_ok in T.
  apply andb_true_iff in T as [_ T]. now apply N.ltb_lt in T.
Qed.

(** ** Group arithmetic *)
Lemma sext_bounds x y z : x < 256 -> y < 256 -> z < 256 ->
  let '(a, b, c, d) := sextets x y z in a < 64 /\ b < 64 /\ c < 64 /\ d < 64.
Proof. intros. unfold sextets. cbv zeta. repeat split; lia. Qed.

Lemma unsext_sextets x y z : x < 256 -> y < 256 -> z < 256 ->
  let '(a, b, c, d) := sextets x y z in unsext a b c d = (x, y, z).
Proof. intros. unfold sextets, unsext. cbv zeta. f_equal; [f_equal|]; lia. Qed.

Lemma unsext_sextets2 x y : x < 256 -> y < 256 ->
  let '(a, b, c, _) := sextets x y 0 in
  let '(x', y', _) := unsext a b c 0 in x' = x /\ y' = y.
Proof. intros. unfold sextets, unsext. cbv zeta. split; lia. Qed.

Lemma unsext_sextets1 x : x < 256 ->
  let '(a, b, _, _) := sextets x 0 0 in
  let '(x', _, _) := unsext a b 0 0 in x' = x.
Proof. intros. unfold sextets, unsext. cbv zeta. lia. Qed.

(** ** Induction three elements at a time *)
Lemma list_ind3 {A} (P : list A -> Prop) :
  P [] -> (forall x, P [x]) -> (forall x y, P [x; y]) ->
  (forall x y z s, P s -> P (x :: y :: z :: s)) -> forall s, P s.
Proof.
  intros H0 H1 H2 H3.
  assert (forall s, P s /\ (forall x, P (x :: s)) /\ (forall x y, P (x :: y :: s))) as G.
  { induction s as [|a s [IH0 [IH1 IH2]]]; [auto|].
    split; [apply IH1|]. split; [intros; apply IH2|]. intros x y. now apply H3. }
  intros s. apply G.
Qed.

(** ** Decoder steps on alphabet characters *)
Lemma dec_full a b c d s : a < 64 -> b < 64 -> c < 64 -> d < 64 ->
  b64_dec_go (b64_char a :: b64_char b :: b64_char c :: b64_char d :: s) [] =
  let '(x, y, z) := unsext a b c d in
  match b64_dec_go s [] with Some r => Some (x :: y :: z :: r) | None => None end.
Proof.
  intros Ha Hb Hc Hd. cbn [b64_dec_go app].
  rewrite (b64_val_char a Ha). cbn [b64_dec_go app].
  rewrite (b64_val_char b Hb). cbn [b64_dec_go app].
  rewrite (b64_val_char c Hc). cbn [b64_dec_go app].
  rewrite (b64_val_char d Hd). reflexivity.
Qed.

Lemma pad_facts : b64_val pad_char = None /\ is_nl pad_char = false /\ (pad_char =? pad_char) = true.
Proof. vm_compute. auto. Qed.

Lemma dec_pad1 a b c : a < 64 -> b < 64 -> c < 64 ->
  b64_dec_go [b64_char a; b64_char b; b64_char c; pad_char] [] =
  let '(x, y, _) := unsext a b c 0 in Some [x; y].
Proof.
  intros Ha Hb Hc. destruct pad_facts as [P1 [P2 P3]]. cbn [b64_dec_go app].
  rewrite (b64_val_char a Ha). cbn [b64_dec_go app].
  rewrite (b64_val_char b Hb). cbn [b64_dec_go app].
  rewrite (b64_val_char c Hc). cbn [b64_dec_go app].
  rewrite P1, P2, P3. reflexivity.
Qed.

Lemma dec_pad2 a b : a < 64 -> b < 64 ->
  b64_dec_go [b64_char a; b64_char b; pad_char; pad_char] [] =
  let '(x, _, _) := unsext a b 0 0 in Some [x].
Proof.
  intros Ha Hb. destruct pad_facts as [P1 [P2 P3]]. cbn [b64_dec_go app].
  rewrite (b64_val_char a Ha). cbn [b64_dec_go app].
  rewrite (b64_val_char b Hb). cbn [b64_dec_go app].
  rewrite P1, P2, P3. cbn [skip_nl]. rewrite P2, P3. reflexivity.
Qed.

(** ** Round trip *)
Lemma bytes_ok_cons x s : bytes_ok (x :: s) = true <-> x < 256 /\ bytes_ok s = true.
Proof.
  unfold bytes_ok. cbn [forallb]. rewrite andb_true_iff. unfold byte_ok. now rewrite N.ltb_lt.
Qed.

Theorem b64_roundtrip : forall s, bytes_ok s = true -> b64_dec (b64_enc s) = Some s.
Proof.
  unfold b64_dec. intros s. induction s using list_ind3; intros Hok.
  - reflexivity.
  - apply bytes_ok_cons in Hok as [Hx _]. cbn [b64_enc].
    pose proof (sext_bounds x 0 0 Hx ltac:(lia) ltac:(lia)) as B.
    pose proof (unsext_sextets1 x Hx) as U.
    destruct (sextets x 0 0) as [[[a b] c] d]. destruct B as [Ba [Bb _]].
    rewrite dec_pad2 by assumption. destruct (unsext a b 0 0) as [[x' y'] z']. now subst.
  - apply bytes_ok_cons in Hok as [Hx Hok]. apply bytes_ok_cons in Hok as [Hy _]. cbn [b64_enc].
    pose proof (sext_bounds x y 0 Hx Hy ltac:(lia)) as B.
    pose proof (unsext_sextets2 x y Hx Hy) as U.
    destruct (sextets x y 0) as [[[a b] c] d]. destruct B as [Ba [Bb [Bc _]]].
    rewrite dec_pad1 by assumption. destruct (unsext a b c 0) as [[x' y'] z']. destruct U; now subst.
  - apply bytes_ok_cons in Hok as [Hx Hok]. apply bytes_ok_cons in Hok as [Hy Hok].
    apply bytes_ok_cons in Hok as [Hz Hok]. cbn [b64_enc].
    pose proof (sext_bounds x y z Hx Hy Hz) as B.
    pose proof (unsext_sextets x y z Hx Hy Hz) as U.
    destruct (sextets x y z) as [[[a b] c] d]. destruct B as [Ba [Bb [Bc Bd]]].
    rewrite dec_full by assumption. rewrite U, (IHs Hok). reflexivity.
Qed.

(** ** Exact encoded length *)
Theorem b64_enc_length : forall s, nlen (b64_enc s) = b64_enc_len (nlen s).
Proof.
  unfold nlen, b64_enc_len. intros s. induction s using list_ind3.
  - reflexivity.
  - reflexivity.
  - reflexivity.
  - cbn [b64_enc]. destruct (sextets x y z) as [[[a b] c] d]. cbn [length].
    lia.
Qed.

(** ** Output alphabet: no record separator, bytes only *)
Theorem b64_enc_no_sep : forall s, bytes_ok s = true -> ~ In 30 (b64_enc s).
Proof.
  intros s. induction s using list_ind3; intros Hok.
  - intros [].
  - apply bytes_ok_cons in Hok as [Hx _]. cbn [b64_enc].
    pose proof (sext_bounds x 0 0 Hx ltac:(lia) ltac:(lia)) as B.
    destruct (sextets x 0 0) as [[[a b] c] d]. destruct B as [Ba [Bb _]].
    pose proof (b64_char_not_sep a Ba). pose proof (b64_char_not_sep b Bb).
    cbn [In]. unfold pad_char. intros [E|[E|[E|[E|[]]]]]; try congruence; discriminate.
  - apply bytes_ok_cons in Hok as [Hx Hok]. apply bytes_ok_cons in Hok as [Hy _]. cbn [b64_enc].
    pose proof (sext_bounds x y 0 Hx Hy ltac:(lia)) as B.
    destruct (sextets x y 0) as [[[a b] c] d]. destruct B as [Ba [Bb [Bc _]]].
    pose proof (b64_char_not_sep a Ba). pose proof (b64_char_not_sep b Bb).
    pose proof (b64_char_not_sep c Bc).
    cbn [In]. unfold pad_char. intros [E|[E|[E|[E|[]]]]]; try congruence; discriminate.
  - apply bytes_ok_cons in Hok as [Hx Hok]. apply bytes_ok_cons in Hok as [Hy Hok].
    apply bytes_ok_cons in Hok as [Hz Hok]. cbn [b64_enc].
    pose proof (sext_bounds x y z Hx Hy Hz) as B.
    destruct (sextets x y z) as [[[a b] c] d]. destruct B as [Ba [Bb [Bc Bd]]].
    pose proof (b64_char_not_sep a Ba). pose proof (b64_char_not_sep b Bb).
    pose proof (b64_char_not_sep c Bc). pose proof (b64_char_not_sep d Bd).
    cbn [In]. intros [E|[E|[E|[E|E]]]]; try congruence. now apply IHs.
Qed.

Theorem b64_enc_bytes_ok : forall s, bytes_ok s = true -> bytes_ok (b64_enc s) = true.
Proof.
  intros s. induction s using list_ind3; intros Hok.
  - reflexivity.
  - apply bytes_ok_cons in Hok as [Hx _]. cbn [b64_enc].
    pose proof (sext_bounds x 0 0 Hx ltac:(lia) ltac:(lia)) as B.
    destruct (sextets x 0 0) as [[[a b] c] d]. destruct B as [Ba [Bb _]].
    repeat (apply bytes_ok_cons; split); auto using b64_char_byte; reflexivity.
  - apply bytes_ok_cons in Hok as [Hx Hok]. apply bytes_ok_cons in Hok as [Hy _]. cbn [b64_enc].
    pose proof (sext_bounds x y 0 Hx Hy ltac:(lia)) as B.
    destruct (sextets x y 0) as [[[a b] c] d]. destruct B as [Ba [Bb [Bc _]]].
    repeat (apply bytes_ok_cons; split); auto using b64_char_byte; reflexivity.
  - apply bytes_ok_cons in Hok as [Hx Hok]. apply bytes_ok_cons in Hok as [Hy Hok].
    apply bytes_ok_cons in Hok as [Hz Hok]. cbn [b64_enc].
    pose proof (sext_bounds x y z Hx Hy Hz) as B.
    destruct (sextets x y z) as [[[a b] c] d]. destruct B as [Ba [Bb [Bc Bd]]].
    repeat (apply bytes_ok_cons; split); auto using b64_char_byte.
Qed.

(** ** The decoder never produces more than DecodedLen(len(src)) bytes (so the destination
    buffer packet.go allocates is always large enough and [Data[:n]] is in range). *)
Lemma b64_dec_go_len : forall s q out, (length q <= 3)%nat ->
  b64_dec_go s q = Some out ->
  nlen out <= b64_dec_len (N.of_nat (length q + length s)).
Proof.
  unfold nlen, b64_dec_len.
  induction s as [|c s IH]; intros q out Hq H.
  - cbn [b64_dec_go] in H. destruct q; [|discriminate]. inversion H; subst. cbn. lia.
  - cbn [b64_dec_go] in H. destruct (b64_val c) as [v|].
    + destruct q as [|a [|b [|c3 [|e q]]]].
      * apply IH in H; [|cbn; lia]. cbn [length app] in *. lia.
      * apply IH in H; [|cbn; lia]. cbn [length app] in *. lia.
      * apply IH in H; [|cbn; lia]. cbn [length app] in *. lia.
      * destruct (unsext a b c3 v) as [[x y] z].
        destruct (b64_dec_go s []) as [r|] eqn:E; [|discriminate]. inversion H; subst.
        apply IH in E; [|cbn; lia]. cbn [length] in *. lia.
      * cbn [length] in Hq. lia.
    + destruct (is_nl c).
      * apply IH in H; [|assumption]. cbn [length]. lia.
      * destruct (c =? pad_char); [|discriminate].
        destruct q as [|a [|b [|c3 [|e q]]]]; try discriminate.
        -- destruct (skip_nl s) as [|c2 s''] eqn:E; [discriminate|].
           destruct ((c2 =? pad_char) && is_nil (skip_nl s'')); [|discriminate].
           destruct (unsext a b 0 0) as [[x y] z]. inversion H; subst.
           assert (1 <= length s)%nat by (destruct s; [discriminate|cbn; lia]).
           cbn [length]. lia.
        -- destruct (is_nil (skip_nl s)); [|discriminate].
           destruct (unsext a b c3 0) as [[x y] z]. inversion H; subst.
           cbn [length]. lia.
Qed.

Theorem b64_dec_len_bound : forall s out,
  b64_dec s = Some out -> nlen out <= b64_dec_len (nlen s).
Proof.
  intros s out H. apply (b64_dec_go_len s [] out) in H; [|cbn; lia]. exact H.
Qed.
