(** Port of engine.io/client_socket.go:writeWritablePackets (the long-polling batcher).

    Go (after the fix recorded in known_findings.txt):
      start, payloadSize := 0, 0
      for i, packet := range packets {
        size := packet.EncodedLen(false)
        if i > start {
          if int64(payloadSize+1+size) > s.maxPayload {
            s.transport.Send(packets[start:i]...); start, payloadSize = i, size; continue }
          size++ }
        payloadSize += size }
      packets = packets[start:]
    followed by Send(packets) when non-empty.  The loop only runs when
    maxPayload > 0, the transport is polling and there are at least two packets. *)
From SioV Require Export Eio.Packet.

(** [batch_go max cur sz ps]: [cur] is the open batch (never empty), [sz] its payload size. *)
Fixpoint batch_go (max : Z) (cur : list packet) (sz : Z) (ps : list packet) : list (list packet) :=
  match ps with
  | [] => [cur]
  | p :: ps' =>
      let size := encoded_len false p in
      if (sz + 1 + size >? max)%Z
      then cur :: batch_go max [p] size ps'
      else batch_go max (cur ++ [p]) (sz + 1 + size)%Z ps'
  end.

(** What is handed to transport.Send, call by call. *)
Definition write_writable (max : Z) (polling : bool) (ps : list packet) : list (list packet) :=
  match ps with
  | [] => []
  | p :: ps' =>
      if (max >? 0)%Z && polling && (1 <? length ps)%nat
      then batch_go max [p] (encoded_len false p) ps'
      else [ps]
  end.
