(** Proofs about Engine.IO session ids (C17): base64url injectivity, distinctness by sequence number. *)
From SioV Require Import Base.GoSem Eio.Handshake.
From Coq Require Import ZifyN ZifyBool.

Ltac Zify.zify_post_hook ::= Z.div_mod_to_equations.

(* ------------------------------------------------------------------ byte strings *)
Lemma bytes_eqb_eq a b : bytes_eqb a b = true <-> a = b.
Proof. apply list_eqb_eq. intros x y. apply N.eqb_eq. Qed.

Lemma bytes_eqb_refl a : bytes_eqb a a = true.
Proof. now apply bytes_eqb_eq. Qed.

Lemma bytes_eqb_neq a b : bytes_eqb a b = false <-> a <> b.
Proof.
  split.
  - intros H E. apply bytes_eqb_eq in E. congruence.
  - intros H. destruct (bytes_eqb a b) eqn:E; [|reflexivity]. apply bytes_eqb_eq in E. contradiction.
Qed.

(* ------------------------------------------------------------------ base64url is injective *)
Lemma b64char_inj a b : (a < 64 -> b < 64 -> b64char a = b64char b -> a = b)%N.
Proof.
  unfold b64char. intros Ha Hb.
  repeat (match goal with |- context[if ?c then _ else _] => destruct c eqn:? end; cbv iota); lia.
Qed.

Lemma enc3_inj a b c a' b' c' :
  (a < 256)%N -> (b < 256)%N -> (c < 256)%N -> (a' < 256)%N -> (b' < 256)%N -> (c' < 256)%N ->
  enc3 a b c = enc3 a' b' c' -> a = a' /\ b = b' /\ c = c'.
Proof.
  intros Ha Hb Hc Ha' Hb' Hc' E. unfold enc3 in E.
  injection E as E1 E2 E3 E4.
  apply b64char_inj in E1; [|lia|lia].
  apply b64char_inj in E2; [|lia|lia].
  apply b64char_inj in E3; [|lia|lia].
  apply b64char_inj in E4; [|lia|lia].
  lia.
Qed.

Lemma app_inj_len {A} : forall (a b c d : list A), length a = length c -> a ++ b = c ++ d -> a = c /\ b = d.
Proof.
  induction a as [|x a IH]; intros b [|y c] d L E; simpl in *; try discriminate.
  - now split.
  - injection E as -> E. injection L as L. destruct (IH _ _ _ L E) as [-> ->]. now split.
Qed.

Lemma bytes_ok_cons x l : bytes_ok (x :: l) = true <-> (x < 256)%N /\ bytes_ok l = true.
Proof. unfold bytes_ok, byte_ok. simpl. rewrite andb_true_iff, N.ltb_lt. tauto. Qed.

Lemma b64url_inj : forall n l1 l2,
  length l1 = (3 * n)%nat -> length l2 = (3 * n)%nat ->
  bytes_ok l1 = true -> bytes_ok l2 = true -> b64url l1 = b64url l2 -> l1 = l2.
Proof.
  induction n as [|n IH]; intros l1 l2 L1 L2 O1 O2 E.
  - destruct l1, l2; simpl in *; try discriminate; reflexivity.
  - destruct l1 as [|a [|b [|c r1]]]; try (simpl in L1; lia).
    destruct l2 as [|a' [|b' [|c' r2]]]; try (simpl in L2; lia).
    apply bytes_ok_cons in O1 as [Ha O1]. apply bytes_ok_cons in O1 as [Hb O1]. apply bytes_ok_cons in O1 as [Hc O1].
    apply bytes_ok_cons in O2 as [Ha' O2]. apply bytes_ok_cons in O2 as [Hb' O2]. apply bytes_ok_cons in O2 as [Hc' O2].
    change (b64url (a :: b :: c :: r1)) with (enc3 a b c ++ b64url r1) in E.
    change (b64url (a' :: b' :: c' :: r2)) with (enc3 a' b' c' ++ b64url r2) in E.
    apply app_inj_len in E as [H E]; [|reflexivity].
    apply enc3_inj in H as (-> & -> & ->); try assumption.
    f_equal. f_equal. f_equal. apply IH; try assumption; simpl in *; lia.
Qed.

(* ------------------------------------------------------------------ ids *)
Lemma take12_length r : length (take12 r) = 12%nat.
Proof. unfold take12. rewrite firstn_length, app_length, repeat_length. lia. Qed.

Lemma bytes_ok_app a b : bytes_ok (a ++ b) = bytes_ok a && bytes_ok b.
Proof. unfold bytes_ok. apply forallb_app. Qed.

Lemma bytes_ok_firstn n l : bytes_ok l = true -> bytes_ok (firstn n l) = true.
Proof.
  revert n; induction l as [|x l IH]; intros [|n] H; simpl; try reflexivity.
  apply bytes_ok_cons in H as [Hx H]. apply bytes_ok_cons. split; [exact Hx | apply IH, H].
Qed.

Lemma bytes_ok_repeat0 n : bytes_ok (repeat 0%N n) = true.
Proof. induction n; [reflexivity|]. change (repeat 0%N (S n)) with (0%N :: repeat 0%N n). apply bytes_ok_cons. split; [lia | exact IHn]. Qed.

Lemma take12_ok r : bytes_ok r = true -> bytes_ok (take12 r) = true.
Proof.
  intros H. unfold take12. apply bytes_ok_firstn. rewrite bytes_ok_app, H. apply bytes_ok_repeat0.
Qed.

Definition seq_bytes (q : N) : bytes := [(q / 65536) mod 256; (q / 256) mod 256; q mod 256]%N.

Lemma id_bytes_eq q r : id_bytes q r = take12 r ++ seq_bytes q.
Proof. reflexivity. Qed.

Lemma seq_bytes_ok q : bytes_ok (seq_bytes q) = true.
Proof.
  unfold seq_bytes. repeat (apply bytes_ok_cons; split; [lia|]). reflexivity.
Qed.

Lemma seq_bytes_inj q1 q2 : seq_bytes q1 = seq_bytes q2 -> (q1 mod 16777216 = q2 mod 16777216)%N.
Proof. unfold seq_bytes. intros E. injection E as E1 E2 E3. lia. Qed.

Lemma id_bytes_length q r : length (id_bytes q r) = 15%nat.
Proof. rewrite id_bytes_eq, app_length, take12_length. reflexivity. Qed.

Lemma id_bytes_ok q r : bytes_ok r = true -> bytes_ok (id_bytes q r) = true.
Proof. intros H. rewrite id_bytes_eq, bytes_ok_app, take12_ok, seq_bytes_ok by exact H. reflexivity. Qed.

(** Two ids whose sequence numbers differ in their low 24 bits are different, whatever the random
    source returned for either. *)
Lemma ids_distinct_by_seq : forall q1 q2 r1 r2,
  bytes_ok r1 = true -> bytes_ok r2 = true ->
  (q1 mod 16777216 <> q2 mod 16777216)%N ->
  generate_id q1 r1 <> generate_id q2 r2.
Proof.
  intros q1 q2 r1 r2 O1 O2 D E. apply D. unfold generate_id in E.
  apply (b64url_inj 5) in E; try apply id_bytes_length; try (apply id_bytes_ok; assumption).
  rewrite !id_bytes_eq in E. apply app_inj_len in E as [_ E]; [|now rewrite !take12_length].
  now apply seq_bytes_inj.
Qed.

(** Any 2^24 consecutive ids are pairwise distinct, whatever the random source does
    (the counter is a uint32 that wraps around). *)
Lemma consecutive_ids_distinct : forall (rnd : N -> bytes) start i j,
  (forall k, bytes_ok (rnd k) = true) ->
  (i < j)%N -> (j - i < 16777216)%N ->
  generate_id (wrap32 (start + i)) (rnd i) <> generate_id (wrap32 (start + j)) (rnd j).
Proof.
  intros rnd start i j O Lij Lj. apply ids_distinct_by_seq; try apply O.
  unfold wrap32. lia.
Qed.

(** The last four characters of an id are the base64url group of the three sequence bytes. *)
Lemma generate_id_tail q r : skipn 16 (generate_id q r) = enc3 ((q / 65536) mod 256) ((q / 256) mod 256) (q mod 256).
Proof.
  unfold generate_id, id_bytes. pose proof (take12_length r) as L.
  destruct (take12 r) as [|x0 [|x1 [|x2 [|x3 [|x4 [|x5 [|x6 [|x7 [|x8 [|x9 [|x10 [|x11 [|x12 t]]]]]]]]]]]]];
    simpl in L; try lia.
  reflexivity.
Qed.

(** What the ids oracle establishes per row: the id ends with the group of its sequence number. *)
Definition tail_ok (q : N) (id : bytes) : Prop := skipn 16 id = skipn 16 (generate_id q (repeat 0%N 12)).

Lemma tail_ok_distinct q1 q2 id1 id2 :
  tail_ok q1 id1 -> tail_ok q2 id2 -> (q1 mod 16777216 <> q2 mod 16777216)%N -> id1 <> id2.
Proof.
  unfold tail_ok. rewrite !generate_id_tail. intros T1 T2 D E. subst id2. rewrite T1 in T2.
  apply enc3_inj in T2; lia.
Qed.

(** Rows i = 0..n-1 of a run started at [start] (row i carries sequence number start+i mod 2^32
    and passes [tail_ok]): pairwise distinct ids as long as n <= 2^24. *)
Lemma ids_rows_distinct : forall (start : N) (ids : list bytes),
  (N.of_nat (length ids) <= 16777216)%N ->
  (forall i id, nth_error ids i = Some id -> tail_ok (wrap32 (start + N.of_nat i)) id) ->
  NoDup ids.
Proof.
  intros start ids Len H. apply NoDup_nth_error. intros i j Hi E.
  destruct (nth_error ids i) as [id|] eqn:Ei; [|apply nth_error_None in Ei; lia].
  symmetry in E. pose proof (nth_error_Some ids j) as Hj. rewrite E in Hj.
  assert (Lj : (j < length ids)%nat) by (apply Hj; discriminate).
  destruct (Nat.eq_dec i j) as [|Ne]; [assumption|exfalso].
  refine (tail_ok_distinct _ _ id id (H _ _ Ei) (H _ _ E) _ eq_refl).
  unfold wrap32. lia.
Qed.


Lemma list_eqb_sym_bytes a b : bytes_eqb a b = bytes_eqb b a.
Proof.
  destruct (bytes_eqb a b) eqn:E.
  - apply bytes_eqb_eq in E. subst. symmetry. apply bytes_eqb_refl.
  - symmetry. apply bytes_eqb_neq. apply bytes_eqb_neq in E. congruence.
Qed.
