(** base64.StdEncoding of the Go standard library, written in Gallina: the encoder
    (`Encode` / `NewEncoder`: 3-byte groups, '=' padding) and the decoder (`Decode`, non-strict:
    '\r' and '\n' are skipped anywhere, padding must be exact, trailing garbage is an error).
    Used by engine.io/parser/packet.go for binary packets on transports without binary support.
    The Go library itself is not verified; this text is compared with it byte for byte on every
    run (suite b64) and is what the round-trip theorems are instantiated with. *)
From SioV Require Export Base.GoSem.
Local Open Scope N_scope.

(** encodeStd: "ABC…Zabc…z0123456789+/" *)
Definition b64_char (v : N) : N :=
  if v <? 26 then v + 65
  else if v <? 52 then v + 71
  else if v <? 62 then v - 4
  else if v =? 62 then 43 else 47.

(** decodeMap: [None] stands for 0xff *)
Definition b64_val (c : N) : option N :=
  if (65 <=? c) && (c <=? 90) then Some (c - 65)
  else if (97 <=? c) && (c <=? 122) then Some (c - 71)
  else if (48 <=? c) && (c <=? 57) then Some (c + 4)
  else if c =? 43 then Some 62
  else if c =? 47 then Some 63
  else None.

Definition pad_char : N := 61.   (* '=' *)
Definition is_nl (c : N) : bool := (c =? 10) || (c =? 13).

(** val = b0<<16 | b1<<8 | b2, cut in four sextets *)
Definition sextets (x y z : N) : N * N * N * N :=
  let val := x * 65536 + y * 256 + z in
  (val / 262144, (val / 4096) mod 64, (val / 64) mod 64, val mod 64).

Fixpoint b64_enc (s : bytes) : bytes :=
  match s with
  | [] => []
  | [x] =>
      let '(a, b, _, _) := sextets x 0 0 in [b64_char a; b64_char b; pad_char; pad_char]
  | [x; y] =>
      let '(a, b, c, _) := sextets x y 0 in [b64_char a; b64_char b; b64_char c; pad_char]
  | x :: y :: z :: s' =>
      let '(a, b, c, d) := sextets x y z in
      b64_char a :: b64_char b :: b64_char c :: b64_char d :: b64_enc s'
  end.

Definition nlen {A} (l : list A) : N := N.of_nat (length l).

(** Encoding.EncodedLen / DecodedLen for a padded encoding *)
Definition b64_enc_len (n : N) : N := (n + 2) / 3 * 4.
Definition b64_dec_len (n : N) : N := n / 4 * 3.

(** The three bytes of val = a<<18 | b<<12 | c<<6 | d *)
Definition unsext (a b c d : N) : N * N * N :=
  let val := a * 262144 + b * 4096 + c * 64 + d in
  ((val / 65536) mod 256, (val / 256) mod 256, val mod 256).

Fixpoint skip_nl (s : bytes) : bytes :=
  match s with
  | c :: s' => if is_nl c then skip_nl s' else s
  | [] => []
  end.

Definition is_nil {A} (l : list A) : bool := match l with [] => true | _ => false end.

(** Port of Encoding.Decode / decodeQuantum.  [q] holds the sextets already collected for the
    current quantum (j = length q <= 3).  [None] = CorruptInputError. *)
Fixpoint b64_dec_go (s : bytes) (q : list N) : option bytes :=
  match s with
  | [] =>
      (* len(src) == si: fine at a quantum boundary, an error inside one (padded encoding) *)
      match q with [] => Some [] | _ => None end
  | c :: s' =>
      match b64_val c with
      | Some v =>
          match q with
          | [a; b; c3] =>
              let '(x, y, z) := unsext a b c3 v in
              match b64_dec_go s' [] with Some r => Some (x :: y :: z :: r) | None => None end
          | _ => b64_dec_go s' (q ++ [v])
          end
      | None =>
          if is_nl c then b64_dec_go s' q
          else if c =? pad_char then
            match q with
            | [a; b] =>
                (* "==" expected; newlines may sit between and after *)
                match skip_nl s' with
                | c2 :: s'' =>
                    if (c2 =? pad_char) && is_nil (skip_nl s'')
                    then let '(x, _, _) := unsext a b 0 0 in Some [x] else None
                | [] => None
                end
            | [a; b; c3] =>
                if is_nil (skip_nl s')
                then let '(x, y, _) := unsext a b c3 0 in Some [x; y] else None
            | _ => None      (* padding at j = 0 or 1 *)
            end
          else None          (* byte outside the alphabet *)
      end
  end.

Definition b64_dec (s : bytes) : option bytes := b64_dec_go s [].
