(** Composition theorem: with bounded link delays, neither heartbeat ever closes a live connection. *)
From SioV Require Import Eio.Heartbeat Eio.HeartbeatLink.
Open Scope Z_scope.
Local Arguments Z.mul : simpl never.
Local Arguments Z.add : simpl never.
Local Arguments Z.max : simpl never.

Ltac zb :=
  repeat match goal with
  | H : andb _ _ = true |- _ => apply andb_true_iff in H; destruct H
  | H : (_ <=? _) = true |- _ => apply Z.leb_le in H
  | H : (_ <? _) = true |- _ => apply Z.ltb_lt in H
  | H : (_ <=? _) = false |- _ => apply Z.leb_gt in H
  | H : (_ <? _) = false |- _ => apply Z.ltb_ge in H
  end.

Ltac ifs :=
  repeat match goal with
         | H : context [if ?b then _ else _] |- _ => let E := fresh "E" in destruct b eqn:E
         | |- context [if ?b then _ else _] => let E := fresh "E" in destruct b eqn:E
         end.

Section Compose.
  Variable c : cfg.
  Variable l : link.
  Hypothesis Hc : cfg_ok c.
  Hypothesis Hl : 0 <= lDown l /\ 0 <= lUp l /\ lDown l + lUp l + 2 * cD c < cT c.
  Local Notation I := (cI c). Local Notation T := (cT c). Local Notation D := (cD c).
  Local Notation Ld := (lDown l). Local Notation Lu := (lUp l).

  (** The heartbeat cycle: (A) server asleep, nothing in flight; (B) ping in flight; (C) pong in
      flight; (D) pong in the mailbox.  P = xlast = time of the latest ping delivery. *)
  Definition xinv (st : xst) (now : Z) : Prop :=
    let P := xlast st in
    P <= now /\
    match cph (xc st) with
    | CArmed a => a <= now /\
        match cmb (xc st) with
        | None => P <= a
        | Some d => d <= P /\ d < a + I + T
        end
    | CClosed _ _ => False
    end /\
    match sph (xs st), smb (xs st), xping st, xpong st with
    | SSleep s, None, [], [] => s <= now /\ s <= P + Lu + D
    | SAwait s, None, [s'], [] => s' = s /\ s <= now /\ s <= P + Lu + I + 2 * D
    | SAwait s, None, [], [p] => p = P /\ s <= p /\ p <= s + Ld
    | SAwait s, Some d, [], [] => d <= P + Lu /\ d < s + T /\ s <= P /\ d <= now
    | _, _, _, _ => False
    end.

  Lemma xinv_step st now t e st' :
    xinv st now -> now <= t -> xwithin c l st t = true -> x_no_ext e = true ->
    xstep c st t e = Some st' -> is_timeout e = false /\ xinv st' t.
  Proof.
    destruct Hc as (HI & HT & HD). destruct Hl as (HLd & HLu & HL).
    intros (HP & Hcl & Hsv) Hn Hw Hx Hs.
    destruct st as [[sp sm] [cp cm] pq gq P]; simpl in *.
    destruct cp as [a|]; [|contradiction]. destruct Hcl as [Ha Hcm].
    unfold xwithin, sdeadline, cdeadline, head_deadline, within in Hw; simpl in Hw.
    destruct sp as [s|s|]; destruct sm as [d|]; destruct pq as [|x [|y pq]]; destruct gq as [|u [|v gq]];
      try contradiction.
    - (* A *)
      destruct Hsv as [Hs1 Hs2].
      destruct e as [es|ec| |]; [destruct es|destruct ec| |]; simpl in Hs, Hx; try discriminate;
        unfold sstep, cstep, deposit in Hs; simpl in Hs; destruct cm as [dm|]; ifs; try discriminate;
        inversion Hs; subst; clear Hs; zb; unfold xinv; simpl; ifs; zb; repeat split; try lia.
    - (* D *)
      destruct Hsv as (Hd1 & Hd2 & Hd3 & Hd4).
      destruct e as [es|ec| |]; [destruct es|destruct ec| |]; simpl in Hs, Hx; try discriminate;
        unfold sstep, cstep, deposit in Hs; simpl in Hs; destruct cm as [dm|]; ifs; try discriminate;
        inversion Hs; subst; clear Hs; zb; unfold xinv; simpl; ifs; zb; repeat split; try lia.
    - (* C *)
      destruct Hsv as (Hc1 & Hc2 & Hc3). subst u.
      destruct e as [es|ec| |]; [destruct es|destruct ec| |]; simpl in Hs, Hx; try discriminate;
        unfold sstep, cstep, deposit in Hs; simpl in Hs; destruct cm as [dm|]; ifs; try discriminate;
        inversion Hs; subst; clear Hs; zb; unfold xinv; simpl; ifs; zb; repeat split; try lia.
    - (* B *)
      destruct Hsv as (Hb1 & Hb2 & Hb3). subst x.
      destruct e as [es|ec| |]; [destruct es|destruct ec| |]; simpl in Hs, Hx; try discriminate;
        unfold sstep, cstep, deposit in Hs; simpl in Hs; destruct cm as [dm|]; ifs; try discriminate;
        inversion Hs; subst; clear Hs; zb; unfold xinv; simpl; ifs; zb; repeat split; try lia.
  Qed.

  Lemma xrun_inv evs : forall st now r,
    xinv st now -> xrun c l st now evs = Some r ->
    Forall (fun te => is_timeout (snd te) = false) evs /\ xinv (fst r) (snd r).
  Proof.
    induction evs as [|[t e] evs IH]; intros st now r HP Hrun; simpl in Hrun.
    - inversion Hrun; subst; simpl. split; [constructor|exact HP].
    - destruct ((now <=? t) && xwithin c l st t && x_no_ext e) eqn:E; [|discriminate].
      apply andb_true_iff in E as [E Eg]. apply andb_true_iff in E as [En Ew].
      destruct (xstep c st t e) as [st1|] eqn:Es; [|discriminate].
      destruct (xinv_step st now t e st1) as [HQ HP1]; auto. { apply Z.leb_le; exact En. }
      destruct (IH st1 t r HP1 Hrun) as [HF HPr]. split; [constructor; [exact HQ|exact HF]|exact HPr].
  Qed.

  Theorem live_never_killed start evs t_end st :
    xvalid c l start evs t_end = Some st ->
    Forall (fun te => is_timeout (snd te) = false) evs
    /\ s_reason (xs st) = None /\ c_reason (xc st) = None.
  Proof.
    destruct Hc as (HI & HT & HD). destruct Hl as (HLd & HLu & HL).
    intros Hv. unfold xvalid in Hv.
    destruct (xrun c l (xinit start) start evs) as [[st1 now1]|] eqn:Er; [|discriminate].
    destruct ((now1 <=? t_end) && xwithin c l st1 t_end) eqn:E; [|discriminate].
    inversion Hv; subst.
    destruct (xrun_inv evs (xinit start) start (st, now1)) as [HF HP]; auto.
    - unfold xinv, xinit, sinit, cinit; simpl. repeat split; lia.
    - split; [exact HF|]. simpl in HP. destruct HP as (_ & Hcl & Hsv).
      unfold s_reason, c_reason. destruct st as [[sp sm] [cp cm] pq gq P]; simpl in *.
      split.
      + destruct sp; auto. destruct sm; destruct pq; destruct gq; contradiction.
      + destruct cp; auto. contradiction.
  Qed.
End Compose.
