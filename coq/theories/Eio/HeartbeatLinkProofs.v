(** Composition theorem: with bounded link delays, neither heartbeat ever closes a live connection. *)
From SioV Require Import Eio.Heartbeat Eio.HeartbeatLink.
Open Scope Z_scope.
Local Arguments Z.mul : simpl never.
Local Arguments Z.add : simpl never.
Local Arguments Z.max : simpl never.

Ltac zb :=
  repeat match goal with
  | H : andb _ _ = true |- _ => apply andb_true_iff in H; destruct H
  | H : (_ <=? _) = true |- _ => apply Z.leb_le in H
  | H : (_ <? _) = true |- _ => apply Z.ltb_lt in H
  | H : (_ <=? _) = false |- _ => apply Z.leb_gt in H
  | H : (_ <? _) = false |- _ => apply Z.ltb_ge in H
  end.

Ltac ifs :=
  repeat match goal with
         | H : context [if ?b then _ else _] |- _ => let E := fresh "E" in destruct b eqn:E
         | |- context [if ?b then _ else _] => let E := fresh "E" in destruct b eqn:E
         end.

Lemma pings_of_app q1 q2 : pings_of (q1 ++ q2) = pings_of q1 ++ pings_of q2.
Proof. induction q1 as [|[s| |] q1 IH]; simpl; auto. now rewrite IH. Qed.

Lemma pings_of_filter keep q :
  (forall s, keep (DPing s) = true) -> pings_of (filter keep q) = pings_of q.
Proof.
  intros Hk. induction q as [|[s| |] q IH]; simpl; auto.
  - rewrite Hk. simpl. now rewrite IH.
  - destruct (keep DMsg); simpl; auto.
  - destruct (keep DNoop); simpl; auto.
Qed.

Section Compose.
  Variable c : cfg.
  Variable l : link.
  Hypothesis Hc : cfg_ok c.
  Hypothesis Hl : 0 <= lDown l /\ 0 <= lUp l /\ lDown l + lUp l + 2 * cD c < cT c.
  (** the only thing needed of the carry-over at a transport swap: pings survive it *)
  Hypothesis Hkeep : forall s, lKeep l (DPing s) = true.
  Local Notation I := (cI c). Local Notation T := (cT c). Local Notation D := (cD c).
  Local Notation Ld := (lDown l). Local Notation Lu := (lUp l).

  (** The heartbeat cycle: (A) server asleep, no ping in the downlink; (B) ping in the downlink
      (queued on polling, in flight, or being carried over by a swap); (C) pong in flight; (D) pong in
      the mailbox.  P = xlast = time of the latest ping delivery.  Messages and NOOPs in the
      downlink are irrelevant: only [pings_of (xdown st)] matters. *)
  Definition xinv_core (ss : sst) (cs : cst) (pq gq : list Z) (P now : Z) : Prop :=
    P <= now /\
    match cph cs with
    | CArmed a => a <= now /\
        match cmb cs with
        | None => P <= a
        | Some d => d <= P /\ d < a + I + T
        end
    | CClosed _ _ => False
    end /\
    match sph ss, smb ss, pq, gq with
    | SSleep s, None, [], [] => s <= now /\ s <= P + Lu + D
    | SAwait s, None, [s'], [] => s' = s /\ s <= now /\ s <= P + Lu + I + 2 * D
    | SAwait s, None, [], [p] => p = P /\ s <= p /\ p <= s + Ld
    | SAwait s, Some d, [], [] => d <= P + Lu /\ d < s + T /\ s <= P /\ d <= now
    | _, _, _, _ => False
    end.

  Definition xinv (st : xst) (now : Z) : Prop :=
    xinv_core (xs st) (xc st) (pings_of (xdown st)) (xpong st) (xlast st) now.

  (** time may pass (all clauses mentioning [now] are upper bounds by it) *)
  Lemma xinv_core_mono ss cs pq gq P now t :
    xinv_core ss cs pq gq P now -> now <= t -> xinv_core ss cs pq gq P t.
  Proof.
    intros (HP & Hcl & Hsv) Hn. unfold xinv_core. split; [lia|]. split.
    - destruct (cph cs); [|contradiction]. destruct Hcl as [Ha Hcm]. split; [lia|exact Hcm].
    - destruct (sph ss) as [s|s|]; destruct (smb ss) as [d|]; destruct pq as [|x [|y pq]];
        destruct gq as [|u [|v gq]]; simpl in *; try contradiction.
      + destruct Hsv as (H1 & H2). split; lia.
      + destruct Hsv as (H1 & H2 & H3 & H4). repeat split; lia.
      + destruct Hsv as (H1 & H2 & H3). repeat split; lia.
      + destruct Hsv as (H1 & H2 & H3). repeat split; lia.
  Qed.

  Ltac conj_all := (try match goal with Hsv : _ /\ _ |- _ => lazymatch goal with Hsv' : _ |- _ => idtac end end).

  Ltac finish Hs :=
    unfold sstep, cstep, deposit in Hs; simpl in Hs;
    ifs; try discriminate;
    inversion Hs; subst; clear Hs; zb; unfold xinv_core; simpl; ifs; zb;
    repeat split; try lia; try congruence.

  Definition wcond ss cs pq gq t : bool :=
    within (sdeadline c ss) t && within (cdeadline c cs) t
      && within (head_deadline pq Ld) t && within (head_deadline gq Lu) t.

  Lemma core_wake ss cs pq gq P now t ss' :
    xinv_core ss cs pq gq P now -> now <= t -> wcond ss cs pq gq t = true ->
    sstep c ss t SWake = Some ss' -> xinv_core ss' cs (pq ++ [t]) gq P t.
  Proof. intros Hinv Hn Hw Hs. unfold wcond in Hw. destruct Hc as (HI & HT & HD); destruct Hl as (HLd & HLu & HL);
    destruct Hinv as (HP & Hcl & Hsv); destruct ss as [sp sm]; destruct cs as [cp cm]; simpl in *;
    destruct cp as [a|]; [|contradiction]; destruct Hcl as [Ha Hcm];
    unfold sdeadline, cdeadline, head_deadline, within in Hw; simpl in Hw.
    destruct sp as [s|s|]; destruct sm as [d|]; destruct pq as [|x [|y pq]]; destruct gq as [|u [|v gq]];
      try contradiction; decompose [and] Hsv; clear Hsv; subst; destruct cm as [dm|]; finish Hs. Qed.

  Lemma core_take ss cs pq gq P now t ss' :
    xinv_core ss cs pq gq P now -> now <= t -> wcond ss cs pq gq t = true ->
    sstep c ss t STake = Some ss' -> xinv_core ss' cs pq gq P t.
  Proof. intros Hinv Hn Hw Hs. unfold wcond in Hw. destruct Hc as (HI & HT & HD); destruct Hl as (HLd & HLu & HL);
    destruct Hinv as (HP & Hcl & Hsv); destruct ss as [sp sm]; destruct cs as [cp cm]; simpl in *;
    destruct cp as [a|]; [|contradiction]; destruct Hcl as [Ha Hcm];
    unfold sdeadline, cdeadline, head_deadline, within in Hw; simpl in Hw.
    destruct sp as [s|s|]; destruct sm as [d|]; destruct pq as [|x [|y pq]]; destruct gq as [|u [|v gq]];
      try contradiction; decompose [and] Hsv; clear Hsv; subst; destruct cm as [dm|]; finish Hs. Qed.

  Lemma core_sapp ss cs pq gq P now t ss' :
    xinv_core ss cs pq gq P now -> now <= t -> wcond ss cs pq gq t = true ->
    sstep c ss t SApp = Some ss' -> xinv_core ss' cs pq gq P t.
  Proof. intros Hinv Hn Hw Hs. unfold sstep in Hs. destruct (sph ss); inversion Hs; subst.
    all: eapply xinv_core_mono; eauto. Qed.

  Lemma core_stimeout ss cs pq gq P now t ss' :
    xinv_core ss cs pq gq P now -> now <= t -> wcond ss cs pq gq t = true ->
    sstep c ss t STimeout = Some ss' -> False.
  Proof. intros Hinv Hn Hw Hs. unfold wcond in Hw. destruct Hc as (HI & HT & HD); destruct Hl as (HLd & HLu & HL);
    destruct Hinv as (HP & Hcl & Hsv); destruct ss as [sp sm]; destruct cs as [cp cm]; simpl in *;
    destruct cp as [a|]; [|contradiction]; destruct Hcl as [Ha Hcm];
    unfold sdeadline, cdeadline, head_deadline, within in Hw; simpl in Hw.
    destruct sp as [s|s|]; destruct sm as [d|]; destruct pq as [|x [|y pq]]; destruct gq as [|u [|v gq]];
      try contradiction; decompose [and] Hsv; clear Hsv; subst;
      unfold sstep in Hs; simpl in Hs; destruct cm as [dm|]; ifs; try discriminate; zb; lia. Qed.

  Lemma core_rearm ss cs pq gq P now t cs' :
    xinv_core ss cs pq gq P now -> now <= t -> wcond ss cs pq gq t = true ->
    cstep c cs t CRearm = Some cs' -> xinv_core ss cs' pq gq P t.
  Proof. intros Hinv Hn Hw Hs. unfold wcond in Hw. destruct Hc as (HI & HT & HD); destruct Hl as (HLd & HLu & HL);
    destruct Hinv as (HP & Hcl & Hsv); destruct ss as [sp sm]; destruct cs as [cp cm]; simpl in *;
    destruct cp as [a|]; [|contradiction]; destruct Hcl as [Ha Hcm];
    unfold sdeadline, cdeadline, head_deadline, within in Hw; simpl in Hw.
    destruct sp as [s|s|]; destruct sm as [d|]; destruct pq as [|x [|y pq]]; destruct gq as [|u [|v gq]];
      try contradiction; decompose [and] Hsv; clear Hsv; subst; destruct cm as [dm|]; finish Hs. Qed.

  Lemma core_capp ss cs pq gq P now t cs' :
    xinv_core ss cs pq gq P now -> now <= t -> wcond ss cs pq gq t = true ->
    cstep c cs t CApp = Some cs' -> xinv_core ss cs' pq gq P t.
  Proof. intros Hinv Hn Hw Hs. unfold cstep in Hs. destruct (cph cs); inversion Hs; subst.
    all: eapply xinv_core_mono; eauto. Qed.

  Lemma core_ctimeout ss cs pq gq P now t cs' :
    xinv_core ss cs pq gq P now -> now <= t -> wcond ss cs pq gq t = true ->
    cstep c cs t CTimeout = Some cs' -> False.
  Proof. intros Hinv Hn Hw Hs. unfold wcond in Hw. destruct Hc as (HI & HT & HD); destruct Hl as (HLd & HLu & HL);
    destruct Hinv as (HP & Hcl & Hsv); destruct ss as [sp sm]; destruct cs as [cp cm]; simpl in *;
    destruct cp as [a|]; [|contradiction]; destruct Hcl as [Ha Hcm];
    unfold sdeadline, cdeadline, head_deadline, within in Hw; simpl in Hw.
    destruct sp as [s|s|]; destruct sm as [d|]; destruct pq as [|x [|y pq]]; destruct gq as [|u [|v gq]];
      try contradiction; decompose [and] Hsv; clear Hsv; subst;
      unfold cstep in Hs; simpl in Hs; destruct cm as [dm|]; ifs; try discriminate; zb; lia. Qed.

  Lemma core_dping ss cs s rest gq P now t cs' :
    xinv_core ss cs (s :: rest) gq P now -> now <= t -> wcond ss cs (s :: rest) gq t = true ->
    s <= t -> cstep c cs t CPing = Some cs' -> xinv_core ss cs' rest (gq ++ [t]) t t.
  Proof. intros Hinv Hn Hw Hle Hs. unfold wcond in Hw. destruct Hc as (HI & HT & HD); destruct Hl as (HLd & HLu & HL);
    destruct Hinv as (HP & Hcl & Hsv); destruct ss as [sp sm]; destruct cs as [cp cm]; simpl in *;
    destruct cp as [a|]; [|contradiction]; destruct Hcl as [Ha Hcm];
    unfold sdeadline, cdeadline, head_deadline, within in Hw; simpl in Hw.
    destruct sp as [s0|s0|]; destruct sm as [d|]; destruct rest as [|y rest]; destruct gq as [|u [|v gq]];
      try contradiction; decompose [and] Hsv; clear Hsv; subst; destruct cm as [dm|]; finish Hs. Qed.

  Lemma core_dpong ss cs pq p rest P now t ss' :
    xinv_core ss cs pq (p :: rest) P now -> now <= t -> wcond ss cs pq (p :: rest) t = true ->
    p <= t -> sstep c ss t SPong = Some ss' -> xinv_core ss' cs pq rest P t.
  Proof. intros Hinv Hn Hw Hle Hs. unfold wcond in Hw. destruct Hc as (HI & HT & HD); destruct Hl as (HLd & HLu & HL);
    destruct Hinv as (HP & Hcl & Hsv); destruct ss as [sp sm]; destruct cs as [cp cm]; simpl in *;
    destruct cp as [a|]; [|contradiction]; destruct Hcl as [Ha Hcm];
    unfold sdeadline, cdeadline, head_deadline, within in Hw; simpl in Hw.
    destruct sp as [s0|s0|]; destruct sm as [d|]; destruct pq as [|x [|y pq]]; destruct rest as [|v rest];
      try contradiction; decompose [and] Hsv; clear Hsv; subst; destruct cm as [dm|]; finish Hs. Qed.

  Lemma xinv_step st now t e st' :
    xinv st now -> now <= t -> xwithin c l st t = true -> x_no_ext e = true ->
    xstep c l st t e = Some st' -> is_timeout e = false /\ xinv st' t.
  Proof.
    intros Hinv Hn Hw Hx Hs. unfold xinv in *. unfold xwithin in Hw.
    destruct st as [ss cs xd gq P]; simpl in *. fold (wcond ss cs (pings_of xd) gq t) in Hw.
    destruct e as [es|ec|p| | |]; unfold xstep in Hs; cbn [xs xc xdown xpong xlast] in Hs.
    - destruct es; try discriminate; simpl in Hx; try discriminate.
      + destruct (sstep c ss t SWake) as [ss'|] eqn:E; [|discriminate]. inversion Hs; subst; simpl.
        split; [reflexivity|]. rewrite pings_of_app. simpl. eapply core_wake; eauto.
      + destruct (sstep c ss t STake) as [ss'|] eqn:E; [|discriminate]. inversion Hs; subst; simpl.
        split; [reflexivity|]. eapply core_take; eauto.
      + destruct (sstep c ss t STimeout) as [ss'|] eqn:E; [|discriminate].
        exfalso. eapply core_stimeout; eauto.
      + destruct (sstep c ss t SApp) as [ss'|] eqn:E; [|discriminate]. inversion Hs; subst; simpl.
        split; [reflexivity|]. eapply core_sapp; eauto.
    - destruct ec; try discriminate; simpl in Hx; try discriminate.
      + destruct (cstep c cs t CRearm) as [cs'|] eqn:E; [|discriminate]. inversion Hs; subst; simpl.
        split; [reflexivity|]. eapply core_rearm; eauto.
      + destruct (cstep c cs t CTimeout) as [cs'|] eqn:E; [|discriminate].
        exfalso. eapply core_ctimeout; eauto.
      + destruct (cstep c cs t CApp) as [cs'|] eqn:E; [|discriminate]. inversion Hs; subst; simpl.
        split; [reflexivity|]. eapply core_capp; eauto.
    - (* a message / NOOP is queued: the pings in the downlink are the same *)
      destruct p; try discriminate; inversion Hs; subst; simpl; (split; [reflexivity|]);
        rewrite pings_of_app; simpl; rewrite app_nil_r; eapply xinv_core_mono; eauto.
    - (* transport swap: pings are carried over *)
      inversion Hs; subst; simpl. split; [reflexivity|].
      rewrite (pings_of_filter _ _ Hkeep). eapply xinv_core_mono; eauto.
    - (* delivery of the head of the downlink *)
      destruct xd as [|[s| |] rest]; try discriminate.
      + destruct (s <=? t) eqn:E; [|discriminate]. apply Z.leb_le in E.
        destruct (cstep c cs t CPing) as [cs'|] eqn:E2; [|discriminate]. inversion Hs; subst; simpl.
        split; [reflexivity|]. simpl in Hinv, Hw. eapply core_dping; eauto.
      + inversion Hs; subst; simpl. split; [reflexivity|]. eapply xinv_core_mono; eauto.
      + inversion Hs; subst; simpl. split; [reflexivity|]. eapply xinv_core_mono; eauto.
    - (* pong delivery *)
      destruct gq as [|p rest]; try discriminate.
      destruct (p <=? t) eqn:E; [|discriminate]. apply Z.leb_le in E.
      destruct (sstep c ss t SPong) as [ss'|] eqn:E2; [|discriminate]. inversion Hs; subst; simpl.
      split; [reflexivity|]. eapply core_dpong; eauto.
  Qed.

  Lemma xrun_inv evs : forall st now r,
    xinv st now -> xrun c l st now evs = Some r ->
    Forall (fun te => is_timeout (snd te) = false) evs /\ xinv (fst r) (snd r).
  Proof.
    induction evs as [|[t e] evs IH]; intros st now r HP Hrun; simpl in Hrun.
    - inversion Hrun; subst; simpl. split; [constructor|exact HP].
    - destruct ((now <=? t) && xwithin c l st t && x_no_ext e) eqn:E; [|discriminate].
      apply andb_true_iff in E as [E Eg]. apply andb_true_iff in E as [En Ew].
      destruct (xstep c l st t e) as [st1|] eqn:Es; [|discriminate].
      destruct (xinv_step st now t e st1) as [HQ HP1]; auto. { apply Z.leb_le; exact En. }
      destruct (IH st1 t r HP1 Hrun) as [HF HPr]. split; [constructor; [exact HQ|exact HF]|exact HPr].
  Qed.

  Theorem live_never_killed start evs t_end st :
    xvalid c l start evs t_end = Some st ->
    Forall (fun te => is_timeout (snd te) = false) evs
    /\ s_reason (xs st) = None /\ c_reason (xc st) = None.
  Proof.
    destruct Hc as (HI & HT & HD). destruct Hl as (HLd & HLu & HL).
    intros Hv. unfold xvalid in Hv.
    destruct (xrun c l (xinit start) start evs) as [[st1 now1]|] eqn:Er; [|discriminate].
    destruct ((now1 <=? t_end) && xwithin c l st1 t_end) eqn:E; [|discriminate].
    inversion Hv; subst.
    destruct (xrun_inv evs (xinit start) start (st, now1)) as [HF HP]; auto.
    - unfold xinv, xinv_core, xinit, sinit, cinit; simpl. repeat split; lia.
    - split; [exact HF|]. simpl in HP. unfold xinv, xinv_core in HP. destruct HP as (_ & Hcl & Hsv).
      unfold s_reason, c_reason. destruct st as [[sp sm] [cp cm] xd gq P]; simpl in *.
      split.
      + destruct sp; auto. destruct sm; destruct (pings_of xd); destruct gq; contradiction.
      + destruct cp; auto. contradiction.
  Qed.
End Compose.
