(** Engine.IO server: request decision, session ids, store, Close (C17).

    Port of engine.io/server.go (ServeHTTP, handleHandshake, newSocket, maybeUpgrade, Close),
    base64id.go (GenerateBase64ID, generateSID), store.go and the method switch of
    transport/polling/server.go:ServeHTTP, for requests that arrive over HTTP/1.x
    ([r.ProtoMajor <> 3]; the WebTransport CONNECT path is not modelled).

    What a request is, for the decision: method, the query parameters EIO / transport / sid (a
    missing parameter and an empty one are the same thing for [url.Values.Get]), whether it carries
    a well-formed WebSocket upgrade, and what the Authenticator answers.  The [b64] and [j]
    parameters do not take part in the decision (they only select the body format), so they are
    not fields of [request]: the correspondence suite varies them and expects no difference. *)
From SioV Require Import Base.GoSem.

(* ------------------------------------------------------------------ strings *)
Definition bytes_eqb (a b : bytes) : bool := list_eqb N.eqb a b.

Definition s_polling : bytes := [112;111;108;108;105;110;103]%N.
Definition s_websocket : bytes := [119;101;98;115;111;99;107;101;116]%N.
Definition s_webtransport : bytes := [119;101;98;116;114;97;110;115;112;111;114;116]%N.

(* ------------------------------------------------------------------ strconv.Atoi(EIO) == 4 *)
Definition is_digit (c : N) : bool := ((48 <=? c) && (c <=? 57))%N.
Definition digits_val (d : bytes) : N := fold_left (fun acc c => acc * 10 + (c - 48))%N d 0%N.

(** [strconv.Atoi s] returns 4 with a nil error: optional '+', at least one digit, digits only,
    value 4 ("-..." can only give a value <= 0, an error gives "unsupported version" as well). *)
Definition eio_is4 (s : bytes) : bool :=
  let d := match s with 43%N :: d => d | _ => s end in
  match d with
  | [] => false
  | _ => forallb is_digit d && (digits_val d =? 4)%N
  end.

(* ------------------------------------------------------------------ base64url, whole 3-byte groups *)
Definition b64char (s : N) : N :=
  (if s <? 26 then 65 + s
   else if s <? 52 then 97 + (s - 26)
   else if s <? 62 then 48 + (s - 52)
   else if s =? 62 then 45 else 95)%N.

Definition enc3 (a b c : N) : bytes :=
  [b64char (a / 4); b64char ((a mod 4) * 16 + b / 16);
   b64char ((b mod 16) * 4 + c / 64); b64char (c mod 64)]%N.

Fixpoint b64url (bs : bytes) : bytes :=
  match bs with
  | a :: b :: c :: r => enc3 a b c ++ b64url r
  | _ => []
  end.

(* ------------------------------------------------------------------ GenerateBase64ID(15) *)
Definition wrap32 (n : N) : N := (n mod 4294967296)%N.

(** 12 bytes from the random source, whatever it returned (a Go [rand.Read] fills exactly the
    slice it is given). *)
Definition take12 (rnd : bytes) : bytes := firstn 12 (rnd ++ repeat 0%N 12).

(** [b := make([]byte,15); PutUint32(b[11:], seq); rand.Read(b[:12])]: the top byte of the
    big-endian sequence number is overwritten by the 12th random byte; 24 bits of it remain. *)
Definition id_bytes (seq : N) (rnd : bytes) : bytes :=
  take12 rnd ++ [(seq / 65536) mod 256; (seq / 256) mod 256; seq mod 256]%N.

Definition generate_id (seq : N) (rnd : bytes) : bytes := b64url (id_bytes seq rnd).

(* ------------------------------------------------------------------ server state *)
Inductive tkind := Polling | Websocket.
Definition tname (k : tkind) : bytes := match k with Polling => s_polling | Websocket => s_websocket end.
Definition tkind_eqb (a b : tkind) : bool :=
  match a, b with Polling, Polling | Websocket, Websocket => true | _, _ => false end.

Definition store := list (bytes * tkind).

Record sstate := mkState {
  s_closed : bool;   (* Server.closed *)
  s_store : store;   (* socketStore.sockets *)
  s_seq : N          (* base64IDSeq *)
}.

Fixpoint store_get (sid : bytes) (st : store) : option tkind :=
  match st with
  | [] => None
  | (k, v) :: r => if bytes_eqb k sid then Some v else store_get sid r
  end.
Definition store_exists (sid : bytes) (st : store) : bool :=
  match store_get sid st with Some _ => true | None => false end.
Definition store_delete (sid : bytes) (st : store) : store :=
  filter (fun e => negb (bytes_eqb (fst e) sid)) st.
(** [store.set]: refuses an existing key. *)
Definition store_set (sid : bytes) (k : tkind) (st : store) : option store :=
  if store_exists sid st then None else Some (st ++ [(sid, k)]).

Definition sids (st : store) : list bytes := map fst st.

Definition is_nil {A} (l : list A) : bool := match l with [] => true | _ => false end.

(* ------------------------------------------------------------------ requests and responses *)
Inductive meth := GET | POST | PUT | DELETE | OPTIONS | CONNECT | OTHER.
Inductive proto := P1 | P2 | P3.      (* r.ProtoMajor *)
Definition is_p3 (p : proto) : bool := match p with P3 => true | _ => false end.
Definition is_connect (m : meth) : bool := match m with CONNECT => true | _ => false end.
Definition is_get (m : meth) : bool := match m with GET => true | _ => false end.
Definition is_get_or_post (m : meth) : bool := match m with GET | POST => true | _ => false end.

Record request := mkReq {
  r_proto : proto;
  r_meth : meth;
  r_eio : bytes;       (* q.Get("EIO") *)
  r_tr : bytes;        (* q.Get("transport") *)
  r_sid : bytes;       (* q.Get("sid") *)
  r_wsup : bool;       (* carries a well-formed WebSocket upgrade (websocket.Accept succeeds) *)
  r_auth : bool        (* answer of ServerConfig.Authenticator for this request *)
}.

Inductive response :=
| RClosed                         (* 503 *)
| RErr (code : N)                 (* 400 + {"code":code,"message":...} *)
| RForbidden                      (* 403 *)
| RInternal                       (* 500 *)
| ROpen (sid : bytes) (k : tkind) (* 200 (polling) / 101 (websocket) carrying the OPEN packet *)
| ROpenVia (sid : bytes) (m : meth) (* HTTP/3 only: polling handshake with a method other than GET: the
                                      transport answers as for that method ("ok" / nothing), the OPEN
                                      packet stays queued, the session is created all the same *)
| ROverlap (sid : bytes)          (* OPEN packet already written, then store.set refused the sid *)
| RPoll                           (* 200 + payload *)
| RData                           (* 200 "ok" *)
| REmpty200                       (* polling transport, method neither GET nor POST: nothing written *)
| RUpgrade                        (* 101: upgrade probe accepted on a live session *)
| RLib (status : N)               (* refused by the websocket library (no upgrade headers): 426 *)
| RPlain400.                      (* websocket transport's ServeHTTP *)

Definition set_seq (st : sstate) (q : N) := mkState (s_closed st) (s_store st) q.
Definition set_store (st : sstate) (s : store) := mkState (s_closed st) s (s_seq st).

(** [generateSID]: at most 11 proposals, each consuming one sequence number; [rnd q] is what the
    random source returns for the proposal carrying sequence number [q]. *)
Fixpoint generate_sid (rnd : N -> bytes) (st : store) (seq : N) (tries : nat) : option bytes * N :=
  match tries with
  | O => (None, seq)
  | S k =>
      let id := generate_id seq (rnd seq) in
      let seq' := wrap32 (seq + 1) in
      if store_exists id st then generate_sid rnd st seq' k else (Some id, seq')
  end.

(** serverSocket.close -> onClose -> store.delete. *)
Definition close_socket (sid : bytes) (st : sstate) : sstate :=
  set_store st (store_delete sid (s_store st)).

(** [newSocket] (after the transport handshake wrote the OPEN packet). *)
Definition new_socket (st : sstate) (sid : bytes) (k : tkind) (answer : response) : response * sstate :=
  match store_set sid k (s_store st) with
  | None => (ROverlap sid, close_socket sid st)      (* socket.close -> store.delete(sid) *)
  | Some s' =>
      let st' := set_store st s' in
      if s_closed st' then (answer, close_socket sid st')   (* re-check after the insertion *)
      else (answer, st')
  end.

Definition handshake (rnd : N -> bytes) (st : sstate) (rq : request) : response * sstate :=
  if negb (is_get (r_meth rq)) && negb (is_p3 (r_proto rq)) then (RErr 2, st)
  else if is_connect (r_meth rq) && is_p3 (r_proto rq) && is_nil (r_tr rq) then
    (RErr 0, st)                       (* onWebTransport: no WebTransport server configured *)
  else if negb (r_auth rq) then (RForbidden, st)
  else
    match generate_sid rnd (s_store st) (s_seq st) 11 with
    | (None, q) => (RInternal, set_seq st q)
    | (Some sid, q) =>
        let st1 := set_seq st q in
        if bytes_eqb (r_tr rq) s_polling then
          new_socket st1 sid Polling (if is_get (r_meth rq) then ROpen sid Polling else ROpenVia sid (r_meth rq))
        else if bytes_eqb (r_tr rq) s_websocket then
          if r_wsup rq then new_socket st1 sid Websocket (ROpen sid Websocket) else (RLib 426, st1)
        else (RErr 0, st1)
    end.

Definition maybe_upgrade (rq : request) : response :=
  if bytes_eqb (r_tr rq) s_websocket then (if r_wsup rq then RUpgrade else RLib 426)
  else if bytes_eqb (r_tr rq) s_webtransport then RInternal   (* "t == nil": no HTTP/3 session *)
  else RErr 3.

Definition transport_serve (k : tkind) (m : meth) : response :=
  match k with
  | Polling => match m with GET => RPoll | POST => RData | _ => REmpty200 end
  | Websocket => RPlain400
  end.

Definition serve (rnd : N -> bytes) (st : sstate) (rq : request) : response * sstate :=
  if s_closed st then (RClosed, st)
  else if negb (is_p3 (r_proto rq)) && negb (eio_is4 (r_eio rq)) then (RErr 5, st)
  else
    match r_sid rq with
    | [] => handshake rnd st rq
    | _ =>
        match store_get (r_sid rq) (s_store st) with
        | None => (RErr 1, st)
        | Some k =>
            if negb (is_get_or_post (r_meth rq)) && negb (is_p3 (r_proto rq)) then (RErr 2, st)
            else if negb (bytes_eqb (tname k) (r_tr rq)) then (maybe_upgrade rq, st)
            else (transport_serve k (r_meth rq), st)
        end
    end.

(** [Server.Close]: flag, then [closeAll] over a snapshot of the store. *)
Definition close (st : sstate) : sstate :=
  let st1 := mkState true (s_store st) (s_seq st) in
  fold_left (fun s e => close_socket (fst e) s) (s_store st1) st1.

(** A run of requests (with the random source of each). *)
Fixpoint serve_all (st : sstate) (rqs : list ((N -> bytes) * request)) : list response * sstate :=
  match rqs with
  | [] => ([], st)
  | (rnd, rq) :: r =>
      let '(a, st1) := serve rnd st rq in
      let '(l, st2) := serve_all st1 r in (a :: l, st2)
  end.

(* ------------------------------------------------------------------ the protocol's view *)
(** Invalid-request classes of the property, stated on the request and the set of live sessions
    only (not on the order in which the server looks at things). *)
Inductive defect := BadVersion | UnknownSid | BadMethod | UnknownTransport | BadSessionTransport.

Definition code_of (d : defect) : N :=
  match d with
  | UnknownTransport => 0 | UnknownSid => 1 | BadMethod => 2 | BadSessionTransport => 3 | BadVersion => 5
  end%N.

(** The WebTransport session request: extended CONNECT over HTTP/3 without a transport name.  It
    carries no EIO parameter and is not a GET; it is the only request exempt from those checks. *)
Definition wt_connect (rq : request) : bool :=
  is_p3 (r_proto rq) && is_connect (r_meth rq) && is_nil (r_tr rq) && is_nil (r_sid rq).

Definition has_defect (st : sstate) (rq : request) (d : defect) : bool :=
  let live := store_get (r_sid rq) (s_store st) in
  match d with
  | BadVersion => negb (eio_is4 (r_eio rq)) && negb (wt_connect rq)
  | UnknownSid => negb (is_nil (r_sid rq)) && match live with None => true | Some _ => false end
  | BadMethod =>
      if is_nil (r_sid rq) then negb (is_get (r_meth rq)) && negb (wt_connect rq)
      else match live with Some _ => negb (is_get_or_post (r_meth rq)) | None => false end
  | UnknownTransport =>
      is_nil (r_sid rq) && negb (bytes_eqb (r_tr rq) s_polling || bytes_eqb (r_tr rq) s_websocket)
  | BadSessionTransport =>
      negb (is_nil (r_sid rq)) &&
      match live with
      | Some k => negb (bytes_eqb (tname k) (r_tr rq)) && negb (bytes_eqb (r_tr rq) s_websocket)
                  && negb (bytes_eqb (r_tr rq) s_webtransport)
      | None => false
      end
  end.

Definition all_defects := [BadVersion; UnknownSid; BadMethod; UnknownTransport; BadSessionTransport].
Definition defects (st : sstate) (rq : request) : list defect := filter (has_defect st rq) all_defects.
