(** The inductive invariant of the upgrade model and its preservation by every label. *)
From SioV Require Import Base.GoSem Base.Conc Eio.Upgrade.
From Coq Require Import Lia.

(** ** counting lemmas *)
Lemma cntN_app n a b : cntN n (a ++ b) = cntN n a + cntN n b.
Proof. induction a; simpl; [reflexivity|]. rewrite IHa. lia. Qed.

Lemma msgs_app a b : msgs (a ++ b) = msgs a ++ msgs b.
Proof. induction a as [|p a IH]; simpl; [reflexivity|]. destruct p; simpl; now rewrite IH. Qed.

Lemma cnt_app n a b : cnt n (a ++ b) = cnt n a + cnt n b.
Proof. unfold cnt. now rewrite msgs_app, cntN_app. Qed.

Lemma cnt_nil n : cnt n [] = 0. Proof. reflexivity. Qed.

Lemma cnt_filter_noop n l : cnt n (filter (fun q => negb (is_noop q)) l) = cnt n l.
Proof. unfold cnt. induction l as [|p l IH]; simpl; [reflexivity|]. destruct p; simpl; now rewrite ?IH. Qed.

Definition one (n k : N) : nat := if N.eqb n k then 1 else 0.

Lemma sent_ind_succ n k : sent_ind n (N.succ k) = sent_ind n k + one n k.
Proof.
  unfold sent_ind, one. destruct (N.ltb_spec n (N.succ k)), (N.ltb_spec n k), (N.eqb_spec n k); lia.
Qed.

Lemma cnt_msg n k : cnt n [Msg k] = one n k.
Proof. unfold cnt, one. simpl. lia. Qed.

Lemma cntN_one n k : cntN n [k] = one n k.
Proof. unfold one. simpl. lia. Qed.

Lemma cntN_remove_nth n i l x :
  nth_error l i = Some x -> cntN n (remove_nth i l) + one n x = cntN n l.
Proof.
  revert i; induction l as [|y l IH]; intros [|i] H; simpl in *; try discriminate.
  - injection H as ->. unfold one. lia.
  - specialize (IH _ H). lia.
Qed.

Lemma length_remove_nth {A} i (l : list A) x :
  nth_error l i = Some x -> S (length (remove_nth i l)) = length l.
Proof.
  revert i; induction l as [|y l IH]; intros [|i] H; simpl in *; try discriminate; [reflexivity|].
  now rewrite (IH _ H).
Qed.

Fixpoint nUpg (l : list pkt) : nat :=
  match l with [] => 0 | Upg :: l' => S (nUpg l') | _ :: l' => nUpg l' end.
Lemma nUpg_app a b : nUpg (a ++ b) = nUpg a + nUpg b.
Proof. induction a as [|p a IH]; simpl; [reflexivity|]. destruct p; simpl; rewrite IH; lia. Qed.

(** What the client may have put on the candidate websocket while the server is still probing it:
    probe PINGs, then UPGRADE, and only after that anything else. *)
Fixpoint pre_ok (l : list pkt) : bool :=
  match l with
  | [] => true
  | Ping :: l' => pre_ok l'
  | Upg :: _ => true
  | _ => false
  end.

Lemma pre_ok_snoc_ping l : pre_ok l = true -> pre_ok (l ++ [Ping]) = true.
Proof. induction l as [|p l IH]; simpl; [reflexivity|]. destruct p; auto. Qed.
Lemma pre_ok_snoc_upg l : pre_ok l = true -> pre_ok (l ++ [Upg]) = true.
Proof. induction l as [|p l IH]; simpl; [reflexivity|]. destruct p; auto. Qed.
Lemma pre_ok_snoc_any l x : pre_ok l = true -> 1 <= nUpg l -> pre_ok (l ++ [x]) = true.
Proof.
  induction l as [|p l IH]; simpl; [lia|]. destruct p; intros H U; try discriminate; auto.
Qed.

(** ** the invariant *)
Definition gbusy (g : gst) : nat := match g with GIdle => 0 | _ => 1 end.
Definition rbusy (r : resp) : nat := match r with RNone => 0 | _ => 1 end.
Definition lflight (l : lst) : nat := match l with LFlight => 1 | _ => 0 end.
Definition bn (b : bool) : nat := if b then 1 else 0.

Record inv (n : N) (st : state) : Prop := {
  i_sc : s_ws st = true -> c_ws st = true;
  i_cup : c_ws st = true <-> c_cand st = KUp;
  i_exit : c_exit st = true <-> c_ws st = true;
  i_rl : c_rl st = length (k_posts st) + k_oks st;
  i_wsrl : c_ws st = true -> c_rl st = 0;
  i_tok : bn (k_req st) + gbusy (s_get st) + rbusy (k_resp st) = lflight (c_loop st);
  i_park : s_get st = GParked -> s_pq st = [];
  i_woke : s_get st = GWoken -> s_pq st <> [] \/ s_ws st = true;
  i_bad : (k_resp st = RBad \/ k_resp st = RPkts []) -> s_ws st = true;
  i_up1 : s_cand st = CUp -> s_ws st = true;
  i_up2 : s_ws st = true -> s_cand st = CUp \/ broke st = true;
  i_lexit : c_loop st = LExit -> c_exit st = true;
  i_open : c_committed st = true -> broke st = false -> k_ws st = WOpen;
  i_cand : c_committed st = true -> broke st = false -> s_ws st = false ->
           s_cand st = CWait \/ s_cand st = CProbed;
  i_upg : c_ws st = true -> s_ws st = false -> broke st = false -> nUpg (k_cs st) = 1;
  i_noupg : c_ws st = false -> nUpg (k_cs st) = 0;
  i_pong : k_ws st = WOpen -> k_sc st <> [] -> s_ws st = false -> s_cand st = CProbed;
  i_pre : (k_ws st = WNone \/ k_ws st = WDialing) -> k_sc st = [] /\ k_cs st = [];
  i_closed : broke st = false -> c_closed st = false /\ s_closed st = false;
  i_paused : c_paused st = true -> c_cand st = KProbe \/ c_cand st = KSwapWait;
  i_ptm : c_cand st = KProbe -> c_tm st <> TOff;
  i_sw : (c_cand st = KProbe \/ c_cand st = KSwapWait) -> c_paused st = true;
  i_idle : c_committed st = true -> c_loop st <> LFlight;
  i_pre2 : (k_ws st = WNone \/ k_ws st = WDialing) -> c_cand st = KNone \/ c_cand st = KDial;
  i_shape : s_ws st = false -> pre_ok (k_cs st) = true;
  i_upg2 : c_ws st = true -> s_ws st = false -> (k_ws st = WOpen \/ k_ws st = WStalled) -> 1 <= nUpg (k_cs st);
  b_sc : s_ws st = false -> cnt n (k_sc st) = 0;
  b_cs : c_ws st = false -> cnt n (k_cs st) = 0;
  b_pq : s_ws st = true -> cnt n (s_pq st) = 0;
  b_s2c : broke st = false ->
          cntN n (c_recv st) + cnt n (s_pq st) + cnt n (resp_pkts (k_resp st)) + cnt n (k_sc st)
          = sent_ind n (s_sent st);
  b_c2s : broke st = false ->
          cntN n (s_recv st) + cntN n (k_posts st) + cnt n (k_cs st) = sent_ind n (c_sent st)
}.

Lemma sent_ind_0 n : sent_ind n 0 = 0.
Proof. unfold sent_ind. destruct (N.ltb_spec n 0); [lia | reflexivity]. Qed.

Lemma inv_init n : inv n init.
Proof.
  constructor; cbn; rewrite ?sent_ind_0; intros;
    try solve [ tauto | discriminate | reflexivity | split; intros; discriminate
              | split; reflexivity | intuition discriminate ].
Qed.

(** ** tactics for the preservation proofs *)
Arguments cnt : simpl never.
Arguments sent_ind : simpl never.
Arguments one : simpl never.
Arguments msgs : simpl never.

Lemma snoc_nonnil {A} (l : list A) x : l ++ [x] <> [].
Proof. destruct l; discriminate. Qed.
Lemma lflight_le l : lflight l <= 1. Proof. destruct l; simpl; lia. Qed.
Lemma cnt_msgs n l : cntN n (msgs l) = cnt n l. Proof. reflexivity. Qed.
Lemma cnt_cons_msg n k l : cnt n (Msg k :: l) = one n k + cnt n l. Proof. reflexivity. Qed.
Lemma cnt_cons_noop n l : cnt n (Noop :: l) = cnt n l. Proof. reflexivity. Qed.
Lemma cnt_cons_ping n l : cnt n (Ping :: l) = cnt n l. Proof. reflexivity. Qed.
Lemma cnt_cons_pong n l : cnt n (Pong :: l) = cnt n l. Proof. reflexivity. Qed.
Lemma cnt_cons_upg n l : cnt n (Upg :: l) = cnt n l. Proof. reflexivity. Qed.

Ltac dmatch H :=
  repeat match type of H with
  | context [match ?x with _ => _ end] => destruct x eqn:?; cbn in H; try discriminate H
  | context [if ?x then _ else _] => destruct x eqn:?; cbn in H; try discriminate H
  end.

Ltac norm :=
  rewrite ?cnt_msgs, ?cnt_app, ?cntN_app, ?cnt_msgs, ?cnt_filter_noop, ?sent_ind_succ, ?cnt_cons_msg, ?cnt_cons_noop,
          ?cnt_cons_ping, ?cnt_cons_pong, ?cnt_cons_upg, ?cntN_one, ?cnt_nil, ?nUpg_app,
          ?app_length, ?Bool.orb_true_r, ?Bool.orb_false_r in *; cbn in *.

Ltac fwd :=
  repeat match goal with
  | H : ?a = ?a -> _ |- _ => specialize (H eq_refl)
  | H : ?a = ?a <-> _ |- _ => destruct H as [H _]; specialize (H eq_refl)
  | H : _ <-> ?a = ?a |- _ => destruct H as [_ H]; specialize (H eq_refl)
  | H : ?x = _ |- _ => is_var x; subst x
  | H : _ /\ _ |- _ => destruct H
  end.

(** case split on the boolean state variables that guard invariant clauses, and on the response *)
Ltac enum :=
  repeat match goal with
  | H : ?b = true -> _ |- _ => is_var b; destruct b
  | H : ?b = false -> _ |- _ => is_var b; destruct b
  | H : ?b = true <-> _ |- _ => is_var b; destruct b
  | H : context [rbusy ?x] |- _ => is_var x; destruct x
  | H : context [bn ?x] |- _ => is_var x; destruct x
  | H : context [match ?x with _ => _ end] |- _ => is_var x; destruct x
  | |- context [match ?x with _ => _ end] => is_var x; destruct x
  end; cbn in *.

Ltac fin0 := solve [ assumption | reflexivity | discriminate | congruence | lia ].
Ltac fwd2 :=
  repeat match goal with
  | H : ?a = ?a -> _ |- _ => specialize (H eq_refl)
  | H : (_ :: _ <> []) -> _ |- _ => specialize (H ltac:(discriminate))
  | H : (?a = ?a \/ _) -> _ |- _ => specialize (H (or_introl eq_refl))
  | H : (_ \/ ?a = ?a) -> _ |- _ => specialize (H (or_intror eq_refl))
  | H : ?a = ?a <-> _ |- _ => destruct H as [H _]; specialize (H eq_refl)
  | H : _ <-> ?a = ?a |- _ => destruct H as [_ H]; specialize (H eq_refl)
  | H : ?x = _ |- _ => is_var x; subst x
  | H : _ /\ _ |- _ => destruct H
  | H : _ \/ _ |- _ => destruct H
  | H : ?a = ?b -> _ |- _ => assert (a <> b) by (clear; discriminate); clear H
  end.
Ltac fin1 := solve [ fin0 | left; fin0 | right; fin0 | split; fin0 | split; intros; fin0 ].
Ltac fin :=
  solve [ fin0 | intros; left; apply snoc_nonnil | intros; fwd; cbn in *; fin0
        | intros; enum; fwd2; cbn in *; rewrite ?cnt_nil in *; fin1 ].

(** The preservation tactic: unfold the step, case-split the step's own matches ([dmatch]), normalise
    the hypotheses ONCE, split on the few variables that guard invariant clauses with forward
    chaining after each split (inconsistent cases disappear before the 24 clauses are generated),
    then discharge the clauses one by one ([fin] with its own case split is only a fall-back). *)
Ltac unf H := unfold step, s_send, ws_sc, ws_cs, pq_add, c_polling_close, s_on_transport_close,
   c_on_transport_close, ws_kill, tm_done, c_committed, s_upgraded in H.

Ltac hnorm :=
  rewrite ?cnt_msgs, ?cnt_app, ?cntN_app, ?cnt_msgs, ?cnt_filter_noop, ?sent_ind_succ, ?cnt_cons_msg, ?cnt_cons_noop,
          ?cnt_cons_ping, ?cnt_cons_pong, ?cnt_cons_upg, ?cntN_one, ?cnt_nil, ?nUpg_app,
          ?app_length, ?Bool.orb_true_r, ?Bool.orb_false_r in *.
Ltac gnorm :=
  rewrite ?cnt_msgs, ?cnt_app, ?cntN_app, ?cnt_msgs, ?cnt_filter_noop, ?sent_ind_succ, ?cnt_cons_msg, ?cnt_cons_noop,
          ?cnt_cons_ping, ?cnt_cons_pong, ?cnt_cons_upg, ?cntN_one, ?cnt_nil, ?nUpg_app,
          ?app_length, ?Bool.orb_true_r, ?Bool.orb_false_r; cbn.

(** forward chaining on the hypotheses; never splits the goal except on a disjunctive fact *)
Ltac fw :=
  repeat match goal with
  | H : ?a = ?a -> _ |- _ => specialize (H eq_refl)
  | H : (_ :: _ <> []) -> _ |- _ => specialize (H ltac:(discriminate))
  | H : (?a = ?a \/ _) -> _ |- _ => specialize (H (or_introl eq_refl))
  | H : (_ \/ ?a = ?a) -> _ |- _ => specialize (H (or_intror eq_refl))
  | H : ?a = ?a <-> _ |- _ => destruct H as [H _]; specialize (H eq_refl)
  | H : _ <-> ?a = ?a |- _ => destruct H as [_ H]; specialize (H eq_refl)
  | H : ?b = true <-> ?c = ?d |- _ =>
      is_var b; assert (c <> d) by (clear; discriminate);
      assert (b = false) by (destruct b; [exfalso; tauto | reflexivity]); clear H
  | H : ?x = _ |- _ => is_var x; subst x
  | H : _ /\ _ |- _ => destruct H
  | H : _ \/ _ |- _ => destruct H
  | H : ?a = ?b -> _ |- _ => assert (a <> b) by (clear; discriminate); clear H
  end.

(** modus ponens with facts just introduced *)
Ltac mp :=
  repeat match goal with
  | H : ?P -> _, H' : ?P |- _ => specialize (H H')
  end.

Ltac absurd_now :=
  try solve [ exfalso; match goal with
                       | H : ?a = ?b |- _ => discriminate H
                       | H : ?a <> ?a |- _ => apply H; reflexivity
                       end ].

(** one case split on a variable that guards a clause (or sits in a match), then forward chaining *)
Ltac split1 :=
  match goal with
  | |- context [match ?x with _ => _ end] => is_var x; destruct x
  | H : context [match ?x with _ => _ end] |- _ => is_var x; destruct x
  | H : ?b = true -> _ |- _ => is_var b; destruct b
  | H : ?b = false -> _ |- _ => is_var b; destruct b
  | H : ?b = true <-> _ |- _ => is_var b; destruct b
  end; cbn in *; fw; cbn in *; absurd_now.

Ltac pre_tac :=
  first [ apply pre_ok_snoc_ping; fin1 | apply pre_ok_snoc_upg; fin1 | apply pre_ok_snoc_any; fin1 ].

Ltac go I H :=
  destruct I as [i_sc i_cup i_exit i_rl i_wsrl i_tok i_park i_woke i_bad i_up1 i_up2 i_lexit i_open i_cand i_upg i_noupg i_pong i_pre i_closed i_paused i_ptm i_sw i_idle i_pre2 i_shape i_upg2 b_sc b_cs b_pq b_s2c b_c2s];
  unfold c_committed, s_upgraded in *;
  cbn in *; dmatch H; injection H as <-;
  try (match goal with x : lst |- _ => pose proof (lflight_le x) end);
  try (match goal with E : nth_error ?l ?i = Some ?x |- _ =>
         pose proof (length_remove_nth _ _ _ E);
         match goal with |- inv ?n _ => pose proof (cntN_remove_nth n _ _ _ E) end end);
  unfold c_committed, s_upgraded; cbn; hnorm; cbn in *; fw; cbn in *; absurd_now;
  repeat split1;
  constructor; cbn; gnorm;
  try solve [ intros; fin1 | intros; mp; fw; cbn in *; fin1 | intros; mp; fw; cbn in *; pre_tac ]; try fin.
Ltac label_case :=
  match goal with
  | I : inv _ ?st, H : step _ ?st = Some _ |- _ => destruct st; unf H; go I H
  end.
