(** Preservation of the upgrade invariant (Eio/UpgradeInv.v) by label STimerClose, server candidate CWait. *)
From SioV Require Import Base.GoSem Base.Conc Eio.Upgrade Eio.UpgradeInv.
From Coq Require Import Lia.

Lemma inv_STimerClose_CWait n st st' : s_cand st = CWait -> inv n st -> step STimerClose st = Some st' -> inv n st'.
Proof. intros E I H. destruct st; cbn in E; subst; unf H; go I H. Qed.
