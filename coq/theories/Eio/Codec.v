(** Engine.IO packet encoder/decoder: port of engine.io/parser/packet.go
    ([Packet.Encode], [decode], [PacketType.ToChar/FromChar]).

    Go:
      Encode(w, supportsBinary):
        IsBinary && supportsBinary  -> w.Write(Data)
        IsBinary && !supportsBinary -> 'b' ; base64.StdEncoding(Data)
        otherwise                   -> Type.ToChar() ; Data
      decode(data, binaryFrame):
        binaryFrame -> {IsBinary, MESSAGE, data}
        len(data) < 1 -> errInvalidPacketSize
        data[0] == 'b' -> dst := make([]byte, DecodedLen(len(data)-1)); n, err := Decode(dst, data[1:]);
                          err -> error;  {IsBinary, MESSAGE, dst[:n]}
        else FromChar(data[0]) (error unless '0'..'6'), Data = data[1:]  *)
From SioV Require Export Eio.Packet Eio.Base64.
Local Open Scope N_scope.

Definition base64_prefix : N := 98.    (* 'b' *)
Definition type_message : N := 4.
Definition type_max : N := 6.

(** PacketType.ToChar: byte addition wraps *)
Definition to_char (t : N) : N := (t + 48) mod 256.

Definition encode_packet (sb : bool) (p : packet) : bytes :=
  if p_binary p then
    (if sb then p_data p else base64_prefix :: b64_enc (p_data p))
  else to_char (p_type p) :: p_data p.

(** Allocation made by [decode] itself (the base64 destination buffer). *)
Definition decode_allocs (binary_frame : bool) (data : bytes) : list N :=
  if binary_frame then []
  else match data with
       | t :: d => if t =? base64_prefix then [b64_dec_len (nlen d)] else []
       | [] => []
       end.

Definition decode_packet (binary_frame : bool) (data : bytes) : res packet :=
  if binary_frame then Ok (mkPacket true type_message data)
  else
    match data with
    | [] => Err
    | t :: d =>
        if t =? base64_prefix then
          match b64_dec d with
          | None => Err
          | Some out =>
              (* packet.Data = packet.Data[:n] on a buffer of DecodedLen bytes *)
              if nlen out <=? b64_dec_len (nlen d)
              then Ok (mkPacket true type_message out) else Panic
          end
        else if (t <? 48) || (48 + type_max <? t) then Err
        else Ok (mkPacket false (t - 48) d)
    end.

(** NewPacket's invariant plus "data are bytes": what a caller can hand to Encode. *)
Definition packet_ok (p : packet) : bool :=
  bytes_ok (p_data p) && (p_type p <=? type_max)
  && (if p_binary p then p_type p =? type_message else true).
