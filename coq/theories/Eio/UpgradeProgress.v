(** Progress: every internal step strictly decreases a measure, so from every reachable state a
    finite schedule of internal labels reaches quiescence. *)
From SioV Require Import Base.GoSem Base.Conc Eio.Upgrade Eio.UpgradeInv Eio.UpgradeProofs.
From Coq Require Import Lia.

Definition m_loop (l : lst) : nat := match l with LIdle => 5 | _ => 0 end.
Definition m_req (b : bool) : nat := if b then 4 else 0.
Definition m_get (g : gst) : nat :=
  match g with GIdle => 0 | GParked => 0 | GStart => 1 | GWoken => 2 | GArrived => 3 end.
Definition m_resp (r : resp) : nat := match r with RNone => 0 | RPkts (_ :: _) => 6 | _ => 1 end.
Definition m_ccand (c : ccand) : nat :=
  match c with KNone => 42 | KDial => 41 | KProbe => 20 | KSwapWait => 19 | KUp => 0 | KFail => 0 end.
Definition m_scand (c : scand) : nat := match c with CWait | CProbed | CUp => 1 | _ => 0 end.
Definition m_tm (t : tmr) : nat := match t with TArmed => 2 | TFiring => 1 | TOff => 0 end.
Definition m_ws (w : wst) : nat := match w with WNone => 6 | WDialing => 5 | WOpen => 1 | _ => 0 end.

Definition mu (st : state) : nat :=
  7 * length (s_pq st) + 10 * (s_noop st + s_disc st) + 18 * length (k_cs st) + 7 * length (k_sc st)
  + m_loop (c_loop st) + m_req (k_req st) + m_get (s_get st) + m_resp (k_resp st)
  + m_ccand (c_cand st) + m_scand (s_cand st) + m_tm (s_tm st) + m_tm (c_tm st) + m_ws (k_ws st)
  + 2 * length (k_posts st) + k_oks st + (if c_closed st then 0 else 1).

Definition internal (l : label) : Prop := In l internal_fixed \/ exists i, l = PostDeliver i.

Lemma filter_len {A} (f : A -> bool) l : length (filter f l) <= length l.
Proof. induction l; simpl; [lia|]. destruct (f a); simpl; lia. Qed.

Ltac dm H :=
  repeat match type of H with
  | context [match ?x with _ => _ end] => destruct x eqn:?; cbn in H; try discriminate H
  | context [if ?x then _ else _] => destruct x eqn:?; cbn in H; try discriminate H
  end.

Lemma mu_decreases l st st' :
  (c_cand st = KUp -> c_ws st = true) ->
  internal l -> step l st = Some st' -> mu st' < mu st.
Proof.
  intros Hup I H.
  destruct l;
    try solve [ exfalso; destruct I as [I | [i E]]; [cbn in I; intuition discriminate | discriminate E] ];
    clear I; destruct st; unfold mu; cbn in Hup;
    unf H; cbn in H; dm H; injection H as <-; cbn -[Nat.mul];
    rewrite ?app_length; cbn -[Nat.mul];
    try (specialize (Hup eq_refl); subst; cbn in *; discriminate);
    try (match goal with |- context [match ?x with _ => _ end] => destruct x; cbn -[Nat.mul] in * end);
    try (match goal with E : nth_error ?l ?i = Some ?x |- _ => pose proof (length_remove_nth _ _ _ E) end);
    try (match goal with |- context [filter ?f ?l] => pose proof (filter_len f l) end);
    try lia.
Qed.

Lemma forallb_false {A} (f : A -> bool) l : forallb f l = false -> exists x, In x l /\ f x = false.
Proof.
  induction l as [|a l IH]; simpl; [discriminate|].
  destruct (f a) eqn:E; simpl; intros H.
  - destruct (IH H) as (x & I & F). exists x. auto.
  - exists a. auto.
Qed.

Lemma not_quiescent_enabled st :
  quiescentb st = false -> exists l st', In l internal_fixed /\ step l st = Some st'.
Proof.
  intros H. apply forallb_false in H as (l & I & F). unfold enabledb in F.
  destruct (step l st) as [st'|] eqn:E; [|discriminate]. exists l, st'. auto.
Qed.

(** Bounded progress: from every reachable state, at most [mu st] internal steps - ANY maximal
    sequence of enabled internal labels, in fact - lead to a quiescent state. *)
Theorem progress_to_quiescence st :
  reach st ->
  exists sched, Forall (fun l => In l internal_fixed) sched /\ length sched <= mu st
                /\ quiescentb (run sched st) = true.
Proof.
  remember (mu st) as k eqn:K. revert st K.
  induction k as [k IH] using lt_wf_ind. intros st K R.
  destruct (quiescentb st) eqn:Q.
  - exists []. repeat split; [constructor | simpl; lia | exact Q].
  - destruct (not_quiescent_enabled st Q) as (l & st' & I & S).
    assert (D : mu st' < mu st).
    { apply (mu_decreases l); [|left; exact I|exact S].
      intros E. apply (proj2 (i_cup _ _ (reach_inv st R 0%N))). exact E. }
    assert (R' : reach st') by (eapply reach_step; eauto).
    destruct (IH (mu st') ltac:(lia) st' eq_refl R') as (sched & F & L & Qs).
    exists (l :: sched). repeat split.
    + constructor; assumption.
    + simpl. lia.
    + change (run (l :: sched) st) with (run sched (step_skip st l)). unfold step_skip. rewrite S. exact Qs.
Qed.

Corollary progress_after_any_schedule sched0 :
  exists sched, Forall (fun l => In l internal_fixed) sched
                /\ quiescentb (run sched (run sched0 init)) = true.
Proof.
  destruct (progress_to_quiescence _ (reach_run sched0)) as (sched & F & _ & Q). eauto.
Qed.
