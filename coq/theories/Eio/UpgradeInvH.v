(** Preservation of the upgrade invariant, label group H (see Eio/UpgradeInv.v). *)
From SioV Require Import Base.GoSem Base.Conc Eio.Upgrade Eio.UpgradeInv.
From Coq Require Import Lia.

Lemma inv_CPollStart n st st' : inv n st -> step CPollStart st = Some st' -> inv n st'.
Proof. intros I H. label_case. Qed.

Lemma inv_GetArrive n st st' : inv n st -> step GetArrive st = Some st' -> inv n st'.
Proof. intros I H. label_case. Qed.

Lemma inv_GetRoute n st st' : inv n st -> step GetRoute st = Some st' -> inv n st'.
Proof. intros I H. label_case. Qed.

Lemma inv_GetFirst n st st' : inv n st -> step GetFirst st = Some st' -> inv n st'.
Proof. intros I H. label_case. Qed.

Lemma inv_GetWake n st st' : inv n st -> step GetWake st = Some st' -> inv n st'.
Proof. intros I H. label_case. Qed.

Lemma inv_PostOk n st st' : inv n st -> step PostOk st = Some st' -> inv n st'.
Proof. intros I H. label_case. Qed.

Lemma inv_STimerFire n st st' : inv n st -> step STimerFire st = Some st' -> inv n st'.
Proof. intros I H. label_case. Qed.

Lemma inv_CTimerFire n st st' : inv n st -> step CTimerFire st = Some st' -> inv n st'.
Proof. intros I H. label_case. Qed.

Lemma inv_SOldClose n st st' : inv n st -> step SOldClose st = Some st' -> inv n st'.
Proof. intros I H. label_case. Qed.

Lemma inv_COldClose n st st' : inv n st -> step COldClose st = Some st' -> inv n st'.
Proof. intros I H. label_case. Qed.

