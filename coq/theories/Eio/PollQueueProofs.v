(** Proofs about Eio/PollQueue.v: inductive invariants over ALL schedules (any number of
    producers and consumers, timers firing anywhere), bounded progress, and the refutation
    witness for the original (unbuffered) queue. *)
From Coq Require Import List NArith Bool Arith Lia.
From SioV Require Import Base.Conc Eio.PollQueue.
Import ListNotations.

Lemma is_nil_true {A} (l : list A) : is_nil l = true <-> l = [].
Proof. destruct l; simpl; split; intros; congruence. Qed.

Lemma is_nil_false {A} (l : list A) : is_nil l = false <-> l <> [].
Proof. destruct l; simpl; split; intros; congruence. Qed.

Lemma added_app l1 l2 : added (l1 ++ l2) = added l1 ++ added l2.
Proof. induction l1 as [|[]]; simpl; rewrite ?IHl1, ?app_assoc; auto. Qed.

Lemma handed_out_app l1 l2 : handed_out (l1 ++ l2) = handed_out l1 ++ handed_out l2.
Proof. induction l1 as [|[]]; simpl; rewrite ?IHl1, ?app_assoc; auto. Qed.

(** Generic inversion of one step: case analysis on the label and the guards. *)
Ltac pstep_inv H :=
  match type of H with
  | pstep ?l ?s = Some ?s' =>
      destruct l; simpl in H;
      repeat match type of H with
             | context [match p_pc ?s ?c with _ => _ end] => destruct (p_pc s c) eqn:?
             | context [if ?b then _ else _] => destruct b eqn:?
             end;
      try discriminate; inversion H; subst; clear H; simpl in *
  end.

(** ** No lost wake-up *)

(** Whenever packets are queued, a wake-up is on its way: the token is pending in [ready], or a
    consumer has already taken it and is about to get(). *)
Definition wake_inv (s : pstate) : Prop :=
  p_q s <> [] -> p_tok s = true \/ exists c, p_pc s c = CWoke.

Lemma woke_upd_other (pc : nat -> cpc) c c' v :
  pc c' = CWoke -> pc c <> CWoke -> upd pc c v c' = CWoke.
Proof.
  intros H1 H2. rewrite upd_other; [exact H1|]. intros ->. contradiction.
Qed.

Lemma wake_inv_inductive : inductive pstep (fun s => s = pinit) wake_inv.
Proof.
  split.
  - intros s ->. intros H. now elim H.
  - intros s l s' I St. unfold wake_inv in *. pstep_inv St; intros NE;
      try (now elim NE); try (now left).
    + (* PSelTok: the token moves into the consumer *)
      right. exists c. apply upd_same.
    + (* PTimerFire at CWin *) exact (I NE).
    + (* PTimerFire at CWoke *) exact (I NE).
  Qed.

Theorem no_lost_wakeup : forall s, preachable s -> wake_inv s.
Proof. apply invariant_reachable, wake_inv_inductive. Qed.

(** The same, phrased as in the property: packets queued and every consumer parked at the wait
    (none holds the token already) => the token is pending. *)
Corollary no_lost_wakeup_parked s :
  preachable s -> p_q s <> [] -> (forall c, p_pc s c <> CWoke) -> p_tok s = true.
Proof.
  intros R NE NW. destruct (no_lost_wakeup _ R NE) as [T | [c W]]; [exact T | now elim (NW c)].
Qed.

(** ** Bounded progress, no timer involved *)

(** From every reachable state with packets queued and some consumer waiting inside poll, at most
    two steps of ONE consumer (take the token, get) deliver the whole queue to it; no
    timer-related step is used. *)
Theorem progress : forall s c,
  preachable s -> p_q s <> [] -> waiting (p_pc s c) = true ->
  exists c' sched,
    length sched <= 2 /\ forallb timer_free sched = true /\
    (forall l, In l sched -> l = PSelTok c' \/ l = PGet c') /\
    exists s', exec_opt pstep sched s = Some s' /\
      p_pc s' c' = CDone (p_q s) /\ p_q s' = [].
Proof.
  intros s c R NE W.
  destruct (no_lost_wakeup _ R NE) as [T | [c' Wk]].
  - destruct (p_pc s c) eqn:PC; try discriminate.
    + (* c parked, token pending *)
      exists c, [PSelTok c; PGet c]. split; [simpl; lia|]. split; [reflexivity|]. split.
      { intros l [<-|[<-|[]]]; auto. }
      simpl. rewrite PC, T. simpl. rewrite upd_same.
      destruct (is_nil (p_q s)) eqn:N; [apply is_nil_true in N; contradiction|].
      eexists; split; [reflexivity|]. simpl. split; [apply upd_same | reflexivity].
    + (* c already holds the token *)
      exists c, [PGet c]. split; [simpl; lia|]. split; [reflexivity|]. split.
      { intros l [<-|[]]; auto. }
      simpl. rewrite PC.
      destruct (is_nil (p_q s)) eqn:N; [apply is_nil_true in N; contradiction|].
      eexists; split; [reflexivity|]. simpl. split; [apply upd_same | reflexivity].
  - exists c', [PGet c']. split; [simpl; lia|]. split; [reflexivity|]. split.
    { intros l [<-|[]]; auto. }
    simpl. rewrite Wk.
    destruct (is_nil (p_q s)) eqn:N; [apply is_nil_true in N; contradiction|].
    eexists; split; [reflexivity|]. simpl. split; [apply upd_same | reflexivity].
Qed.

(** With a single consumer inside poll (the normal case: one pending poll request): it is that
    consumer that gets the queue, by running alone for at most two steps. *)
Theorem progress_single : forall s c,
  preachable s -> p_q s <> [] -> waiting (p_pc s c) = true ->
  (forall c', c' <> c -> p_pc s c' <> CWoke) ->
  let s' := alone pstep (PGet c) 1 (alone pstep (PSelTok c) 1 s) in
  p_pc s' c = CDone (p_q s) /\ p_q s' = [].
Proof.
  intros s c R NE W Only. simpl.
  destruct (p_pc s c) eqn:PC; try discriminate.
  - assert (T : p_tok s = true).
    { destruct (no_lost_wakeup _ R NE) as [T | [c' Wk]]; [exact T|].
      destruct (Nat.eq_dec c' c) as [->|D]; [congruence | now elim (Only c' D)]. }
    rewrite ?PC, ?T. simpl. rewrite ?PC, ?T. simpl. rewrite upd_same.
    destruct (is_nil (p_q s)) eqn:N; [apply is_nil_true in N; contradiction|].
    simpl. split; [apply upd_same | reflexivity].
  - rewrite ?PC; simpl; rewrite ?PC.
    destruct (is_nil (p_q s)) eqn:N; [apply is_nil_true in N; contradiction|].
    simpl. split; [apply upd_same | reflexivity].
Qed.

(** A poll that arrives while packets are queued returns them immediately (one step). *)
Theorem arriving_poll_returns_queue : forall s c s',
  p_q s <> [] -> pstep (PStart c) s = Some s' -> p_pc s' c = CDone (p_q s) /\ p_q s' = [].
Proof.
  intros s c s' NE St. simpl in St.
  destruct (is_nil (p_q s)) eqn:N; [apply is_nil_true in N; contradiction|].
  destruct (p_pc s c); try discriminate; inversion St; subst; simpl;
    (split; [apply upd_same | reflexivity]).
Qed.

(** ** One poll request alone, from wherever it is *)

Ltac pcbn E := cbn [pstep p_pc p_q p_tok p_fired p_log is_nil] in E.
Ltac pstpE E :=
  rewrite exec_cons in E; unfold step_skip at 1 in E; pcbn E; rewrite ?upd_same in E; pcbn E.

(** One poll request of consumer [c], as labels (a label that is not enabled is skipped). *)
Definition poll_request (c : nat) : list plabel := [PStart c; PSelTok c; PGet c].

Theorem poll_request_delivers : forall s c,
  preachable s -> p_q s <> [] -> (forall c', c' <> c -> p_pc s c' <> CWoke) ->
  let s' := exec pstep (poll_request c) s in
  p_pc s' c = CDone (p_q s) /\ p_q s' = [] /\ forallb timer_free (poll_request c) = true.
Proof.
  intros s c R NE Oth s'.
  assert (N : is_nil (p_q s) = false) by (destruct (p_q s); [contradiction|reflexivity]).
  assert (TK : p_pc s c = CWin -> p_tok s = true).
  { intros PC. destruct (no_lost_wakeup _ R NE) as [T|[c' W]]; [exact T|].
    destruct (Nat.eq_dec c' c) as [->|D]; [congruence|now elim (Oth c' D)]. }
  assert (E : s' = exec pstep (poll_request c) s) by reflexivity.
  clearbody s'. unfold poll_request in E.
  destruct s as [q tok pc fired lg]. cbn [p_q p_tok p_pc p_log] in *.
  destruct (pc c) eqn:PC; destruct tok;
    try (specialize (TK eq_refl); discriminate);
    repeat (pstpE E; rewrite ?PC, ?N in E; pcbn E);
    rewrite exec_nil in E; subst s'; cbn [p_q p_pc];
    rewrite ?upd_same; repeat split; reflexivity.
Qed.

(** ** FIFO, nothing lost, nothing duplicated *)

(** What all get()s handed out so far, followed by what is still queued, is exactly what was
    added, in order. *)
Definition conserve (s : pstate) : Prop := handed_out (p_log s) ++ p_q s = added (p_log s).

Lemma conserve_inductive : inductive pstep (fun s => s = pinit) conserve.
Proof.
  split.
  - intros s ->. reflexivity.
  - intros s l s' I St. unfold conserve in *.
    pstep_inv St; rewrite ?added_app, ?handed_out_app; simpl; rewrite ?app_nil_r; auto.
    + rewrite <- I. now rewrite app_assoc.
    + apply is_nil_true in Heqb. rewrite Heqb in I. now rewrite app_nil_r in I.
    + apply is_nil_true in Heqb. rewrite Heqb in I. now rewrite app_nil_r in I.
    + apply is_nil_true in Heqb. rewrite Heqb in I. now rewrite app_nil_r in I.
Qed.

Theorem fifo_all_delivered : forall s, preachable s -> conserve s.
Proof. apply invariant_reachable, conserve_inductive. Qed.

(** ** A poll never answers empty while packets are queued *)

(** The only step by which a poll comes to answer with an empty list is the timeout branch, taken
    with the timer expired, at a moment the queue is empty. *)
Theorem never_empty_while_queued : forall s l s' c,
  pstep l s = Some s' -> p_pc s' c = CDone [] -> p_pc s c <> CDone [] ->
  l = PSelTimeout c /\ p_q s = [] /\ p_fired s c = true.
Proof.
  intros s l s' c St D ND.
  pstep_inv St; try contradiction;
    try (destruct (Nat.eq_dec c c0) as [->|NEq];
         [rewrite upd_same in D | rewrite upd_other in D by exact NEq; contradiction]);
    try discriminate;
    try (inversion D as [E];
         match goal with H : is_nil (p_q s) = false |- _ => rewrite E in H; discriminate end).
  inversion D as [E]. auto.
Qed.

(** Log form: every empty answer recorded in the log was produced with the queue empty; hence
    (with [fifo_all_delivered]) everything added before it had already been handed out. *)
Definition empty_ret_ok (s : pstate) : Prop :=
  forall pre c post, p_log s = pre ++ ERet c [] :: post -> handed_out pre = added pre.

Lemma app_single_inv {A} (l1 l2 r : list A) (x y : A) :
  l1 ++ [x] = l2 ++ y :: r -> (r = [] /\ l1 = l2 /\ x = y) \/ exists r', r = r' ++ [x] /\ l1 = l2 ++ y :: r'.
Proof.
  induction r as [|z r' _] using rev_ind; intros H.
  - apply app_inj_tail in H as [E1 E2]. subst. left. auto.
  - change (l2 ++ y :: r' ++ [z]) with (l2 ++ (y :: r') ++ [z]) in H.
    rewrite app_assoc in H. apply app_inj_tail in H as [E1 E2]. subst. right. eauto.
Qed.

Lemma empty_ret_ok_inductive : inductive_under pstep (fun s => s = pinit) conserve empty_ret_ok.
Proof.
  split.
  - intros s ->. intros pre c post H. destruct pre; discriminate.
  - intros s l s' C I St. unfold empty_ret_ok in *.
    assert (Ext : forall e, (forall c, e <> ERet c []) ->
             forall pre c post, p_log s ++ [e] = pre ++ ERet c [] :: post -> handed_out pre = added pre).
    { intros e NE pre c post H. apply app_single_inv in H as [(_ & _ & E) | (r' & -> & E)].
      - now elim (NE c). - eapply I; eauto. }
    pstep_inv St; try (exact I); try (apply Ext; intros; discriminate);
      try (apply Ext; intros c1 E; inversion E as [[E1 E2]];
           match goal with H : is_nil (p_q s) = false |- _ => rewrite E2 in H; discriminate end).
    (* the timeout branch *)
    intros pre c1 post H.
    apply app_single_inv in H as [(_ & <- & E) | (r' & -> & E)]; [|eapply I; eauto].
    inversion E as [[E1 E2]]. unfold conserve in C. rewrite E2 in C. now rewrite app_nil_r in C.
Qed.

Theorem empty_answer_means_all_handed_out : forall s, preachable s -> empty_ret_ok s.
Proof.
  apply invariant_reachable_under with (Q := conserve).
  - apply fifo_all_delivered.
  - apply empty_ret_ok_inductive.
Qed.

(** ** The original queue loses the wake-up *)

(** One consumer, one producer: the consumer finds the queue empty, the producer adds packet 1
    in the window (nobody is parked, so the non-blocking send on the unbuffered channel is
    dropped), the consumer parks; only the poll timeout releases it, and it answers EMPTY while
    packet 1 is queued. *)
Definition lost_wakeup_schedule : list olabel :=
  [OStart 0; OAdd [1%N] None; OEnter 0; OTimeout 0].

Theorem original_loses_wakeup :
  exists s, exec_opt (ostep 1) lost_wakeup_schedule oinit = Some s /\
            o_q s = [1%N] /\ o_pc s 0 = ODone [].
Proof. eexists. split; [vm_compute; reflexivity|]. split; reflexivity. Qed.

(** Before the timeout the consumer is parked with the packet queued and nothing enabled for it
    except the timer: the wake-up is lost, not late. *)
Theorem original_parked_forever_without_timer :
  exists s, exec_opt (ostep 1) [OStart 0; OAdd [1%N] None; OEnter 0] oinit = Some s /\
            o_q s = [1%N] /\ o_pc s 0 = OPark /\
            ostep 1 (OGet 0) s = None /\ ostep 1 (OStart 0) s = None /\ ostep 1 (OEnter 0) s = None.
Proof. eexists. split; [vm_compute; reflexivity|]. repeat split; reflexivity. Qed.
